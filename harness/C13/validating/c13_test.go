//go:build verif

package validating

// C13 monitor, validating side: the QoS/priority protocol of admitted pods.
// See /verif/DESIGN.md section 4, C13 and /verif/properties.jsonl (C13).
//
// Every case generates one pod (and, for an update, the stored old version of it), encodes it the
// way the API server does (JSON in an AdmissionRequest), decodes it with the handler's own decoder
// and asks the real clusterColocationProfileValidatingPod and the real PodValidatingHandler.Handle
// chain for a verdict. The oracle is the protocol predicate written from the property statement
// (c13Protocol below). Only the direction the statement gives is a verdict:
//
//	admitted  =>  predicate holds
//
// A denial of a pod that satisfies the predicate is only counted (converse_misses_*).
//
// Causal rules of the generator (what a validating webhook can see in a real cluster):
//   - the object went through API-server defaulting: every resource with a limit has a request
//     (request = limit when the user gave none), so "the pod's request" is well defined;
//   - it went through the API server's own validation, which runs before validating admission:
//     quantities are non-negative, request <= limit, container names are unique;
//   - an update changes labels/annotations only; changes of spec.priority or of container
//     resources are refused by the API server before the webhook runs. A small share of the
//     update cases still changes spec.priority; they are tagged "ood-spec-priority" in the op log.

import (
	"context"
	"encoding/json"
	"fmt"
	"math/big"
	"sort"
	"strings"
	"testing"

	admissionv1 "k8s.io/api/admission/v1"
	corev1 "k8s.io/api/core/v1"
	"k8s.io/apimachinery/pkg/api/resource"
	metav1 "k8s.io/apimachinery/pkg/apis/meta/v1"
	"k8s.io/apimachinery/pkg/runtime"
	"k8s.io/component-base/featuregate"
	"k8s.io/klog/v2"
	kubeqos "k8s.io/kubectl/pkg/util/qos"
	"sigs.k8s.io/controller-runtime/pkg/webhook/admission"

	"github.com/koordinator-sh/koordinator/pkg/features"
	utilfeature "github.com/koordinator-sh/koordinator/pkg/util/feature"
	kit "github.com/koordinator-sh/koordinator/pkg/verifkit"
)

func init() {
	klog.SetOutput(c13Discard{})
	klog.LogToStderr(false)
}

type c13Discard struct{}

func (c13Discard) Write(p []byte) (int, error) { return len(p), nil }

// ---------------------------------------------------------------------------------------------
// the protocol, written from the statement (label keys, class names and value ranges are the
// documented API of koordinator: https://koordinator.sh/docs/architecture/priority/ and /qos/)

const (
	c13QoSKey      = "koordinator.sh/qosClass"
	c13PCKey       = "koordinator.sh/priority-class"
	c13SubKey      = "koordinator.sh/priority"
	c13BatchCPU    = corev1.ResourceName("kubernetes.io/batch-cpu")
	c13BatchMemory = corev1.ResourceName("kubernetes.io/batch-memory")
	c13MidCPU      = corev1.ResourceName("kubernetes.io/mid-cpu")
	c13MidMemory   = corev1.ResourceName("kubernetes.io/mid-memory")
)

// c13Rat converts a quantity to an exact rational by parsing its canonical string; it does not
// use Quantity.Value()/MilliValue(), whose rounding is part of what is being checked.
func c13Rat(q resource.Quantity) *big.Rat {
	s := q.String()
	i := 0
	for i < len(s) && (s[i] == '+' || s[i] == '-' || s[i] == '.' || (s[i] >= '0' && s[i] <= '9')) {
		i++
	}
	num, suf := s[:i], s[i:]
	v, ok := new(big.Rat).SetString(num)
	if !ok {
		panic("c13: cannot parse quantity " + s)
	}
	pow := func(base, exp int64) *big.Rat {
		neg := exp < 0
		if neg {
			exp = -exp
		}
		p := new(big.Int).Exp(big.NewInt(base), big.NewInt(exp), nil)
		if neg {
			return new(big.Rat).SetFrac(big.NewInt(1), p)
		}
		return new(big.Rat).SetInt(p)
	}
	var m *big.Rat
	switch suf {
	case "":
		m = pow(10, 0)
	case "n":
		m = pow(10, -9)
	case "u":
		m = pow(10, -6)
	case "m":
		m = pow(10, -3)
	case "k":
		m = pow(10, 3)
	case "M":
		m = pow(10, 6)
	case "G":
		m = pow(10, 9)
	case "T":
		m = pow(10, 12)
	case "P":
		m = pow(10, 15)
	case "E":
		m = pow(10, 18)
	case "Ki":
		m = pow(2, 10)
	case "Mi":
		m = pow(2, 20)
	case "Gi":
		m = pow(2, 30)
	case "Ti":
		m = pow(2, 40)
	case "Pi":
		m = pow(2, 50)
	case "Ei":
		m = pow(2, 60)
	default:
		if suf[0] == 'e' || suf[0] == 'E' {
			var e int64
			if _, err := fmt.Sscanf(suf[1:], "%d", &e); err != nil {
				panic("c13: cannot parse quantity exponent " + s)
			}
			m = pow(10, e)
		} else {
			panic("c13: cannot parse quantity suffix " + s)
		}
	}
	return v.Mul(v, m)
}

// c13QoS is the pod's koordinator QoS class: the value of the QoS label when it is one of the five
// classes, otherwise "none".
func c13QoS(pod *corev1.Pod) string {
	switch v := pod.Labels[c13QoSKey]; v {
	case "LSE", "LSR", "LS", "BE", "SYSTEM":
		return v
	}
	return "none"
}

func c13NumClass(p *int32) string {
	if p == nil {
		return "none"
	}
	switch v := *p; {
	case v >= 9000 && v <= 9999:
		return "koord-prod"
	case v >= 7000 && v <= 7999:
		return "koord-mid"
	case v >= 5000 && v <= 5999:
		return "koord-batch"
	case v >= 3000 && v <= 3999:
		return "koord-free"
	}
	return "none"
}

// c13Classes returns the pod's priority class under the two readings of "the priority-class label
// overrides the numeric priority" that differ for a label with an unknown value: (a) the label
// decides alone (unknown name = no class), (b) an unknown label is ignored and the number decides.
// A verdict is given only when both readings agree that the predicate is broken.
func c13Classes(pod *corev1.Pod) (a, b string) {
	num := c13NumClass(pod.Spec.Priority)
	if v, ok := pod.Labels[c13PCKey]; ok {
		switch v {
		case "koord-prod", "koord-mid", "koord-batch", "koord-free":
			return v, v
		}
		return "none", num
	}
	return num, num
}

func c13IsSidecar(c *corev1.Container) bool {
	return c.RestartPolicy != nil && *c.RestartPolicy == corev1.ContainerRestartPolicyAlways
}

// c13PodRequest is the pod's effective request of one resource as Kubernetes defines it (what the
// scheduler reserves): max(sum of containers + sidecars, every init phase) + overhead. conv is
// applied to every single entry before the arithmetic (nil = exact).
func c13PodRequestConv(pod *corev1.Pod, name corev1.ResourceName, conv func(*big.Rat) *big.Rat) *big.Rat {
	get := func(l corev1.ResourceList) *big.Rat {
		if q, ok := l[name]; ok {
			if conv != nil {
				return conv(c13Rat(q))
			}
			return c13Rat(q)
		}
		return new(big.Rat)
	}
	sum := new(big.Rat)
	for i := range pod.Spec.Containers {
		sum.Add(sum, get(pod.Spec.Containers[i].Resources.Requests))
	}
	side := new(big.Rat)
	initMax := new(big.Rat)
	for i := range pod.Spec.InitContainers {
		ic := &pod.Spec.InitContainers[i]
		q := get(ic.Resources.Requests)
		use := new(big.Rat)
		if c13IsSidecar(ic) {
			side.Add(side, q)
			use.Set(side)
		} else {
			use.Add(side, q)
		}
		if use.Cmp(initMax) > 0 {
			initMax.Set(use)
		}
	}
	total := new(big.Rat).Add(sum, side)
	if initMax.Cmp(total) > 0 {
		total.Set(initMax)
	}
	// pod-level resources (spec.resources, cpu/memory): when the pod states its request as a whole,
	// that is the pod's request (Kubernetes' definition), not the container aggregate
	if pod.Spec.Resources != nil && (name == corev1.ResourceCPU || name == corev1.ResourceMemory) {
		if _, ok := pod.Spec.Resources.Requests[name]; ok {
			total = get(pod.Spec.Resources.Requests)
		}
	}
	if pod.Spec.Overhead != nil {
		total.Add(total, get(pod.Spec.Overhead))
	}
	return total
}

func c13PodRequest(pod *corev1.Pod, name corev1.ResourceName) *big.Rat {
	return c13PodRequestConv(pod, name, nil)
}

// c13CeilMilli: the canonical milli-core amount of a CPU quantity (Kubernetes' CPU resolution is
// 1m; finer quantities count as the next milli-core).
func c13CeilMilli(v *big.Rat) *big.Int {
	m := new(big.Rat).Mul(v, new(big.Rat).SetInt64(1000))
	q, rem := new(big.Int).DivMod(m.Num(), m.Denom(), new(big.Int))
	if rem.Sign() != 0 {
		q.Add(q, big.NewInt(1))
	}
	return q
}

// c13WholeCPU classifies the pod's CPU request: "zero", "whole" (exactly a whole number),
// "whole-in-milli" (a whole number only in Kubernetes' milli-core resolution: either the pod total
// rounded up to 1m, or the sum of the per-container amounts each rounded up to 1m, is a multiple
// of 1000m), "sub-milli" / "fractional" (not whole under any of these readings).
func c13WholeCPU(pod *corev1.Pod) string {
	exact := c13PodRequest(pod, corev1.ResourceCPU)
	if exact.Sign() <= 0 {
		return "zero"
	}
	if exact.IsInt() {
		return "whole"
	}
	thousand := big.NewInt(1000)
	if new(big.Int).Mod(c13CeilMilli(exact), thousand).Sign() == 0 {
		return "whole-in-milli"
	}
	perEntry := c13PodRequestConv(pod, corev1.ResourceCPU, func(v *big.Rat) *big.Rat { return new(big.Rat).SetInt(c13CeilMilli(v)) })
	if perEntry.IsInt() && new(big.Int).Mod(perEntry.Num(), thousand).Sign() == 0 {
		return "whole-in-milli"
	}
	if !new(big.Rat).Mul(exact, new(big.Rat).SetInt64(1000)).IsInt() {
		return "sub-milli"
	}
	return "fractional"
}

// c13RequestsBatch: some container or init container requests a non-zero amount of a reclaimed
// (batch) resource.
func c13RequestsBatch(pod *corev1.Pod) bool {
	for _, cs := range [][]corev1.Container{pod.Spec.InitContainers, pod.Spec.Containers} {
		for i := range cs {
			for _, n := range []corev1.ResourceName{c13BatchCPU, c13BatchMemory} {
				if q, ok := cs[i].Resources.Requests[n]; ok && c13Rat(q).Sign() > 0 {
					return true
				}
			}
		}
	}
	return false
}

// c13Protocol returns the rules of the statement that the (old,new) pair breaks, for one reading
// of the priority class. old == nil for a create.
func c13Protocol(newPod, oldPod *corev1.Pod, readingB bool) []string {
	var broken []string
	qos := c13QoS(newPod)
	pa, pb := c13Classes(newPod)
	pc := pa
	if readingB {
		pc = pb
	}
	// permitted pairs: BE never with prod or no priority; LSR only with prod
	if qos == "BE" && (pc == "koord-prod" || pc == "none") {
		broken = append(broken, "be-pair")
	}
	if qos == "LSR" && pc != "koord-prod" {
		broken = append(broken, "lsr-pair")
	}
	// LSR/LSE pods request a whole number of CPUs (> 0). CPU amounts are taken in Kubernetes'
	// resolution of one milli-core (DESIGN.md C13 soundness: "CPU amount means the canonical milli
	// value, which rounds sub-milli quantities up"), so 999500u counts as 1000m = 1 CPU.
	if qos == "LSR" || qos == "LSE" {
		switch c13WholeCPU(newPod) {
		case "zero":
			broken = append(broken, "lsx-cpu-zero")
		case "sub-milli", "fractional":
			broken = append(broken, "lsx-cpu-not-whole")
		}
	}
	// reclaimed (batch) resources are only requested by BE pods. A pod without a (known) QoS label
	// whose Kubernetes QoS is BestEffort is a BE pod by koordinator's documented default, so it is
	// not counted against the rule.
	if c13RequestsBatch(newPod) && qos != "BE" {
		if !(qos == "none" && kubeqos.GetPodQOS(newPod) == corev1.PodQOSBestEffort) {
			broken = append(broken, "batch-non-be")
		}
	}
	if oldPod != nil {
		if c13QoS(oldPod) != qos {
			broken = append(broken, "update-qos-changed")
		}
		oa, ob := c13Classes(oldPod)
		opc := oa
		if readingB {
			opc = ob
		}
		if opc != pc {
			broken = append(broken, "update-priority-class-changed")
		}
	}
	return broken
}

// ---------------------------------------------------------------------------------------------
// generator

var c13QoSValues = []string{"", "LSE", "LSR", "LS", "BE", "SYSTEM", "junk"}
var c13QoSJunk = []string{"be", "Lsr", "", "BestEffort", "LSX"}
var c13PCJunk = []string{"", "prod", "koord-Prod", "koord-none", "batch"}
var c13PCKnown = []string{"koord-prod", "koord-mid", "koord-batch", "koord-free"}

// every class edge -1/0/+1, the middle of every class and of every gap, plus extremes
var c13PrioEdges = []int32{2999, 3000, 3001, 3998, 3999, 4000, 4001, 4999, 5000, 5001, 5998, 5999, 6000, 6001, 6999, 7000, 7001, 7998, 7999, 8000,
	8001, 8999, 9000, 9001, 9998, 9999, 10000, 10001}
var c13PrioMid = []int32{3500, 4500, 5500, 6500, 7500, 8500, 9500}
var c13PrioFar = []int32{0, 1, -1, 100, 2000, 1000000000, 2000000000, 2000001000, -2147483648, 2147483647}

var c13CPUPool = []string{"1m", "0.0005", "500u", "1", "1.5", "2", "3", "4", "500m", "0.5", "250m", "750m", "999m", "1000m", "1001m", "1500m",
	"2000m", "100m", "0.1", "1.0005", "1e3", "0", "16", "0.9995", "2500u", "1", "1n", "1e6", "9e15", "64", "999999u"}
var c13MemPool = []string{"1Gi", "1G", "1e3", "1.5Gi", "0", "128Mi", "1", "1000", "1Ki", "1000m", "1500m", "0.5", "4Gi", "1e9", "512Mi", "1536Mi",
	"9007199254740993", "1Ti", "100M", "8Ei", "1e19", "1n"}
var c13TierCPUPool = []string{"1000", "500", "1500", "1", "0", "2000", "1k", "250"}

func c13Q(s string) resource.Quantity { return resource.MustParse(s) }

// c13PickPair picks request <= limit from a pool.
func c13PickPair(r *kit.Rand, pool []string) (req, lim resource.Quantity) {
	a, b := c13Q(kit.Pick(r, pool)), c13Q(kit.Pick(r, pool))
	if r.Pct(40) {
		b = a.DeepCopy()
	}
	if c13Rat(a).Cmp(c13Rat(b)) > 0 {
		a, b = b, a
	}
	return a, b
}

func c13SetRes(r *kit.Rand, rr *corev1.ResourceRequirements, name corev1.ResourceName, pool []string, mode int) {
	req, lim := c13PickPair(r, pool)
	if rr.Requests == nil {
		rr.Requests = corev1.ResourceList{}
	}
	if rr.Limits == nil {
		rr.Limits = corev1.ResourceList{}
	}
	switch mode {
	case 1: // request only
		rr.Requests[name] = req
	case 2: // both
		rr.Requests[name] = req
		rr.Limits[name] = lim
	case 3: // limit only (the user gave no request)
		rr.Limits[name] = lim
	}
}

func c13GenResources(r *kit.Rand, beStyle bool) corev1.ResourceRequirements {
	rr := corev1.ResourceRequirements{}
	cpuName, memName := corev1.ResourceCPU, corev1.ResourceMemory
	cpuPool := c13CPUPool
	if beStyle {
		cpuName, memName, cpuPool = c13BatchCPU, c13BatchMemory, c13TierCPUPool
	}
	c13SetRes(r, &rr, cpuName, cpuPool, r.Weighted(15, 35, 38, 12))
	c13SetRes(r, &rr, memName, c13MemPool, r.Weighted(20, 30, 38, 12))
	if r.Pct(10) { // tier resources written directly by the user, next to whatever else is there
		tc, tm := c13BatchCPU, c13BatchMemory
		if r.Pct(35) {
			tc, tm = c13MidCPU, c13MidMemory
		}
		if r.Bool() {
			c13SetRes(r, &rr, tc, c13TierCPUPool, r.Weighted(0, 30, 60, 10))
		}
		if r.Bool() {
			c13SetRes(r, &rr, tm, c13MemPool, r.Weighted(0, 30, 60, 10))
		}
	}
	if r.Pct(7) { // resources the protocol does not talk about
		if rr.Requests == nil {
			rr.Requests = corev1.ResourceList{}
		}
		if rr.Limits == nil {
			rr.Limits = corev1.ResourceList{}
		}
		switch r.Intn(3) {
		case 0:
			rr.Requests[corev1.ResourceEphemeralStorage] = c13Q("1Gi")
			rr.Limits[corev1.ResourceEphemeralStorage] = c13Q("2Gi")
		case 1:
			rr.Requests["example.com/widget"] = c13Q("2")
			rr.Limits["example.com/widget"] = c13Q("2")
		case 2:
			rr.Requests["hugepages-2Mi"] = c13Q("4Mi")
			rr.Limits["hugepages-2Mi"] = c13Q("4Mi")
		}
	}
	if len(rr.Requests) == 0 {
		rr.Requests = nil
	}
	if len(rr.Limits) == 0 {
		rr.Limits = nil
	}
	return rr
}

// c13Default applies the API server's defaulting: a limit without request gives request = limit.
func c13Default(pod *corev1.Pod) {
	for _, cs := range [][]corev1.Container{pod.Spec.InitContainers, pod.Spec.Containers} {
		for i := range cs {
			rr := &cs[i].Resources
			names := make([]string, 0, len(rr.Limits))
			for n := range rr.Limits {
				names = append(names, string(n))
			}
			sort.Strings(names)
			for _, n := range names {
				if _, ok := rr.Requests[corev1.ResourceName(n)]; !ok {
					if rr.Requests == nil {
						rr.Requests = corev1.ResourceList{}
					}
					rr.Requests[corev1.ResourceName(n)] = rr.Limits[corev1.ResourceName(n)].DeepCopy()
				}
			}
		}
	}
}

type c13PodInfo struct {
	qosIdx   int
	prioKind string
}

func c13GenPod(r *kit.Rand) (*corev1.Pod, c13PodInfo) {
	info := c13PodInfo{}
	pod := &corev1.Pod{
		TypeMeta:   metav1.TypeMeta{APIVersion: "v1", Kind: "Pod"},
		ObjectMeta: metav1.ObjectMeta{Name: "p", Namespace: "default", Labels: map[string]string{}},
	}
	info.qosIdx = r.Weighted(10, 13, 15, 10, 16, 8, 7)
	switch q := c13QoSValues[info.qosIdx]; q {
	case "":
	case "junk":
		pod.Labels[c13QoSKey] = kit.Pick(r, c13QoSJunk)
	default:
		pod.Labels[c13QoSKey] = q
	}
	switch r.Weighted(10, 55, 25, 10) {
	case 0:
		info.prioKind = "nil"
	case 1:
		pod.Spec.Priority = new(int32)
		*pod.Spec.Priority = kit.Pick(r, c13PrioEdges)
		info.prioKind = "edge"
	case 2:
		pod.Spec.Priority = new(int32)
		*pod.Spec.Priority = kit.Pick(r, c13PrioMid)
		info.prioKind = "mid"
	case 3:
		pod.Spec.Priority = new(int32)
		*pod.Spec.Priority = kit.Pick(r, c13PrioFar)
		info.prioKind = "far"
	}
	if r.Pct(25) {
		if r.Pct(75) {
			pod.Labels[c13PCKey] = kit.Pick(r, c13PCKnown)
		} else {
			pod.Labels[c13PCKey] = kit.Pick(r, c13PCJunk)
		}
	}
	if r.Pct(20) {
		pod.Labels[c13SubKey] = kit.Pick(r, []string{"0", "5500", "9999", "7001", "abc", "", "-1"})
	}
	if r.Pct(30) {
		pod.Labels["app"] = kit.Pick(r, []string{"a", "b"})
	}
	_, hasQoSLabel := pod.Labels[c13QoSKey]
	beStylePod := (pod.Labels[c13QoSKey] == "BE" && r.Pct(60)) || (!hasQoSLabel && r.Pct(10))
	nc := r.Weighted(8, 40, 28, 12, 5, 4, 2, 1) // 0-6 containers, rarely 12
	if nc == 7 {
		nc = 12
	}
	if r.Pct(97) && nc == 0 {
		nc = 1
	}
	for i := 0; i < nc; i++ {
		pod.Spec.Containers = append(pod.Spec.Containers, corev1.Container{Name: fmt.Sprintf("c%d", i), Image: "img",
			Resources: c13GenResources(r, beStylePod && r.Pct(85))})
	}
	ni := r.Weighted(60, 25, 9, 3, 2, 1) // 0-5 init containers
	for i := 0; i < ni; i++ {
		ic := corev1.Container{Name: fmt.Sprintf("i%d", i), Image: "img", Resources: c13GenResources(r, beStylePod && r.Pct(85))}
		if r.Pct(20) {
			p := corev1.ContainerRestartPolicyAlways
			ic.RestartPolicy = &p
		}
		pod.Spec.InitContainers = append(pod.Spec.InitContainers, ic)
	}
	if r.Pct(22) {
		pod.Spec.Overhead = corev1.ResourceList{}
		if r.Pct(80) {
			pod.Spec.Overhead[corev1.ResourceCPU] = c13Q(kit.Pick(r, []string{"250m", "100m", "1", "0.0005", "0", "500m"}))
		}
		if r.Pct(70) {
			pod.Spec.Overhead[corev1.ResourceMemory] = c13Q(kit.Pick(r, []string{"64Mi", "1", "100M", "0"}))
		}
	}
	return pod, info
}

// c13SteerWholeCPU adds to one container request the complement that makes the pod's CPU request
// a whole number (only a bias of the generator; the oracle recomputes from the final object).
func c13SteerWholeCPU(pod *corev1.Pod) {
	if pod.Spec.Resources != nil {
		if q, ok := pod.Spec.Resources.Requests[corev1.ResourceCPU]; ok {
			// the pod-level request may only grow (it has to cover the containers)
			up := c13Ceil(c13Rat(q))
			if up.Sign() == 0 {
				up.SetInt64(1)
			}
			pod.Spec.Resources.Requests[corev1.ResourceCPU] = c13Q(up.String())
			if _, ok := pod.Spec.Resources.Limits[corev1.ResourceCPU]; ok {
				pod.Spec.Resources.Limits[corev1.ResourceCPU] = c13Q(up.String())
			}
			return
		}
	}
	if len(pod.Spec.Containers) == 0 {
		return
	}
	for round := 0; round < 2; round++ {
		cpu := c13PodRequest(pod, corev1.ResourceCPU)
		if cpu.IsInt() && cpu.Sign() > 0 {
			return
		}
		// complement in micro-cores
		micro := new(big.Rat).Mul(cpu, new(big.Rat).SetInt64(1000000))
		if !micro.IsInt() {
			return
		}
		m := new(big.Int).Mod(micro.Num(), big.NewInt(1000000)).Int64()
		add := (1000000 - m) % 1000000
		if cpu.Sign() == 0 {
			add = 1000000
		}
		rr := &pod.Spec.Containers[0].Resources
		if rr.Requests == nil {
			rr.Requests = corev1.ResourceList{}
		}
		cur := rr.Requests[corev1.ResourceCPU]
		cur.Add(c13Q(fmt.Sprintf("%du", add)))
		rr.Requests[corev1.ResourceCPU] = cur
		if lim, ok := rr.Limits[corev1.ResourceCPU]; ok && c13Rat(lim).Cmp(c13Rat(cur)) < 0 {
			rr.Limits[corev1.ResourceCPU] = cur.DeepCopy()
		}
	}
}

func c13Ceil(v *big.Rat) *big.Int {
	q, rem := new(big.Int).DivMod(v.Num(), v.Denom(), new(big.Int))
	if rem.Sign() != 0 {
		q.Add(q, big.NewInt(1))
	}
	return q
}

// c13AddPodLevel gives the pod a pod-level request (spec.resources) that covers the containers, as
// the API server's validation demands.
func c13AddPodLevel(r *kit.Rand, pod *corev1.Pod) {
	pod.Spec.Resources = &corev1.ResourceRequirements{Requests: corev1.ResourceList{}}
	names := []corev1.ResourceName{corev1.ResourceCPU}
	if r.Pct(40) {
		names = append(names, corev1.ResourceMemory)
	}
	if r.Pct(10) {
		names = names[1:]
	}
	for _, n := range names {
		saved := pod.Spec.Overhead
		pod.Spec.Overhead = nil
		agg := c13PodRequest(pod, n)
		pod.Spec.Overhead = saved
		agg.Add(agg, c13Rat(c13Q(kit.Pick(r, []string{"0", "0", "500m", "1", "0.0005", "250m", "3"}))))
		nano := new(big.Rat).Mul(agg, new(big.Rat).SetInt64(1000000000))
		if !nano.IsInt() {
			continue
		}
		q := c13Q(nano.Num().String() + "n")
		pod.Spec.Resources.Requests[n] = q
		if r.Pct(40) {
			if pod.Spec.Resources.Limits == nil {
				pod.Spec.Resources.Limits = corev1.ResourceList{}
			}
			pod.Spec.Resources.Limits[n] = q.DeepCopy()
		}
	}
}

func c13JSON(v any) []byte {
	b, err := json.Marshal(v)
	if err != nil {
		panic("c13: marshal: " + err.Error())
	}
	return b
}

var c13UpdateKinds = []string{"none", "other-label", "qos-label", "pc-label", "sub-priority", "ood-spec-priority", "pc-label-equivalent"}

// c13MakeOld derives the stored (old) version of an updated pod.
func c13MakeOld(r *kit.Rand, newPod *corev1.Pod) (*corev1.Pod, string) {
	old := newPod.DeepCopy()
	kind := c13UpdateKinds[r.Weighted(18, 14, 22, 22, 8, 6, 10)]
	setOrDel := func(key string, options []string) {
		v := kit.Pick(r, options)
		if v == "<absent>" {
			delete(old.Labels, key)
		} else {
			old.Labels[key] = v
		}
	}
	switch kind {
	case "other-label":
		old.Labels["app"] = "old"
		old.Annotations = map[string]string{"note": "x"}
	case "qos-label":
		setOrDel(c13QoSKey, []string{"<absent>", "LSE", "LSR", "LS", "BE", "SYSTEM", "be", "", "LSX"})
	case "pc-label":
		setOrDel(c13PCKey, []string{"<absent>", "<absent>", "koord-prod", "koord-mid", "koord-batch", "koord-free", "", "prod"})
	case "sub-priority":
		setOrDel(c13SubKey, []string{"<absent>", "1", "5500", "9999"})
	case "ood-spec-priority":
		if r.Pct(15) {
			old.Spec.Priority = nil
		} else {
			p := kit.Pick(r, c13PrioEdges)
			old.Spec.Priority = &p
		}
	case "pc-label-equivalent":
		// the label only spells out (or stops spelling out) the class the number already gives
		if _, has := newPod.Labels[c13PCKey]; has {
			if cls := c13NumClass(newPod.Spec.Priority); cls == newPod.Labels[c13PCKey] {
				delete(old.Labels, c13PCKey)
			}
		} else if cls := c13NumClass(newPod.Spec.Priority); cls != "none" {
			old.Labels[c13PCKey] = cls
		}
	}
	return old, kind
}

var c13CellSeen = map[string]bool{}
var c13GatesRecorded bool

func c13CPUShape(pod *corev1.Pod) (shape string, subMilli, fractional bool) {
	for _, cs := range [][]corev1.Container{pod.Spec.InitContainers, pod.Spec.Containers} {
		for i := range cs {
			if q, ok := cs[i].Resources.Requests[corev1.ResourceCPU]; ok {
				v := c13Rat(q)
				if !v.IsInt() {
					fractional = true
				}
				if !new(big.Rat).Mul(v, new(big.Rat).SetInt64(1000)).IsInt() {
					subMilli = true
				}
			}
		}
	}
	shape = c13WholeCPU(pod)
	if shape == "whole" && fractional {
		shape = "whole-from-fractions"
	}
	return
}

// c13SetGate sets one feature gate for the current case and returns the function that restores
// the previous setting. Cases of one process run one after the other, so two settings never
// coexist.
func c13SetGate(c *kit.Case, f featuregate.Feature, on bool) func() {
	prev := utilfeature.DefaultFeatureGate.Enabled(f)
	if err := utilfeature.DefaultMutableFeatureGate.Set(fmt.Sprintf("%s=%t", f, on)); err != nil {
		c.Harness("cannot set feature gate %s=%t: %v", f, on, err)
	}
	return func() { _ = utilfeature.DefaultMutableFeatureGate.Set(fmt.Sprintf("%s=%t", f, prev)) }
}

func TestVerifC13Validating(t *testing.T) {
	// The process starts from the default gates (set explicitly so that nothing inherited from the
	// package's other tests matters; recorded in the evidence). Two gates that the validating path
	// reads are then a per-case dimension of the workload, set before the request and restored after
	// it: ColocationProfileSkipValidatingPriority (documented: "config whether to validate label
	// priority", i.e. the koordinator.sh/priority sub-priority label) and ValidatePodDeviceResource
	// (another validator of the same handler chain). The statement's rules are unconditional, so the
	// oracle is the same under every setting.
	gates := map[string]bool{}
	for _, g := range []string{string(features.ColocationProfileSkipValidatingPriority), string(features.EnableQuotaAdmission), string(features.EnablePodEnhancedValidator),
		string(features.ValidatePodDeviceResource)} {
		_ = utilfeature.DefaultMutableFeatureGate.Set(g + "=false")
	}
	gates[string(features.ValidatePodDeviceResource)] = utilfeature.DefaultFeatureGate.Enabled(features.ValidatePodDeviceResource)
	gates[string(features.ColocationProfileSkipValidatingPriority)] = utilfeature.DefaultFeatureGate.Enabled(features.ColocationProfileSkipValidatingPriority)
	gates[string(features.EnableQuotaAdmission)] = utilfeature.DefaultFeatureGate.Enabled(features.EnableQuotaAdmission)
	gates[string(features.EnablePodEnhancedValidator)] = utilfeature.DefaultFeatureGate.Enabled(features.EnablePodEnhancedValidator)

	h := makeTestHandler()
	ctx := context.Background()

	kit.Run(t, kit.Config{Property: "C13", Unit: "validating", Quick: 6000, Thorough: 600000,
		Rule: "one pod per case: QoS label in {absent, LSE, LSR, LS, BE, SYSTEM, junk}, spec.priority nil / at every class edge -1,0,+1 / class and gap centres / extremes, priority-class label (known or junk) overriding the number in 25%, 0-3 containers and 0-2 init containers (sidecars) with cpu/memory/batch/mid quantities from a boundary pool (1m, 0.0005, 500u, 1.5, 1e3, 1Gi, 1G, ...), overhead, other resource names (ephemeral-storage, hugepages, an extended resource), pod-level spec.resources in 5%; rarely 4-6 or 12 containers and 3-5 init containers, CPU up to 9e15, memory up to 1e19; API-server defaulting applied; 45% of the cases are updates whose old object differs in a QoS / priority-class / sub-priority / unrelated label or (tagged out-of-domain) in spec.priority; the feature gates ColocationProfileSkipValidatingPriority (40% of the updates, 15% of the creates) and ValidatePodDeviceResource (10%) are switched on per case and restored; 65% of LSR/LSE pods are steered to a whole CPU sum built from fractions. distinct = (operation, update kind, QoS, priority class, pod-CPU shape, batch requested, verdict, gate setting); non-trivial = priority at a class edge +-1, LSR/LSE pod with fractional or sub-milli container CPU, batch resource with non-BE QoS, or an update touching a QoS / priority-class label",
	}, func(c *kit.Case) {
		r := c.R
		if !c13GatesRecorded {
			c13GatesRecorded = true
			c.Sample(map[string]any{"feature_gates_at_start": gates, "feature_gates_varied_per_case": []string{string(features.ColocationProfileSkipValidatingPriority), string(features.ValidatePodDeviceResource)}})
			for g, on := range gates {
				n := 0
				if on {
					n = 1
				}
				c.Count("v_gate_on_at_start_"+g, n)
			}
		}
		newPod, info := c13GenPod(r)
		c13Default(newPod)
		if r.Pct(5) {
			c13AddPodLevel(r, newPod)
			c.Count("v_pods_with_pod_level_resources", 1)
		}
		qos := c13QoS(newPod)
		if (qos == "LSR" || qos == "LSE") && r.Pct(65) {
			c13SteerWholeCPU(newPod)
		}
		op := admissionv1.Create
		var oldPod *corev1.Pod
		kind := "create"
		if r.Pct(45) {
			op = admissionv1.Update
			oldPod, kind = c13MakeOld(r, newPod)
		}
		newRaw := c13JSON(newPod)
		var oldRaw []byte
		if oldPod != nil {
			oldRaw = c13JSON(oldPod)
		}
		// gate setting of this case (drawn after the objects, so the objects do not depend on it)
		skipPrioGate := r.Pct(15)
		if op == admissionv1.Update {
			skipPrioGate = r.Pct(40)
		}
		deviceGate := r.Pct(10)
		defer c13SetGate(c, features.ColocationProfileSkipValidatingPriority, skipPrioGate)()
		defer c13SetGate(c, features.ValidatePodDeviceResource, deviceGate)()
		gateTag := "skipprio-off"
		if skipPrioGate {
			gateTag = "skipprio-on"
			c.Count("v_cases_gate_ColocationProfileSkipValidatingPriority_on", 1)
		}
		if deviceGate {
			c.Count("v_cases_gate_ValidatePodDeviceResource_on", 1)
		}
		c.Op("gates: ColocationProfileSkipValidatingPriority=%t ValidatePodDeviceResource=%t", skipPrioGate, deviceGate)
		c.Op("op=%s kind=%s new=%s old=%s", op, kind, newRaw, oldRaw)

		// what the webhook sees: the objects decoded from the request by the handler's decoder
		req := admission.Request{AdmissionRequest: admissionv1.AdmissionRequest{
			Resource:  metav1.GroupVersionResource{Group: "", Version: "v1", Resource: "pods"},
			Operation: op, Name: newPod.Name, Namespace: newPod.Namespace,
			Object: runtime.RawExtension{Raw: newRaw},
		}}
		decNew := &corev1.Pod{}
		if err := h.Decoder.DecodeRaw(req.Object, decNew); err != nil {
			c.Harness("decode new pod: %v", err)
		}
		var decOld *corev1.Pod
		if oldPod != nil {
			req.OldObject = runtime.RawExtension{Raw: oldRaw}
			decOld = &corev1.Pod{}
			if err := h.Decoder.DecodeRaw(req.OldObject, decOld); err != nil {
				c.Harness("decode old pod: %v", err)
			}
		}
		allowed, reason, err := h.clusterColocationProfileValidatingPod(ctx, req, decNew, decOld)
		if allowed != (err == nil) {
			c.Count("v_allowed_flag_disagrees_with_error", 1)
		}
		admittedDirect := allowed && err == nil
		resp := h.Handle(ctx, req)
		admittedChain := resp.Allowed
		c.Op("direct: allowed=%v reason=%q ; handler chain: allowed=%v", allowed, reason, admittedChain)

		// oracle, from the objects as generated (not from the decoded copies the code worked on)
		brokenA := c13Protocol(newPod, oldPod, false)
		brokenB := c13Protocol(newPod, oldPod, true)
		pcA, pcB := c13Classes(newPod)
		if pcA != pcB {
			c.Count("v_junk_priority_label_readings_differ", 1)
		}
		shape, subMilli, fractional := c13CPUShape(newPod)
		batch := c13RequestsBatch(newPod)

		// evidence
		c.Count("v_op_"+strings.ToLower(string(op)), 1)
		verdict := "deny"
		if admittedDirect {
			verdict = "allow"
		}
		c.Count("v_"+verdict, 1)
		if op == admissionv1.Create {
			cell := fmt.Sprintf("%s_%s", c13QoSValues[info.qosIdx], pcA)
			if c13QoSValues[info.qosIdx] == "" {
				cell = fmt.Sprintf("nolabel_%s", pcA)
			}
			c.Count("v_cell_"+cell+"_"+verdict, 1)
			if !c13CellSeen[cell] {
				c13CellSeen[cell] = true
				c.Count("v_cells_first_visit", 1)
			}
		} else {
			c.Count("v_update_"+kind+"_"+verdict, 1)
			c.Count("v_update_"+gateTag+"_"+verdict, 1)
			// updates that change the QoS or the priority class (reading a), per gate setting
			if c13QoS(oldPod) != qos {
				c.Count("v_update_qos_changed_"+gateTag+"_"+verdict, 1)
			}
			if oa, _ := c13Classes(oldPod); oa != pcA {
				c.Count("v_update_class_changed_"+gateTag+"_"+verdict, 1)
			}
		}
		if subMilli {
			c.Count("v_pods_with_submilli_cpu", 1)
		}
		if fractional {
			c.Count("v_pods_with_fractional_cpu", 1)
		}
		if qos == "LSR" || qos == "LSE" {
			c.Count("v_lsx_cpu_"+shape+"_"+verdict, 1)
		}
		if batch {
			if qos == "BE" {
				c.Count("v_batch_requested_be_"+verdict, 1)
			} else {
				c.Count("v_batch_requested_non_be_"+verdict, 1)
			}
		}
		if admittedChain != admittedDirect {
			c.Count("v_chain_and_direct_differ", 1)
		}
		if oldPod != nil && oldPod.Labels[c13SubKey] != newPod.Labels[c13SubKey] {
			// in the scope of the gate when it is on: counted, never asserted
			c.Count("v_subpriority_changed_"+gateTag+"_"+verdict, 1)
		}
		c.Seen(op, kind, qos, pcA, shape, batch, verdict, skipPrioGate)
		if info.prioKind == "edge" || ((qos == "LSR" || qos == "LSE") && (fractional || subMilli)) || (batch && qos != "BE") ||
			kind == "qos-label" || kind == "pc-label" || kind == "pc-label-equivalent" {
			c.NonTrivial()
		}
		if c.K < 2 {
			c.Sample(map[string]any{"op": op, "kind": kind, "qos": qos, "priority_class": pcA, "pod_cpu_request": c13PodRequest(newPod, corev1.ResourceCPU).FloatString(4),
				"admitted": admittedDirect, "reason": reason})
		}

		// verdicts: admitted => predicate (under at least one reading of a junk priority-class label)
		c.Count("v_oracle_comparisons", 1)
		if admittedDirect || admittedChain {
			if len(brokenA) > 0 && len(brokenB) > 0 {
				via := "clusterColocationProfileValidatingPod"
				if !admittedDirect {
					via = "PodValidatingHandler.Handle (although clusterColocationProfileValidatingPod denied)"
				}
				sig := "C13/protocol/" + brokenA[0]
				if brokenA[0] == "lsx-cpu-not-whole" && c13PodLevelCPUDecFormWithOverhead(newPod) {
					// narrow attribution, from the input alone: a pod-level cpu request written with more than
					// 18 digits (Quantity keeps it as a shared *inf.Dec) plus a cpu overhead. The Kubernetes
					// helper behind util.GetPodRequest aliases that Dec and adds the overhead INTO THE POD
					// OBJECT, so the validator's second GetPodRequest call sees the overhead twice.
					sig += "/pod-level-cpu-over-18-digits-with-overhead"
				}
				c.Fail(sig, "%s admitted a %s that breaks the protocol: %v (gates: ColocationProfileSkipValidatingPriority=%t ValidatePodDeviceResource=%t)\nQoS=%s priority class=%s (spec.priority=%s, label=%q) pod CPU request=%s batch requested=%v\nnew=%s\nold=%s",
					via, strings.ToLower(string(op)), brokenA, skipPrioGate, deviceGate, qos, pcA, c13PrioStr(newPod.Spec.Priority), newPod.Labels[c13PCKey],
					c13PodRequest(newPod, corev1.ResourceCPU).FloatString(6), batch, newRaw, oldRaw)
			}
			c.Count("v_admitted_and_predicate_holds", 1)
		} else {
			if len(brokenA) == 0 {
				c.Count("converse_misses_v_denied_although_predicate_holds", 1)
				switch {
				case oldPod != nil && oldPod.Labels[c13SubKey] != newPod.Labels[c13SubKey]:
					c.Count("converse_misses_v_cause_subpriority_label_changed", 1)
				case batch && qos == "none":
					c.Count("converse_misses_v_cause_batch_pod_be_only_by_default", 1)
				case (qos == "LSR" || qos == "LSE") && c13WholeCPU(newPod) == "whole-in-milli":
					// whole only when every container is rounded up to 1m on its own; the code rounds the pod total
					c.Count("converse_misses_v_cause_lsx_cpu_whole_only_per_container_milli", 1)
				case len(brokenB) > 0 || len(c13Protocol(decNew, decOld, false)) > 0:
					c.Count("converse_misses_v_cause_other_reading", 1)
				default:
					c.Count("converse_misses_v_cause_unexplained", 1)
					if testing.Verbose() {
						fmt.Printf("C13 unexplained denial: %s\n  new=%s\n  old=%s\n", reason, newRaw, oldRaw)
					}
				}
			} else {
				c.Count("v_denied_and_predicate_broken", 1)
				c.Count("v_denied_rule_"+brokenA[0], 1)
			}
		}
	})
}

// c13PodLevelCPUDecFormWithOverhead: the pod states a pod-level cpu request whose canonical string
// has more than 18 digits (beyond the int64 fast path of resource.ParseQuantity) and has a cpu overhead.
func c13PodLevelCPUDecFormWithOverhead(pod *corev1.Pod) bool {
	if pod.Spec.Resources == nil {
		return false
	}
	q, ok := pod.Spec.Resources.Requests[corev1.ResourceCPU]
	if !ok {
		return false
	}
	if o, ok := pod.Spec.Overhead[corev1.ResourceCPU]; !ok || c13Rat(o).Sign() == 0 {
		return false
	}
	digits := 0
	for _, ch := range q.String() {
		if ch >= '0' && ch <= '9' {
			digits++
		} else if ch != '.' && ch != '-' && ch != '+' {
			break
		}
	}
	return digits > 18
}

func c13PrioStr(p *int32) string {
	if p == nil {
		return "nil"
	}
	return fmt.Sprint(*p)
}
