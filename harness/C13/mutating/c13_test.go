//go:build verif

package mutating

// C13 monitor, mutating side: tier translation, summary annotation, idempotence.
// See /verif/DESIGN.md section 4, C13 and /verif/properties.jsonl (C13).
//
// Every case builds a fake API server content (namespace, PriorityClasses, 0-5
// ClusterColocationProfiles of which 0-3 match), one pod, and sends the pod as a CREATE
// AdmissionRequest through the real PodMutatingHandler.Handle (clusterColocationProfileMutatingPod
// -> extendedResourceSpecMutatingPod -> ...). The JSON patch of the response is applied to the
// request object the way the API server does; the result is "the mutated pod". Oracles (all
// recomputed from the input object and the final object, none from the handler's flags):
//
//   translation   for a pod whose priority class AFTER the profiles is mid or batch (read from the
//                 final object's label / spec.priority; BE QoS label as the documented default when
//                 there is no class) and that was matched by a profile: in every container, init
//                 container and the overhead, for requests and limits, the native cpu/memory entry
//                 is gone and the tier entry holds the same amount (cpu in milli-cores, rounded up
//                 to 1m; memory in bytes); nothing is invented; a limit without request gets
//                 request = limit.
//   annotation    node.koordinator.sh/extended-resource-spec, parsed back, equals the batch entries
//                 of the final spec, container by container.
//   idempotence   sending the mutated pod through Handle again yields a semantically equal object.
//   re-validation the mutated pod is sent through the real validating handler; admitted => the
//                 protocol predicate (written from the statement) holds. Denials are only counted.
//
// Causal rules of the generator: a mutating webhook sees pods before the API server's validation,
// so structurally odd pods (no container, limit without request) are in-domain; quantities are
// non-negative and request <= limit. Profiles use only features whose effect does not depend on
// how often they are applied and never select on a label that a profile injects (otherwise a
// second admission legitimately matches other profiles): no labelSuffixes, probability only 0 or
// 100, label-key mappings without chains.

import (
	"context"
	"encoding/json"
	"fmt"
	"math/big"
	"sort"
	"strings"
	"testing"

	jsonpatch "github.com/evanphx/json-patch"
	admissionv1 "k8s.io/api/admission/v1"
	corev1 "k8s.io/api/core/v1"
	schedulingv1 "k8s.io/api/scheduling/v1"
	apiequality "k8s.io/apimachinery/pkg/api/equality"
	"k8s.io/apimachinery/pkg/api/resource"
	metav1 "k8s.io/apimachinery/pkg/apis/meta/v1"
	"k8s.io/apimachinery/pkg/labels"
	"k8s.io/apimachinery/pkg/runtime"
	"k8s.io/apimachinery/pkg/util/intstr"
	"k8s.io/client-go/kubernetes/scheme"
	"k8s.io/component-base/featuregate"
	"k8s.io/klog/v2"
	kubeqos "k8s.io/kubectl/pkg/util/qos"
	"sigs.k8s.io/controller-runtime/pkg/client"
	"sigs.k8s.io/controller-runtime/pkg/client/fake"
	"sigs.k8s.io/controller-runtime/pkg/webhook/admission"

	configv1alpha1 "github.com/koordinator-sh/koordinator/apis/config/v1alpha1"
	"github.com/koordinator-sh/koordinator/pkg/features"
	utilfeature "github.com/koordinator-sh/koordinator/pkg/util/feature"
	kit "github.com/koordinator-sh/koordinator/pkg/verifkit"
	"github.com/koordinator-sh/koordinator/pkg/webhook/pod/validating"
)

func init() {
	klog.SetOutput(c13Discard{})
	klog.LogToStderr(false)
}

type c13Discard struct{}

func (c13Discard) Write(p []byte) (int, error) { return len(p), nil }

// ---------------------------------------------------------------------------------------------
// protocol and amounts, written from the statement (duplicated from the validating unit on purpose)

const (
	c13QoSKey      = "koordinator.sh/qosClass"
	c13PCKey       = "koordinator.sh/priority-class"
	c13SubKey      = "koordinator.sh/priority"
	c13AnnoKey     = "node.koordinator.sh/extended-resource-spec"
	c13SkipResKey  = "config.koordinator.sh/skip-update-resources"
	c13BatchCPU    = corev1.ResourceName("kubernetes.io/batch-cpu")
	c13BatchMemory = corev1.ResourceName("kubernetes.io/batch-memory")
	c13MidCPU      = corev1.ResourceName("kubernetes.io/mid-cpu")
	c13MidMemory   = corev1.ResourceName("kubernetes.io/mid-memory")
)

// c13TierNames: the extended resources of a tier (documented API: kubernetes.io/{batch,mid}-{cpu,memory}).
func c13TierNames(tier string) (cpu, mem corev1.ResourceName) {
	switch tier {
	case "koord-batch":
		return c13BatchCPU, c13BatchMemory
	case "koord-mid":
		return c13MidCPU, c13MidMemory
	}
	panic("c13: no tier " + tier)
}

// c13Rat converts a quantity to an exact rational by parsing its canonical string; it does not
// use Quantity.Value()/MilliValue(), whose rounding is part of what is being checked.
func c13Rat(q resource.Quantity) *big.Rat {
	s := q.String()
	i := 0
	for i < len(s) && (s[i] == '+' || s[i] == '-' || s[i] == '.' || (s[i] >= '0' && s[i] <= '9')) {
		i++
	}
	num, suf := s[:i], s[i:]
	v, ok := new(big.Rat).SetString(num)
	if !ok {
		panic("c13: cannot parse quantity " + s)
	}
	pow := func(base, exp int64) *big.Rat {
		neg := exp < 0
		if neg {
			exp = -exp
		}
		p := new(big.Int).Exp(big.NewInt(base), big.NewInt(exp), nil)
		if neg {
			return new(big.Rat).SetFrac(big.NewInt(1), p)
		}
		return new(big.Rat).SetInt(p)
	}
	var m *big.Rat
	switch suf {
	case "":
		m = pow(10, 0)
	case "n":
		m = pow(10, -9)
	case "u":
		m = pow(10, -6)
	case "m":
		m = pow(10, -3)
	case "k":
		m = pow(10, 3)
	case "M":
		m = pow(10, 6)
	case "G":
		m = pow(10, 9)
	case "T":
		m = pow(10, 12)
	case "P":
		m = pow(10, 15)
	case "E":
		m = pow(10, 18)
	case "Ki":
		m = pow(2, 10)
	case "Mi":
		m = pow(2, 20)
	case "Gi":
		m = pow(2, 30)
	case "Ti":
		m = pow(2, 40)
	case "Pi":
		m = pow(2, 50)
	case "Ei":
		m = pow(2, 60)
	default:
		if suf[0] == 'e' || suf[0] == 'E' {
			var e int64
			if _, err := fmt.Sscanf(suf[1:], "%d", &e); err != nil {
				panic("c13: cannot parse quantity exponent " + s)
			}
			m = pow(10, e)
		} else {
			panic("c13: cannot parse quantity suffix " + s)
		}
	}
	return v.Mul(v, m)
}

func c13Ceil(v *big.Rat) *big.Int {
	q, rem := new(big.Int).DivMod(v.Num(), v.Denom(), new(big.Int))
	if rem.Sign() != 0 {
		q.Add(q, big.NewInt(1))
	}
	return q
}

// c13CeilMilli: the canonical milli-core amount of a CPU quantity (Kubernetes' CPU resolution is
// 1m; finer quantities count as the next milli-core).
func c13CeilMilli(v *big.Rat) *big.Int {
	return c13Ceil(new(big.Rat).Mul(v, new(big.Rat).SetInt64(1000)))
}

func c13QoS(pod *corev1.Pod) string {
	switch v := pod.Labels[c13QoSKey]; v {
	case "LSE", "LSR", "LS", "BE", "SYSTEM":
		return v
	}
	return "none"
}

func c13NumClass(p *int32) string {
	if p == nil {
		return "none"
	}
	switch v := *p; {
	case v >= 9000 && v <= 9999:
		return "koord-prod"
	case v >= 7000 && v <= 7999:
		return "koord-mid"
	case v >= 5000 && v <= 5999:
		return "koord-batch"
	case v >= 3000 && v <= 3999:
		return "koord-free"
	}
	return "none"
}

// c13Classes: the pod's priority class under the two readings that differ for a priority-class
// label with an unknown value: (a) the label decides alone, (b) it is ignored and the number decides.
func c13Classes(pod *corev1.Pod) (a, b string) {
	num := c13NumClass(pod.Spec.Priority)
	if v, ok := pod.Labels[c13PCKey]; ok {
		switch v {
		case "koord-prod", "koord-mid", "koord-batch", "koord-free":
			return v, v
		}
		return "none", num
	}
	return num, num
}

func c13IsSidecar(c *corev1.Container) bool {
	return c.RestartPolicy != nil && *c.RestartPolicy == corev1.ContainerRestartPolicyAlways
}

func c13PodRequestConv(pod *corev1.Pod, name corev1.ResourceName, conv func(*big.Rat) *big.Rat) *big.Rat {
	get := func(l corev1.ResourceList) *big.Rat {
		if q, ok := l[name]; ok {
			if conv != nil {
				return conv(c13Rat(q))
			}
			return c13Rat(q)
		}
		return new(big.Rat)
	}
	sum := new(big.Rat)
	for i := range pod.Spec.Containers {
		sum.Add(sum, get(pod.Spec.Containers[i].Resources.Requests))
	}
	side := new(big.Rat)
	initMax := new(big.Rat)
	for i := range pod.Spec.InitContainers {
		ic := &pod.Spec.InitContainers[i]
		q := get(ic.Resources.Requests)
		use := new(big.Rat)
		if c13IsSidecar(ic) {
			side.Add(side, q)
			use.Set(side)
		} else {
			use.Add(side, q)
		}
		if use.Cmp(initMax) > 0 {
			initMax.Set(use)
		}
	}
	total := new(big.Rat).Add(sum, side)
	if initMax.Cmp(total) > 0 {
		total.Set(initMax)
	}
	// pod-level resources (spec.resources, cpu/memory) are the pod's request when set
	if pod.Spec.Resources != nil && (name == corev1.ResourceCPU || name == corev1.ResourceMemory) {
		if _, ok := pod.Spec.Resources.Requests[name]; ok {
			total = get(pod.Spec.Resources.Requests)
		}
	}
	if pod.Spec.Overhead != nil {
		total.Add(total, get(pod.Spec.Overhead))
	}
	return total
}

func c13WholeCPU(pod *corev1.Pod) string {
	exact := c13PodRequestConv(pod, corev1.ResourceCPU, nil)
	if exact.Sign() <= 0 {
		return "zero"
	}
	if exact.IsInt() {
		return "whole"
	}
	thousand := big.NewInt(1000)
	if new(big.Int).Mod(c13CeilMilli(exact), thousand).Sign() == 0 {
		return "whole-in-milli"
	}
	perEntry := c13PodRequestConv(pod, corev1.ResourceCPU, func(v *big.Rat) *big.Rat { return new(big.Rat).SetInt(c13CeilMilli(v)) })
	if perEntry.IsInt() && new(big.Int).Mod(perEntry.Num(), thousand).Sign() == 0 {
		return "whole-in-milli"
	}
	return "fractional"
}

func c13RequestsBatch(pod *corev1.Pod) bool {
	for _, cs := range [][]corev1.Container{pod.Spec.InitContainers, pod.Spec.Containers} {
		for i := range cs {
			for _, n := range []corev1.ResourceName{c13BatchCPU, c13BatchMemory} {
				if q, ok := cs[i].Resources.Requests[n]; ok && c13Rat(q).Sign() > 0 {
					return true
				}
			}
		}
	}
	return false
}

// c13Protocol: the create-time rules of the statement that the pod breaks (one reading of the class).
func c13Protocol(pod *corev1.Pod, readingB bool) []string {
	var broken []string
	qos := c13QoS(pod)
	pc, pb := c13Classes(pod)
	if readingB {
		pc = pb
	}
	if qos == "BE" && (pc == "koord-prod" || pc == "none") {
		broken = append(broken, "be-pair")
	}
	if qos == "LSR" && pc != "koord-prod" {
		broken = append(broken, "lsr-pair")
	}
	if qos == "LSR" || qos == "LSE" {
		switch c13WholeCPU(pod) {
		case "zero":
			broken = append(broken, "lsx-cpu-zero")
		case "fractional":
			broken = append(broken, "lsx-cpu-not-whole")
		}
	}
	if c13RequestsBatch(pod) && qos != "BE" {
		if !(qos == "none" && kubeqos.GetPodQOS(pod) == corev1.PodQOSBestEffort) {
			broken = append(broken, "batch-non-be")
		}
	}
	return broken
}

// ---------------------------------------------------------------------------------------------
// translation oracle

type c13Finding struct{ kind, detail string }

func c13SameQ(a, b resource.Quantity) bool { return c13Rat(a).Cmp(c13Rat(b)) == 0 }

// c13CheckList compares one resource list before/after for tier (cpu,mem). limitsAfter is the
// container's limits after the mutation when l0/l1 are its requests (nil otherwise).
func c13CheckList(where string, l0, l1, limitsAfter corev1.ResourceList, tcpu, tmem corev1.ResourceName, stats map[string]int) *c13Finding {
	for _, pr := range []struct {
		native, ext corev1.ResourceName
		cpu         bool
	}{{corev1.ResourceCPU, tcpu, true}, {corev1.ResourceMemory, tmem, false}} {
		if q, ok := l1[pr.native]; ok {
			return &c13Finding{"native-left", fmt.Sprintf("%s still has %s=%s", where, pr.native, q.String())}
		}
		q0, had := l0[pr.native]
		q1, has := l1[pr.ext]
		u0, hadExt := l0[pr.ext]
		switch {
		case had:
			if !has {
				return &c13Finding{"amount-lost", fmt.Sprintf("%s had %s=%s, result has no %s", where, pr.native, q0.String(), pr.ext)}
			}
			if hadExt {
				stats["conflicting_entries_skipped"]++ // the user wrote the native and the tier entry: which one is "the amount" is not defined
				continue
			}
			stats["amount_comparisons"]++
			if pr.cpu {
				want := c13CeilMilli(c13Rat(q0))
				got := c13Rat(q1)
				if !got.IsInt() || got.Num().Cmp(want) != 0 {
					return &c13Finding{"cpu-amount", fmt.Sprintf("%s had cpu=%s (%s milli-cores), result has %s=%s", where, q0.String(), want.String(), pr.ext, q1.String())}
				}
			} else {
				want, got := c13Ceil(c13Rat(q0)), c13Ceil(c13Rat(q1))
				if want.Cmp(got) != 0 {
					return &c13Finding{"memory-amount", fmt.Sprintf("%s had memory=%s (%s bytes), result has %s=%s (%s bytes)", where, q0.String(), want.String(), pr.ext, q1.String(), got.String())}
				}
			}
		case hadExt:
			if !has || !c13SameQ(u0, q1) {
				return &c13Finding{"tier-entry-changed", fmt.Sprintf("%s had %s=%s written by the user, result has %v", where, pr.ext, u0.String(), l1[pr.ext])}
			}
		default:
			lim, limOK := limitsAfter[pr.ext]
			if has {
				if limOK && c13SameQ(lim, q1) {
					stats["request_taken_from_limit"]++
					continue
				}
				return &c13Finding{"entry-invented", fmt.Sprintf("%s had neither %s nor %s, result has %s=%s", where, pr.native, pr.ext, pr.ext, q1.String())}
			}
			if limOK {
				return &c13Finding{"limit-without-request", fmt.Sprintf("%s: limit %s=%s has no request after the translation (request = limit expected)", where, pr.ext, lim.String())}
			}
		}
	}
	return nil
}

// c13Translated: is p1 the complete, amount-preserving translation of p0 into tier?
func c13Translated(p0, p1 *corev1.Pod, tier string, stats map[string]int) *c13Finding {
	tcpu, tmem := c13TierNames(tier)
	for _, g := range []struct {
		name   string
		c0, c1 []corev1.Container
	}{{"initContainers", p0.Spec.InitContainers, p1.Spec.InitContainers}, {"containers", p0.Spec.Containers, p1.Spec.Containers}} {
		if len(g.c0) != len(g.c1) {
			return &c13Finding{"shape-changed", fmt.Sprintf("%s: %d before, %d after", g.name, len(g.c0), len(g.c1))}
		}
		for i := range g.c0 {
			if g.c0[i].Name != g.c1[i].Name {
				return &c13Finding{"shape-changed", fmt.Sprintf("%s[%d] renamed", g.name, i)}
			}
			w := fmt.Sprintf("%s[%s]", g.name, g.c0[i].Name)
			if f := c13CheckList(w+".limits", g.c0[i].Resources.Limits, g.c1[i].Resources.Limits, nil, tcpu, tmem, stats); f != nil {
				return f
			}
			if f := c13CheckList(w+".requests", g.c0[i].Resources.Requests, g.c1[i].Resources.Requests, g.c1[i].Resources.Limits, tcpu, tmem, stats); f != nil {
				return f
			}
		}
	}
	if f := c13CheckList("overhead", p0.Spec.Overhead, p1.Spec.Overhead, nil, tcpu, tmem, stats); f != nil {
		return f
	}
	return nil
}

func c13SameList(a, b corev1.ResourceList) bool {
	if len(a) != len(b) {
		return false
	}
	for k, v := range a {
		w, ok := b[k]
		if !ok || !c13SameQ(v, w) {
			return false
		}
	}
	return true
}

func c13SameResources(p0, p1 *corev1.Pod) bool {
	for _, g := range [][2][]corev1.Container{{p0.Spec.InitContainers, p1.Spec.InitContainers}, {p0.Spec.Containers, p1.Spec.Containers}} {
		if len(g[0]) != len(g[1]) {
			return false
		}
		for i := range g[0] {
			if !c13SameList(g[0][i].Resources.Requests, g[1][i].Resources.Requests) || !c13SameList(g[0][i].Resources.Limits, g[1][i].Resources.Limits) {
				return false
			}
		}
	}
	return c13SameList(p0.Spec.Overhead, p1.Spec.Overhead)
}

func c13HasNative(p *corev1.Pod) bool {
	has := func(l corev1.ResourceList) bool {
		_, a := l[corev1.ResourceCPU]
		_, b := l[corev1.ResourceMemory]
		return a || b
	}
	for _, cs := range [][]corev1.Container{p.Spec.InitContainers, p.Spec.Containers} {
		for i := range cs {
			if has(cs[i].Resources.Requests) || has(cs[i].Resources.Limits) {
				return true
			}
		}
	}
	return has(p.Spec.Overhead)
}

// ---------------------------------------------------------------------------------------------
// annotation oracle

type c13AnnoContainer struct {
	Limits   map[string]resource.Quantity `json:"limits,omitempty"`
	Requests map[string]resource.Quantity `json:"requests,omitempty"`
}

type c13Anno struct {
	Containers map[string]c13AnnoContainer `json:"containers,omitempty"`
}

// c13CheckAnnotation: the annotation, parsed back, equals the batch entries of the final spec,
// container by container. Init containers are summarised or not (the code documents a TODO):
// when present in the annotation they have to match too.
func c13CheckAnnotation(p *corev1.Pod) *c13Finding {
	anno := c13Anno{}
	if raw, ok := p.Annotations[c13AnnoKey]; ok {
		if err := json.Unmarshal([]byte(raw), &anno); err != nil {
			return &c13Finding{"unparsable", fmt.Sprintf("annotation %q: %v", raw, err)}
		}
	}
	batchOf := func(l corev1.ResourceList) map[string]resource.Quantity {
		m := map[string]resource.Quantity{}
		for _, n := range []corev1.ResourceName{c13BatchCPU, c13BatchMemory} {
			if q, ok := l[n]; ok {
				m[string(n)] = q
			}
		}
		return m
	}
	same := func(a, b map[string]resource.Quantity) bool {
		if len(a) != len(b) {
			return false
		}
		for k, v := range a {
			w, ok := b[k]
			if !ok || !c13SameQ(v, w) {
				return false
			}
		}
		return true
	}
	known := map[string]bool{}
	for i := range p.Spec.Containers {
		ct := &p.Spec.Containers[i]
		known[ct.Name] = true
		wantReq, wantLim := batchOf(ct.Resources.Requests), batchOf(ct.Resources.Limits)
		got := anno.Containers[ct.Name]
		if !same(wantReq, got.Requests) || !same(wantLim, got.Limits) {
			return &c13Finding{"mismatch", fmt.Sprintf("container %s: spec has batch requests=%v limits=%v, annotation says requests=%v limits=%v (annotation=%s)",
				ct.Name, wantReq, wantLim, got.Requests, got.Limits, p.Annotations[c13AnnoKey])}
		}
	}
	for i := range p.Spec.InitContainers {
		ct := &p.Spec.InitContainers[i]
		known[ct.Name] = true
		if got, ok := anno.Containers[ct.Name]; ok {
			if !same(batchOf(ct.Resources.Requests), got.Requests) || !same(batchOf(ct.Resources.Limits), got.Limits) {
				return &c13Finding{"mismatch", fmt.Sprintf("init container %s is summarised with other amounts than the spec (annotation=%s)", ct.Name, p.Annotations[c13AnnoKey])}
			}
		}
	}
	names := make([]string, 0, len(anno.Containers))
	for n := range anno.Containers {
		names = append(names, n)
	}
	sort.Strings(names)
	for _, n := range names {
		if !known[n] {
			return &c13Finding{"mismatch", fmt.Sprintf("annotation summarises container %q which the spec does not have (annotation=%s)", n, p.Annotations[c13AnnoKey])}
		}
	}
	return nil
}

// ---------------------------------------------------------------------------------------------
// generator

var c13QoSValues = []string{"", "LSE", "LSR", "LS", "BE", "SYSTEM", "junk"}
var c13QoSJunk = []string{"be", "Lsr", "", "BestEffort", "LSX"}
var c13PCJunk = []string{"", "prod", "koord-Prod", "koord-none", "batch"}
var c13PCKnown = []string{"koord-prod", "koord-mid", "koord-batch", "koord-batch", "koord-mid", "koord-free"}

var c13PrioEdges = []int32{2999, 3000, 3001, 3998, 3999, 4000, 4001, 4999, 5000, 5001, 5998, 5999, 6000, 6001, 6999, 7000, 7001, 7998, 7999, 8000,
	8001, 8999, 9000, 9001, 9998, 9999, 10000, 10001}
var c13PrioTier = []int32{4999, 5000, 5001, 5500, 5998, 5999, 6000, 6999, 7000, 7001, 7500, 7998, 7999, 8000}
var c13PrioFar = []int32{0, 1, -1, 100, 3500, 4500, 6500, 8500, 9500, 1000000000, 2000001000, -2147483648, 2147483647}

var c13CPUPool = []string{"1m", "0.0005", "500u", "1", "1.5", "2", "3", "4", "500m", "0.5", "250m", "750m", "999m", "1000m", "1001m", "1500m",
	"2000m", "100m", "0.1", "1.0005", "1e3", "0", "16", "0.9995", "2500u", "1n", "1e-3", "12345678u", "1e6", "9e15", "64", "999999u"}
var c13MemPool = []string{"1Gi", "1G", "1e3", "1.5Gi", "0", "128Mi", "1", "1000", "1Ki", "1000m", "1500m", "0.5", "4Gi", "1e9", "512Mi", "1536Mi",
	"9007199254740993", "1Ti", "100M", "1e-1", "2Ei", "8Ei", "1e19", "1n"}
var c13TierCPUPool = []string{"1000", "500", "1500", "1", "0", "2000", "1k", "250"}

func c13Q(s string) resource.Quantity { return resource.MustParse(s) }

func c13PickPair(r *kit.Rand, pool []string) (req, lim resource.Quantity) {
	a, b := c13Q(kit.Pick(r, pool)), c13Q(kit.Pick(r, pool))
	if r.Pct(40) {
		b = a.DeepCopy()
	}
	if c13Rat(a).Cmp(c13Rat(b)) > 0 {
		a, b = b, a
	}
	return a, b
}

func c13SetRes(r *kit.Rand, rr *corev1.ResourceRequirements, name corev1.ResourceName, pool []string, mode int) {
	req, lim := c13PickPair(r, pool)
	if rr.Requests == nil {
		rr.Requests = corev1.ResourceList{}
	}
	if rr.Limits == nil {
		rr.Limits = corev1.ResourceList{}
	}
	switch mode {
	case 1: // request only
		rr.Requests[name] = req
	case 2: // both
		rr.Requests[name] = req
		rr.Limits[name] = lim
	case 3: // limit only (missing request)
		rr.Limits[name] = lim
	}
}

func c13GenResources(r *kit.Rand, beStyle bool) corev1.ResourceRequirements {
	rr := corev1.ResourceRequirements{}
	cpuName, memName := corev1.ResourceCPU, corev1.ResourceMemory
	cpuPool := c13CPUPool
	if beStyle {
		cpuName, memName, cpuPool = c13BatchCPU, c13BatchMemory, c13TierCPUPool
	}
	c13SetRes(r, &rr, cpuName, cpuPool, r.Weighted(12, 30, 40, 18))
	c13SetRes(r, &rr, memName, c13MemPool, r.Weighted(15, 30, 37, 18))
	if r.Pct(10) { // tier resources written directly by the user, next to whatever else is there
		tc, tm := c13BatchCPU, c13BatchMemory
		if r.Pct(35) {
			tc, tm = c13MidCPU, c13MidMemory
		}
		if r.Bool() {
			c13SetRes(r, &rr, tc, c13TierCPUPool, r.Weighted(0, 30, 50, 20))
		}
		if r.Bool() {
			c13SetRes(r, &rr, tm, c13MemPool, r.Weighted(0, 30, 50, 20))
		}
	}
	if r.Pct(7) { // resources the translation does not talk about
		if rr.Requests == nil {
			rr.Requests = corev1.ResourceList{}
		}
		if rr.Limits == nil {
			rr.Limits = corev1.ResourceList{}
		}
		switch r.Intn(3) {
		case 0:
			rr.Requests[corev1.ResourceEphemeralStorage] = c13Q("1Gi")
			rr.Limits[corev1.ResourceEphemeralStorage] = c13Q("2Gi")
		case 1:
			rr.Requests["example.com/widget"] = c13Q("2")
			rr.Limits["example.com/widget"] = c13Q("2")
		case 2:
			rr.Limits["hugepages-2Mi"] = c13Q("4Mi")
		}
	}
	if len(rr.Requests) == 0 {
		rr.Requests = nil
	}
	if len(rr.Limits) == 0 {
		rr.Limits = nil
	}
	return rr
}

func c13GenPod(r *kit.Rand) *corev1.Pod {
	pod := &corev1.Pod{
		TypeMeta:   metav1.TypeMeta{APIVersion: "v1", Kind: "Pod"},
		ObjectMeta: metav1.ObjectMeta{Name: "p", Namespace: "default", Labels: map[string]string{}},
	}
	switch q := c13QoSValues[r.Weighted(14, 7, 7, 16, 30, 6, 6)]; q {
	case "":
	case "junk":
		pod.Labels[c13QoSKey] = kit.Pick(r, c13QoSJunk)
	default:
		pod.Labels[c13QoSKey] = q
	}
	switch r.Weighted(15, 30, 40, 15) {
	case 0:
	case 1:
		p := kit.Pick(r, c13PrioEdges)
		pod.Spec.Priority = &p
	case 2:
		p := kit.Pick(r, c13PrioTier)
		pod.Spec.Priority = &p
	case 3:
		p := kit.Pick(r, c13PrioFar)
		pod.Spec.Priority = &p
	}
	if r.Pct(22) {
		if r.Pct(78) {
			pod.Labels[c13PCKey] = kit.Pick(r, c13PCKnown)
		} else {
			pod.Labels[c13PCKey] = kit.Pick(r, c13PCJunk)
		}
	}
	if r.Pct(15) {
		pod.Labels[c13SubKey] = kit.Pick(r, []string{"0", "5500", "9999", "abc"})
	}
	// the namespace: the labelled one, an unlabelled one, or left empty in the object (then the
	// request's namespace counts)
	switch r.Weighted(77, 15, 8) {
	case 1:
		pod.Namespace = "other"
	case 2:
		pod.Namespace = ""
	}
	if r.Pct(30) {
		pod.Labels["app"] = kit.Pick(r, []string{"a", "b"})
	}
	// labels the profiles select on / map from (never injected by a profile)
	if r.Pct(70) {
		pod.Labels["sel-a"] = kit.Pick(r, []string{"1", "1", "2"})
	}
	if r.Pct(40) {
		pod.Labels["sel-b"] = "x"
	}
	if r.Pct(25) {
		pod.Labels["app-qos"] = kit.Pick(r, []string{"BE", "LS", "LSR", "bogus"})
	}
	if r.Pct(25) {
		pod.Labels["app-pc"] = kit.Pick(r, []string{"koord-batch", "koord-mid", "koord-prod", "bogus"})
	}
	beStylePod := pod.Labels[c13QoSKey] == "BE" && r.Pct(30)
	nc := r.Weighted(8, 40, 28, 12, 5, 4, 2, 1) // 0-6 containers, rarely 12
	if nc == 7 {
		nc = 12
	}
	for i := 0; i < nc; i++ {
		pod.Spec.Containers = append(pod.Spec.Containers, corev1.Container{Name: fmt.Sprintf("c%d", i), Image: "img",
			Resources: c13GenResources(r, beStylePod && r.Pct(85))})
	}
	ni := r.Weighted(55, 27, 11, 4, 2, 1) // 0-5 init containers
	for i := 0; i < ni; i++ {
		ic := corev1.Container{Name: fmt.Sprintf("i%d", i), Image: "img", Resources: c13GenResources(r, beStylePod && r.Pct(85))}
		if r.Pct(20) {
			p := corev1.ContainerRestartPolicyAlways
			ic.RestartPolicy = &p
		}
		pod.Spec.InitContainers = append(pod.Spec.InitContainers, ic)
	}
	if r.Pct(30) {
		pod.Spec.Overhead = corev1.ResourceList{}
		if r.Pct(80) {
			pod.Spec.Overhead[corev1.ResourceCPU] = c13Q(kit.Pick(r, []string{"250m", "100m", "1", "0.0005", "0", "500m", "1.5"}))
		}
		if r.Pct(70) {
			pod.Spec.Overhead[corev1.ResourceMemory] = c13Q(kit.Pick(r, []string{"64Mi", "1", "100M", "0", "1500m"}))
		}
	}
	// an extended-resource-spec annotation already on the object (stale, or written by the user)
	if r.Pct(4) { // pod-level resources (spec.resources) covering the containers
		pod.Spec.Resources = &corev1.ResourceRequirements{Requests: corev1.ResourceList{}}
		for _, n := range []corev1.ResourceName{corev1.ResourceCPU, corev1.ResourceMemory} {
			if n == corev1.ResourceMemory && r.Bool() {
				continue
			}
			saved := pod.Spec.Overhead
			pod.Spec.Overhead = nil
			agg := c13PodRequestConv(pod, n, nil)
			pod.Spec.Overhead = saved
			agg.Add(agg, c13Rat(c13Q(kit.Pick(r, []string{"0", "500m", "1", "0.0005"}))))
			nano := new(big.Rat).Mul(agg, new(big.Rat).SetInt64(1000000000))
			if nano.IsInt() {
				pod.Spec.Resources.Requests[n] = c13Q(nano.Num().String() + "n")
			}
		}
	}
	if r.Pct(20) {
		pod.Annotations = map[string]string{"app-anno": "v"}
	}
	setAnno := func(v string) {
		if pod.Annotations == nil {
			pod.Annotations = map[string]string{}
		}
		pod.Annotations[c13AnnoKey] = v
	}
	switch r.Weighted(89, 3, 4, 2, 2) {
	case 4:
		setAnno(`{"containers":{"zz":{"requests":{"kubernetes.io/batch-memory":"1Gi"}},"i0":{"limits":{"kubernetes.io/batch-cpu":"1"}}}}`)
	case 1:
		setAnno(`{"containers":{"c0":{"requests":{"kubernetes.io/batch-cpu":"7"},"limits":{"kubernetes.io/batch-cpu":"7"}}}}`)
	case 2:
		setAnno(`{}`)
	case 3:
		setAnno(`{"containers":`)
	}
	// a carried summary annotation that is (nearly) the right one for this pod as a batch pod: the
	// pod was re-created from an exported manifest, or a controller copied the annotations. Only a
	// bias of the generator: the oracle compares the final annotation with the final spec.
	if r.Pct(7) {
		if r.Pct(65) {
			pod.Labels[c13PCKey] = "koord-batch"
		}
		setAnno(c13NearAnnotation(r, pod))
	}
	return pod
}

// c13NearAnnotation predicts the batch summary of the pod's containers (native cpu in milli-cores,
// memory as is, a limit without request gives the request) and then leaves it as it is or changes
// exactly one thing: one limit, one request, or one container.
func c13NearAnnotation(r *kit.Rand, pod *corev1.Pod) string {
	anno := c13Anno{Containers: map[string]c13AnnoContainer{}}
	var names []string
	for i := range pod.Spec.Containers {
		ct := &pod.Spec.Containers[i]
		entry := c13AnnoContainer{Limits: map[string]resource.Quantity{}, Requests: map[string]resource.Quantity{}}
		for li, l := range []corev1.ResourceList{ct.Resources.Requests, ct.Resources.Limits} {
			dst := entry.Requests
			if li == 1 {
				dst = entry.Limits
			}
			if q, ok := l[c13BatchCPU]; ok {
				dst[string(c13BatchCPU)] = q
			}
			if q, ok := l[corev1.ResourceCPU]; ok {
				dst[string(c13BatchCPU)] = c13Q(c13CeilMilli(c13Rat(q)).String())
			}
			if q, ok := l[c13BatchMemory]; ok {
				dst[string(c13BatchMemory)] = q
			}
			if q, ok := l[corev1.ResourceMemory]; ok {
				dst[string(c13BatchMemory)] = q
			}
		}
		for k, v := range entry.Limits {
			if _, ok := entry.Requests[k]; !ok {
				entry.Requests[k] = v
			}
		}
		if len(entry.Limits)+len(entry.Requests) > 0 {
			anno.Containers[ct.Name] = entry
			names = append(names, ct.Name)
		}
	}
	if len(names) > 0 {
		name := kit.Pick(r, names)
		entry := anno.Containers[name]
		key := string(c13BatchCPU)
		if r.Bool() {
			key = string(c13BatchMemory)
		}
		switch r.Weighted(15, 55, 15, 15) {
		case 0: // exactly right
		case 1: // one limit differs: other value, missing, or stated although the spec has none
			if _, ok := entry.Limits[key]; ok && r.Pct(25) {
				delete(entry.Limits, key)
			} else {
				entry.Limits[key] = c13Q(kit.Pick(r, []string{"7", "123456", "3Gi"}))
			}
		case 2: // one request differs
			entry.Requests[key] = c13Q(kit.Pick(r, []string{"7", "123456", "3Gi"}))
		case 3: // one container is missing
			delete(anno.Containers, name)
		}
	}
	return string(c13JSON(anno))
}

type c13PC struct {
	name  string
	value int32
}

var c13PriorityClasses = []c13PC{{"pc-9000", 9000}, {"pc-9999", 9999}, {"pc-8999", 8999}, {"pc-10000", 10000}, {"pc-7000", 7000}, {"pc-7500", 7500},
	{"pc-7999", 7999}, {"pc-6999", 6999}, {"pc-8000", 8000}, {"pc-5000", 5000}, {"pc-5500", 5500}, {"pc-5999", 5999}, {"pc-4999", 4999}, {"pc-6000", 6000},
	{"pc-3000", 3000}, {"pc-3999", 3999}, {"pc-2999", 2999}, {"pc-4000", 4000}, {"pc-0", 0}}

// weighted towards the mid/batch tiers
var c13ProfilePCNames = []string{"pc-7000", "pc-7500", "pc-7999", "pc-5000", "pc-5500", "pc-5999", "pc-7000", "pc-5999", "pc-6999", "pc-8000", "pc-4999", "pc-6000",
	"pc-9000", "pc-9999", "pc-8999", "pc-10000", "pc-3000", "pc-3999", "pc-2999", "pc-4000", "pc-0"}

func c13GenProfile(r *kit.Rand, name string, wantMatch bool) *configv1alpha1.ClusterColocationProfile {
	p := &configv1alpha1.ClusterColocationProfile{ObjectMeta: metav1.ObjectMeta{Name: name}}
	// selectors; whether they match is decided by the pod's labels, wantMatch only biases
	switch r.Weighted(23, 40, 13, 12, 4, 4, 4) {
	case 4:
		p.Spec.Selector = &metav1.LabelSelector{MatchExpressions: []metav1.LabelSelectorRequirement{{Key: "sel-a", Operator: metav1.LabelSelectorOpIn, Values: []string{"1", "2"}}}}
	case 5:
		p.Spec.Selector = &metav1.LabelSelector{MatchExpressions: []metav1.LabelSelectorRequirement{{Key: "sel-a", Operator: metav1.LabelSelectorOpNotIn, Values: []string{"2"}}}}
	case 6:
		p.Spec.Selector = &metav1.LabelSelector{MatchLabels: map[string]string{"sel-a": "1"},
			MatchExpressions: []metav1.LabelSelectorRequirement{{Key: "sel-b", Operator: metav1.LabelSelectorOpDoesNotExist}}}
	case 0:
	case 1:
		v := "1"
		if !wantMatch {
			v = "3"
		}
		p.Spec.Selector = &metav1.LabelSelector{MatchLabels: map[string]string{"sel-a": v}}
	case 2:
		p.Spec.Selector = &metav1.LabelSelector{MatchExpressions: []metav1.LabelSelectorRequirement{{Key: "sel-b", Operator: metav1.LabelSelectorOpExists}}}
	case 3:
		p.Spec.Selector = &metav1.LabelSelector{}
	}
	switch r.Weighted(60, 30, 10) {
	case 1:
		p.Spec.NamespaceSelector = &metav1.LabelSelector{MatchLabels: map[string]string{"colocation": "true"}}
	case 2:
		v := "false"
		if wantMatch {
			v = "true"
		}
		p.Spec.NamespaceSelector = &metav1.LabelSelector{MatchLabels: map[string]string{"colocation": v}}
	}
	if r.Pct(45) {
		p.Spec.QoSClass = kit.Pick(r, []string{"BE", "BE", "BE", "LS", "LS", "LSR", "LSE", "SYSTEM"})
	}
	if r.Pct(55) {
		p.Spec.PriorityClassName = kit.Pick(r, c13ProfilePCNames)
		if r.Pct(2) {
			p.Spec.PriorityClassName = "pc-missing"
		}
	}
	if r.Pct(20) {
		v := int32(kit.Pick(r, []int{0, 1000, 5555}))
		p.Spec.KoordinatorPriority = &v
	}
	if r.Pct(35) {
		p.Spec.Labels = map[string]string{}
		if r.Pct(50) {
			p.Spec.Labels["inj-"+name] = "1"
		}
		if r.Pct(40) {
			p.Spec.Labels[c13PCKey] = kit.Pick(r, []string{"koord-batch", "koord-mid", "koord-prod", "koord-free", "junk"})
		}
		if r.Pct(15) {
			p.Spec.Labels[c13QoSKey] = kit.Pick(r, []string{"BE", "LS"})
		}
	}
	if r.Pct(20) {
		p.Spec.Annotations = map[string]string{"inj-anno-" + name: "v"}
	}
	if r.Pct(12) {
		if r.Bool() {
			p.Spec.LabelKeysMapping = map[string]string{"app-qos": c13QoSKey}
		} else {
			p.Spec.LabelKeysMapping = map[string]string{"app-pc": c13PCKey}
		}
	}
	if r.Pct(8) {
		p.Spec.AnnotationKeysMapping = map[string]string{"app-anno": "copied-anno-" + name}
	}
	if r.Pct(4) {
		// appends on every application by design; the idempotence comparison leaves this label out
		p.Spec.LabelSuffixes = map[string]string{"app": "-sfx"}
	}
	if r.Pct(20) {
		p.Spec.SchedulerName = "koord-scheduler"
	}
	switch r.Weighted(62, 8, 8, 7, 7, 4, 3, 1) {
	case 5:
		v := intstr.FromInt32(50)
		p.Spec.Probability = &v
	case 6:
		v := intstr.FromString("30%")
		p.Spec.Probability = &v
	case 7:
		v := intstr.FromString("abc")
		p.Spec.Probability = &v
	case 1:
		v := intstr.FromInt32(100)
		p.Spec.Probability = &v
	case 2:
		v := intstr.FromString("100%")
		p.Spec.Probability = &v
	case 3:
		v := intstr.FromInt32(0)
		p.Spec.Probability = &v
	case 4:
		v := intstr.FromString("0%")
		p.Spec.Probability = &v
	}
	switch r.Weighted(86, 7, 7) {
	case 1:
		p.Spec.Patch = runtime.RawExtension{Raw: []byte(fmt.Sprintf(`{"metadata":{"labels":{%q:%q}}}`, c13PCKey, kit.Pick(r, []string{"koord-batch", "koord-mid", "koord-prod"})))}
	case 2:
		p.Spec.Patch = runtime.RawExtension{Raw: []byte(`{"spec":{"schedulerName":"patched"},"metadata":{"annotations":{"patched":"yes"}}}`)}
	}
	if r.Pct(5) {
		p.Annotations = map[string]string{c13SkipResKey: "true"}
	}
	return p
}

func c13Matches(p *configv1alpha1.ClusterColocationProfile, podLabels, nsLabels map[string]string) bool {
	for _, pr := range []struct {
		sel *metav1.LabelSelector
		set map[string]string
	}{{p.Spec.NamespaceSelector, nsLabels}, {p.Spec.Selector, podLabels}} {
		if pr.sel == nil {
			continue
		}
		s, err := metav1.LabelSelectorAsSelector(pr.sel)
		if err != nil {
			panic("c13: selector: " + err.Error())
		}
		if !s.Matches(labels.Set(pr.set)) {
			return false
		}
	}
	return true
}

func c13JSON(v any) []byte {
	b, err := json.Marshal(v)
	if err != nil {
		panic("c13: marshal: " + err.Error())
	}
	return b
}

// c13Admit sends raw through the mutating handler and applies the returned patch.
// The random draws behind fractional profile probabilities come from a stream that restarts with
// the same seed at every admission, so a second admission meets the same skip decisions.
func c13Admit(ctx context.Context, h *PodMutatingHandler, raw []byte, ns string, drawSeed uint64) (out []byte, pod *corev1.Pod, resp admission.Response, err error) {
	req := admission.Request{AdmissionRequest: admissionv1.AdmissionRequest{
		Resource:  metav1.GroupVersionResource{Group: "", Version: "v1", Resource: "pods"},
		Operation: admissionv1.Create, Name: "p", Namespace: ns,
		Object: runtime.RawExtension{Raw: raw},
	}}
	draws := kit.NewRand(drawSeed)
	savedRand := randIntnFn
	randIntnFn = func(n int) int { return draws.Intn(n) }
	func() {
		defer func() { randIntnFn = savedRand }()
		resp = h.Handle(ctx, req)
	}()
	if !resp.Allowed {
		return nil, nil, resp, nil
	}
	out = raw
	if len(resp.Patches) > 0 {
		pj, merr := json.Marshal(resp.Patches)
		if merr != nil {
			return nil, nil, resp, merr
		}
		patch, derr := jsonpatch.DecodePatch(pj)
		if derr != nil {
			return nil, nil, resp, derr
		}
		out, err = patch.Apply(raw)
		if err != nil {
			return nil, nil, resp, fmt.Errorf("apply patch %s: %v", pj, err)
		}
	}
	pod = &corev1.Pod{}
	if err = json.Unmarshal(out, pod); err != nil {
		return nil, nil, resp, err
	}
	return out, pod, resp, nil
}

var c13GatesRecorded bool

// names that sort in a non-obvious way (application order is by name)
var c13ProfileNames = []string{"prof-a", "prof-b", "prof-c", "prof-d", "prof-e", "prof-10", "prof-9", "prof-2", "a.prof", "zz-prof"}

// c13EqualButSuffixedLabel: the two objects are semantically equal once the label that
// labelSuffixes appends to is left out.
func c13EqualButSuffixedLabel(a, b *corev1.Pod) bool {
	a, b = a.DeepCopy(), b.DeepCopy()
	delete(a.Labels, "app")
	delete(b.Labels, "app")
	return apiequality.Semantic.DeepEqual(a, b)
}

// c13SetGate sets one feature gate for the current case and returns the function that restores
// the previous setting. Cases of one process run one after the other, so two settings never coexist.
func c13SetGate(c *kit.Case, f featuregate.Feature, on bool) func() {
	prev := utilfeature.DefaultFeatureGate.Enabled(f)
	if err := utilfeature.DefaultMutableFeatureGate.Set(fmt.Sprintf("%s=%t", f, on)); err != nil {
		c.Harness("cannot set feature gate %s=%t: %v", f, on, err)
	}
	return func() { _ = utilfeature.DefaultMutableFeatureGate.Set(fmt.Sprintf("%s=%t", f, prev)) }
}

func TestVerifC13Mutating(t *testing.T) {
	// The process starts from the default gates (set explicitly so that nothing inherited matters;
	// recorded in the evidence). Three gates that the mutating path reads are then a per-case
	// dimension, set before the first admission and restored after the case:
	// ColocationProfileSkipMutatingResources (documented: no resource translation at all -> the
	// oracle only demands "untouched, or a complete translation"), DisableExtendedResourceSpec
	// (documented: the summary annotation is not maintained -> the annotation oracle is only
	// counted), DisableDeviceResourceSpec (another mutator of the same chain). Idempotence and
	// re-validation are asserted under every setting.
	gateNames := []string{string(features.ColocationProfileSkipMutatingResources), string(features.DisableExtendedResourceSpec), string(features.MultiQuotaTree),
		string(features.DisableDeviceResourceSpec), string(features.ColocationProfileSkipValidatingPriority)}
	gates := map[string]bool{}
	for _, g := range gateNames {
		_ = utilfeature.DefaultMutableFeatureGate.Set(g + "=false")
	}
	gates[string(features.ColocationProfileSkipMutatingResources)] = utilfeature.DefaultFeatureGate.Enabled(features.ColocationProfileSkipMutatingResources)
	gates[string(features.DisableExtendedResourceSpec)] = utilfeature.DefaultFeatureGate.Enabled(features.DisableExtendedResourceSpec)
	gates[string(features.MultiQuotaTree)] = utilfeature.DefaultFeatureGate.Enabled(features.MultiQuotaTree)
	gates[string(features.DisableDeviceResourceSpec)] = utilfeature.DefaultFeatureGate.Enabled(features.DisableDeviceResourceSpec)
	gates[string(features.ColocationProfileSkipValidatingPriority)] = utilfeature.DefaultFeatureGate.Enabled(features.ColocationProfileSkipValidatingPriority)

	ctx := context.Background()
	decoder := admission.NewDecoder(scheme.Scheme)
	nsLabelsOf := map[string]map[string]string{"default": {"colocation": "true"}, "other": {}}
	var base []client.Object
	base = append(base, &corev1.Namespace{ObjectMeta: metav1.ObjectMeta{Name: "default", Labels: nsLabelsOf["default"]}})
	base = append(base, &corev1.Namespace{ObjectMeta: metav1.ObjectMeta{Name: "other"}})
	for _, pc := range c13PriorityClasses {
		pp := corev1.PreemptLowerPriority
		pcObj := &schedulingv1.PriorityClass{ObjectMeta: metav1.ObjectMeta{Name: pc.name}, Value: pc.value, PreemptionPolicy: &pp}
		if len(base)%3 == 0 {
			pcObj.PreemptionPolicy = nil
		}
		base = append(base, pcObj)
	}
	vh := &validating.PodValidatingHandler{Client: fake.NewClientBuilder().WithScheme(scheme.Scheme).Build(), Decoder: decoder}

	kit.Run(t, kit.Config{Property: "C13", Unit: "mutating", Quick: 5000, Thorough: 400000,
		Rule: "one pod + profile set per case: QoS label in {absent, LSE, LSR, LS, BE, SYSTEM, junk}, spec.priority nil / class edges +-1 / mid and batch ranges / gaps / extremes, priority-class label (known or junk), 0-3 containers and 0-2 init containers (sidecars) with native and directly written tier quantities from a boundary pool (1m, 0.0005, 500u, 1n, 1.5, 1e3, 1Gi, 1G, 2Ei, ...), request only / both / limit without request, overhead, other resource names, pod-level spec.resources (4%), rarely 4-6 or 12 containers and 3-5 init containers, CPU up to 9e15 and memory up to 1e19, stale, broken or nearly right (predicted batch summary with one limit / request / container changed) carried summary annotation; 0-6 matching + 0-2 non-matching ClusterColocationProfiles with names that sort unusually (pod and namespace selectors incl. In/NotIn/DoesNotExist; pod in a labelled / unlabelled namespace or with the namespace left empty in the object; fractional probabilities with a reproducible draw stream, labelSuffixes, annotation-key mapping; QoS class, PriorityClass at every class edge, priority-class / QoS labels, label-key mapping, strategic-merge patch, probability 0/100, skip-update-resources) applied in name order; the feature gates ColocationProfileSkipMutatingResources, DisableExtendedResourceSpec and DisableDeviceResourceSpec are each switched on in 8% of the cases and restored. distinct = (final QoS, final class, tier source, #matched, translation outcome, shape of the resources (native / tier / limit-only / overhead / init), annotation state); non-trivial = a pod that is translated and has a native cpu or memory entry, or that already carries tier entries",
	}, func(c *kit.Case) {
		r := c.R
		if !c13GatesRecorded {
			c13GatesRecorded = true
			c.Sample(map[string]any{"feature_gates_at_start": gates, "feature_gates_varied_per_case": []string{string(features.ColocationProfileSkipMutatingResources),
				string(features.DisableExtendedResourceSpec), string(features.DisableDeviceResourceSpec)}})
			for g, on := range gates {
				n := 0
				if on {
					n = 1
				}
				c.Count("m_gate_on_at_start_"+g, n)
			}
		}
		pod0 := c13GenPod(r)
		nMatch := r.Weighted(10, 47, 26, 10, 3, 2, 2) // 0-6 profiles meant to match
		nOther := r.Weighted(60, 30, 10)
		order := r.Perm(len(c13ProfileNames))
		var profiles []*configv1alpha1.ClusterColocationProfile
		for i := 0; i < nMatch+nOther; i++ {
			profiles = append(profiles, c13GenProfile(r, c13ProfileNames[order[i]], i < nMatch))
		}
		// the namespace the request is for: the object's, or "default"/"other" when the object leaves it empty
		reqNS := pod0.Namespace
		if reqNS == "" {
			reqNS = kit.Pick(r, []string{"default", "default", "other"})
			c.Count("m_pods_without_namespace_in_object", 1)
		}
		if reqNS == "other" {
			c.Count("m_pods_in_unlabelled_namespace", 1)
		}
		nsLabels := nsLabelsOf[reqNS]
		drawSeed := r.Uint64()
		labelSuffix := false
		objs := append([]client.Object(nil), base...)
		var matched []string
		skipRes := false
		for _, p := range profiles {
			objs = append(objs, p)
			if c13Matches(p, pod0.Labels, nsLabels) {
				matched = append(matched, p.Name)
				if _, ok := p.Annotations[c13SkipResKey]; ok {
					skipRes = true
				}
				if len(p.Spec.LabelSuffixes) > 0 {
					labelSuffix = true
				}
			}
		}
		sort.Strings(matched)
		cl := fake.NewClientBuilder().WithScheme(scheme.Scheme).WithObjects(objs...).Build()
		h := &PodMutatingHandler{Client: cl, Decoder: decoder}
		raw0 := c13JSON(pod0)
		c.Op("pod=%s", raw0)
		for _, p := range profiles {
			c.Op("profile=%s", c13JSON(p))
		}
		c.Op("request namespace=%s matched=%v skip-update-resources=%v", reqNS, matched, skipRes)
		// gate setting of this case (drawn after the objects, so the objects do not depend on it)
		skipMutGate, noAnnoGate, noDevGate := r.Pct(8), r.Pct(8), r.Pct(8)
		defer c13SetGate(c, features.ColocationProfileSkipMutatingResources, skipMutGate)()
		defer c13SetGate(c, features.DisableExtendedResourceSpec, noAnnoGate)()
		defer c13SetGate(c, features.DisableDeviceResourceSpec, noDevGate)()
		c.Op("gates: ColocationProfileSkipMutatingResources=%t DisableExtendedResourceSpec=%t DisableDeviceResourceSpec=%t", skipMutGate, noAnnoGate, noDevGate)
		if skipMutGate {
			c.Count("m_cases_gate_ColocationProfileSkipMutatingResources_on", 1)
		}
		if noAnnoGate {
			c.Count("m_cases_gate_DisableExtendedResourceSpec_on", 1)
		}
		if noDevGate {
			c.Count("m_cases_gate_DisableDeviceResourceSpec_on", 1)
		}

		raw1, pod1, resp, err := c13Admit(ctx, h, raw0, reqNS, drawSeed)
		if err != nil {
			c.Harness("cannot apply the handler's patch: %v", err)
		}
		if !resp.Allowed {
			msg := ""
			if resp.Result != nil {
				msg = resp.Result.Message
			}
			c.Op("handler refused: %s", msg)
			c.Count("m_handler_errors", 1)
			switch {
			case strings.Contains(msg, "pc-missing"):
				c.Count("m_handler_error_missing_priorityclass", 1)
			case strings.Contains(msg, "extended resource spec"):
				c.Count("m_handler_error_broken_annotation", 1)
			case strings.Contains(msg, "invalid value for IntOrString") || strings.Contains(msg, "abc"):
				c.Count("m_handler_error_invalid_probability", 1)
			default:
				c.Count("m_handler_error_other", 1)
			}
			return
		}
		c.Op("mutated=%s", raw1)
		c.Count("m_admitted", 1)
		c.Count(fmt.Sprintf("m_matched_profiles_%d", len(matched)), 1)

		// the tier: the class after the profiles, from the final object
		qos := c13QoS(pod1)
		pa, pb := c13Classes(pod1)
		tier, source := "", ""
		switch {
		case pa != pb:
			source = "junk-priority-class-label"
		case pa == "koord-mid" || pa == "koord-batch":
			tier, source = pa, "explicit"
		case pa == "koord-prod" || pa == "koord-free":
			source = "explicit-" + pa
		case qos == "BE":
			tier, source = "koord-batch", "default-of-BE"
		case qos != "none":
			source = "default-of-" + qos
		default:
			source = "default-of-kubernetes-qos"
		}
		expect := tier != "" && len(matched) > 0 && !skipRes && !skipMutGate
		stats := map[string]int{}
		identity := c13SameResources(pod0, pod1)
		hadNative := c13HasNative(pod0)
		translatedTier := ""
		outcome := ""
		switch {
		case expect:
			c.Count("m_translation_oracle_checks", 1)
			if f := c13Translated(pod0, pod1, tier, stats); f != nil {
				c.Fail("C13/translate/"+f.kind, "pod of tier %s (%s; QoS=%s) matched by %v is not translated completely and amount-preserving: %s\npod=%s\nmutated=%s",
					tier, source, qos, matched, f.detail, raw0, raw1)
			}
			translatedTier = tier
			outcome = "translated"
			if hadNative {
				c.Count("m_translated_"+tier+"_"+source, 1)
				c.NonTrivial()
			} else {
				c.Count("m_translated_nothing_native_"+tier, 1)
			}
		case identity:
			outcome = "untouched"
			c.Count("m_untouched_"+source, 1)
			if tier != "" && hadNative {
				if skipMutGate {
					c.Count("m_untouched_tier_pod_gate_skip_mutating_resources", 1)
				} else if skipRes {
					c.Count("m_untouched_tier_pod_skip_update_resources", 1)
				} else {
					c.Count("m_untouched_tier_pod_no_profile_matched", 1)
				}
			}
		default:
			// resources changed although the oracle has no expectation (class not decidable from the
			// statement): whatever was done must be a complete, amount-preserving translation
			var last *c13Finding
			for _, tr := range []string{"koord-batch", "koord-mid"} {
				st := map[string]int{}
				if f := c13Translated(pod0, pod1, tr, st); f == nil {
					translatedTier, stats = tr, st
					break
				} else {
					last = f
				}
			}
			if translatedTier == "" {
				c.Fail("C13/translate/partial", "resources were rewritten but the result is not a complete, amount-preserving translation into any tier (class source %s, QoS=%s): %s\npod=%s\nmutated=%s",
					source, qos, last.detail, raw0, raw1)
			}
			outcome = "translated-undecided-class"
			c.Count("m_translated_"+translatedTier+"_"+source, 1)
			c.NonTrivial()
		}
		for k, v := range stats {
			c.Count("m_"+k, v)
		}

		// annotation
		annoState := "absent"
		if _, ok := pod1.Annotations[c13AnnoKey]; ok {
			annoState = "present"
		}
		if noAnnoGate {
			// the feature that maintains the annotation is switched off: nothing to demand
			if f := c13CheckAnnotation(pod1); f != nil {
				c.Count("m_annotation_gate_disabled_mismatch", 1)
			} else {
				c.Count("m_annotation_gate_disabled_match", 1)
			}
		} else if f := c13CheckAnnotation(pod1); f != nil {
			if translatedTier != "" {
				c.Fail("C13/annotation/"+f.kind, "summary annotation does not match the final spec of the translated pod (tier %s): %s\npod=%s\nmutated=%s", translatedTier, f.detail, raw0, raw1)
			}
			c.Count("m_annotation_mismatch_untranslated_pod", 1)
		} else {
			if translatedTier != "" {
				c.Count("m_annotation_checks_translated_"+annoState, 1)
			} else {
				c.Count("m_annotation_match_untranslated_pod", 1)
			}
		}

		if translatedTier == "koord-batch" {
			// evidence only: the code documents (TODO) that init containers and the overhead are not summarised
			anno := c13Anno{}
			_ = json.Unmarshal([]byte(pod1.Annotations[c13AnnoKey]), &anno)
			for i := range pod1.Spec.InitContainers {
				ic := &pod1.Spec.InitContainers[i]
				_, a := ic.Resources.Requests[c13BatchCPU]
				_, b := ic.Resources.Requests[c13BatchMemory]
				_, d := ic.Resources.Limits[c13BatchCPU]
				_, e := ic.Resources.Limits[c13BatchMemory]
				if _, ok := anno.Containers[ic.Name]; !ok && (a || b || d || e) {
					c.Count("m_annotation_silent_about_batch_init_container", 1)
				}
			}
		}

		// idempotence: admit the result again
		raw2, pod2, resp2, err := c13Admit(ctx, h, raw1, reqNS, drawSeed)
		if err != nil {
			c.Harness("cannot apply the handler's second patch: %v", err)
		}
		c.Count("m_idempotence_comparisons", 1)
		if !resp2.Allowed {
			msg := ""
			if resp2.Result != nil {
				msg = resp2.Result.Message
			}
			if translatedTier != "" {
				c.Fail("C13/idempotence/second-admission-refused", "admitting the mutated pod again fails: %s\npod=%s\nmutated=%s", msg, raw0, raw1)
			}
			c.Count("m_idempotence_untranslated_second_admission_refused", 1)
		} else if labelSuffix && !apiequality.Semantic.DeepEqual(pod1, pod2) && c13EqualButSuffixedLabel(pod1, pod2) {
			// labelSuffixes appends on every application by design; everything else is equal
			c.Count("m_idempotence_equal_except_suffixed_label", 1)
		} else if !apiequality.Semantic.DeepEqual(pod1, pod2) {
			c.Op("second admission=%s", raw2)
			if translatedTier != "" {
				c.Fail("C13/idempotence/changed", "admitting the mutated pod again changes it\nfirst =%s\nsecond=%s\npod=%s", raw1, raw2, raw0)
			}
			c.Count("m_idempotence_untranslated_changed", 1)
		} else {
			if len(resp2.Patches) > 0 {
				c.Count("m_idempotence_equal_but_patch_not_empty", 1)
			}
			if translatedTier != "" {
				c.Count("m_idempotence_translated_equal", 1)
			} else {
				c.Count("m_idempotence_untranslated_equal", 1)
			}
		}

		// re-validation of the mutated pod by the real validating handler
		vresp := vh.Handle(ctx, admission.Request{AdmissionRequest: admissionv1.AdmissionRequest{
			Resource:  metav1.GroupVersionResource{Group: "", Version: "v1", Resource: "pods"},
			Operation: admissionv1.Create, Name: "p", Namespace: reqNS, Object: runtime.RawExtension{Raw: raw1}}})
		brokenA, brokenB := c13Protocol(pod1, false), c13Protocol(pod1, true)
		c.Count("m_revalidations", 1)
		if vresp.Allowed {
			c.Count("m_revalidation_admitted", 1)
			if len(brokenA) > 0 && len(brokenB) > 0 {
				sig := "C13/revalidate/" + brokenA[0]
				if brokenA[0] == "lsx-cpu-not-whole" && c13PodLevelCPUDecFormWithOverhead(pod1) {
					// same narrow attribution as in the validating unit (aliased *inf.Dec of a >18-digit
					// pod-level cpu request: the overhead is added into the pod object and counted twice)
					sig += "/pod-level-cpu-over-18-digits-with-overhead"
				}
				c.Fail(sig, "the validating handler admits the mutated pod although it breaks the protocol: %v (QoS=%s class=%s)\nmutated=%s", brokenA, qos, pa, raw1)
			}
		} else {
			c.Count("m_revalidation_denied", 1)
			if len(brokenA) == 0 {
				c.Count("converse_misses_m_mutated_pod_denied_although_predicate_holds", 1)
				msg := ""
				if vresp.Result != nil {
					msg = vresp.Result.Message
				}
				switch {
				case strings.Contains(msg, "must specify koordinator QoS BE") && qos == "none":
					c.Count("converse_misses_m_cause_batch_pod_be_only_by_default", 1)
				case (qos == "LSR" || qos == "LSE") && c13WholeCPU(pod1) == "whole-in-milli":
					c.Count("converse_misses_m_cause_lsx_cpu_whole_only_per_container_milli", 1)
				case strings.Contains(msg, "must specify koordinator QoS BE") && len(pod1.Spec.Overhead) > 0:
					c.Count("converse_misses_m_cause_batch_only_in_overhead", 1)
				default:
					c.Count("converse_misses_m_cause_unexplained", 1)
					c.Op("unexplained denial of the mutated pod: %s", msg)
				}
			}
		}
		if translatedTier != "" && qos == "BE" && source == "explicit" {
			// a BE pod of an explicit mid/batch class stays inside the protocol after the translation
			if len(brokenA) > 0 {
				c.Fail("C13/revalidate/translated-be-pod-breaks-protocol", "translated BE pod of class %s breaks the protocol: %v\nmutated=%s", pa, brokenA, raw1)
			}
			if vresp.Allowed {
				c.Count("m_translated_be_pod_revalidation_pass", 1)
			} else {
				c.Count("converse_misses_m_translated_be_pod_revalidation_denied", 1)
			}
		}

		if _, carried := pod0.Annotations[c13AnnoKey]; carried && translatedTier != "" && !noAnnoGate {
			c.Count("m_translated_pods_arriving_with_summary_annotation", 1)
			if pod0.Annotations[c13AnnoKey] == pod1.Annotations[c13AnnoKey] {
				c.Count("m_translated_pods_carried_annotation_kept", 1)
			} else {
				c.Count("m_translated_pods_carried_annotation_rewritten", 1)
			}
		}
		if pod0.Spec.Resources != nil && translatedTier != "" {
			// the statement talks about containers and the overhead; a native pod-level request is not decided
			c.Count("m_translated_pods_with_pod_level_resources", 1)
		}
		if len(pod0.Spec.Containers) > 3 || len(pod0.Spec.InitContainers) > 2 {
			c.Count("m_pods_with_many_containers", 1)
		}
		if len(matched) > 3 {
			c.Count("m_cases_with_more_than_3_matching_profiles", 1)
		}

		// shape evidence
		shape := c13Shape(pod0)
		c.Seen(qos, pa, source, len(matched), outcome, translatedTier, shape, annoState)
		if strings.Contains(shape, "tier") {
			c.NonTrivial()
		}
		if strings.Contains(shape, "submilli") {
			c.Count("m_pods_with_submilli_cpu", 1)
			if translatedTier != "" {
				c.Count("m_translated_pods_with_submilli_cpu", 1)
			}
		}
		if strings.Contains(shape, "fraccpu") {
			c.Count("m_pods_with_fractional_cpu", 1)
		}
		if strings.Contains(shape, "limitonly") && translatedTier != "" {
			c.Count("m_translated_pods_with_limit_without_request", 1)
		}
		if strings.Contains(shape, "overhead") && translatedTier != "" {
			c.Count("m_translated_pods_with_overhead", 1)
		}
		if strings.Contains(shape, "init") && translatedTier != "" {
			c.Count("m_translated_pods_with_init_containers", 1)
		}
		if c.K < 3 {
			c.Sample(map[string]any{"qos": qos, "class": pa, "tier": translatedTier, "tier_source": source, "matched": matched, "outcome": outcome,
				"annotation": pod1.Annotations[c13AnnoKey]})
		}
	})
}

// c13PodLevelCPUDecFormWithOverhead: the pod states a pod-level cpu request whose canonical string
// has more than 18 digits (beyond the int64 fast path of resource.ParseQuantity) and has a cpu overhead.
func c13PodLevelCPUDecFormWithOverhead(pod *corev1.Pod) bool {
	if pod.Spec.Resources == nil {
		return false
	}
	q, ok := pod.Spec.Resources.Requests[corev1.ResourceCPU]
	if !ok {
		return false
	}
	if o, ok := pod.Spec.Overhead[corev1.ResourceCPU]; !ok || c13Rat(o).Sign() == 0 {
		return false
	}
	digits := 0
	for _, ch := range q.String() {
		if ch >= '0' && ch <= '9' {
			digits++
		} else if ch != '.' && ch != '-' && ch != '+' {
			break
		}
	}
	return digits > 18
}

// c13Shape: an abstract description of the pod's resource shape (evidence only).
func c13Shape(p *corev1.Pod) string {
	f := map[string]bool{}
	for gi, cs := range [][]corev1.Container{p.Spec.InitContainers, p.Spec.Containers} {
		for i := range cs {
			if gi == 0 {
				f["init"] = true
			}
			rr := cs[i].Resources
			for _, n := range []corev1.ResourceName{corev1.ResourceCPU, corev1.ResourceMemory} {
				_, rq := rr.Requests[n]
				_, lm := rr.Limits[n]
				if rq || lm {
					f["native"] = true
				}
				if lm && !rq {
					f["limitonly"] = true
				}
			}
			for _, n := range []corev1.ResourceName{c13BatchCPU, c13BatchMemory, c13MidCPU, c13MidMemory} {
				_, rq := rr.Requests[n]
				_, lm := rr.Limits[n]
				if rq || lm {
					f["tier"] = true
				}
			}
			for _, l := range []corev1.ResourceList{rr.Requests, rr.Limits} {
				if q, ok := l[corev1.ResourceCPU]; ok {
					v := c13Rat(q)
					if !v.IsInt() {
						f["fraccpu"] = true
					}
					if !new(big.Rat).Mul(v, new(big.Rat).SetInt64(1000)).IsInt() {
						f["submilli"] = true
					}
				}
			}
		}
	}
	if len(p.Spec.Overhead) > 0 {
		f["overhead"] = true
	}
	keys := make([]string, 0, len(f))
	for k := range f {
		keys = append(keys, k)
	}
	sort.Strings(keys)
	return fmt.Sprintf("%dc%di:%s", len(p.Spec.Containers), len(p.Spec.InitContainers), strings.Join(keys, "+"))
}
