//go:build verif

package evictions

// C16 (a) monitors for the eviction caps: PodEvictor.Evict and the bare EvictionLimiter driven by
// 1-16 concurrent goroutines against a recording fake API server. See /verif/DESIGN.md C16 (a).
//
// Causal rules of the workload: a pod to evict has a namespace and usually a node (12% are pending
// pods without a node); plugins mostly pick distinct victims, in 10% of the cases some victims are
// picked by two callers; API failures are a pre-drawn property of the pod (so the script does not
// depend on the interleaving); while evictions run, other goroutines read the counters and the
// limit-exceeded getters (plugins do that to decide whether to go on).
//
// Oracles: race detector (driver); conservation at quiescence; linearizability of fault-free
// histories (recorded here at the client boundary, checked offline by tools/lincheck/porcupine).

import (
	"context"
	"encoding/json"
	"fmt"
	"os"
	"path/filepath"
	"runtime"
	"sort"
	"sync"
	"sync/atomic"
	"testing"
	"time"

	corev1 "k8s.io/api/core/v1"
	apierrors "k8s.io/apimachinery/pkg/api/errors"
	metav1 "k8s.io/apimachinery/pkg/apis/meta/v1"
	k8sruntime "k8s.io/apimachinery/pkg/runtime"
	"k8s.io/apimachinery/pkg/runtime/schema"
	"k8s.io/client-go/kubernetes/fake"
	core "k8s.io/client-go/testing"
	"k8s.io/klog/v2"

	"github.com/koordinator-sh/koordinator/pkg/descheduler/framework"
	kit "github.com/koordinator-sh/koordinator/pkg/verifkit"
)

func init() {
	klog.SetOutput(c16Discard{})
	klog.LogToStderr(false)
}

type c16Discard struct{}

func (c16Discard) Write(p []byte) (int, error) { return len(p), nil }

type c16Recorder struct{}

func (c16Recorder) Eventf(regarding k8sruntime.Object, related k8sruntime.Object, eventtype, reason, action, note string, args ...interface{}) {
}

type c16Op struct {
	Proc int    `json:"proc"`
	Call int64  `json:"call"`
	Ret  int64  `json:"ret"`
	Op   string `json:"op"`
	Node string `json:"node"`
	NS   string `json:"ns"`
	Out  int64  `json:"out"`
}

type c16History struct {
	Property string  `json:"property"`
	Unit     string  `json:"unit"`
	Kind     string  `json:"kind"`
	Case     int     `json:"case"`
	Seed     uint64  `json:"seed"`
	Tier     string  `json:"tier"`
	CapNode  int64   `json:"cap_node"`
	CapNS    int64   `json:"cap_ns"`
	CapTotal int64   `json:"cap_total"`
	DryRun   bool    `json:"dry_run"`
	Ops      []c16Op `json:"ops"`
}

var (
	c16HistMu   sync.Mutex
	c16HistFile *os.File
)

// c16WriteHistory appends one history (one JSON document per line) for the offline checker.
func c16WriteHistory(h *c16History) {
	c16HistMu.Lock()
	defer c16HistMu.Unlock()
	if c16HistFile == nil {
		dir := os.Getenv("VERIF_OUT")
		if dir == "" {
			dir = os.TempDir()
		}
		f, err := os.OpenFile(filepath.Join(dir, fmt.Sprintf("hist-evictions-%d.json", os.Getpid())), os.O_CREATE|os.O_WRONLY|os.O_TRUNC, 0o644)
		if err != nil {
			return
		}
		c16HistFile = f
	}
	b, _ := json.Marshal(h)
	c16HistFile.Write(append(b, '\n'))
}

func c16Seed() uint64 {
	var s uint64 = 1
	fmt.Sscanf(os.Getenv("VERIF_SEED"), "%d", &s)
	return s
}

// c16Cap draws a cap: unset, 0, small (1-3, the interesting range), medium, large, and the largest
// value a uint holds. The second result is the cap as the offline checker reads it (-1 = no cap;
// MaxUint can never bind and is reported as -1).
func c16Cap(r *kit.Rand) (*uint, int64) {
	switch r.Weighted(16, 14, 42, 14, 9, 5) {
	case 0:
		return nil, -1
	case 1:
		v := uint(0)
		return &v, 0
	case 2:
		v := uint(r.Range(1, 3))
		return &v, int64(v)
	case 3:
		v := uint(r.Range(4, 8))
		return &v, int64(v)
	case 4:
		v := kit.Pick(r, []uint{64, 1000, 1 << 40})
		return &v, int64(v)
	default:
		v := ^uint(0)
		return &v, -1
	}
}

func c16Over(n int, limit *uint) bool { return limit != nil && uint(n) > *limit }

type c16Pod struct {
	pod  *corev1.Pod
	fail int // 0 ok, 1 generic error, 2 TooManyRequests, 3 NotFound
}

func c16MakePods(r *kit.Rand, n, nodes, nss int, failPct, dupPct int, nodeName, nsName string) []*c16Pod {
	pods := make([]*c16Pod, n)
	for i := range pods {
		if i > 0 && r.Pct(dupPct) {
			pods[i] = pods[r.Intn(i)] // two callers picked the same victim
			continue
		}
		p := &corev1.Pod{ObjectMeta: metav1.ObjectMeta{Name: fmt.Sprintf("p%d", i), Namespace: fmt.Sprintf(nsName, r.Intn(nss)), UID: "uid"},
			Spec: corev1.PodSpec{NodeName: fmt.Sprintf(nodeName, r.Intn(nodes))}}
		if r.Pct(12) {
			p.Spec.NodeName = "" // pending pod: the per-node cap has no node to apply to
		}
		cp := &c16Pod{pod: p}
		if r.Pct(failPct) {
			cp.fail = r.Range(1, 3)
		}
		pods[i] = cp
	}
	return pods
}

// c16API is the recording fake API server: every eviction request it receives is logged with the
// order of arrival; the reactor is also the yield point between the evictor's cap check and its
// counter increment (that window is exactly where the real code calls the API server).
type c16API struct {
	mu       sync.Mutex
	received []string // "ns/name" in arrival order
	ok       map[string]bool
	fail     map[string]int
	yield    func()
}

func (a *c16API) client() *fake.Clientset {
	cs := &fake.Clientset{}
	cs.Fake.AddReactor("create", "pods", func(action core.Action) (bool, k8sruntime.Object, error) {
		if action.GetSubresource() != "eviction" {
			return false, nil, nil
		}
		ca := action.(core.CreateAction)
		var name string
		if m, err := metaName(ca.GetObject()); err == nil {
			name = m
		}
		key := action.GetNamespace() + "/" + name
		a.yield()
		a.mu.Lock()
		a.received = append(a.received, key)
		f := a.fail[key]
		if f == 0 {
			a.ok[key] = true
		}
		a.mu.Unlock()
		a.yield()
		switch f {
		case 1:
			return true, nil, fmt.Errorf("injected API failure")
		case 2:
			return true, nil, apierrors.NewTooManyRequests("injected", 1)
		case 3:
			return true, nil, apierrors.NewNotFound(schema.GroupResource{Resource: "pods"}, name)
		}
		return true, nil, nil
	})
	return cs
}

func metaName(obj k8sruntime.Object) (string, error) {
	acc, ok := obj.(metav1.Object)
	if !ok {
		return "", fmt.Errorf("no meta")
	}
	return acc.GetName(), nil
}

func c16Yielder(r *kit.Rand) func() {
	var mu sync.Mutex
	return func() {
		mu.Lock()
		v := r.Intn(8)
		mu.Unlock()
		switch {
		case v < 3:
		case v < 6:
			runtime.Gosched()
		case v < 7:
			time.Sleep(20 * time.Microsecond)
		default:
			time.Sleep(120 * time.Microsecond)
		}
	}
}

func TestVerifC16PodEvictor(t *testing.T) {
	kit.Run(t, kit.Config{Property: "C16", Unit: "podevictor", Quick: 5000, Thorough: 40000,
		Rule: "PodEvictor with per-node / per-namespace caps unset|0|1-3|4-8|large|MaxUint, 1-16 goroutines each evicting 1-8 pods (mostly distinct, in 10% of the cases some victims twice; 12% pods without a node) over 1-6 nodes x 1-5 namespaces (names may collide) against a recording fake API server whose reactor yields, 0-2 goroutines reading counters / limit-exceeded getters meanwhile; 40% of cases script API failures per pod; 8% dry-run; delete options / plugin name from context varied; distinct = (caps, goroutines, faults?, arrival order of API requests with results); non-trivial = >=2 goroutines and some cap that binds (more requests than the cap on a node/namespace)"},
		func(c *kit.Case) {
			r := c.R
			nodeCap, nodeCapV := c16Cap(r)
			nsCap, nsCapV := c16Cap(r)
			dry := r.Pct(8)
			g := kit.Pick(r, []int{1, 2, 2, 3, 4, 4, 6, 8, 12, 16})
			nodes, nss := kit.Pick(r, []int{1, 2, 2, 3, 3, 4, 6}), kit.Pick(r, []int{1, 2, 2, 3, 3, 5})
			nodeName, nsName := "node%d", "ns%d"
			if r.Pct(10) {
				nodeName, nsName = "x%d", "x%d" // node and namespace names collide
			}
			failPct := 0
			if r.Pct(40) {
				failPct = kit.Pick(r, []int{10, 30, 60, 100})
			}
			dupPct := 0
			if r.Pct(10) {
				dupPct = 25
			}
			maxPer := 4
			if r.Pct(15) {
				maxPer = 8
			}
			per := make([]int, g)
			total := 0
			for i := range per {
				per[i] = r.Range(1, maxPer)
				if total+per[i] > 64-(g-1-i) {
					per[i] = 1
				}
				total += per[i]
			}
			pods := c16MakePods(r, total, nodes, nss, failPct, dupPct, nodeName, nsName)
			readers := 0
			if r.Pct(50) {
				readers = r.Range(1, 2)
			}
			var delOpts *metav1.DeleteOptions
			if r.Pct(30) {
				gp := int64(kit.Pick(r, []int{0, 1, 30}))
				delOpts = &metav1.DeleteOptions{GracePeriodSeconds: &gp}
			}
			ctxNamed := r.Pct(30) // plugin name and reason come from the context, as in RunDeschedulePlugins
			api := &c16API{ok: map[string]bool{}, fail: map[string]int{}, yield: c16Yielder(r.Fork())}
			anyFail := false
			for _, p := range pods {
				if p.fail != 0 {
					api.fail[p.pod.Namespace+"/"+p.pod.Name] = p.fail
					anyFail = true
				}
			}
			pe := NewPodEvictor(api.client(), c16Recorder{}, kit.Pick(r, []string{"v1", "policy/v1", ""}), dry, nodeCap, nsCap)
			c.Op("caps node=%d ns=%d dry=%v goroutines=%d pods=%d failPct=%d dupPct=%d readers=%d", nodeCapV, nsCapV, dry, g, total, failPct, dupPct, readers)
			// concurrent readers of the counters (no oracle of their own: they are there for the race detector)
			var stop int32
			var rwg sync.WaitGroup
			for ri := 0; ri < readers; ri++ {
				rwg.Add(1)
				go func(ri int) {
					defer rwg.Done()
					for i := 0; atomic.LoadInt32(&stop) == 0; i++ {
						n, ns := fmt.Sprintf(nodeName, (i+ri)%nodes), fmt.Sprintf(nsName, (i+ri)%nss)
						_ = pe.NodeEvicted(n)
						_ = pe.NamespaceEvicted(ns)
						_ = pe.TotalEvicted()
						_ = pe.NodeLimitExceeded(n)
						_ = pe.NamespaceLimitExceeded(ns)
						api.yield()
					}
				}(ri)
			}
			var clock int64
			ops := make([][]c16Op, g)
			results := make([]bool, total)
			var wg sync.WaitGroup
			idx := 0
			startCh := make(chan struct{})
			for gi := 0; gi < g; gi++ {
				mine := pods[idx : idx+per[gi]]
				base := idx
				idx += per[gi]
				wg.Add(1)
				go func(gi int, mine []*c16Pod, base int) {
					defer wg.Done()
					<-startCh
					for j, p := range mine {
						call := atomic.AddInt64(&clock, 1)
						ctx, opts := context.TODO(), framework.EvictOptions{PluginName: "verif", Reason: "c16", DeleteOptions: delOpts}
						if ctxNamed {
							ctx = framework.PluginNameWithContext(ctx, "verif-from-context")
							opts.PluginName = ""
						}
						ok := pe.Evict(ctx, p.pod, opts)
						ret := atomic.AddInt64(&clock, 1)
						results[base+j] = ok
						out := int64(0)
						if ok {
							out = 1
						}
						ops[gi] = append(ops[gi], c16Op{Proc: gi, Call: call, Ret: ret, Op: "evict", Node: p.pod.Spec.NodeName, NS: p.pod.Namespace, Out: out})
					}
				}(gi, mine, base)
			}
			close(startCh)
			wg.Wait()
			atomic.StoreInt32(&stop, 1)
			rwg.Wait()
			// ---- quiescent: conservation oracles
			okNode, okNS := map[string]int{}, map[string]int{}
			reqNode, reqNS := map[string]int{}, map[string]int{}
			okTotal, noNode := 0, 0
			byKey := map[string]*c16Pod{}
			calls, trueCnt := map[string]int{}, map[string]int{}
			for i, p := range pods {
				k := p.pod.Namespace + "/" + p.pod.Name
				byKey[k] = p
				calls[k]++
				if results[i] {
					trueCnt[k]++
				}
				if p.pod.Spec.NodeName != "" {
					reqNode[p.pod.Spec.NodeName]++
				} else {
					noNode++
				}
				reqNS[p.pod.Namespace]++
			}
			c.Count("pods_without_node", noNode)
			seen, okCnt := map[string]int{}, map[string]int{}
			arrival := ""
			for _, k := range api.received {
				seen[k]++
				p := byKey[k]
				if p == nil {
					c.Harness("API saw unknown pod %s", k)
				}
				arrival += fmt.Sprintf("%s:%d,", k, p.fail)
				if p.fail == 0 {
					okCnt[k]++
					if p.pod.Spec.NodeName != "" {
						okNode[p.pod.Spec.NodeName]++
					}
					okNS[p.pod.Namespace]++
					okTotal++
				}
			}
			for i, p := range pods {
				k := p.pod.Namespace + "/" + p.pod.Name
				c.Op("evict %s node=%s fail=%d -> %v (api requests for the pod=%d of %d Evict calls)", k, p.pod.Spec.NodeName, p.fail, results[i], seen[k], calls[k])
			}
			c.Count("evict_calls", total)
			c.Count("api_requests", len(api.received))
			c.Count("api_successes", okTotal)
			if dry {
				c.Count("dry_run_cases", 1)
				if len(api.received) != 0 {
					c.Fail("C16/podevictor/dry-run-api-call", "dry-run PodEvictor issued %d API eviction requests", len(api.received))
				}
				return
			}
			binds := false
			for n, k := range okNode {
				if c16Over(k, nodeCap) {
					c.Fail("C16/podevictor/node-cap-exceeded", "%d evictions were issued successfully on %s, per-node cap is %d (goroutines=%d)", k, n, *nodeCap, g)
				}
			}
			for n, k := range okNS {
				if c16Over(k, nsCap) {
					c.Fail("C16/podevictor/namespace-cap-exceeded", "%d evictions were issued successfully in %s, per-namespace cap is %d (goroutines=%d)", k, n, *nsCap, g)
				}
			}
			if got := pe.NodeEvicted(""); got != 0 {
				c.Fail("C16/podevictor/node-counter", "NodeEvicted(\"\")=%d: evictions of pods without a node were booked on the empty node name", got)
			}
			for n, k := range reqNode {
				if c16Over(k, nodeCap) {
					binds = true
				}
				if got := pe.NodeEvicted(n); int(got) != okNode[n] {
					c.Fail("C16/podevictor/node-counter", "NodeEvicted(%s)=%d but %d evictions were issued successfully there", n, got, okNode[n])
				}
			}
			for n, k := range reqNS {
				if c16Over(k, nsCap) {
					binds = true
				}
				if got := pe.NamespaceEvicted(n); int(got) != okNS[n] {
					c.Fail("C16/podevictor/namespace-counter", "NamespaceEvicted(%s)=%d but %d evictions were issued successfully there", n, got, okNS[n])
				}
			}
			if got := pe.TotalEvicted(); got != okTotal {
				c.Fail("C16/podevictor/total-counter", "TotalEvicted()=%d but %d evictions were issued successfully", got, okTotal)
			}
			for k, n := range calls {
				if n > 1 {
					c.Count("duplicate_victims", n-1)
				}
				if seen[k] > n {
					c.Fail("C16/podevictor/duplicate-request", "pod %s was evicted through the API %d times by %d Evict calls", k, seen[k], n)
				}
				if trueCnt[k] > okCnt[k] {
					c.Fail("C16/podevictor/reported-without-eviction", "%d Evict(%s) calls returned true but %d successful API evictions were issued", trueCnt[k], k, okCnt[k])
				}
				if trueCnt[k] < okCnt[k] {
					c.Fail("C16/podevictor/evicted-but-refused", "%d API evictions of %s were issued successfully but only %d Evict calls returned true (side effect of a refused call)", okCnt[k], k, trueCnt[k])
				}
				c.Count("refused_without_api_call", n-seen[k])
			}
			if g >= 2 && binds {
				c.NonTrivial()
			}
			c.Seen(nodeCapV, nsCapV, g, anyFail, arrival)
			if !anyFail && nodeCapV == 0 && noNode > 0 {
				// PodEvictor refuses a pod without a node when the per-node cap is 0 (count("") >= 0); the
				// sequential specification says the node cap does not apply to it. The statement allows
				// either (a refusal breaks no cap), so this history is not handed to the checker.
				c.Count("histories_not_recorded_nodeless_pod_under_zero_node_cap", 1)
			} else if !anyFail {
				var all []c16Op
				for _, o := range ops {
					all = append(all, o...)
				}
				sort.Slice(all, func(i, j int) bool { return all[i].Call < all[j].Call })
				c16WriteHistory(&c16History{Property: "C16", Unit: "podevictor", Kind: "podevictor", Case: c.K, Seed: c16Seed(), Tier: c.Tier,
					CapNode: nodeCapV, CapNS: nsCapV, CapTotal: -1, Ops: all})
				c.Count("histories_recorded", 1)
			}
			if c.K < 2 {
				c.Sample(map[string]any{"caps": []int64{nodeCapV, nsCapV}, "goroutines": g, "pods": total, "api_arrival_order": api.received, "results": results})
			}
		})
}

// The bare limiter as a shared object: AllowEvict / Done / getters / Reset from 1-8 goroutines.
// Its only behavioural oracle is linearizability against the capped-counter specification (offline),
// plus the race detector. NodeLimitExceeded is not part of the recorded alphabet: the statement says
// nothing about it.
func TestVerifC16Limiter(t *testing.T) {
	kit.Run(t, kit.Config{Property: "C16", Unit: "limiter", Quick: 5000, Thorough: 40000,
		Rule: "bare EvictionLimiter (caps node/namespace/total unset|0|1-3|4-8|large|MaxUint) used by 1-16 goroutines issuing 1-8 operations each (<=40 recorded operations, <=24 above 8 goroutines) from {AllowEvict, Done, NodeEvicted, NamespaceEvicted, TotalEvicted, rare Reset; unrecorded *LimitExceeded calls} over 1-3 nodes x 1-3 namespaces, pods without node; every history (<=40 ops) is checked offline for linearizability; distinct/non-trivial are measured by the offline checker"},
		func(c *kit.Case) {
			r := c.R
			nodeCap, nodeCapV := c16Cap(r)
			nsCap, nsCapV := c16Cap(r)
			totCap, totCapV := c16Cap(r)
			l := NewEvictionLimiter(nodeCap, nsCap, totCap)
			g := kit.Pick(r, []int{1, 2, 2, 2, 3, 3, 4, 4, 4, 5, 5, 6, 8, 8, 8, 8, 8, 8, 12, 16})
			nodes, nss := r.Range(1, 3), r.Range(1, 3)
			type planned struct {
				op       string
				node, ns string
			}
			plans := make([][]planned, g)
			budget := 40
			if g > 8 {
				budget = 24 // wide histories are what the offline checker pays for: keep them short
			}
			for gi := range plans {
				n := r.Range(3, 8)
				if n > budget/g {
					n = budget / g
				}
				for j := 0; j < n; j++ {
					op := []string{"allow", "done", "node", "ns", "total", "reset"}[r.Weighted(30, 30, 12, 12, 12, 2)]
					if r.Pct(8) {
						op = "exceeded" // NodeLimitExceeded / NamespaceLimitExceeded: called, not recorded
						j--
					}
					node := fmt.Sprintf("node%d", r.Intn(nodes))
					if (op == "allow" || op == "done") && r.Pct(12) {
						node = "" // a pod that is not assigned to a node: namespace and total caps only
					}
					if op == "node" && r.Pct(8) {
						node = "" // nothing may ever be booked on the empty node name
					}
					plans[gi] = append(plans[gi], planned{op, node, fmt.Sprintf("ns%d", r.Intn(nss))})
				}
			}
			yield := c16Yielder(r.Fork())
			var clock int64
			ops := make([][]c16Op, g)
			var wg sync.WaitGroup
			startCh := make(chan struct{})
			for gi := 0; gi < g; gi++ {
				wg.Add(1)
				go func(gi int) {
					defer wg.Done()
					<-startCh
					for _, p := range plans[gi] {
						pod := &corev1.Pod{ObjectMeta: metav1.ObjectMeta{Name: "x", Namespace: p.ns}, Spec: corev1.PodSpec{NodeName: p.node}}
						yield()
						call := atomic.AddInt64(&clock, 1)
						var out int64
						switch p.op {
						case "allow":
							if l.AllowEvict(pod) {
								out = 1
							}
						case "done":
							l.Done(pod)
						case "node":
							out = int64(l.NodeEvicted(p.node))
						case "ns":
							out = int64(l.NamespaceEvicted(p.ns))
						case "total":
							out = int64(l.TotalEvicted())
						case "reset":
							l.Reset()
						case "exceeded":
							_ = l.NodeLimitExceeded(&corev1.Node{ObjectMeta: metav1.ObjectMeta{Name: p.node}})
							_ = l.NamespaceLimitExceeded(p.ns)
							continue
						}
						ret := atomic.AddInt64(&clock, 1)
						ops[gi] = append(ops[gi], c16Op{Proc: gi, Call: call, Ret: ret, Op: p.op, Node: p.node, NS: p.ns, Out: out})
					}
				}(gi)
			}
			close(startCh)
			wg.Wait()
			var all []c16Op
			for _, o := range ops {
				all = append(all, o...)
			}
			sort.Slice(all, func(i, j int) bool { return all[i].Call < all[j].Call })
			for _, o := range all {
				c.Op("g%d %s(%s,%s) -> %d [%d,%d]", o.Proc, o.Op, o.Node, o.NS, o.Out, o.Call, o.Ret)
				c.Count("limiter_op_"+o.Op, 1)
			}
			c16WriteHistory(&c16History{Property: "C16", Unit: "limiter", Kind: "limiter", Case: c.K, Seed: c16Seed(), Tier: c.Tier,
				CapNode: nodeCapV, CapNS: nsCapV, CapTotal: totCapV, Ops: all})
			c.Count("histories_recorded", 1)
			if g >= 2 {
				c.NonTrivial()
			}
			c.Seen("limiter", nodeCapV, nsCapV, totCapV, g)
		})
}
