//go:build verif

package defaultevictor

// C16 (a) end to end: a framework handle built by the real runtime.NewFramework from a profile
// whose evict plugin is the real DefaultEvictor (arguments: defaults or varied, they only steer
// Filter), with the process-wide EvictionLimiter and the dry-run switch passed as options; 1-16
// goroutines evict through handle.Evictor(); the ground truth for "evictions issued" is the fake
// API server (client-go fake clientset reactor on pods/eviction, which also yields).
// The composite under test is evictorProxy(limiter) -> DefaultEvictor -> PodEvictor(no own caps) -> API.
//
// Oracles (conservation at quiescence): issued <= caps per node / namespace / total, limiter
// counters == issued, a refused call reached no API, dry run reaches no API; race detector.
// Causal rules: as in the evictions unit (pods with namespace, 12% without node, victims mostly
// distinct, API failures pre-drawn per pod).

import (
	"context"
	"flag"
	"fmt"
	goruntime "runtime"
	"sync"
	"testing"
	"time"

	corev1 "k8s.io/api/core/v1"
	policyv1beta1 "k8s.io/api/policy/v1beta1"
	apierrors "k8s.io/apimachinery/pkg/api/errors"
	metav1 "k8s.io/apimachinery/pkg/apis/meta/v1"
	k8sruntime "k8s.io/apimachinery/pkg/runtime"
	"k8s.io/apimachinery/pkg/runtime/schema"
	"k8s.io/client-go/informers"
	kubefake "k8s.io/client-go/kubernetes/fake"
	core "k8s.io/client-go/testing"
	"k8s.io/client-go/tools/events"
	"k8s.io/klog/v2"

	deschedulerconfig "github.com/koordinator-sh/koordinator/pkg/descheduler/apis/config"
	"github.com/koordinator-sh/koordinator/pkg/descheduler/evictions"
	"github.com/koordinator-sh/koordinator/pkg/descheduler/framework"
	frameworkruntime "github.com/koordinator-sh/koordinator/pkg/descheduler/framework/runtime"
	koordutil "github.com/koordinator-sh/koordinator/pkg/util"
	kit "github.com/koordinator-sh/koordinator/pkg/verifkit"
)

func init() {
	fs := flag.NewFlagSet("klog", flag.ContinueOnError)
	klog.InitFlags(fs)
	_ = fs.Set("logtostderr", "false")
	_ = fs.Set("alsologtostderr", "false")
	_ = fs.Set("stderrthreshold", "FATAL")
	klog.SetOutput(c16eDiscard{})
	klog.LogToStderr(false)
}

type c16eDiscard struct{}

func (c16eDiscard) Write(p []byte) (int, error) { return len(p), nil }

type c16eAPI struct {
	mu       sync.Mutex
	received []string
	fail     map[string]int
	yield    func()
}

func (a *c16eAPI) client() *kubefake.Clientset {
	cs := kubefake.NewSimpleClientset()
	fk := &cs.Fake
	// discovery must advertise the eviction subresource or DefaultEvictor refuses to start
	fk.AddReactor("get", "group", func(action core.Action) (bool, k8sruntime.Object, error) {
		fk.Resources = []*metav1.APIResourceList{{GroupVersion: policyv1beta1.SchemeGroupVersion.String(),
			APIResources: []metav1.APIResource{{Name: koordutil.EvictionSubResourceName, Kind: koordutil.EvictionKind}}}}
		return true, nil, nil
	})
	fk.AddReactor("get", "resource", func(action core.Action) (bool, k8sruntime.Object, error) {
		fk.Resources = []*metav1.APIResourceList{{GroupVersion: "v1",
			APIResources: []metav1.APIResource{{Name: koordutil.EvictionSubResourceName, Kind: koordutil.EvictionKind}}}}
		return true, nil, nil
	})
	fk.PrependReactor("create", "pods", func(action core.Action) (bool, k8sruntime.Object, error) {
		if action.GetSubresource() != "eviction" {
			return false, nil, nil
		}
		name := ""
		if acc, ok := action.(core.CreateAction).GetObject().(metav1.Object); ok {
			name = acc.GetName()
		}
		key := action.GetNamespace() + "/" + name
		a.yield()
		a.mu.Lock()
		a.received = append(a.received, key)
		f := a.fail[key]
		a.mu.Unlock()
		a.yield()
		switch f {
		case 1:
			return true, nil, fmt.Errorf("injected API failure")
		case 2:
			return true, nil, apierrors.NewTooManyRequests("injected", 1)
		case 3:
			return true, nil, apierrors.NewNotFound(schema.GroupResource{Resource: "pods"}, name)
		}
		return true, nil, nil
	})
	return cs
}

func c16eYielder(r *kit.Rand) func() {
	var mu sync.Mutex
	return func() {
		mu.Lock()
		v := r.Intn(8)
		mu.Unlock()
		switch {
		case v < 3:
		case v < 6:
			goruntime.Gosched()
		case v < 7:
			time.Sleep(20 * time.Microsecond)
		default:
			time.Sleep(120 * time.Microsecond)
		}
	}
}

func c16eCap(r *kit.Rand) (*uint, int64) {
	switch r.Weighted(24, 12, 40, 12, 8, 4) {
	case 0:
		return nil, -1
	case 1:
		v := uint(0)
		return &v, 0
	case 2:
		v := uint(r.Range(1, 3))
		return &v, int64(v)
	case 3:
		v := uint(r.Range(4, 8))
		return &v, int64(v)
	case 4:
		v := kit.Pick(r, []uint{64, 1000, 1 << 40})
		return &v, int64(v)
	default:
		v := ^uint(0)
		return &v, -1
	}
}

func c16eOver(n int, limit *uint) bool { return limit != nil && uint(n) > *limit }

func TestVerifC16EndToEnd(t *testing.T) {
	kit.Run(t, kit.Config{Property: "C16", Unit: "e2e", Quick: 1500, Thorough: 20000,
		Rule: "handle from the real NewFramework (profile with the real DefaultEvictor as evict plugin, default or varied arguments; EvictionLimiter with node/namespace/total caps unset|0|1-3|4-8|large|MaxUint and dry-run passed as framework options), 1-16 goroutines each evicting 1-4 pods (12% without node, some victims twice) over 1-6 nodes x 1-5 namespaces through handle.Evictor() against a recording fake API server whose reactor yields; 35% of cases script API failures per pod; 8% dry-run; distinct = (caps, goroutines, faults?, arrival order at the API); non-trivial = >=2 goroutines and a cap that binds"},
		func(c *kit.Case) {
			r := c.R
			nodeCap, nodeCapV := c16eCap(r)
			nsCap, nsCapV := c16eCap(r)
			totCap, totCapV := c16eCap(r)
			dry := r.Pct(8)
			g := kit.Pick(r, []int{1, 2, 2, 3, 4, 4, 6, 8, 12, 16})
			nodes, nss := kit.Pick(r, []int{1, 2, 2, 3, 3, 4, 6}), kit.Pick(r, []int{1, 2, 2, 3, 3, 5})
			failPct := 0
			if r.Pct(35) {
				failPct = kit.Pick(r, []int{10, 30, 60, 100})
			}
			dupPct := 0
			if r.Pct(10) {
				dupPct = 25
			}
			api := &c16eAPI{fail: map[string]int{}, yield: c16eYielder(r.Fork())}
			cs := api.client()
			limiter := evictions.NewEvictionLimiter(nodeCap, nsCap, totCap)
			var args k8sruntime.Object // nil = the plugin's defaults
			if r.Pct(40) {
				args = &DefaultEvictorArgs{EvictLocalStoragePods: r.Bool(), EvictSystemCriticalPods: r.Bool(), IgnorePvcPods: r.Bool(), EvictFailedBarePods: r.Bool()}
			}
			registry := frameworkruntime.Registry{PluginName: New}
			profile := &deschedulerconfig.DeschedulerProfile{Name: "verif", Plugins: &deschedulerconfig.Plugins{
				Evict:  deschedulerconfig.PluginSet{Enabled: []deschedulerconfig.Plugin{{Name: PluginName}}},
				Filter: deschedulerconfig.PluginSet{Enabled: []deschedulerconfig.Plugin{{Name: PluginName}}},
			}}
			if args != nil {
				profile.PluginConfig = []deschedulerconfig.PluginConfig{{Name: PluginName, Args: args}}
			}
			h, err := frameworkruntime.NewFramework(context.TODO(), registry, profile,
				frameworkruntime.WithClientSet(cs),
				frameworkruntime.WithSharedInformerFactory(informers.NewSharedInformerFactory(cs, 0)),
				frameworkruntime.WithEventRecorder(&events.FakeRecorder{}),
				frameworkruntime.WithDryRun(dry),
				frameworkruntime.WithEvictionLimiter(limiter),
				frameworkruntime.WithGetPodsAssignedToNodeFunc(func(string, framework.FilterFunc) ([]*corev1.Pod, error) { return nil, nil }),
			)
			if err != nil {
				c.Harness("NewFramework: %v", err)
			}
			per := make([]int, g)
			total := 0
			for i := range per {
				per[i] = r.Range(1, 4)
				total += per[i]
			}
			pods := make([]*corev1.Pod, total)
			calls := map[string]int{}
			anyFail := false
			for i := range pods {
				if i > 0 && r.Pct(dupPct) {
					pods[i] = pods[r.Intn(i)]
				} else {
					pods[i] = &corev1.Pod{ObjectMeta: metav1.ObjectMeta{Name: fmt.Sprintf("p%d", i), Namespace: fmt.Sprintf("ns%d", r.Intn(nss))},
						Spec: corev1.PodSpec{NodeName: fmt.Sprintf("node%d", r.Intn(nodes))}}
					if r.Pct(12) {
						pods[i].Spec.NodeName = ""
					}
					if r.Pct(failPct) {
						api.fail[pods[i].Namespace+"/"+pods[i].Name] = r.Range(1, 3)
						anyFail = true
					}
				}
				calls[pods[i].Namespace+"/"+pods[i].Name]++
			}
			c.Op("caps node=%d ns=%d total=%d dry=%v goroutines=%d pods=%d failPct=%d dupPct=%d args=%v", nodeCapV, nsCapV, totCapV, dry, g, total, failPct, dupPct, args != nil)
			results := make([]bool, total)
			var wg sync.WaitGroup
			startCh := make(chan struct{})
			idx := 0
			for gi := 0; gi < g; gi++ {
				mine := pods[idx : idx+per[gi]]
				base := idx
				idx += per[gi]
				wg.Add(1)
				go func(mine []*corev1.Pod, base int) {
					defer wg.Done()
					<-startCh
					for j, p := range mine {
						results[base+j] = h.Evictor().Evict(context.TODO(), p, framework.EvictOptions{PluginName: "verif", Reason: "c16"})
					}
				}(mine, base)
			}
			close(startCh)
			wg.Wait()
			okNode, okNS, reqNode, reqNS := map[string]int{}, map[string]int{}, map[string]int{}, map[string]int{}
			byKey := map[string]*corev1.Pod{}
			trueCnt := map[string]int{}
			for i, p := range pods {
				k := p.Namespace + "/" + p.Name
				byKey[k] = p
				if p.Spec.NodeName != "" {
					reqNode[p.Spec.NodeName]++
				}
				reqNS[p.Namespace]++
				if results[i] {
					trueCnt[k]++
				}
			}
			seen, okCnt := map[string]int{}, map[string]int{}
			okTotal := 0
			arrival := ""
			for _, k := range api.received {
				seen[k]++
				p := byKey[k]
				if p == nil {
					c.Harness("API saw unknown pod %s", k)
				}
				arrival += fmt.Sprintf("%s:%d,", k, api.fail[k])
				if api.fail[k] == 0 {
					okCnt[k]++
					if p.Spec.NodeName != "" {
						okNode[p.Spec.NodeName]++
					}
					okNS[p.Namespace]++
					okTotal++
				}
			}
			for i, p := range pods {
				k := p.Namespace + "/" + p.Name
				c.Op("evict %s node=%s fail=%d -> %v (api requests for the pod=%d of %d Evict calls)", k, p.Spec.NodeName, api.fail[k], results[i], seen[k], calls[k])
			}
			c.Count("e2e_evict_calls", total)
			c.Count("e2e_api_requests", len(api.received))
			c.Count("e2e_api_successes", okTotal)
			if dry {
				c.Count("e2e_dry_run_cases", 1)
				if len(api.received) != 0 {
					c.Fail("C16/e2e/dry-run-api-call", "dry-run framework issued %d API eviction requests", len(api.received))
				}
				return
			}
			binds := c16eOver(total, totCap)
			for n, k := range okNode {
				if c16eOver(k, nodeCap) {
					c.Fail("C16/e2e/node-cap-exceeded", "%d evictions were issued on %s, per-node cap is %d (goroutines=%d)", k, n, *nodeCap, g)
				}
			}
			for n, k := range okNS {
				if c16eOver(k, nsCap) {
					c.Fail("C16/e2e/namespace-cap-exceeded", "%d evictions were issued in %s, per-namespace cap is %d (goroutines=%d)", k, n, *nsCap, g)
				}
			}
			if c16eOver(okTotal, totCap) {
				c.Fail("C16/e2e/total-cap-exceeded", "%d evictions were issued in total, cap is %d (goroutines=%d)", okTotal, *totCap, g)
			}
			for n, k := range reqNode {
				binds = binds || c16eOver(k, nodeCap)
				if got := limiter.NodeEvicted(n); int(got) != okNode[n] {
					c.Fail("C16/e2e/node-counter", "NodeEvicted(%s)=%d but %d evictions were issued there", n, got, okNode[n])
				}
			}
			for n, k := range reqNS {
				binds = binds || c16eOver(k, nsCap)
				if got := limiter.NamespaceEvicted(n); int(got) != okNS[n] {
					c.Fail("C16/e2e/namespace-counter", "NamespaceEvicted(%s)=%d but %d evictions were issued there", n, got, okNS[n])
				}
			}
			if got := limiter.TotalEvicted(); int(got) != okTotal {
				c.Fail("C16/e2e/total-counter", "TotalEvicted()=%d but %d evictions were issued", got, okTotal)
			}
			for k, n := range calls {
				if seen[k] > n {
					c.Fail("C16/e2e/duplicate-request", "pod %s was evicted through the API %d times by %d Evict calls", k, seen[k], n)
				}
				if trueCnt[k] > okCnt[k] {
					c.Fail("C16/e2e/reported-without-eviction", "%d Evict(%s) calls returned true but %d successful API evictions were issued", trueCnt[k], k, okCnt[k])
				}
				if trueCnt[k] < okCnt[k] {
					c.Fail("C16/e2e/evicted-but-refused", "%d API evictions of %s were issued successfully but only %d Evict calls returned true", okCnt[k], k, trueCnt[k])
				}
				c.Count("e2e_refused_without_api_call", n-seen[k])
			}
			if g >= 2 && binds {
				c.NonTrivial()
			}
			c.Seen(nodeCapV, nsCapV, totCapV, g, anyFail, arrival)
			if c.K < 2 {
				c.Sample(map[string]any{"caps": []int64{nodeCapV, nsCapV, totCapV}, "goroutines": g, "pods": total, "api_arrival_order": api.received, "results": results})
			}
		})
}
