//go:build verif

package arbitrator

// C16 (b): arbitration rounds. A real arbitratorImpl (real filter built by the real initFilters, the
// real sort chain of New(), the real event handler of handler.go) runs successive doOnceArbitrate()
// rounds against controller-runtime's fake client (status subresource + the five field indexes of
// pkg/descheduler/fieldindex registered) over a generated cluster. The oracle reads only the API
// objects (pods, PodMigrationJobs) before and after every round plus the waitingCollection keys.
// See /verif/DESIGN.md section 4, C16 (b).
//
// Causal rules of the generated histories (what the real system can produce):
//   * One arbitrator lifetime per case. The start-up snapshot contains jobs in Running / Succeeded /
//     Failed / Pending("" or Pending) phases; NO Pending job of the snapshot carries the
//     passed-arbitration annotation (a restart inside the annotate->Running window is out of
//     scope, see the report). In the "restart" flavour every snapshot job is delivered to the
//     handler as a Create event (what an informer does on start-up); in the "warm" flavour only
//     the not-yet-arbitrated Pending jobs are waiting (steady state reached earlier).
//   * A job is created Pending (descheduler: PodRef.UID set, phase Pending, after Arbitrator.Filter
//     said yes or - stale informer cache / concurrent plugins - without it) or "" (user: PodRef by
//     name, UID possibly empty); its Create event reaches the handler before the next round.
//   * Only a job that passed arbitration (annotation written by the arbitrator) is promoted to
//     Running by the reconciler (which then fills PodRef.UID); the one exception is an un-arbitrated
//     job that receives an Update event ("touch": the reconciler is triggered by any update and
//     does not look at the annotation) - it becomes Running and stays in the waiting collection.
//   * Running -> Succeeded (pod evicted, replacement pod with a NEW name) / Failed / Aborted; the
//     terminal Update event reaches the handler immediately or one round late. Deletes likewise.
//   * Pods carry no evict annotation (it bypasses every filter by design). All documented
//     non-retryable rules are in play and modelled as "may forbid" (an over-approximation that only
//     excuses a Failed phase): bare pods, expected replicas, terminating, DaemonSet / mirror /
//     static pods, critical priority and priority threshold, local storage, PVC, label selector,
//     included / excluded namespaces, maximal eviction cost.
//   * A pod name is re-used only the StatefulSet way: the pod is deleted and a successor with the
//     same namespace/name and a NEW uid appears. A job whose podRef carries a uid belongs to the
//     pod with that uid; by-name jobs belong to whatever pod has the name. Pod names may repeat
//     across namespaces.
//   * A pod may be inactive while its Ready condition still says True: a replica that is being
//     deleted gracefully (deletionTimestamp set, containers still serving) and a finished pod
//     (Succeeded/Failed, e.g. of a Job, or a pod whose kubelet no longer reports) whose Ready
//     condition was left True. Per the statement such a pod is unavailable ("NotRunning/NotReady").
//   * Read lag (35% of the cases): as in production, the arbitrator's client writes to the API
//     server but reads (Get/List) from an informer cache. The cache is a second fake client that is
//     rebuilt from the server's objects only at harness-chosen points: always before a round (after
//     the environment delivered its events: nothing foreign is hidden from the arbitrator) and,
//     inside a round, never or after a random number of the arbitrator's own successful writes.
//     The oracle always reads the server.
//   * Every successful write of a PodMigrationJob produces an informer Update event that reaches the
//     real arbitrationHandler - also the arbitrator's own writes (the passed annotation, the Failed
//     status): a moment after the write, i.e. before the arbitrator's next read of the API (fast
//     informer; in read-lag mode together with the cache catching up), or after the round. The
//     event carries the stored object (phase "" for a job whose status was never written).
//   * Workloads are ReplicaSet / StatefulSet / Job kinds owning their pods directly (no Deployment
//     indirection); the fake controller finder answers GetPodsForRef with the API pods owned by the
//     workload UID in the namespace and the workload's expected replicas of the moment.

import (
	"context"
	"flag"
	"fmt"
	"os"
	"sort"
	"strconv"
	"strings"
	"sync"
	"testing"
	"time"

	corev1 "k8s.io/api/core/v1"
	policyv1beta1 "k8s.io/api/policy/v1beta1"
	apierrors "k8s.io/apimachinery/pkg/api/errors"
	metav1 "k8s.io/apimachinery/pkg/apis/meta/v1"
	"k8s.io/apimachinery/pkg/runtime"
	"k8s.io/apimachinery/pkg/types"
	"k8s.io/apimachinery/pkg/util/intstr"
	"k8s.io/client-go/informers"
	kubefake "k8s.io/client-go/kubernetes/fake"
	coretesting "k8s.io/client-go/testing"
	"k8s.io/client-go/tools/events"
	"k8s.io/client-go/util/workqueue"
	"k8s.io/klog/v2"
	"k8s.io/utils/ptr"
	"sigs.k8s.io/controller-runtime/pkg/client"
	"sigs.k8s.io/controller-runtime/pkg/client/fake"
	"sigs.k8s.io/controller-runtime/pkg/client/interceptor"
	"sigs.k8s.io/controller-runtime/pkg/event"
	"sigs.k8s.io/controller-runtime/pkg/handler"
	"sigs.k8s.io/controller-runtime/pkg/reconcile"

	"github.com/koordinator-sh/koordinator/apis/extension"
	sev1alpha1 "github.com/koordinator-sh/koordinator/apis/scheduling/v1alpha1"
	deschedulerconfig "github.com/koordinator-sh/koordinator/pkg/descheduler/apis/config"
	"github.com/koordinator-sh/koordinator/pkg/descheduler/fieldindex"
	"github.com/koordinator-sh/koordinator/pkg/descheduler/framework"
	frameworkruntime "github.com/koordinator-sh/koordinator/pkg/descheduler/framework/runtime"
	"github.com/koordinator-sh/koordinator/pkg/descheduler/utils/sorter"
	koordutil "github.com/koordinator-sh/koordinator/pkg/util"
	kit "github.com/koordinator-sh/koordinator/pkg/verifkit"
)

func init() {
	// klog copies Error-level messages to stderr unless the threshold is raised, whatever SetOutput says
	fs := flag.NewFlagSet("klog", flag.ContinueOnError)
	klog.InitFlags(fs)
	_ = fs.Set("logtostderr", "false")
	_ = fs.Set("alsologtostderr", "false")
	_ = fs.Set("stderrthreshold", "FATAL")
	klog.SetOutput(c16aDiscard{})
	klog.LogToStderr(false)
}

type c16aDiscard struct{}

func (c16aDiscard) Write(p []byte) (int, error) { return len(p), nil }

// ---------------------------------------------------------------------------------------------
// process-wide fixtures: scheme, framework handle (needed by the real initFilters), handler queue

var (
	c16aOnce   sync.Once
	c16aScheme *runtime.Scheme
	c16aHandle framework.Handle
	c16aQueue  workqueue.TypedRateLimitingInterface[reconcile.Request]
	c16aInitEr error
)

func c16aFixtures() error {
	c16aOnce.Do(func() {
		c16aScheme = runtime.NewScheme()
		_ = sev1alpha1.AddToScheme(c16aScheme)
		// only core/v1 and the PodMigrationJob group: the fake tracker rebuilds a REST mapper from the
		// whole scheme on every write, the full client-go scheme makes that the dominant cost
		_ = corev1.AddToScheme(c16aScheme)
		cs := kubefake.NewSimpleClientset()
		// discovery must advertise the eviction subresource, otherwise defaultevictor.New (called by
		// initFilters) refuses to start; same reactors as the loadaware plugin tests use.
		fk := &cs.Fake
		fk.AddReactor("get", "group", func(action coretesting.Action) (bool, runtime.Object, error) {
			fk.Resources = []*metav1.APIResourceList{{
				GroupVersion: policyv1beta1.SchemeGroupVersion.String(),
				APIResources: []metav1.APIResource{{Name: koordutil.EvictionSubResourceName, Kind: koordutil.EvictionKind}},
			}}
			return true, nil, nil
		})
		fk.AddReactor("get", "resource", func(action coretesting.Action) (bool, runtime.Object, error) {
			fk.Resources = []*metav1.APIResourceList{{
				GroupVersion: "v1",
				APIResources: []metav1.APIResource{{Name: koordutil.EvictionSubResourceName, Kind: koordutil.EvictionKind}},
			}}
			return true, nil, nil
		})
		sif := informers.NewSharedInformerFactory(cs, 0)
		c16aHandle, c16aInitEr = frameworkruntime.NewFramework(context.TODO(), nil, nil,
			frameworkruntime.WithClientSet(cs),
			frameworkruntime.WithSharedInformerFactory(sif),
			frameworkruntime.WithEventRecorder(&events.FakeRecorder{}),
			frameworkruntime.WithGetPodsAssignedToNodeFunc(func(string, framework.FilterFunc) ([]*corev1.Pod, error) { return nil, nil }),
		)
		c16aQueue = workqueue.NewTypedRateLimitingQueue[reconcile.Request](
			workqueue.NewTypedItemExponentialFailureRateLimiter[reconcile.Request](time.Millisecond, time.Second))
	})
	return c16aInitEr
}

// ---------------------------------------------------------------------------------------------
// configuration (limits) and the independent limit arithmetic

type c16aCfg struct {
	args *deschedulerconfig.MigrationControllerArgs
	// effective limits as the oracle understands the configuration; 0 = unlimited.
	// (nil or 0 mean "no limit": validation accepts 0 and the filters document `<= 0` as off; a
	// skipped eviction gate switches the corresponding limit off.)
	global, perNode, perNS int
	wlMigOn, wlUnavOn      bool // false when the gate is skipped
	skipReplicasRule       bool // SkipCheckExpectedReplicas or gate ExpectedReplicas
	evictAllBare           bool // EvictAllBarePods or gate BarePods
	evictFailedBare        bool
	desc                   string
	wlMigStr, wlUnavStr    string
}

func c16aIntOrPct(r *kit.Rand, maxInt int) (*intstr.IntOrString, string) {
	switch r.Weighted(30, 38, 27, 5) {
	case 0:
		return nil, "unset"
	case 3: // legal oddities: 0 and 0% count as 1, a negative number admits nothing, more than 100% is all replicas
		v := kit.Pick(r, []intstr.IntOrString{intstr.FromInt32(0), intstr.FromInt32(-1), intstr.FromString("0%"), intstr.FromString("1%"), intstr.FromString("99%"), intstr.FromString("150%"), intstr.FromInt32(100)})
		return &v, v.String()
	case 1:
		v := intstr.FromInt32(int32(r.Range(1, maxInt)))
		return &v, v.String()
	default:
		v := intstr.FromString(kit.Pick(r, []string{"10%", "20%", "25%", "34%", "50%", "50%", "75%", "100%"}))
		return &v, v.String()
	}
}

func c16aGenCfg(r *kit.Rand) *c16aCfg {
	args := &deschedulerconfig.MigrationControllerArgs{}
	cfg := &c16aCfg{args: args, wlMigOn: true, wlUnavOn: true}
	lim := func(nilPct, hi int) (*int32, int) {
		switch {
		case r.Pct(nilPct):
			return nil, 0
		case r.Pct(6):
			return ptr.To[int32](0), 0
		case r.Pct(8):
			v := kit.Pick(r, []int{10, 50, 1000}) // never binds in these clusters
			return ptr.To[int32](int32(v)), v
		default:
			v := r.Range(1, hi)
			return ptr.To[int32](int32(v)), v
		}
	}
	args.MaxMigratingGlobally, cfg.global = lim(35, 6)
	args.MaxMigratingPerNode, cfg.perNode = lim(30, 3)
	args.MaxMigratingPerNamespace, cfg.perNS = lim(40, 4)
	var ms, us string
	args.MaxMigratingPerWorkload, ms = c16aIntOrPct(r, 4)
	args.MaxUnavailablePerWorkload, us = c16aIntOrPct(r, 5)
	switch r.Intn(4) {
	case 0:
	case 1:
		args.SkipCheckExpectedReplicas = ptr.To(false)
	default:
		args.SkipCheckExpectedReplicas = ptr.To(true)
		cfg.skipReplicasRule = true
	}
	args.EvictAllBarePods = r.Pct(50)
	args.EvictFailedBarePods = r.Pct(40)
	cfg.evictAllBare, cfg.evictFailedBare = args.EvictAllBarePods, args.EvictFailedBarePods
	// the other non-retryable rules, each off most of the time
	args.EvictLocalStoragePods = r.Pct(60)
	args.EvictSystemCriticalPods = r.Pct(25)
	args.IgnorePvcPods = r.Pct(25)
	if r.Pct(8) {
		args.PriorityThreshold = &deschedulerconfig.PriorityThreshold{Value: ptr.To[int32](int32(kit.Pick(r, []int{1, 1000, 5000, 9500, 10000})))}
	}
	if r.Pct(7) {
		args.LabelSelector = &metav1.LabelSelector{MatchLabels: map[string]string{"app": "a"}}
	}
	if r.Pct(7) {
		if r.Bool() {
			args.Namespaces = &deschedulerconfig.Namespaces{Include: []string{"ns0", "ns1"}}
		} else {
			args.Namespaces = &deschedulerconfig.Namespaces{Exclude: []string{kit.Pick(r, []string{"ns0", "ns1", "ns3"})}}
		}
	}
	if r.Pct(50) {
		args.DefaultJobMode = string(sev1alpha1.PodMigrationJobModeEvictionDirectly)
	} else {
		args.DefaultJobMode = string(sev1alpha1.PodMigrationJobModeReservationFirst)
		args.SchedulerNames = []string{"koord-scheduler"}
	}
	if r.Pct(12) {
		gates := []deschedulerconfig.EvictionGate{
			deschedulerconfig.EvictionGateMaxMigratingGlobally, deschedulerconfig.EvictionGateMaxMigratingPerNode,
			deschedulerconfig.EvictionGateMaxMigratingPerNamespace, deschedulerconfig.EvictionGateMaxMigratingPerWorkload,
			deschedulerconfig.EvictionGateMaxUnavailablePerWorkload, deschedulerconfig.EvictionGateExpectedReplicas,
			deschedulerconfig.EvictionGateBarePods,
		}
		for _, i := range r.Perm(len(gates))[:r.Range(1, 2)] {
			args.SkipEvictionGates = append(args.SkipEvictionGates, gates[i])
			switch gates[i] {
			case deschedulerconfig.EvictionGateMaxMigratingGlobally:
				cfg.global = 0
			case deschedulerconfig.EvictionGateMaxMigratingPerNode:
				cfg.perNode = 0
			case deschedulerconfig.EvictionGateMaxMigratingPerNamespace:
				cfg.perNS = 0
			case deschedulerconfig.EvictionGateMaxMigratingPerWorkload:
				cfg.wlMigOn = false
			case deschedulerconfig.EvictionGateMaxUnavailablePerWorkload:
				cfg.wlUnavOn = false
			case deschedulerconfig.EvictionGateExpectedReplicas:
				cfg.skipReplicasRule = true
			case deschedulerconfig.EvictionGateBarePods:
				cfg.evictAllBare = true
			}
		}
	}
	p := func(v *int32) string {
		if v == nil {
			return "nil"
		}
		return strconv.Itoa(int(*v))
	}
	cfg.wlMigStr, cfg.wlUnavStr = ms, us
	cfg.desc = fmt.Sprintf("global=%s perNode=%s perNS=%s wlMigrating=%s wlUnavailable=%s skipReplicasCheck=%v evictAllBare=%v evictFailedBare=%v gates=%v mode=%s evictLocalStorage=%v evictCritical=%v ignorePVC=%v priorityThreshold=%v labelSelector=%v namespaces=%+v",
		p(args.MaxMigratingGlobally), p(args.MaxMigratingPerNode), p(args.MaxMigratingPerNamespace), ms, us,
		args.SkipCheckExpectedReplicas != nil && *args.SkipCheckExpectedReplicas, args.EvictAllBarePods, args.EvictFailedBarePods, args.SkipEvictionGates, args.DefaultJobMode,
		args.EvictLocalStoragePods, args.EvictSystemCriticalPods, args.IgnorePvcPods, args.PriorityThreshold != nil, args.LabelSelector != nil, args.Namespaces)
	return cfg
}

// c16aWorkloadLimit is the oracle's own reading of MaxMigratingPerWorkload / MaxUnavailablePerWorkload
// (API doc: "absolute number or a percentage of desired pods"; util doc/proposal: unset defaults to
// 10% above 10 replicas, 2 for 4..10 replicas, 1 below; a configured value that scales below one
// counts as one; never more than the replicas). Percentages are rounded down.
func c16aWorkloadLimit(v *intstr.IntOrString, replicas int) int {
	n := 0
	if v == nil {
		switch {
		case replicas > 10:
			n = replicas * 10 / 100
		case replicas >= 4:
			n = 2
		default:
			n = 1
		}
	} else if v.Type == intstr.Int {
		n = int(v.IntVal)
	} else {
		pct, err := strconv.Atoi(strings.TrimSuffix(v.StrVal, "%"))
		if err != nil {
			panic("c16a: bad percent " + v.StrVal)
		}
		n = replicas * pct / 100
	}
	if n < 1 {
		n = 1
	}
	if n > replicas {
		n = replicas
	}
	return n
}

// ---------------------------------------------------------------------------------------------
// world (generation-side bookkeeping; the oracle never reads it except for expected replicas,
// which have no API object here)

type c16aWorkload struct {
	uid      types.UID
	name     string
	kind     string
	ns       string
	replicas int
}

type c16aWorld struct {
	c        *kit.Case
	r        *kit.Rand
	cl       client.Client
	cfg      *c16aCfg
	a        *arbitratorImpl
	h        handler.EventHandler
	nodes    []string
	nss      []string
	wls      []*c16aWorkload
	wlByUID  map[types.UID]*c16aWorkload
	podSeq   int
	podSeqNS map[string]int
	uidSeq   int
	sameName bool // pod names are numbered per namespace, so the same name exists in several namespaces
	jobSeq   int
	tick     int64
	dupMode  bool
	failPct  int  // probability (percent) that a PodMigrationJob write issued during a round fails
	inRound  bool // writes are failed only while a round runs
	failRand *kit.Rand
	injected int
	delayed  []func()
	held     map[types.UID]int
	podCache []corev1.Pod // what the finder serves; refreshed from the API after any pod write
	podDirty bool

	// read lag: the arbitrator reads from cache, writes to cl
	lag             bool
	cache           client.Client
	refreshAfter    int  // inside the current round: rebuild the cache after that many own writes; 0 = never
	ownWrites       int  // successful writes of the arbitrator in the current round
	staleOwnWrites  int  // ... of which the cache has not seen yet
	staleAdmissions int  // passed-annotation updates of this round the cache has not seen yet
	refreshDue      bool // the cache catches up at the arbitrator's next read

	// informer Update events for the arbitrator's own writes, not yet delivered to the handler
	ownEvents   []*sev1alpha1.PodMigrationJob
	eventsEarly bool // this round: delivered before the arbitrator's next read (otherwise after the round)
}

// c16aLagClient is the arbitrator's client: everything goes to the server client; in read-lag mode
// Get and List are served from the world's current cache client. Every read first lets the
// informer do what is due (cache catch-up, delivery of update events).
type c16aLagClient struct {
	client.Client
	w *c16aWorld
}

func (l *c16aLagClient) Get(ctx context.Context, key client.ObjectKey, obj client.Object, opts ...client.GetOption) error {
	l.w.beforeArbitratorRead()
	if !l.w.lag {
		return l.Client.Get(ctx, key, obj, opts...)
	}
	return l.w.cache.Get(ctx, key, obj, opts...)
}

func (l *c16aLagClient) List(ctx context.Context, list client.ObjectList, opts ...client.ListOption) error {
	l.w.beforeArbitratorRead()
	if !l.w.lag {
		return l.Client.List(ctx, list, opts...)
	}
	return l.w.cache.List(ctx, list, opts...)
}

func (w *c16aWorld) beforeArbitratorRead() {
	if !w.inRound {
		return
	}
	if w.lag {
		if w.refreshDue {
			w.refreshDue = false
			w.c.Op("  [cache] informer catches up after %d own writes", w.ownWrites)
			w.refreshCache()
			w.flushOwnEvents(true)
		}
		return
	}
	if w.eventsEarly {
		w.flushOwnEvents(true)
	}
}

// flushOwnEvents delivers the update events of the arbitrator's own writes to the real handler.
func (w *c16aWorld) flushOwnEvents(withinRound bool) {
	evs := w.ownEvents
	w.ownEvents = nil
	for _, j := range evs {
		w.h.Update(context.TODO(), event.TypedUpdateEvent[client.Object]{ObjectOld: j, ObjectNew: j}, c16aQueue)
		if withinRound {
			w.c.Count("own_write_events_delivered_within_round", 1)
		} else {
			w.c.Count("own_write_events_delivered_after_round", 1)
		}
		if j.Status.Phase == "" && j.Annotations[AnnotationPassedArbitration] == "true" {
			w.c.Count("own_admission_events_for_job_with_empty_phase", 1)
		}
	}
}

// refreshCache: the informer has caught up with the server.
func (w *c16aWorld) refreshCache() {
	if !w.lag {
		return
	}
	var objs []client.Object
	pl := &corev1.PodList{}
	w.must(w.cl.List(context.TODO(), pl), "list pods")
	for i := range pl.Items {
		objs = append(objs, &pl.Items[i])
	}
	jl := &sev1alpha1.PodMigrationJobList{}
	w.must(w.cl.List(context.TODO(), jl), "list jobs")
	for i := range jl.Items {
		objs = append(objs, &jl.Items[i])
	}
	w.cache = c16aFakeBuilder().WithObjects(objs...).Build()
	cp, cj := &corev1.PodList{}, &sev1alpha1.PodMigrationJobList{}
	w.must(w.cache.List(context.TODO(), cp), "list cached pods")
	w.must(w.cache.List(context.TODO(), cj), "list cached jobs")
	if len(cp.Items) != len(pl.Items) || len(cj.Items) != len(jl.Items) {
		w.c.Harness("cache rebuild lost objects: pods %d/%d jobs %d/%d", len(cp.Items), len(pl.Items), len(cj.Items), len(jl.Items))
	}
	for i := range cj.Items {
		for k := range jl.Items {
			if jl.Items[k].Name == cj.Items[i].Name && (jl.Items[k].Status.Phase != cj.Items[i].Status.Phase ||
				jl.Items[k].Annotations[AnnotationPassedArbitration] != cj.Items[i].Annotations[AnnotationPassedArbitration] ||
				jl.Items[k].ResourceVersion != cj.Items[i].ResourceVersion) {
				w.c.Harness("cache rebuild changed job %s", cj.Items[i].Name)
			}
		}
	}
	w.staleOwnWrites, w.staleAdmissions = 0, 0
}

// ownWrite is called after every successful PodMigrationJob write issued while a round runs.
func (w *c16aWorld) ownWrite(name string, admission bool) {
	if stored := w.getJob(name); stored != nil {
		w.ownEvents = append(w.ownEvents, stored)
	}
	if !w.lag {
		return
	}
	w.ownWrites++
	w.staleOwnWrites++
	if admission {
		if w.staleAdmissions > 0 {
			// this admission was decided while an earlier admission of the same round was not in the cache
			w.c.Count("admissions_decided_with_own_admission_invisible", 1)
		}
		w.staleAdmissions++
	}
	if w.refreshAfter > 0 && w.ownWrites == w.refreshAfter {
		w.refreshDue = true // a moment after the write: at the arbitrator's next read
	}
}

var c16aBase = time.Date(2024, 1, 1, 0, 0, 0, 0, time.UTC)

func (w *c16aWorld) now() metav1.Time {
	w.tick++
	return metav1.NewTime(c16aBase.Add(time.Duration(w.tick) * time.Second))
}

func c16aPodKey(ns, name string) string { return ns + "/" + name }

// c16aFinder is the fake controller finder: pods owned by the workload UID in the namespace, read
// from the API, plus the expected replicas of the moment.
type c16aFinder struct{ w *c16aWorld }

func (f *c16aFinder) podsOf(uid types.UID, ns string) ([]*corev1.Pod, error) {
	w := f.w
	if w.podDirty || w.podCache == nil {
		pl := &corev1.PodList{}
		if err := w.cl.List(context.TODO(), pl); err != nil {
			return nil, err
		}
		w.podCache, w.podDirty = pl.Items, false
		if w.podCache == nil {
			w.podCache = []corev1.Pod{}
		}
	}
	var out []*corev1.Pod
	for i := range w.podCache {
		if w.podCache[i].Namespace != ns {
			continue
		}
		for _, o := range w.podCache[i].OwnerReferences {
			if o.UID == uid {
				out = append(out, w.podCache[i].DeepCopy())
				break
			}
		}
	}
	return out, nil
}

func (f *c16aFinder) GetPodsForRef(ref *metav1.OwnerReference, ns string, _ *metav1.LabelSelector, active bool) ([]*corev1.Pod, int32, error) {
	wl := f.w.wlByUID[ref.UID]
	if wl == nil {
		return nil, 0, nil
	}
	pods, err := f.podsOf(ref.UID, ns)
	if err != nil {
		return nil, -1, err
	}
	return pods, int32(wl.replicas), nil
}

func (f *c16aFinder) GetExpectedScaleForPod(pod *corev1.Pod) (int32, error) {
	if o := metav1.GetControllerOf(pod); o != nil {
		if wl := f.w.wlByUID[o.UID]; wl != nil {
			return int32(wl.replicas), nil
		}
	}
	return 0, nil
}

func (f *c16aFinder) ListPodsByWorkloads(uids []types.UID, ns string, _ *metav1.LabelSelector, active bool) ([]*corev1.Pod, error) {
	var out []*corev1.Pod
	for _, u := range uids {
		p, err := f.podsOf(u, ns)
		if err != nil {
			return nil, err
		}
		out = append(out, p...)
	}
	return out, nil
}

func c16aIsJob(obj client.Object) bool {
	_, ok := obj.(*sev1alpha1.PodMigrationJob)
	return ok
}

// c16aFakeBuilder: controller-runtime fake client with the PodMigrationJob status subresource and
// the field indexes of pkg/descheduler/fieldindex/register.go (same extractors).
func c16aFakeBuilder() *fake.ClientBuilder {
	jobIdx := func(f func(j *sev1alpha1.PodMigrationJob) string) client.IndexerFunc {
		return func(obj client.Object) []string {
			j, ok := obj.(*sev1alpha1.PodMigrationJob)
			if !ok || j.Spec.PodRef == nil {
				return []string{}
			}
			return []string{f(j)}
		}
	}
	return fake.NewClientBuilder().WithScheme(c16aScheme).
		WithStatusSubresource(&sev1alpha1.PodMigrationJob{}).
		// same extractors as pkg/descheduler/fieldindex/register.go
		WithIndex(&corev1.Pod{}, fieldindex.IndexPodByNodeName, func(obj client.Object) []string {
			p, ok := obj.(*corev1.Pod)
			if !ok || p.Spec.NodeName == "" {
				return []string{}
			}
			return []string{p.Spec.NodeName}
		}).
		WithIndex(&corev1.Pod{}, fieldindex.IndexPodByOwnerRefUID, func(obj client.Object) []string {
			var owners []string
			for _, ref := range obj.GetOwnerReferences() {
				owners = append(owners, string(ref.UID))
			}
			return owners
		}).
		WithIndex(&sev1alpha1.PodMigrationJob{}, fieldindex.IndexJobByPodUID, jobIdx(func(j *sev1alpha1.PodMigrationJob) string { return string(j.Spec.PodRef.UID) })).
		WithIndex(&sev1alpha1.PodMigrationJob{}, fieldindex.IndexJobPodNamespacedName, jobIdx(func(j *sev1alpha1.PodMigrationJob) string {
			return fmt.Sprintf("%s/%s", j.Spec.PodRef.Namespace, j.Spec.PodRef.Name)
		})).
		WithIndex(&sev1alpha1.PodMigrationJob{}, fieldindex.IndexJobByPodNamespace, jobIdx(func(j *sev1alpha1.PodMigrationJob) string { return j.Spec.PodRef.Namespace }))
}

func c16aNewWorld(c *kit.Case, cfg *c16aCfg, lag bool) *c16aWorld {
	w := &c16aWorld{c: c, r: c.R, cfg: cfg, lag: lag, wlByUID: map[types.UID]*c16aWorkload{}, held: map[types.UID]int{}}
	w.failRand = c.R.Fork()
	fail := func(obj client.Object, verb string) error {
		if w.inRound && w.failPct > 0 && c16aIsJob(obj) && w.failRand.Pct(w.failPct) {
			w.injected++
			c.Op("  [api] %s of job %s fails (injected server timeout)", verb, obj.GetName())
			return apierrors.NewServerTimeout(sev1alpha1.Resource("podmigrationjobs"), verb, 1)
		}
		return nil
	}
	w.cl = c16aFakeBuilder().
		WithInterceptorFuncs(interceptor.Funcs{
			Create: func(ctx context.Context, cl client.WithWatch, obj client.Object, opts ...client.CreateOption) error {
				w.podDirty = w.podDirty || !c16aIsJob(obj)
				return cl.Create(ctx, obj, opts...)
			},
			Delete: func(ctx context.Context, cl client.WithWatch, obj client.Object, opts ...client.DeleteOption) error {
				w.podDirty = w.podDirty || !c16aIsJob(obj)
				return cl.Delete(ctx, obj, opts...)
			},
			Update: func(ctx context.Context, cl client.WithWatch, obj client.Object, opts ...client.UpdateOption) error {
				if err := fail(obj, "update"); err != nil {
					return err
				}
				w.podDirty = w.podDirty || !c16aIsJob(obj)
				err := cl.Update(ctx, obj, opts...)
				if err == nil && w.inRound && c16aIsJob(obj) {
					w.ownWrite(obj.GetName(), obj.GetAnnotations()[AnnotationPassedArbitration] == "true")
				}
				return err
			},
			SubResourceUpdate: func(ctx context.Context, cl client.Client, sub string, obj client.Object, opts ...client.SubResourceUpdateOption) error {
				if err := fail(obj, "status-update"); err != nil {
					return err
				}
				err := cl.SubResource(sub).Update(ctx, obj, opts...)
				if err == nil && w.inRound && c16aIsJob(obj) {
					w.ownWrite(obj.GetName(), false)
				}
				return err
			},
		}).
		Build()

	var acl client.Client = &c16aLagClient{Client: w.cl, w: w}
	if lag {
		w.refreshCache()
	}
	f := &filter{
		client:                     acl,
		args:                       cfg.args,
		controllerFinder:           &c16aFinder{w: w},
		arbitratedPodMigrationJobs: map[types.UID]bool{},
		skipEvictionGates:          newEvictionGateSet(cfg.args.SkipEvictionGates),
	}
	if err := f.initFilters(cfg.args, c16aHandle); err != nil {
		c.Harness("initFilters: %v", err)
	}
	// the literal of New(), minus the manager registration
	w.a = &arbitratorImpl{
		waitingCollection: map[types.UID]*sev1alpha1.PodMigrationJob{},
		sorts: []SortFn{
			SortJobsByCreationTime(),
			SortJobsByPod(sorter.PodSorter().Sort),
			SortJobsByController(),
			SortJobsByMigratingNum(acl),
		},
		filter:        f,
		client:        acl,
		eventRecorder: &events.FakeRecorder{},
	}
	w.h = NewHandler(w.a, acl)
	return w
}

func (w *c16aWorld) must(err error, what string) {
	if err != nil {
		w.c.Harness("%s: %v", what, err)
	}
}

// --- pods

func (w *c16aWorld) newPod(wl *c16aWorkload, ns, node string, state int) *corev1.Pod {
	return w.newPodNamed(wl, ns, node, state, "")
}

func (w *c16aWorld) newPodNamed(wl *c16aWorkload, ns, node string, state int, name string) *corev1.Pod {
	if name == "" {
		if w.sameName {
			if w.podSeqNS == nil {
				w.podSeqNS = map[string]int{}
			}
			w.podSeqNS[ns]++
			name = fmt.Sprintf("p%03d", w.podSeqNS[ns])
		} else {
			w.podSeq++
			name = fmt.Sprintf("p%03d", w.podSeq)
		}
	}
	w.uidSeq++
	prio := int32([]int{0, 1000, 5000, 9500, 10000, 2000000000, 2000001000}[w.r.Weighted(48, 14, 14, 12, 8, 2, 2)])
	pod := &corev1.Pod{
		ObjectMeta: metav1.ObjectMeta{
			Namespace: ns, Name: name, UID: types.UID(fmt.Sprintf("pod-uid-%s-%s-g%d", ns, name, w.uidSeq)), CreationTimestamp: w.now(),
			Labels:      map[string]string{extension.LabelPodQoS: string(kit.Pick(w.r, []extension.QoSClass{extension.QoSNone, extension.QoSBE, extension.QoSLS, extension.QoSLSR}))},
			Annotations: map[string]string{},
		},
		Spec: corev1.PodSpec{NodeName: node, Priority: &prio, SchedulerName: "koord-scheduler",
			Containers: []corev1.Container{{Name: "c", Image: "i"}}},
		Status: corev1.PodStatus{QOSClass: kit.Pick(w.r, []corev1.PodQOSClass{corev1.PodQOSBestEffort, corev1.PodQOSBurstable, corev1.PodQOSGuaranteed})},
	}
	if w.r.Pct(10) {
		pod.Spec.SchedulerName = "default-scheduler"
	}
	r := w.r
	if r.Pct(85) {
		pod.Labels["app"] = kit.Pick(r, []string{"a", "a", "a", "a", "a", "b"})
	}
	if r.Pct(3) {
		pod.Spec.Priority = nil
	}
	if r.Pct(8) {
		pod.Spec.Volumes = append(pod.Spec.Volumes, corev1.Volume{Name: "scratch", VolumeSource: corev1.VolumeSource{EmptyDir: &corev1.EmptyDirVolumeSource{}}})
	}
	if r.Pct(3) {
		pod.Spec.Volumes = append(pod.Spec.Volumes, corev1.Volume{Name: "host", VolumeSource: corev1.VolumeSource{HostPath: &corev1.HostPathVolumeSource{Path: "/x"}}})
	}
	if r.Pct(6) {
		pod.Spec.Volumes = append(pod.Spec.Volumes, corev1.Volume{Name: "data", VolumeSource: corev1.VolumeSource{PersistentVolumeClaim: &corev1.PersistentVolumeClaimVolumeSource{ClaimName: "claim"}}})
	}
	if r.Pct(12) {
		pod.Annotations[extension.AnnotationEvictionCost] = kit.Pick(r, []string{"0", "-5", "100", "2147483646", "2147483647", "2147483647", "bogus"})
	}
	if r.Pct(10) {
		pod.Annotations["controller.kubernetes.io/pod-deletion-cost"] = kit.Pick(r, []string{"-100", "0", "7", "2147483647"})
	}
	if wl == nil && r.Pct(6) {
		pod.Annotations[corev1.MirrorPodAnnotationKey] = "mirror"
	}
	if wl == nil && r.Pct(6) {
		pod.Annotations["kubernetes.io/config.source"] = kit.Pick(r, []string{"file", "http", "api"})
	}
	if wl == nil && r.Pct(8) {
		// owned, but by something that is not its controller
		pod.OwnerReferences = []metav1.OwnerReference{{APIVersion: "v1", Kind: "ConfigMap", Name: "owner", UID: "other-owner"}}
	}
	if wl != nil {
		pod.OwnerReferences = []metav1.OwnerReference{{APIVersion: "apps/v1", Kind: wl.kind, Name: wl.name, UID: wl.uid, Controller: ptr.To(true)}}
		if wl.kind == JobKind {
			pod.OwnerReferences[0].APIVersion = "batch/v1"
		}
	}
	c16aSetPodState(pod, state)
	w.must(w.cl.Create(context.TODO(), pod), "create pod")
	w.countPodState(pod)
	return pod
}

// pod states: 0 running+ready, 1 running not ready, 2 pending (scheduled), 3 failed, 4 pending unscheduled,
// 5 succeeded with the Ready condition left True, 6 failed with the Ready condition left True
func c16aSetPodState(pod *corev1.Pod, state int) {
	ready := corev1.ConditionFalse
	switch state {
	case 0:
		pod.Status.Phase, ready = corev1.PodRunning, corev1.ConditionTrue
	case 1:
		pod.Status.Phase = corev1.PodRunning
	case 2:
		pod.Status.Phase = corev1.PodPending
	case 3:
		pod.Status.Phase = corev1.PodFailed
	case 4:
		pod.Status.Phase = corev1.PodPending
		pod.Spec.NodeName = ""
	case 5:
		pod.Status.Phase, ready = corev1.PodSucceeded, corev1.ConditionTrue
	case 6:
		pod.Status.Phase, ready = corev1.PodFailed, corev1.ConditionTrue
	}
	pod.Status.Conditions = []corev1.PodCondition{{Type: corev1.PodReady, Status: ready}}
}

func (w *c16aWorld) genPodState() int { return w.r.Weighted(70, 11, 7, 4, 3, 3, 2) }

const c16aFinalizer = "verif.example/graceful-termination"

// c16aReadyCond is the raw Ready condition, whatever the phase / deletionTimestamp.
func c16aReadyCond(p *corev1.Pod) bool {
	for _, c := range p.Status.Conditions {
		if c.Type == corev1.PodReady {
			return c.Status == corev1.ConditionTrue
		}
	}
	return false
}

// c16aInactiveButReady: finished or being deleted, yet the Ready condition is True.
func c16aInactiveButReady(p *corev1.Pod) bool {
	return c16aReadyCond(p) && (p.DeletionTimestamp != nil || p.Status.Phase == corev1.PodSucceeded || p.Status.Phase == corev1.PodFailed)
}

func (w *c16aWorld) countPodState(p *corev1.Pod) {
	if !c16aReadyCond(p) {
		return
	}
	if p.DeletionTimestamp != nil {
		w.c.Count("pods_terminating_but_ready", 1)
	} else if p.Status.Phase == corev1.PodSucceeded || p.Status.Phase == corev1.PodFailed {
		w.c.Count("pods_terminal_phase_but_ready", 1)
	}
}

func (w *c16aWorld) getPod(ns, name string) *corev1.Pod {
	p := &corev1.Pod{}
	if err := w.cl.Get(context.TODO(), types.NamespacedName{Namespace: ns, Name: name}, p); err != nil {
		if apierrors.IsNotFound(err) {
			return nil
		}
		w.must(err, "get pod")
	}
	return p
}

// startTerminating: graceful deletion has begun (deletionTimestamp set; a finalizer stands in for
// the grace period), the conditions are left as they are.
func (w *c16aWorld) startTerminating(p *corev1.Pod) *corev1.Pod {
	p = w.getPod(p.Namespace, p.Name)
	if p == nil || p.DeletionTimestamp != nil {
		return p
	}
	p.Finalizers = append(p.Finalizers, c16aFinalizer)
	w.must(w.cl.Update(context.TODO(), p), "add finalizer")
	w.must(w.cl.Delete(context.TODO(), p), "graceful delete")
	p = w.getPod(p.Namespace, p.Name)
	if p == nil || p.DeletionTimestamp == nil {
		w.c.Harness("pod did not become terminating: %+v", p)
	}
	w.countPodState(p)
	return p
}

func c16aPodStr(p *corev1.Pod) string {
	owner := "bare"
	if o := metav1.GetControllerOf(p); o != nil {
		owner = o.Name
	}
	ph := string(p.Status.Phase)
	if p.DeletionTimestamp != nil {
		ph += ",terminating"
	}
	return fmt.Sprintf("%s/%s(node=%s owner=%s %s readyCondition=%v available=%v)", p.Namespace, p.Name, p.Spec.NodeName, owner, ph, c16aReadyCond(p), c16aAvailable(p))
}

// c16aAvailable is the oracle's own predicate, written from the statement and the API doc
// ("unavailable includes NotRunning/NotReady/Migrating/Evicting"; kubernetes: a pod is active iff
// its phase is neither Succeeded nor Failed and it has no deletionTimestamp) and deliberately not
// built on the helpers the filter uses: unavailable = not active OR Ready condition not True.
// c16aAvailable: the pod counts as available iff it is active (not Succeeded/Failed, not being
// deleted) and its Ready condition is true ("unavailable state includes NotRunning/NotReady").
func c16aAvailable(p *corev1.Pod) bool {
	if p.Status.Phase == corev1.PodSucceeded || p.Status.Phase == corev1.PodFailed || p.DeletionTimestamp != nil {
		return false
	}
	for _, c := range p.Status.Conditions {
		if c.Type == corev1.PodReady {
			return c.Status == corev1.ConditionTrue
		}
	}
	return false
}

// --- jobs and events

func (w *c16aWorld) getJob(name string) *sev1alpha1.PodMigrationJob {
	j := &sev1alpha1.PodMigrationJob{}
	if err := w.cl.Get(context.TODO(), types.NamespacedName{Name: name}, j); err != nil {
		if apierrors.IsNotFound(err) {
			return nil
		}
		w.must(err, "get job")
	}
	return j
}

// createJob writes a PodMigrationJob. style 0: descheduler (phase Pending, PodRef.UID set);
// style 1: user (phase "", PodRef.UID empty); style 2: user who filled the UID in.
func (w *c16aWorld) createJob(ns, podName string, podUID types.UID, style int, phase sev1alpha1.PodMigrationJobPhase, annotated bool) *sev1alpha1.PodMigrationJob {
	w.jobSeq++
	name := fmt.Sprintf("job%03d", w.jobSeq)
	j := &sev1alpha1.PodMigrationJob{
		ObjectMeta: metav1.ObjectMeta{Name: name, UID: types.UID("job-uid-" + name), CreationTimestamp: w.now()},
		Spec: sev1alpha1.PodMigrationJobSpec{
			PodRef: &corev1.ObjectReference{Namespace: ns, Name: podName},
			Mode:   sev1alpha1.PodMigrationJobMode(w.cfg.args.DefaultJobMode),
		},
	}
	if style != 1 {
		j.Spec.PodRef.UID = podUID
	}
	if annotated {
		j.Annotations = map[string]string{AnnotationPassedArbitration: "true"}
	}
	w.must(w.cl.Create(context.TODO(), j), "create job")
	if phase != "" {
		j.Status.Phase = phase
		w.must(w.cl.Status().Update(context.TODO(), j), "set job phase")
	}
	got := w.getJob(name)
	if got == nil || got.Status.Phase != phase || got.UID != j.UID {
		w.c.Harness("job %s not stored as written: %+v", name, got)
	}
	return got
}

func (w *c16aWorld) evCreate(j *sev1alpha1.PodMigrationJob) {
	w.h.Create(context.TODO(), event.TypedCreateEvent[client.Object]{Object: j.DeepCopy()}, c16aQueue)
}

// evLater delivers an Update/Delete event now or after the next round (informer lag).
func (w *c16aWorld) evLater(what string, f func()) {
	if w.r.Pct(80) {
		f()
		return
	}
	w.c.Op("  (the %s event is delivered one round late)", what)
	w.delayed = append(w.delayed, f)
}

func (w *c16aWorld) evUpdate(j *sev1alpha1.PodMigrationJob) {
	cp := j.DeepCopy()
	w.evLater("update", func() {
		w.h.Update(context.TODO(), event.TypedUpdateEvent[client.Object]{ObjectOld: cp, ObjectNew: cp}, c16aQueue)
	})
}

func (w *c16aWorld) evDelete(j *sev1alpha1.PodMigrationJob) {
	cp := j.DeepCopy()
	w.evLater("delete", func() {
		w.h.Delete(context.TODO(), event.TypedDeleteEvent[client.Object]{Object: cp}, c16aQueue)
	})
}

func (w *c16aWorld) setPhase(j *sev1alpha1.PodMigrationJob, phase sev1alpha1.PodMigrationJobPhase, reason string) *sev1alpha1.PodMigrationJob {
	j.Status.Phase = phase
	j.Status.Reason = reason
	w.must(w.cl.Status().Update(context.TODO(), j), "job status update")
	return w.getJob(j.Name)
}

// ---------------------------------------------------------------------------------------------
// snapshot of the API and the counts the property speaks about

type c16aSnap struct {
	pods    map[string]*corev1.Pod
	podKeys []string
	jobs    []*sev1alpha1.PodMigrationJob
	byUID   map[types.UID]*sev1alpha1.PodMigrationJob
}

func (w *c16aWorld) snapshot() *c16aSnap {
	s := &c16aSnap{pods: map[string]*corev1.Pod{}, byUID: map[types.UID]*sev1alpha1.PodMigrationJob{}}
	pl := &corev1.PodList{}
	w.must(w.cl.List(context.TODO(), pl), "list pods")
	for i := range pl.Items {
		p := &pl.Items[i]
		k := c16aPodKey(p.Namespace, p.Name)
		s.pods[k] = p
		s.podKeys = append(s.podKeys, k)
	}
	sort.Strings(s.podKeys)
	jl := &sev1alpha1.PodMigrationJobList{}
	w.must(w.cl.List(context.TODO(), jl), "list jobs")
	for i := range jl.Items {
		s.jobs = append(s.jobs, &jl.Items[i])
		s.byUID[jl.Items[i].UID] = &jl.Items[i]
	}
	sort.Slice(s.jobs, func(i, j int) bool { return s.jobs[i].Name < s.jobs[j].Name })
	return s
}

func c16aPending(j *sev1alpha1.PodMigrationJob) bool {
	return j.Status.Phase == "" || j.Status.Phase == sev1alpha1.PodMigrationJobPending
}

// c16aInP: running, or pending and carrying the passed-arbitration annotation.
func c16aInP(j *sev1alpha1.PodMigrationJob) bool {
	return j.Status.Phase == sev1alpha1.PodMigrationJobRunning || c16aPending(j) && j.Annotations[AnnotationPassedArbitration] == "true"
}

func c16aLive(j *sev1alpha1.PodMigrationJob) bool {
	return j.Status.Phase == sev1alpha1.PodMigrationJobRunning || c16aPending(j)
}

// podOf resolves the job's pod among the existing pods (names are never re-used in this harness).
func (s *c16aSnap) podOf(j *sev1alpha1.PodMigrationJob) *corev1.Pod {
	p := s.podByName(j)
	if p != nil && j.Spec.PodRef.UID != "" && j.Spec.PodRef.UID != p.UID {
		return nil // the job's pod is gone; a successor carries its name
	}
	return p
}

// podByName is what a lookup by namespace/name finds (the arbitrator fetches the pod this way).
func (s *c16aSnap) podByName(j *sev1alpha1.PodMigrationJob) *corev1.Pod {
	if j.Spec.PodRef == nil {
		return nil
	}
	return s.pods[c16aPodKey(j.Spec.PodRef.Namespace, j.Spec.PodRef.Name)]
}

// c16aCounts: M = existing pods having at least one job in P. A job whose pod does not exist
// disrupts nothing and is attributed to no node/workload; it is left out of every count (the
// lenient reading: the implementation may count it, the oracle must not demand it).
type c16aCounts struct {
	m       map[string]bool
	perPodP map[string]int
	global  int
	ns      map[string]int
	node    map[string]int
	wl      map[types.UID]int
	unav    map[types.UID]int
	danglP  int
}

func c16aCount(s *c16aSnap) *c16aCounts {
	c := &c16aCounts{m: map[string]bool{}, perPodP: map[string]int{}, ns: map[string]int{}, node: map[string]int{}, wl: map[types.UID]int{}, unav: map[types.UID]int{}}
	for _, j := range s.jobs {
		if !c16aInP(j) {
			continue
		}
		p := s.podOf(j)
		if p == nil {
			c.danglP++
			continue
		}
		k := c16aPodKey(p.Namespace, p.Name)
		c.perPodP[k]++
		c.m[k] = true
	}
	for _, k := range s.podKeys {
		p := s.pods[k]
		o := metav1.GetControllerOf(p)
		if c.m[k] {
			c.global++
			c.ns[p.Namespace]++
			if p.Spec.NodeName != "" {
				c.node[p.Spec.NodeName]++
			}
			if o != nil {
				c.wl[o.UID]++
			}
		}
		if o != nil && (c.m[k] || !c16aAvailable(p)) {
			c.unav[o.UID]++
		}
	}
	return c
}

// c16aMayBeForbidden over-approximates the documented non-retryable rules that the generated pods
// can trip: a pod without ownerReferences unless EvictAllBarePods (or EvictFailedBarePods and the
// pod is Failed); a workload whose expected replicas are 1 or equal its max-migrating or
// max-unavailable unless SkipCheckExpectedReplicas.
func (w *c16aWorld) mayBeForbidden(p *corev1.Pod) bool {
	if p.DeletionTimestamp != nil {
		return true // "pod is terminating"
	}
	a := w.cfg.args
	if _, ok := p.Annotations[corev1.MirrorPodAnnotationKey]; ok {
		return true
	}
	if src, ok := p.Annotations["kubernetes.io/config.source"]; ok && src != "api" {
		return true
	}
	if p.Annotations[extension.AnnotationEvictionCost] == "2147483647" {
		return true
	}
	for _, o := range p.OwnerReferences {
		if o.Kind == "DaemonSet" {
			return true
		}
	}
	if !a.EvictSystemCriticalPods && p.Spec.Priority != nil {
		if *p.Spec.Priority >= 2000000000 || a.PriorityThreshold != nil && *p.Spec.Priority >= *a.PriorityThreshold.Value {
			return true
		}
	}
	for _, v := range p.Spec.Volumes {
		if !a.EvictLocalStoragePods && (v.EmptyDir != nil || v.HostPath != nil) {
			return true
		}
		if a.IgnorePvcPods && v.PersistentVolumeClaim != nil {
			return true
		}
	}
	if a.LabelSelector != nil && p.Labels["app"] != a.LabelSelector.MatchLabels["app"] {
		return true
	}
	if a.Namespaces != nil {
		in := func(xs []string) bool {
			for _, x := range xs {
				if x == p.Namespace {
					return true
				}
			}
			return false
		}
		if len(a.Namespaces.Include) > 0 && !in(a.Namespaces.Include) || in(a.Namespaces.Exclude) {
			return true
		}
	}
	if len(p.OwnerReferences) == 0 {
		if w.cfg.evictAllBare {
			return false
		}
		return !(w.cfg.evictFailedBare && p.Status.Phase == corev1.PodFailed)
	}
	o := metav1.GetControllerOf(p)
	if o == nil || w.cfg.skipReplicasRule {
		return false
	}
	wl := w.wlByUID[o.UID]
	if wl == nil {
		return true
	}
	r := wl.replicas
	return r == 1 || r == c16aWorkloadLimit(w.cfg.args.MaxMigratingPerWorkload, r) || r == c16aWorkloadLimit(w.cfg.args.MaxUnavailablePerWorkload, r)
}

func c16aClass(n int) string {
	if n >= 2 {
		return "2+"
	}
	return strconv.Itoa(n)
}

func c16aKind(v *intstr.IntOrString) string {
	switch {
	case v == nil:
		return "unset"
	case v.Type == intstr.Int:
		return "int"
	}
	return "percent"
}

func (w *c16aWorld) waitingUIDs() []types.UID {
	w.a.mu.Lock()
	defer w.a.mu.Unlock()
	out := make([]types.UID, 0, len(w.a.waitingCollection))
	for u := range w.a.waitingCollection {
		out = append(out, u)
	}
	sort.Slice(out, func(i, j int) bool { return out[i] < out[j] })
	return out
}

func c16aJobStr(s *c16aSnap, j *sev1alpha1.PodMigrationJob) string {
	ph := string(j.Status.Phase)
	if ph == "" {
		ph = `""`
	}
	pod := "<no podRef>"
	if j.Spec.PodRef != nil {
		pod = j.Spec.PodRef.Namespace + "/" + j.Spec.PodRef.Name
		if j.Spec.PodRef.UID == "" {
			pod += "(no uid)"
		}
		if s.podOf(j) == nil {
			pod += "(pod missing)"
		}
	}
	a := ""
	if j.Annotations[AnnotationPassedArbitration] == "true" {
		a = "+passed"
	}
	return fmt.Sprintf("%s[%s%s pod=%s]", j.Name, ph, a, pod)
}

// ---------------------------------------------------------------------------------------------
// the oracle for one round

type c16aRoundStats struct {
	admitted, held, heldNoRoom, failed int
	boundary, preExceeded              []string
}

func (w *c16aWorld) checkRound(round int, before, after *c16aSnap, waitingBefore []types.UID) c16aRoundStats {
	c, cfg := w.c, w.cfg
	var st c16aRoundStats
	cb, ca := c16aCount(before), c16aCount(after)
	waitingAfter := map[types.UID]bool{}
	for _, u := range w.waitingUIDs() {
		waitingAfter[u] = true
	}
	pSet := func(s *c16aSnap) string {
		var parts []string
		for _, j := range s.jobs {
			if c16aInP(j) {
				parts = append(parts, c16aJobStr(s, j))
			}
		}
		return strings.Join(parts, " ")
	}

	// (1) budgets: |P_after| <= max(limit, |P_before|) per dimension
	lagRound := w.lag
	dim := func(name, key string, limit, b, a int) (atLimit bool) {
		c.Count("budget_checks", 1)
		if lagRound {
			c.Count("budget_checks_under_read_lag", 1)
			if a > b {
				c.Count("budget_checks_grown_under_read_lag", 1)
			}
		}
		if limit > 0 && b > limit {
			st.preExceeded = append(st.preExceeded, name)
			c.Count("pre_exceeded_"+name, 1)
		}
		if a <= b {
			return false
		}
		c.Count("budget_checks_grown", 1)
		if limit <= 0 {
			return false
		}
		if a > limit {
			what := "pods with a running-or-passed migration job"
			if name == "workload-unavailable" {
				what = "pods that are unavailable (not active or not ready) or have a running-or-passed migration job"
			}
			c.Fail("C16/arbitrator/over-limit/"+name,
				"round %d: %s %s has %d %s after the round, limit %d, %d before the round\nconfig: %s\nP before: %s\nP after: %s%s",
				round, name, key, a, what, limit, b, cfg.desc, pSet(before), pSet(after), w.workloadPodsStr(after, name, key))
		}
		if a == limit {
			st.boundary = append(st.boundary, name)
			c.Count("boundary_hits_"+name, 1)
			if lagRound {
				c.Count("boundary_hits_under_read_lag", 1)
			}
			return true
		}
		return false
	}
	dim("global", "", cfg.global, cb.global, ca.global)
	for _, ns := range w.nss {
		dim("namespace", ns, cfg.perNS, cb.ns[ns], ca.ns[ns])
	}
	for _, n := range w.nodes {
		dim("node", n, cfg.perNode, cb.node[n], ca.node[n])
	}
	for _, wl := range w.wls {
		if wl.replicas == 0 {
			// "at least one" and "never more than the replicas" contradict each other here; whatever the
			// arbitrator does with such a workload breaks no budget the statement names
			c.Count("workload_rounds_with_zero_expected_replicas", 1)
			continue
		}
		if cfg.wlMigOn {
			dim("workload-migrating", wl.name, c16aWorkloadLimit(cfg.args.MaxMigratingPerWorkload, wl.replicas), cb.wl[wl.uid], ca.wl[wl.uid])
		}
		if cfg.wlUnavOn {
			lim := c16aWorkloadLimit(cfg.args.MaxUnavailablePerWorkload, wl.replicas)
			// how much of the budget is taken by pods that are inactive although their Ready condition is True
			inactiveReady, readyOnlyU, candidate := 0, 0, false
			for _, k := range before.podKeys {
				p := before.pods[k]
				if o := metav1.GetControllerOf(p); o == nil || o.UID != wl.uid {
					continue
				}
				if c16aInactiveButReady(p) && !cb.m[k] {
					inactiveReady++
				}
				if cb.m[k] || !c16aReadyCond(p) {
					readyOnlyU++ // what a count that looks at the Ready condition only would see
				}
			}
			for _, u := range waitingBefore {
				if j := before.byUID[u]; j != nil && c16aLive(j) {
					if p := before.podOf(j); p != nil && !cb.m[c16aPodKey(p.Namespace, p.Name)] && p.DeletionTimestamp == nil {
						if o := metav1.GetControllerOf(p); o != nil && o.UID == wl.uid {
							candidate = true
						}
					}
				}
			}
			if inactiveReady > 0 {
				c.Count("workload_rounds_with_inactive_but_ready_pods", 1)
				if candidate && cb.unav[wl.uid] >= lim && readyOnlyU < lim {
					// the budget is full only because of such pods, and a job of this workload is waiting
					c.Count("unavailable_budget_full_only_by_inactive_but_ready_pods", 1)
				}
				if candidate && cb.unav[wl.uid] == lim-1 {
					c.Count("unavailable_budget_one_below_limit_with_inactive_but_ready_pods", 1)
				}
			}
			if dim("workload-unavailable", wl.name, lim, cb.unav[wl.uid], ca.unav[wl.uid]) && inactiveReady > 0 {
				c.Count("boundary_hits_workload-unavailable_with_inactive_but_ready_pods", 1)
			}
		}
	}

	// (2) no pod gets a second running-or-passed job
	for _, k := range after.podKeys {
		a, b := ca.perPodP[k], cb.perPodP[k]
		if a >= 2 && a > b {
			c.Fail("C16/arbitrator/second-live-job-for-pod",
				"round %d: pod %s has %d running-or-passed migration jobs after the round, %d before\nconfig: %s\nP before: %s\nP after: %s",
				round, k, a, b, cfg.desc, pSet(before), pSet(after))
		}
		if a >= 2 {
			c.Count("pods_with_two_P_jobs_already_before", 1)
		}
	}

	// (3) every job that was waiting: admitted, or failed for a non-retryable reason, or still waiting
	for _, uid := range waitingBefore {
		jb, ja := before.byUID[uid], after.byUID[uid]
		if jb == nil || ja == nil {
			c.Count("waiting_jobs_without_api_object", 1)
			continue
		}
		pod := before.podOf(jb)
		forb := pod != nil && w.mayBeForbidden(pod)
		if named := before.podByName(jb); named != nil && pod == nil {
			// the arbitrator looks the pod up by name and judges the successor of the job's pod
			forb = w.mayBeForbidden(named)
			c.Count("waiting_jobs_whose_pod_was_replaced_under_the_same_name", 1)
		}
		if pod != nil && !forb {
			// another live job for the same pod: whether the second one has to wait or is failed is
			// not what check (3) is about (check (2) says it must not be admitted)
			for _, o := range before.jobs {
				if o.UID != jb.UID && c16aLive(o) && before.podOf(o) == pod {
					forb = true
					c.Count("waiting_jobs_with_other_live_job_for_pod", 1)
					break
				}
			}
		}
		failedNow := ja.Status.Phase == sev1alpha1.PodMigrationJobFailed && jb.Status.Phase != sev1alpha1.PodMigrationJobFailed
		annot := ja.Annotations[AnnotationPassedArbitration] == "true"
		newlyAnnot := annot && jb.Annotations[AnnotationPassedArbitration] != "true"
		if ja.Status.Phase != jb.Status.Phase && !failedNow {
			c.Count("phase_changed_by_round_other_than_to_failed", 1) // not something the statement speaks about
		}
		if failedNow && jb.Status.Phase == sev1alpha1.PodMigrationJobRunning {
			c.Count("running_job_set_failed_by_round", 1) // C17's business, counted here for the record
		}
		if failedNow && !c16aLive(jb) {
			c.Count("terminal_job_set_failed_by_round", 1)
		}
		switch {
		case failedNow:
			st.failed++
			if !forb {
				c.Fail("C16/arbitrator/failed-without-forbidding-rule",
					"round %d: job %s was set to Failed (%s) although no non-retryable rule applies to its pod %v\nconfig: %s",
					round, c16aJobStr(before, jb), ja.Status.Reason, c16aPodStrOrNil(pod), cfg.desc)
			}
			c.Count("jobs_failed_forbidden", 1)
			if newlyAnnot {
				c.Count("failed_and_annotated", 1)
			}
		case !waitingAfter[uid]:
			if annot {
				st.admitted++
				c.Count("jobs_admitted", 1)
				if pod == nil {
					c.Count("jobs_admitted_pod_missing", 1)
				}
				if forb {
					c.Count("admitted_though_maybe_forbidden", 1)
					c16aDebug("case %d round %d admitted though forbidden: %s pod %s cfg %s", c.K, round, c16aJobStr(after, ja), c16aPodStrOrNil(pod), cfg.desc)
				}
				if w.held[uid] > 0 {
					c.Count("held_then_admitted_later", 1)
				}
			} else if !forb {
				c.Fail("C16/arbitrator/lost-from-waiting",
					"round %d: job %s left the waiting collection without being admitted (no passed annotation) or failed; pod %v\nconfig: %s",
					round, c16aJobStr(after, ja), c16aPodStrOrNil(pod), cfg.desc)
			} else {
				c.Count("converse_misses_forbidden_not_failed", 1)
			}
		default: // still waiting
			if newlyAnnot {
				// annotated on the API but kept waiting: not a violation of the statement (it will be
				// arbitrated again), but worth seeing
				c.Count("annotated_but_still_waiting", 1)
			}
			if forb {
				c.Count("converse_misses_forbidden_still_waiting", 1)
				break
			}
			if !c16aLive(ja) {
				c.Count("waiting_jobs_in_terminal_phase", 1)
				break
			}
			st.held++
			w.held[uid]++
			c.Count("jobs_held", 1)
			if pod == nil {
				c.Count("jobs_held_pod_missing", 1)
				break
			}
			// converse (never a verdict): would admitting it have kept every budget?
			k := c16aPodKey(pod.Namespace, pod.Name)
			if ca.m[k] {
				c.Count("jobs_held_pod_already_migrating", 1)
				break
			}
			room := func(limit, cur int) bool { return limit <= 0 || cur+1 <= limit }
			ok := room(cfg.global, ca.global) && room(cfg.perNS, ca.ns[pod.Namespace]) &&
				(pod.Spec.NodeName == "" || room(cfg.perNode, ca.node[pod.Spec.NodeName]))
			if o := metav1.GetControllerOf(pod); o != nil && ok {
				if wl := w.wlByUID[o.UID]; wl != nil {
					if cfg.wlMigOn {
						ok = ok && room(c16aWorkloadLimit(cfg.args.MaxMigratingPerWorkload, wl.replicas), ca.wl[o.UID])
					}
					if cfg.wlUnavOn && ok {
						cur := ca.unav[o.UID]
						if !c16aAvailable(pod) {
							cur-- // already counted as unavailable
						}
						ok = room(c16aWorkloadLimit(cfg.args.MaxUnavailablePerWorkload, wl.replicas), cur)
					}
				}
			}
			if ok {
				c16aDebug("case %d round %d held with headroom: %s pod %s cfg %s\n   P after: %s", c.K, round, c16aJobStr(after, ja), c16aPodStrOrNil(pod), cfg.desc, pSet(after))
				c.Count("converse_misses_held_with_headroom", 1)
			} else {
				st.heldNoRoom++
				c.Count("jobs_held_no_headroom", 1)
			}
		}
	}
	// jobs that were not waiting must not have been touched by the round
	for _, ja := range after.jobs {
		jb := before.byUID[ja.UID]
		if jb == nil {
			c.Harness("job %s appeared during a round", ja.Name)
		}
		wasWaiting := false
		for _, u := range waitingBefore {
			if u == ja.UID {
				wasWaiting = true
			}
		}
		if !wasWaiting && (ja.Status.Phase != jb.Status.Phase || ja.Annotations[AnnotationPassedArbitration] != jb.Annotations[AnnotationPassedArbitration]) {
			// the budgets of check (1) cover it if it matters; the statement says nothing about it
			c.Count("non_waiting_job_changed_by_round", 1)
		}
	}
	return st
}

func c16aDebug(format string, a ...any) {
	if os.Getenv("VERIF_DEBUG") != "" {
		fmt.Printf("DEBUG "+format+"\n", a...)
	}
}

// workloadPodsStr lists the pods of a workload for a per-workload violation message.
func (w *c16aWorld) workloadPodsStr(s *c16aSnap, dim, key string) string {
	if !strings.HasPrefix(dim, "workload") {
		return ""
	}
	out := "\npods of " + key + ":"
	for _, k := range s.podKeys {
		if o := metav1.GetControllerOf(s.pods[k]); o != nil && o.Name == key {
			out += " " + c16aPodStr(s.pods[k])
		}
	}
	return out
}

func c16aPodStrOrNil(p *corev1.Pod) string {
	if p == nil {
		return "<missing>"
	}
	return c16aPodStr(p)
}

// checkFilter: Arbitrator.Filter(pod) must refuse every pod that has a live (Running or Pending) job.
func (w *c16aWorld) checkFilter(round int, s *c16aSnap) {
	live := map[string]string{}
	for _, j := range s.jobs {
		if c16aLive(j) {
			if p := s.podOf(j); p != nil {
				live[c16aPodKey(p.Namespace, p.Name)] = c16aJobStr(s, j)
			}
		}
	}
	var free, busy []string
	for _, k := range s.podKeys {
		if _, ok := live[k]; ok {
			busy = append(busy, k)
		} else {
			free = append(free, k)
		}
	}
	kit.Shuffle(w.r, busy)
	for i, k := range busy {
		if i >= 6 {
			break
		}
		w.c.Count("filter_checks_pod_with_live_job", 1)
		if w.a.Filter(s.pods[k].DeepCopy()) {
			w.c.Fail("C16/arbitrator/filter-admits-pod-with-live-job", "after round %d: Filter(%s) returned true although the pod has the live job %s", round, c16aPodStr(s.pods[k]), live[k])
		}
	}
	for i := 0; i < 1 && len(free) > 0; i++ {
		k := kit.Pick(w.r, free)
		if w.a.Filter(s.pods[k].DeepCopy()) {
			w.c.Count("filter_true_pod_without_live_job", 1)
		} else {
			w.c.Count("filter_false_pod_without_live_job", 1)
		}
	}
}

// ---------------------------------------------------------------------------------------------
// generation of the start-up snapshot and of the environment steps between rounds

func (w *c16aWorld) genCluster() {
	r, c := w.r, w.c
	for i, n := 0, kit.Pick(r, []int{1, 2, 2, 2, 3, 3, 3, 3, 4, 4, 4, 6}); i < n; i++ {
		w.nodes = append(w.nodes, fmt.Sprintf("n%d", i))
	}
	for i, n := 0, kit.Pick(r, []int{1, 1, 2, 2, 2, 3, 3, 4}); i < n; i++ {
		w.nss = append(w.nss, fmt.Sprintf("ns%d", i))
	}
	w.sameName = r.Pct(40)
	// node weights: some nodes are crowded so that per-node limits bind
	nodeW := make([]int, len(w.nodes))
	for i := range nodeW {
		nodeW[i] = kit.Pick(r, []int{1, 1, 3, 6})
	}
	pickNode := func() string { return w.nodes[r.Weighted(nodeW...)] }
	podBudget := 48 // keeps a case affordable: the per-node filter is quadratic in pods
	for i, n := 0, kit.Pick(r, []int{0, 1, 1, 2, 2, 2, 3, 3, 4, 5}); i < n; i++ {
		wl := &c16aWorkload{
			uid: types.UID(fmt.Sprintf("wl-uid-%d", i)), name: fmt.Sprintf("wl%d", i),
			kind:     []string{"ReplicaSet", "StatefulSet", JobKind, "CloneSet", "DaemonSet"}[r.Weighted(40, 25, 20, 11, 4)],
			ns:       kit.Pick(r, w.nss),
			replicas: kit.Pick(r, []int{0, 1, 1, 2, 2, 2, 3, 3, 3, 4, 4, 4, 5, 5, 5, 6, 6, 7, 8, 8, 10, 10, 11, 12, 12, 15, 20, 30}),
		}
		if wl.replicas > podBudget {
			wl.replicas = kit.Pick(r, []int{1, 2, 3})
		}
		w.wls = append(w.wls, wl)
		w.wlByUID[wl.uid] = wl
		npods := wl.replicas
		switch r.Weighted(75, 15, 10) {
		case 1:
			npods = r.Range(1, wl.replicas)
		case 2:
			npods = wl.replicas + r.Range(1, 2)
		}
		if wl.replicas == 0 {
			// a workload the controller finder does not know / scaled to zero while pods are still there
			npods = r.Range(1, 3)
		}
		podBudget -= npods
		c.Op("workload %s/%s kind=%s replicas=%d pods=%d", wl.ns, wl.name, wl.kind, wl.replicas, npods)
		var mine []*corev1.Pod
		for p := 0; p < npods; p++ {
			mine = append(mine, w.newPod(wl, wl.ns, pickNode(), w.genPodState()))
		}
		// inactive-but-ready pods: a few at random, and in ~45% of the workloads as many as it takes to
		// put the workload one below / exactly at its allowed unavailability
		lim := c16aWorkloadLimit(w.cfg.args.MaxUnavailablePerWorkload, wl.replicas)
		cur, need := 0, 0
		for _, p := range mine {
			if !c16aAvailable(p) {
				cur++
			}
		}
		switch r.Weighted(55, 25, 12, 8) {
		case 1:
			need = lim - 1 - cur
		case 2:
			need = lim - cur
		case 3:
			need = r.Range(1, 2)
		}
		for _, i := range r.Perm(len(mine)) {
			if need <= 0 {
				break
			}
			if !c16aAvailable(mine[i]) {
				continue
			}
			kind := r.Weighted(50, 30, 20)
			if wl.kind == JobKind {
				kind = r.Weighted(25, 60, 15)
			}
			switch kind {
			case 0:
				mine[i] = w.startTerminating(mine[i])
			case 1, 2:
				c16aSetPodState(mine[i], 4+kind)
				w.must(w.cl.Update(context.TODO(), mine[i]), "update pod")
				w.countPodState(mine[i])
			}
			need--
		}
		for _, pod := range mine {
			c.Op("  pod %s", c16aPodStr(pod))
		}
	}
	for i, n := 0, r.Weighted(40, 30, 20, 10); i < n; i++ {
		pod := w.newPod(nil, kit.Pick(r, w.nss), pickNode(), w.genPodState())
		c.Op("bare pod %s", c16aPodStr(pod))
	}
}

// livePods returns, sorted, the pods without / with a live job.
func (w *c16aWorld) podsByLiveJob(s *c16aSnap) (free, busy []*corev1.Pod) {
	live := map[string]bool{}
	for _, j := range s.jobs {
		if c16aLive(j) && j.Spec.PodRef != nil {
			live[c16aPodKey(j.Spec.PodRef.Namespace, j.Spec.PodRef.Name)] = true
		}
	}
	for _, k := range s.podKeys {
		if live[k] {
			busy = append(busy, s.pods[k])
		} else {
			free = append(free, s.pods[k])
		}
	}
	return
}

func (w *c16aWorld) genSnapshotJobs(restart bool) {
	r, c := w.r, w.c
	s := w.snapshot()
	perm := r.Perm(len(s.podKeys))
	nExisting := r.Range(0, c16aMin(len(perm), kit.Pick(r, []int{6, 6, 6, 8})))
	var created []*sev1alpha1.PodMigrationJob
	for i := 0; i < nExisting; i++ {
		p := s.pods[s.podKeys[perm[i]]]
		var j *sev1alpha1.PodMigrationJob
		switch r.Weighted(60, 15, 15, 10) {
		case 0:
			j = w.createJob(p.Namespace, p.Name, p.UID, 0, sev1alpha1.PodMigrationJobRunning, r.Pct(90))
		case 1:
			// a finished migration: the pod is gone, or (StatefulSet-like) a successor with the same
			// name and another uid exists
			j = w.createJob(p.Namespace, p.Name, types.UID("old-"+string(p.UID)), 0, sev1alpha1.PodMigrationJobSucceeded, true)
			if r.Pct(70) {
				w.deletePod(p, "migrated away by the finished job")
			}
		case 2:
			j = w.createJob(p.Namespace, p.Name, p.UID, 0, sev1alpha1.PodMigrationJobFailed, r.Bool())
		default:
			j = w.createJob(p.Namespace, p.Name, p.UID, 0, sev1alpha1.PodMigrationJobAborted, true)
		}
		c.Op("existing job %s", c16aJobStr(s, j))
		created = append(created, j)
		if j.Status.Phase == sev1alpha1.PodMigrationJobRunning && r.Pct(20) {
			// migration under way: the pod is already evicted
			w.deletePod(p, "already evicted by its running job")
		}
	}
	if restart {
		for _, j := range created {
			w.evCreate(j)
		}
		c.Op("restart flavour: Create events delivered for the %d existing jobs", len(created))
	}
	switch r.Weighted(6, 84, 10) {
	case 0: // nothing is waiting at start-up
	case 1:
		w.addWaitingJobs(r.Range(1, 12))
	default:
		w.addWaitingJobs(r.Range(13, 20))
	}
}

// addWaitingJobs creates n new jobs (see the causal rules at the top) and delivers their Create events.
func (w *c16aWorld) addWaitingJobs(n int) {
	r, c := w.r, w.c
	s := w.snapshot()
	free, busy := w.podsByLiveJob(s)
	for i := 0; i < n; i++ {
		if r.Pct(4) {
			// user typo / pod already gone: the job refers to a pod that does not exist
			j := w.createJob(kit.Pick(r, w.nss), fmt.Sprintf("ghost%03d", w.jobSeq), "", 1, "", false)
			c.Op("new job %s (dangling podRef)", c16aJobStr(s, j))
			w.evCreate(j)
			c.Count("new_jobs_dangling", 1)
			continue
		}
		var p *corev1.Pod
		if w.dupMode && len(busy) > 0 && r.Pct(35) {
			p = kit.Pick(r, busy)
			c.Count("new_jobs_duplicate_for_pod", 1)
		} else if len(free) > 0 {
			i := r.Intn(len(free))
			p = free[i]
			free = append(free[:i], free[i+1:]...)
			busy = append(busy, p)
		} else {
			return
		}
		var j *sev1alpha1.PodMigrationJob
		switch r.Weighted(30, 25, 25, 20) {
		case 0: // descheduler's Evict: Filter first (the informer has seen everything created so far)
			w.refreshCache()
			ok := w.a.Filter(p.DeepCopy())
			c.Op("descheduler asks Filter(%s) -> %v", c16aPodStr(p), ok)
			if !ok {
				c.Count("filter_false_pod_without_live_job", 1)
				if n := len(busy); n > 0 && busy[n-1] == p {
					busy, free = busy[:n-1], append(free, p)
				}
				continue
			}
			c.Count("filter_true_pod_without_live_job", 1)
			for _, b := range busy[:len(busy)-1] {
				if b.Namespace == p.Namespace && b.Name == p.Name {
					c.Fail("C16/arbitrator/filter-admits-pod-with-live-job", "Filter(%s) returned true although the pod has a live job", c16aPodStr(p))
				}
			}
			j = w.createJob(p.Namespace, p.Name, p.UID, 0, sev1alpha1.PodMigrationJobPending, false)
		case 1: // descheduler with a stale cache / concurrent plugin: no effective Filter
			j = w.createJob(p.Namespace, p.Name, p.UID, 0, sev1alpha1.PodMigrationJobPending, false)
		case 2: // user, by name
			j = w.createJob(p.Namespace, p.Name, p.UID, 1, "", false)
		default: // user, uid filled in
			j = w.createJob(p.Namespace, p.Name, p.UID, 2, kit.Pick(r, []sev1alpha1.PodMigrationJobPhase{"", sev1alpha1.PodMigrationJobPending}), false)
		}
		c.Op("new job %s for %s", c16aJobStr(s, j), c16aPodStr(p))
		w.evCreate(j)
		c.Count("new_jobs", 1)
	}
}

func (w *c16aWorld) deletePod(p *corev1.Pod, why string) {
	cur := w.getPod(p.Namespace, p.Name)
	if cur != nil && len(cur.Finalizers) > 0 {
		cur.Finalizers = nil
		w.must(w.cl.Update(context.TODO(), cur), "remove finalizer")
		cur = w.getPod(p.Namespace, p.Name) // a terminating pod is gone once its finalizers are
	}
	if cur != nil {
		w.must(w.cl.Delete(context.TODO(), cur), "delete pod")
	}
	if w.getPod(p.Namespace, p.Name) != nil {
		w.c.Harness("pod %s/%s survived its deletion", p.Namespace, p.Name)
	}
	w.c.Op("  pod %s/%s deleted (%s)", p.Namespace, p.Name, why)
}

func (w *c16aWorld) replacementFor(p *corev1.Pod) {
	o := metav1.GetControllerOf(p)
	if o == nil {
		return
	}
	wl := w.wlByUID[o.UID]
	if wl == nil || !w.r.Pct(75) {
		return
	}
	np := w.newPod(wl, wl.ns, kit.Pick(w.r, w.nodes), w.r.Weighted(50, 25, 15, 0, 10))
	w.c.Op("  replacement pod %s", c16aPodStr(np))
}

// envStep: what the rest of the system does between two rounds.
func (w *c16aWorld) envStep() {
	r, c := w.r, w.c
	// events that were late
	late := w.delayed
	w.delayed = nil
	for _, f := range late {
		f()
	}
	if len(late) > 0 {
		c.Op("env: %d late events delivered", len(late))
	}
	// reconciler: passed jobs start running
	s := w.snapshot()
	for _, j := range s.jobs {
		if !(c16aPending(j) && j.Annotations[AnnotationPassedArbitration] == "true") || !r.Pct(65) {
			continue
		}
		w.promote(s, j, "passed arbitration")
	}
	for i, n := 0, r.Range(2, 7); i < n; i++ {
		s = w.snapshot()
		switch r.Weighted(22, 8, 10, 22, 14, 8, 8, 8, 9, 6, 5, 5) {
		case 0: // a running job completes
			var running []*sev1alpha1.PodMigrationJob
			for _, j := range s.jobs {
				if j.Status.Phase == sev1alpha1.PodMigrationJobRunning {
					running = append(running, j)
				}
			}
			if len(running) == 0 {
				continue
			}
			j := kit.Pick(r, running)
			ph := kit.Pick(r, []sev1alpha1.PodMigrationJobPhase{sev1alpha1.PodMigrationJobSucceeded, sev1alpha1.PodMigrationJobSucceeded, sev1alpha1.PodMigrationJobFailed, sev1alpha1.PodMigrationJobAborted})
			c.Op("env: job %s -> %s", j.Name, ph)
			if p := s.podOf(j); p != nil && ph == sev1alpha1.PodMigrationJobSucceeded {
				w.deletePod(p, "migrated")
				w.replacementFor(p)
			}
			nj := w.setPhase(j, ph, "")
			w.evUpdate(nj)
			c.Count("env_job_completed", 1)
		case 1: // a running job has evicted its pod but is still running
			var cand []*sev1alpha1.PodMigrationJob
			for _, j := range s.jobs {
				if j.Status.Phase == sev1alpha1.PodMigrationJobRunning && s.podOf(j) != nil {
					cand = append(cand, j)
				}
			}
			if len(cand) == 0 {
				continue
			}
			j := kit.Pick(r, cand)
			c.Op("env: running job %s evicts its pod", j.Name)
			p := s.podOf(j)
			w.deletePod(p, "evicted by its running job")
			w.replacementFor(p)
			c.Count("env_pod_evicted", 1)
		case 2: // a job is deleted (user / scavenger), whatever its phase
			if len(s.jobs) == 0 {
				continue
			}
			j := kit.Pick(r, s.jobs)
			c.Op("env: job %s deleted", c16aJobStr(s, j))
			w.must(w.cl.Delete(context.TODO(), j), "delete job")
			w.evDelete(j)
			c.Count("env_job_deleted", 1)
		case 3:
			c.Op("env: new jobs")
			w.addWaitingJobs(r.Range(1, 4))
		case 4: // pod readiness / phase changes
			if len(s.podKeys) == 0 {
				continue
			}
			p := s.pods[kit.Pick(r, s.podKeys)].DeepCopy()
			st := r.Weighted(50, 27, 0, 10, 0, 7, 6)
			if p.Spec.NodeName == "" {
				p.Spec.NodeName = kit.Pick(r, w.nodes) // got scheduled
			}
			c16aSetPodState(p, st)
			w.must(w.cl.Update(context.TODO(), p), "update pod")
			w.countPodState(p)
			c.Op("env: pod now %s", c16aPodStr(p))
			c.Count("env_pod_state", 1)
		case 5: // workload scaled
			if len(w.wls) == 0 {
				continue
			}
			wl := kit.Pick(r, w.wls)
			old := wl.replicas
			if old == 0 {
				continue
			}
			wl.replicas = c16aMax(1, c16aMin(30, wl.replicas+kit.Pick(r, []int{-3, -2, -1, -1, 1, 1, 2, 3})))
			c.Op("env: workload %s scaled %d -> %d", wl.name, old, wl.replicas)
			if wl.replicas > old && r.Pct(70) {
				for k := old; k < wl.replicas; k++ {
					np := w.newPod(wl, wl.ns, kit.Pick(r, w.nodes), r.Weighted(40, 30, 20, 0, 10))
					c.Op("  new pod %s", c16aPodStr(np))
				}
			} else if wl.replicas < old && r.Pct(70) {
				var mine []*corev1.Pod
				for _, k := range s.podKeys {
					if o := metav1.GetControllerOf(s.pods[k]); o != nil && o.UID == wl.uid {
						mine = append(mine, s.pods[k])
					}
				}
				for k := 0; k < old-wl.replicas && len(mine) > 1; k++ {
					i := r.Intn(len(mine))
					w.deletePod(mine[i], "scale down")
					mine = append(mine[:i], mine[i+1:]...)
				}
			}
			c.Count("env_workload_scaled", 1)
		case 6: // "touch": an un-arbitrated pending job receives an update -> the reconciler runs it
			var cand []*sev1alpha1.PodMigrationJob
			for _, j := range s.jobs {
				if c16aPending(j) && j.Annotations[AnnotationPassedArbitration] != "true" {
					cand = append(cand, j)
				}
			}
			if len(cand) == 0 {
				continue
			}
			j := kit.Pick(r, cand)
			if j.Labels == nil {
				j.Labels = map[string]string{}
			}
			j.Labels["touched"] = "true"
			w.must(w.cl.Update(context.TODO(), j), "touch job")
			if tj := w.getJob(j.Name); tj != nil {
				w.h.Update(context.TODO(), event.TypedUpdateEvent[client.Object]{ObjectOld: tj, ObjectNew: tj.DeepCopy()}, c16aQueue)
			}
			c.Op("env: user labels the un-arbitrated job %s; the update event triggers the reconciler", j.Name)
			w.promote(s, w.getJob(j.Name), "touched")
			c.Count("env_job_touched", 1)
		case 8: // a workload replica starts terminating gracefully: deletionTimestamp set, still Ready
			var cand []*corev1.Pod
			for _, k := range s.podKeys {
				if p := s.pods[k]; metav1.GetControllerOf(p) != nil && c16aAvailable(p) {
					cand = append(cand, p)
				}
			}
			if len(cand) == 0 {
				continue
			}
			p := w.startTerminating(kit.Pick(r, cand))
			c.Op("env: pod starts terminating gracefully: %s", c16aPodStr(p))
			if r.Pct(50) {
				w.replacementFor(p)
			}
			c.Count("env_pod_terminating", 1)
		case 9: // a pod finishes (Job-like pods preferably) and its Ready condition is left True
			var cand, jobPods []*corev1.Pod
			for _, k := range s.podKeys {
				p := s.pods[k]
				if o := metav1.GetControllerOf(p); o != nil && c16aAvailable(p) {
					cand = append(cand, p)
					if o.Kind == JobKind {
						jobPods = append(jobPods, p)
					}
				}
			}
			if len(jobPods) > 0 && r.Pct(70) {
				cand = jobPods
			}
			if len(cand) == 0 {
				continue
			}
			p := kit.Pick(r, cand).DeepCopy()
			c16aSetPodState(p, kit.Pick(r, []int{5, 5, 6}))
			w.must(w.cl.Update(context.TODO(), p), "update pod")
			w.countPodState(p)
			c.Op("env: pod finished, Ready condition left True: %s", c16aPodStr(p))
			c.Count("env_pod_finished_ready", 1)
		case 10: // a terminating pod is finally gone
			var cand []*corev1.Pod
			for _, k := range s.podKeys {
				if s.pods[k].DeletionTimestamp != nil {
					cand = append(cand, s.pods[k])
				}
			}
			if len(cand) == 0 {
				continue
			}
			p := kit.Pick(r, cand)
			c.Op("env: terminating pod %s/%s is gone", p.Namespace, p.Name)
			w.deletePod(p, "grace period over")
			c.Count("env_pod_termination_finished", 1)
		case 11: // StatefulSet-like re-creation: the pod is deleted and a successor with the same name and a new uid appears
			var cand []*corev1.Pod
			for _, k := range s.podKeys {
				p := s.pods[k]
				if o := metav1.GetControllerOf(p); o != nil && (o.Kind == "StatefulSet" || o.Kind == "CloneSet") && p.DeletionTimestamp == nil {
					cand = append(cand, p)
				}
			}
			if len(cand) == 0 {
				continue
			}
			p := kit.Pick(r, cand)
			wl := w.wlByUID[metav1.GetControllerOf(p).UID]
			c.Op("env: pod %s is re-created under the same name", c16aPodStr(p))
			w.deletePod(p, "re-created")
			np := w.newPodNamed(wl, p.Namespace, kit.Pick(r, w.nodes), r.Weighted(45, 30, 20, 0, 5), p.Name)
			c.Op("  successor %s uid=%s", c16aPodStr(np), np.UID)
			c.Count("env_pod_recreated_same_name", 1)
		case 7: // a bare pod appears / a pod disappears
			if r.Bool() || len(s.podKeys) < 3 {
				np := w.newPod(nil, kit.Pick(r, w.nss), kit.Pick(r, w.nodes), w.genPodState())
				c.Op("env: bare pod %s", c16aPodStr(np))
			} else {
				p := s.pods[kit.Pick(r, s.podKeys)]
				c.Op("env: pod %s deleted by its owner/user", c16aPodStr(p))
				w.deletePod(p, "deleted")
			}
		}
	}
}

// promote: the reconciler's preparePendingJob (PodRef.UID filled in, phase Running) or
// abortJobByMissingPod (phase Failed).
func (w *c16aWorld) promote(s *c16aSnap, j *sev1alpha1.PodMigrationJob, why string) {
	p := s.podOf(j)
	if p == nil {
		w.c.Op("env: reconciler aborts job %s (%s): pod missing", j.Name, why)
		nj := w.setPhase(j, sev1alpha1.PodMigrationJobFailed, sev1alpha1.PodMigrationJobReasonMissingPod)
		w.evUpdate(nj)
		w.c.Count("env_job_aborted_missing_pod", 1)
		return
	}
	if j.Spec.PodRef.UID != p.UID {
		j.Spec.PodRef.UID = p.UID
		w.must(w.cl.Update(context.TODO(), j), "fill podRef uid")
		j = w.getJob(j.Name)
		w.h.Update(context.TODO(), event.TypedUpdateEvent[client.Object]{ObjectOld: j.DeepCopy(), ObjectNew: j.DeepCopy()}, c16aQueue)
	}
	nj := w.setPhase(j, sev1alpha1.PodMigrationJobRunning, "")
	w.c.Op("env: reconciler starts job %s (%s) -> Running", nj.Name, why)
	w.evUpdate(nj)
	w.c.Count("env_job_started", 1)
}

func c16aMin(a, b int) int {
	if a < b {
		return a
	}
	return b
}

func c16aMax(a, b int) int {
	if a > b {
		return a
	}
	return b
}

// ---------------------------------------------------------------------------------------------

func TestVerifC16ArbitrationRounds(t *testing.T) {
	if err := c16aFixtures(); err != nil {
		t.Fatalf("fixtures: %v", err)
	}
	kit.Run(t, kit.Config{Property: "C16", Unit: "rounds", Quick: 1440, Thorough: 30000,
		Rule: "generated cluster (1-6 nodes with skewed pod placement, 1-4 namespaces with pod names possibly repeating across them, 0-5 workloads (ReplicaSet/StatefulSet/Job/CloneSet/DaemonSet) of 0-30 replicas with per-pod readiness/phase incl. terminating or finished pods whose Ready condition is still True (placed so that workloads sit one below / at their allowed unavailability), bare pods), start-up snapshot of Running/Succeeded/Failed/Aborted jobs (restart flavour: all re-delivered as Create events; warm flavour: not), 0-20 waiting jobs created by descheduler(with/without Filter)/user(with/without uid), limits global/node/namespace unset|0|1-6|large, per-workload migrating/unavailable unset|int|percent|0|negative|>100%, eviction gates, all non-retryable rule arguments (local storage, PVC, critical priority, priority threshold, label selector, namespaces) with pods that trip them, injected API write failures, read lag in 35% of the cases (arbitrator reads from an informer-cache copy that does not see its own writes of the round, or only after 1-3 of them; foreign writes are always visible at round start); 1-8 real doOnceArbitrate() rounds with reconciler/user/workload activity in between; oracle on the API objects after every round; distinct = (which limits are on, workload limit kinds, flavour, admitted/held-for-headroom/failed classes of the round, set of dimensions that reached their limit in the round, some dimension exceeded before); non-trivial = a case with a round that both admitted a job and held back another live job (existing pod) because some budget had no room"},
		func(c *kit.Case) {
			r := c.R
			cfg := c16aGenCfg(r)
			lag := r.Pct(35)
			w := c16aNewWorld(c, cfg, lag)
			if lag {
				c.Count("cases_with_read_lag", 1)
			}
			w.dupMode = r.Pct(8)
			if r.Pct(25) {
				w.failPct = kit.Pick(r, []int{5, 15, 40})
			}
			restart := r.Pct(55)
			c.Op("config: %s; duplicates=%v apiFailPct=%d flavour-restart=%v read-lag=%v", cfg.desc, w.dupMode, w.failPct, restart, lag)
			w.genCluster()
			w.genSnapshotJobs(restart)
			rounds := kit.Pick(r, []int{1, 2, 2, 3, 3, 4, 4, 5, 5, 8})
			nontrivial := false
			for round := 1; round <= rounds; round++ {
				before := w.snapshot()
				waiting := w.waitingUIDs()
				var wn []string
				for _, u := range waiting {
					if j := before.byUID[u]; j != nil {
						wn = append(wn, c16aJobStr(before, j))
					} else {
						wn = append(wn, string(u)+"(deleted)")
					}
				}
				c.Op("round %d: waiting = %s", round, strings.Join(wn, " "))
				if lag {
					// foreign writes are all visible at the start of the round; own writes of the round are not
					w.refreshCache()
					w.ownWrites, w.refreshAfter = 0, 0
					if r.Pct(40) {
						w.refreshAfter = r.Range(1, 3)
					}
					c.Op("round %d: read lag, own writes visible after %d writes (0 = not within the round)", round, w.refreshAfter)
				} else {
					w.eventsEarly = r.Pct(50)
					c.Op("round %d: update events of own writes reach the handler early=%v", round, w.eventsEarly)
				}
				w.refreshDue = false
				w.inRound = true
				w.a.doOnceArbitrate()
				w.inRound = false
				if lag {
					c.Count("rounds_under_read_lag", 1)
					if w.staleOwnWrites > 0 {
						c.Count("rounds_with_own_writes_invisible", 1)
						c.Count("own_writes_invisible_at_round_end", w.staleOwnWrites)
					}
					w.refreshCache() // informer catches up before anybody asks Filter
				}
				w.flushOwnEvents(false)
				after := w.snapshot()
				var res []string
				for _, u := range waiting {
					if ja := after.byUID[u]; ja != nil {
						state := "held"
						if !c16aContainsUID(w.waitingUIDs(), u) {
							state = "left-waiting"
						}
						res = append(res, fmt.Sprintf("%s:%s", c16aJobStr(after, ja), state))
					}
				}
				c.Op("round %d: result = %s", round, strings.Join(res, " "))
				st := w.checkRound(round, before, after, waiting)
				c.Count("rounds", 1)
				if len(waiting) == 0 {
					c.Count("rounds_empty", 1)
				}
				if st.admitted > 0 && st.heldNoRoom > 0 {
					c.Count("rounds_admitting_and_holding", 1)
					nontrivial = true
				}
				sort.Strings(st.boundary)
				sort.Strings(st.preExceeded)
				c.Seen(cfg.global > 0, cfg.perNode > 0, cfg.perNS > 0, c16aKind(cfg.args.MaxMigratingPerWorkload), c16aKind(cfg.args.MaxUnavailablePerWorkload), restart, lag,
					c16aClass(st.admitted), c16aClass(st.heldNoRoom), st.failed > 0, strings.Join(c16aUniq(st.boundary), ","), len(st.preExceeded) > 0)
				w.checkFilter(round, after)
				if round < rounds {
					w.envStep()
				}
			}
			c.Count("api_write_failures_injected", w.injected)
			if nontrivial {
				c.NonTrivial()
			}
			if c.K < 2 {
				ops := c.Ops()
				if len(ops) > 40 {
					ops = ops[:40]
				}
				c.Sample(ops)
			}
		})
}

func c16aContainsUID(xs []types.UID, u types.UID) bool {
	for _, x := range xs {
		if x == u {
			return true
		}
	}
	return false
}

func c16aUniq(xs []string) []string {
	var out []string
	for i, x := range xs {
		if i == 0 || xs[i-1] != x {
			out = append(out, x)
		}
	}
	return out
}
