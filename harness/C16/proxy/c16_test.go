//go:build verif

package runtime

// C16 (a), the live path of the descheduler: framework.Evictor() (the evictorProxy) in front of
// the process-wide EvictionLimiter and the single registered evict plugin. The proxy's Evict is
// the composite allow -> evict plugin -> done. 1-16 goroutines (plugins / workers) evict distinct
// pods through Evictor() of one framework handle; the fake evict plugin is the ground truth for
// "evictions issued" and is the yield point between the cap check and the counter increment.
//
// Oracles: race detector; conservation at quiescence (issued <= caps per node / namespace / total,
// limiter counters == issued, a refused call reached no plugin, dry-run reaches no plugin);
// linearizability of fault-free non-dry-run histories offline (tools/lincheck).

import (
	"context"
	"encoding/json"
	"fmt"
	"os"
	"path/filepath"
	goruntime "runtime"
	"sort"
	"sync"
	"sync/atomic"
	"testing"
	"time"

	corev1 "k8s.io/api/core/v1"
	metav1 "k8s.io/apimachinery/pkg/apis/meta/v1"
	"k8s.io/klog/v2"

	"github.com/koordinator-sh/koordinator/pkg/descheduler/evictions"
	"github.com/koordinator-sh/koordinator/pkg/descheduler/framework"
	kit "github.com/koordinator-sh/koordinator/pkg/verifkit"
)

func init() {
	klog.SetOutput(c16pDiscard{})
	klog.LogToStderr(false)
}

type c16pDiscard struct{}

func (c16pDiscard) Write(p []byte) (int, error) { return len(p), nil }

type c16pOp struct {
	Proc int    `json:"proc"`
	Call int64  `json:"call"`
	Ret  int64  `json:"ret"`
	Op   string `json:"op"`
	Node string `json:"node"`
	NS   string `json:"ns"`
	Out  int64  `json:"out"`
}

type c16pHistory struct {
	Property string   `json:"property"`
	Unit     string   `json:"unit"`
	Kind     string   `json:"kind"`
	Case     int      `json:"case"`
	Seed     uint64   `json:"seed"`
	Tier     string   `json:"tier"`
	CapNode  int64    `json:"cap_node"`
	CapNS    int64    `json:"cap_ns"`
	CapTotal int64    `json:"cap_total"`
	DryRun   bool     `json:"dry_run"`
	Ops      []c16pOp `json:"ops"`
}

var (
	c16pHistMu   sync.Mutex
	c16pHistFile *os.File
)

func c16pWriteHistory(h *c16pHistory) {
	c16pHistMu.Lock()
	defer c16pHistMu.Unlock()
	if c16pHistFile == nil {
		dir := os.Getenv("VERIF_OUT")
		if dir == "" {
			dir = os.TempDir()
		}
		f, err := os.OpenFile(filepath.Join(dir, fmt.Sprintf("hist-proxy-%d.json", os.Getpid())), os.O_CREATE|os.O_WRONLY|os.O_TRUNC, 0o644)
		if err != nil {
			return
		}
		c16pHistFile = f
	}
	b, _ := json.Marshal(h)
	c16pHistFile.Write(append(b, '\n'))
}

// c16pCap draws a cap: unset, 0, small (1-3, the interesting range), medium, large, and the largest
// value a uint holds. The second result is the cap as the offline checker reads it (-1 = no cap;
// MaxUint can never bind and is reported as -1).
func c16pCap(r *kit.Rand) (*uint, int64) {
	switch r.Weighted(24, 12, 40, 12, 8, 4) {
	case 0:
		return nil, -1
	case 1:
		v := uint(0)
		return &v, 0
	case 2:
		v := uint(r.Range(1, 3))
		return &v, int64(v)
	case 3:
		v := uint(r.Range(4, 8))
		return &v, int64(v)
	case 4:
		v := kit.Pick(r, []uint{64, 1000, 1 << 40})
		return &v, int64(v)
	default:
		v := ^uint(0)
		return &v, -1
	}
}

func c16pOver(n int, limit *uint) bool { return limit != nil && uint(n) > *limit }

type c16pPlugin struct {
	mu       sync.Mutex
	received []string
	ok       map[string]bool
	fail     map[string]bool
	yield    func()
}

func (p *c16pPlugin) Name() string { return "verif-evictor" }
func (p *c16pPlugin) Evict(ctx context.Context, pod *corev1.Pod, opts framework.EvictOptions) bool {
	key := pod.Namespace + "/" + pod.Name
	p.yield()
	p.mu.Lock()
	p.received = append(p.received, key)
	f := p.fail[key]
	if !f {
		p.ok[key] = true
	}
	p.mu.Unlock()
	p.yield()
	return !f
}

func (p *c16pPlugin) reset() {
	p.mu.Lock()
	p.received, p.ok, p.fail = nil, map[string]bool{}, map[string]bool{}
	p.mu.Unlock()
}

func c16pYielder(r *kit.Rand) func() {
	var mu sync.Mutex
	return func() {
		mu.Lock()
		v := r.Intn(8)
		mu.Unlock()
		switch {
		case v < 3:
		case v < 6:
			goruntime.Gosched()
		case v < 7:
			time.Sleep(20 * time.Microsecond)
		default:
			time.Sleep(120 * time.Microsecond)
		}
	}
}

func TestVerifC16Proxy(t *testing.T) {
	var seed uint64 = 1
	fmt.Sscanf(os.Getenv("VERIF_SEED"), "%d", &seed)
	kit.Run(t, kit.Config{Property: "C16", Unit: "proxy", Quick: 8000, Thorough: 60000,
		Rule: "framework handles' Evictor() (evictorProxy -> one process-wide real EvictionLimiter with node/namespace/total caps unset|0|1-3|4-8|large|MaxUint, or no limiter at all -> fake evict plugin that yields); 1-3 profiles (framework handles) share the limiter and run one after the other as deschedulerOnce does, 1-3 cycles with Reset in between, 1-16 goroutines each evicting 1-8 pods (mostly distinct, sometimes the same victim twice) over 1-6 nodes x 1-5 namespaces, pods without node; 35% of cases script plugin failures per pod; 8% dry-run; distinct = (caps, goroutines, profiles, cycles, faults?, arrival order at the plugin); non-trivial = >=2 goroutines and a cap that binds"},
		func(c *kit.Case) {
			r := c.R
			nodeCap, nodeCapV := c16pCap(r)
			nsCap, nsCapV := c16pCap(r)
			totCap, totCapV := c16pCap(r)
			dry := r.Pct(8)
			g := kit.Pick(r, []int{1, 2, 2, 3, 4, 4, 6, 8, 12, 16})
			nodes, nss := kit.Pick(r, []int{1, 2, 2, 3, 3, 4, 6}), kit.Pick(r, []int{1, 2, 2, 3, 3, 5})
			nodeName, nsName := "node%d", "ns%d"
			if r.Pct(10) {
				nodeName, nsName = "x%d", "x%d" // node and namespace names collide
			}
			failPct := 0
			if r.Pct(35) {
				failPct = kit.Pick(r, []int{10, 30, 60, 100})
			}
			cycles := kit.Pick(r, []int{1, 1, 1, 1, 1, 2, 2, 3})
			nprof := kit.Pick(r, []int{1, 1, 1, 1, 1, 1, 2, 2, 3})
			// Profiles run one after the other in deschedulerOnce. Running goroutines of different
			// profiles at the same time is not something the descheduler does; it is explored in a few
			// cases and cap overshoots there are only counted (the proxy's critical section is per handle).
			crossConcurrent := nprof > 1 && r.Pct(20)
			noLimiter := r.Pct(4)
			dupPct := 0
			if r.Pct(10) {
				dupPct = 25
			}
			maxPer := 4
			if r.Pct(15) {
				maxPer = 8
			}
			plugin := &c16pPlugin{ok: map[string]bool{}, fail: map[string]bool{}, yield: c16pYielder(r.Fork())}
			var limiter *evictions.EvictionLimiter
			frameworks := make([]*frameworkImpl, nprof)
			for i := range frameworks {
				frameworks[i] = &frameworkImpl{dryRun: dry, evictPlugins: []framework.EvictPlugin{plugin}}
			}
			if !noLimiter {
				limiter = evictions.NewEvictionLimiter(nodeCap, nsCap, totCap)
				for _, f := range frameworks {
					f.evictionLimiter = limiter
				}
			} else {
				nodeCap, nsCap, totCap, nodeCapV, nsCapV, totCapV = nil, nil, nil, -1, -1, -1
				c.Count("cases_without_limiter", 1)
			}
			c.Op("caps node=%d ns=%d total=%d limiter=%v dry=%v goroutines=%d profiles=%d(concurrent=%v) cycles=%d failPct=%d dupPct=%d", nodeCapV, nsCapV, totCapV, !noLimiter, dry, g, nprof, crossConcurrent, cycles, failPct, dupPct)
			var clock int64
			var all []c16pOp
			anyFail, binds := false, false
			arrival := ""
			budget := 64 / cycles
			for cycle := 0; cycle < cycles; cycle++ {
				if cycle > 0 {
					// deschedulerOnce: d.evictionLimiter.Reset() at the start of the cycle
					call := atomic.AddInt64(&clock, 1)
					if limiter != nil {
						frameworks[0].Evictor().(EvictionLimiter).Reset()
					}
					ret := atomic.AddInt64(&clock, 1)
					all = append(all, c16pOp{Proc: g, Call: call, Ret: ret, Op: "reset"})
					plugin.reset()
					c.Op("cycle %d: limiter reset", cycle)
					c.Count("cycles_after_reset", 1)
				}
				per := make([]int, g)
				total := 0
				for i := range per {
					per[i] = r.Range(1, maxPer)
					if total+per[i] > budget-(g-1-i) {
						per[i] = 1
					}
					total += per[i]
				}
				pods := make([]*corev1.Pod, total)
				calls := map[string]int{}
				noNode := 0
				for i := range pods {
					if i > 0 && r.Pct(dupPct) {
						pods[i] = pods[r.Intn(i)] // two callers picked the same victim
						c.Count("duplicate_victims", 1)
					} else {
						pods[i] = &corev1.Pod{ObjectMeta: metav1.ObjectMeta{Name: fmt.Sprintf("c%dp%d", cycle, i), Namespace: fmt.Sprintf(nsName, r.Intn(nss))},
							Spec: corev1.PodSpec{NodeName: fmt.Sprintf(nodeName, r.Intn(nodes))}}
						if r.Pct(12) {
							// a pod that is not assigned to a node (pending): subject to the namespace and total caps only
							pods[i].Spec.NodeName = ""
							noNode++
						}
						if r.Pct(failPct) {
							plugin.fail[pods[i].Namespace+"/"+pods[i].Name] = true
							anyFail = true
						}
					}
					calls[pods[i].Namespace+"/"+pods[i].Name]++
				}
				ops := make([][]c16pOp, g)
				results := make([]bool, total)
				run := func(which func(gi int) bool) {
					var wg sync.WaitGroup
					startCh := make(chan struct{})
					idx := 0
					for gi := 0; gi < g; gi++ {
						mine := pods[idx : idx+per[gi]]
						base := idx
						idx += per[gi]
						if !which(gi) {
							continue
						}
						wg.Add(1)
						go func(gi int, mine []*corev1.Pod, base int) {
							defer wg.Done()
							f := frameworks[gi%nprof]
							<-startCh
							for j, p := range mine {
								call := atomic.AddInt64(&clock, 1)
								ok := f.Evictor().Evict(context.TODO(), p, framework.EvictOptions{PluginName: "verif", Reason: "c16"})
								ret := atomic.AddInt64(&clock, 1)
								results[base+j] = ok
								out := int64(0)
								if ok {
									out = 1
								}
								ops[gi] = append(ops[gi], c16pOp{Proc: gi, Call: call, Ret: ret, Op: "evict", Node: p.Spec.NodeName, NS: p.Namespace, Out: out})
							}
						}(gi, mine, base)
					}
					close(startCh)
					wg.Wait()
				}
				if nprof == 1 || crossConcurrent {
					run(func(int) bool { return true })
				} else {
					for pi := 0; pi < nprof; pi++ {
						run(func(gi int) bool { return gi%nprof == pi })
					}
				}
				for _, o := range ops {
					all = append(all, o...)
				}
				okNode, okNS := map[string]int{}, map[string]int{}
				reqNode, reqNS := map[string]int{}, map[string]int{}
				okTotal := 0
				byKey := map[string]*corev1.Pod{}
				trueCnt := map[string]int{}
				for i, p := range pods {
					k := p.Namespace + "/" + p.Name
					byKey[k] = p
					if p.Spec.NodeName != "" {
						reqNode[p.Spec.NodeName]++
					}
					reqNS[p.Namespace]++
					if results[i] {
						trueCnt[k]++
					}
				}
				c.Count("pods_without_node", noNode)
				seen, okCnt := map[string]int{}, map[string]int{}
				for _, k := range plugin.received {
					seen[k]++
					p := byKey[k]
					if p == nil {
						c.Harness("plugin saw unknown pod %s", k)
					}
					arrival += fmt.Sprintf("%s:%v,", k, plugin.fail[k])
					if !plugin.fail[k] {
						okCnt[k]++
						if p.Spec.NodeName != "" {
							okNode[p.Spec.NodeName]++
						}
						okNS[p.Namespace]++
						okTotal++
					}
				}
				for i, p := range pods {
					k := p.Namespace + "/" + p.Name
					c.Op("cycle %d: evict %s node=%s fail=%v -> %v (plugin calls for the pod=%d of %d Evict calls)", cycle, k, p.Spec.NodeName, plugin.fail[k], results[i], seen[k], calls[k])
				}
				c.Count("evict_calls", total)
				c.Count("plugin_calls", len(plugin.received))
				c.Count("plugin_successes", okTotal)
				if dry {
					if len(plugin.received) != 0 {
						c.Fail("C16/proxy/dry-run-eviction", "dry-run framework called the evict plugin %d times", len(plugin.received))
					}
					continue
				}
				binds = binds || c16pOver(total, totCap)
				capFail := func(sig, format string, a ...any) {
					if crossConcurrent {
						c.Count("cap_exceeded_with_profiles_evicting_concurrently", 1)
						return
					}
					c.Fail(sig, format, a...)
				}
				for n, k := range okNode {
					if c16pOver(k, nodeCap) {
						capFail("C16/proxy/node-cap-exceeded", "%d evictions were issued on %s, per-node cap is %d (goroutines=%d profiles=%d)", k, n, *nodeCap, g, nprof)
					}
				}
				for n, k := range okNS {
					if c16pOver(k, nsCap) {
						capFail("C16/proxy/namespace-cap-exceeded", "%d evictions were issued in %s, per-namespace cap is %d (goroutines=%d profiles=%d)", k, n, *nsCap, g, nprof)
					}
				}
				if c16pOver(okTotal, totCap) {
					capFail("C16/proxy/total-cap-exceeded", "%d evictions were issued in total, cap is %d (goroutines=%d profiles=%d)", okTotal, *totCap, g, nprof)
				}
				for n, k := range reqNode {
					binds = binds || c16pOver(k, nodeCap)
					if limiter == nil {
						continue
					}
					if got := limiter.NodeEvicted(n); int(got) != okNode[n] {
						c.Fail("C16/proxy/node-counter", "NodeEvicted(%s)=%d but %d evictions were issued there", n, got, okNode[n])
					}
				}
				for n, k := range reqNS {
					binds = binds || c16pOver(k, nsCap)
					if limiter == nil {
						continue
					}
					if got := limiter.NamespaceEvicted(n); int(got) != okNS[n] {
						c.Fail("C16/proxy/namespace-counter", "NamespaceEvicted(%s)=%d but %d evictions were issued there", n, got, okNS[n])
					}
				}
				if limiter != nil {
					if got := limiter.NodeEvicted(""); got != 0 {
						c.Fail("C16/proxy/node-counter", "NodeEvicted(\"\")=%d: evictions of pods without a node were booked on the empty node name", got)
					}
					if got := frameworks[0].Evictor().(EvictionLimiter).TotalEvicted(); int(got) != okTotal {
						c.Fail("C16/proxy/total-counter", "TotalEvicted()=%d but %d evictions were issued", got, okTotal)
					}
				}
				for k, n := range calls {
					if seen[k] > n {
						c.Fail("C16/proxy/duplicate-eviction", "pod %s reached the evict plugin %d times for %d Evict calls", k, seen[k], n)
					}
					if trueCnt[k] > okCnt[k] {
						c.Fail("C16/proxy/reported-without-eviction", "%d Evict(%s) calls returned true but the evict plugin evicted it %d times", trueCnt[k], k, okCnt[k])
					}
					if trueCnt[k] < okCnt[k] {
						c.Fail("C16/proxy/evicted-but-refused", "the evict plugin evicted %s %d times but only %d Evict calls returned true (side effect of a refused call)", k, okCnt[k], trueCnt[k])
					}
					c.Count("refused_without_plugin_call", n-seen[k])
				}
				if c.K < 2 && cycle == 0 {
					c.Sample(map[string]any{"caps": []int64{nodeCapV, nsCapV, totCapV}, "goroutines": g, "profiles": nprof, "cycles": cycles, "pods": total, "plugin_arrival_order": plugin.received, "results": results})
				}
			}
			if dry {
				c.Count("dry_run_cases", 1)
				return
			}
			if cycles > 1 {
				c.Count("cases_with_several_cycles", 1)
			}
			if nprof > 1 {
				c.Count("cases_with_several_profiles", 1)
			}
			if g >= 2 && binds {
				c.NonTrivial()
			}
			c.Seen(nodeCapV, nsCapV, totCapV, g, nprof, cycles, anyFail, arrival)
			if !anyFail && !crossConcurrent && !noLimiter {
				sort.Slice(all, func(i, j int) bool { return all[i].Call < all[j].Call })
				c16pWriteHistory(&c16pHistory{Property: "C16", Unit: "proxy", Kind: "proxy", Case: c.K, Seed: seed, Tier: c.Tier,
					CapNode: nodeCapV, CapNS: nsCapV, CapTotal: totCapV, Ops: all})
				c.Count("histories_recorded", 1)
			}
		})
}
