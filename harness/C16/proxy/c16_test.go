//go:build verif

package runtime

// C16 (a), the live path of the descheduler: framework.Evictor() (the evictorProxy) in front of
// the process-wide EvictionLimiter and the single registered evict plugin. The proxy's Evict is
// the composite allow -> evict plugin -> done. 1-16 goroutines (plugins / workers) evict distinct
// pods through Evictor() of one framework handle; the fake evict plugin is the ground truth for
// "evictions issued" and is the yield point between the cap check and the counter increment.
//
// Oracles: race detector; conservation at quiescence (issued <= caps per node / namespace / total,
// limiter counters == issued, a refused call reached no plugin, dry-run reaches no plugin);
// linearizability of fault-free non-dry-run histories offline (tools/lincheck).

import (
	"context"
	"encoding/json"
	"fmt"
	"os"
	"path/filepath"
	goruntime "runtime"
	"sort"
	"sync"
	"sync/atomic"
	"testing"
	"time"

	corev1 "k8s.io/api/core/v1"
	metav1 "k8s.io/apimachinery/pkg/apis/meta/v1"
	"k8s.io/klog/v2"

	"github.com/koordinator-sh/koordinator/pkg/descheduler/evictions"
	"github.com/koordinator-sh/koordinator/pkg/descheduler/framework"
	kit "github.com/koordinator-sh/koordinator/pkg/verifkit"
)

func init() {
	klog.SetOutput(c16pDiscard{})
	klog.LogToStderr(false)
}

type c16pDiscard struct{}

func (c16pDiscard) Write(p []byte) (int, error) { return len(p), nil }

type c16pOp struct {
	Proc int    `json:"proc"`
	Call int64  `json:"call"`
	Ret  int64  `json:"ret"`
	Op   string `json:"op"`
	Node string `json:"node"`
	NS   string `json:"ns"`
	Out  int64  `json:"out"`
}

type c16pHistory struct {
	Property string   `json:"property"`
	Unit     string   `json:"unit"`
	Kind     string   `json:"kind"`
	Case     int      `json:"case"`
	Seed     uint64   `json:"seed"`
	Tier     string   `json:"tier"`
	CapNode  int64    `json:"cap_node"`
	CapNS    int64    `json:"cap_ns"`
	CapTotal int64    `json:"cap_total"`
	DryRun   bool     `json:"dry_run"`
	Ops      []c16pOp `json:"ops"`
}

var (
	c16pHistMu   sync.Mutex
	c16pHistFile *os.File
)

func c16pWriteHistory(h *c16pHistory) {
	c16pHistMu.Lock()
	defer c16pHistMu.Unlock()
	if c16pHistFile == nil {
		dir := os.Getenv("VERIF_OUT")
		if dir == "" {
			dir = os.TempDir()
		}
		f, err := os.OpenFile(filepath.Join(dir, fmt.Sprintf("hist-proxy-%d.json", os.Getpid())), os.O_CREATE|os.O_WRONLY|os.O_TRUNC, 0o644)
		if err != nil {
			return
		}
		c16pHistFile = f
	}
	b, _ := json.Marshal(h)
	c16pHistFile.Write(append(b, '\n'))
}

func c16pCap(r *kit.Rand) (*uint, int64) {
	switch r.Intn(6) {
	case 0, 1:
		return nil, -1
	case 2:
		v := uint(0)
		return &v, 0
	default:
		v := uint(r.Range(1, 3))
		return &v, int64(v)
	}
}

type c16pPlugin struct {
	mu       sync.Mutex
	received []string
	ok       map[string]bool
	fail     map[string]bool
	yield    func()
}

func (p *c16pPlugin) Name() string { return "verif-evictor" }
func (p *c16pPlugin) Evict(ctx context.Context, pod *corev1.Pod, opts framework.EvictOptions) bool {
	key := pod.Namespace + "/" + pod.Name
	p.yield()
	p.mu.Lock()
	p.received = append(p.received, key)
	f := p.fail[key]
	if !f {
		p.ok[key] = true
	}
	p.mu.Unlock()
	p.yield()
	return !f
}

func c16pYielder(r *kit.Rand) func() {
	var mu sync.Mutex
	return func() {
		mu.Lock()
		v := r.Intn(8)
		mu.Unlock()
		switch {
		case v < 3:
		case v < 6:
			goruntime.Gosched()
		case v < 7:
			time.Sleep(20 * time.Microsecond)
		default:
			time.Sleep(120 * time.Microsecond)
		}
	}
}

func TestVerifC16Proxy(t *testing.T) {
	var seed uint64 = 1
	fmt.Sscanf(os.Getenv("VERIF_SEED"), "%d", &seed)
	kit.Run(t, kit.Config{Property: "C16", Unit: "proxy", Quick: 8000, Thorough: 60000,
		Rule: "framework handle's Evictor() (evictorProxy -> real EvictionLimiter with node/namespace/total caps unset|0|1-3 -> fake evict plugin that yields), 1-16 goroutines each evicting 1-4 distinct pods over 1-3 nodes x 1-3 namespaces; 35% of cases script plugin failures per pod; 8% dry-run; distinct = (caps, goroutines, faults?, arrival order at the plugin); non-trivial = >=2 goroutines and a cap that binds"},
		func(c *kit.Case) {
			r := c.R
			nodeCap, nodeCapV := c16pCap(r)
			nsCap, nsCapV := c16pCap(r)
			totCap, totCapV := c16pCap(r)
			dry := r.Pct(8)
			g := kit.Pick(r, []int{1, 2, 2, 3, 4, 4, 6, 8, 12, 16})
			nodes, nss := r.Range(1, 3), r.Range(1, 3)
			failPct := 0
			if r.Pct(35) {
				failPct = kit.Pick(r, []int{10, 30, 60, 100})
			}
			per := make([]int, g)
			total := 0
			for i := range per {
				per[i] = r.Range(1, 4)
				total += per[i]
			}
			plugin := &c16pPlugin{ok: map[string]bool{}, fail: map[string]bool{}, yield: c16pYielder(r.Fork())}
			pods := make([]*corev1.Pod, total)
			anyFail := false
			noNode := 0
			for i := range pods {
				pods[i] = &corev1.Pod{ObjectMeta: metav1.ObjectMeta{Name: fmt.Sprintf("p%d", i), Namespace: fmt.Sprintf("ns%d", r.Intn(nss))},
					Spec: corev1.PodSpec{NodeName: fmt.Sprintf("node%d", r.Intn(nodes))}}
				if r.Pct(12) {
					// a pod that is not assigned to a node (pending): subject to the namespace and total caps only
					pods[i].Spec.NodeName = ""
					noNode++
				}
				if r.Pct(failPct) {
					plugin.fail[pods[i].Namespace+"/"+pods[i].Name] = true
					anyFail = true
				}
			}
			limiter := evictions.NewEvictionLimiter(nodeCap, nsCap, totCap)
			f := &frameworkImpl{dryRun: dry, evictionLimiter: limiter, evictPlugins: []framework.EvictPlugin{plugin}}
			c.Op("caps node=%d ns=%d total=%d dry=%v goroutines=%d pods=%d failPct=%d", nodeCapV, nsCapV, totCapV, dry, g, total, failPct)
			var clock int64
			ops := make([][]c16pOp, g)
			results := make([]bool, total)
			var wg sync.WaitGroup
			startCh := make(chan struct{})
			idx := 0
			for gi := 0; gi < g; gi++ {
				mine := pods[idx : idx+per[gi]]
				base := idx
				idx += per[gi]
				wg.Add(1)
				go func(gi int, mine []*corev1.Pod, base int) {
					defer wg.Done()
					<-startCh
					for j, p := range mine {
						call := atomic.AddInt64(&clock, 1)
						ok := f.Evictor().Evict(context.TODO(), p, framework.EvictOptions{PluginName: "verif", Reason: "c16"})
						ret := atomic.AddInt64(&clock, 1)
						results[base+j] = ok
						out := int64(0)
						if ok {
							out = 1
						}
						ops[gi] = append(ops[gi], c16pOp{Proc: gi, Call: call, Ret: ret, Op: "evict", Node: p.Spec.NodeName, NS: p.Namespace, Out: out})
					}
				}(gi, mine, base)
			}
			close(startCh)
			wg.Wait()
			okNode, okNS := map[string]int{}, map[string]int{}
			reqNode, reqNS := map[string]int{}, map[string]int{}
			okTotal := 0
			byKey := map[string]*corev1.Pod{}
			for _, p := range pods {
				byKey[p.Namespace+"/"+p.Name] = p
				if p.Spec.NodeName != "" {
					reqNode[p.Spec.NodeName]++
				}
				reqNS[p.Namespace]++
			}
			c.Count("pods_without_node", noNode)
			seen := map[string]int{}
			arrival := ""
			for _, k := range plugin.received {
				seen[k]++
				p := byKey[k]
				arrival += fmt.Sprintf("%s:%v,", k, plugin.fail[k])
				if plugin.ok[k] {
					if p.Spec.NodeName != "" {
						okNode[p.Spec.NodeName]++
					}
					okNS[p.Namespace]++
					okTotal++
				}
			}
			for i, p := range pods {
				k := p.Namespace + "/" + p.Name
				c.Op("evict %s node=%s fail=%v -> %v (plugin calls=%d)", k, p.Spec.NodeName, plugin.fail[k], results[i], seen[k])
			}
			c.Count("evict_calls", total)
			c.Count("plugin_calls", len(plugin.received))
			c.Count("plugin_successes", okTotal)
			if dry {
				c.Count("dry_run_cases", 1)
				if len(plugin.received) != 0 {
					c.Fail("C16/proxy/dry-run-eviction", "dry-run framework called the evict plugin %d times", len(plugin.received))
				}
				return
			}
			binds := totCap != nil && total > int(*totCap)
			for n, k := range okNode {
				if nodeCap != nil && k > int(*nodeCap) {
					c.Fail("C16/proxy/node-cap-exceeded", "%d evictions were issued on %s, per-node cap is %d (goroutines=%d)", k, n, *nodeCap, g)
				}
			}
			for n, k := range okNS {
				if nsCap != nil && k > int(*nsCap) {
					c.Fail("C16/proxy/namespace-cap-exceeded", "%d evictions were issued in %s, per-namespace cap is %d (goroutines=%d)", k, n, *nsCap, g)
				}
			}
			if totCap != nil && okTotal > int(*totCap) {
				c.Fail("C16/proxy/total-cap-exceeded", "%d evictions were issued in total, cap is %d (goroutines=%d)", okTotal, *totCap, g)
			}
			for n, k := range reqNode {
				if nodeCap != nil && k > int(*nodeCap) {
					binds = true
				}
				if got := limiter.NodeEvicted(n); int(got) != okNode[n] {
					c.Fail("C16/proxy/node-counter", "NodeEvicted(%s)=%d but %d evictions were issued there", n, got, okNode[n])
				}
			}
			for n, k := range reqNS {
				if nsCap != nil && k > int(*nsCap) {
					binds = true
				}
				if got := limiter.NamespaceEvicted(n); int(got) != okNS[n] {
					c.Fail("C16/proxy/namespace-counter", "NamespaceEvicted(%s)=%d but %d evictions were issued there", n, got, okNS[n])
				}
			}
			if got := f.Evictor().(EvictionLimiter).TotalEvicted(); int(got) != okTotal {
				c.Fail("C16/proxy/total-counter", "TotalEvicted()=%d but %d evictions were issued", got, okTotal)
			}
			for i, p := range pods {
				k := p.Namespace + "/" + p.Name
				if seen[k] > 1 {
					c.Fail("C16/proxy/duplicate-eviction", "pod %s reached the evict plugin %d times for one Evict call", k, seen[k])
				}
				if results[i] && !plugin.ok[k] {
					c.Fail("C16/proxy/reported-without-eviction", "Evict(%s) returned true but the evict plugin did not evict it", k)
				}
				if !results[i] && plugin.ok[k] {
					c.Fail("C16/proxy/evicted-but-refused", "Evict(%s) returned false but the pod was evicted (side effect of a refused call)", k)
				}
				if !results[i] && seen[k] == 0 {
					c.Count("refused_without_plugin_call", 1)
				}
			}
			if g >= 2 && binds {
				c.NonTrivial()
			}
			c.Seen(nodeCapV, nsCapV, totCapV, g, anyFail, arrival)
			if !anyFail {
				var all []c16pOp
				for _, o := range ops {
					all = append(all, o...)
				}
				sort.Slice(all, func(i, j int) bool { return all[i].Call < all[j].Call })
				c16pWriteHistory(&c16pHistory{Property: "C16", Unit: "proxy", Kind: "proxy", Case: c.K, Seed: seed, Tier: c.Tier,
					CapNode: nodeCapV, CapNS: nsCapV, CapTotal: totCapV, Ops: all})
				c.Count("histories_recorded", 1)
			}
			if c.K < 2 {
				c.Sample(map[string]any{"caps": []int64{nodeCapV, nsCapV, totCapV}, "goroutines": g, "pods": total, "plugin_arrival_order": plugin.received, "results": results})
			}
		})
}
