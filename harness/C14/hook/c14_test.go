//go:build verif

package batchresource

// C14 monitor: the cgroup values the BatchResource runtime hook injects for best-effort pods that
// use reclaimed (batch) resources. See /verif/DESIGN.md section 4, C14.
//
// What is executed: the real plugin (newPlugin), configured through its real rule parsers
// (parseRuleForNodeSLO for the cfs-quota switch, parseRuleForNodeMeta for the CPU normalization
// ratio read from the node annotation), and the real hook functions SetPodResources /
// SetContainerResources plus the six parts the cgroup reconciler registers individually, on
// PodContext / ContainerContext requests built by the real constructors of the three transports
// (FromProxy = CRI runtime-proxy request, FromNri = NRI event, FromReconciler = pod from the states
// informer) from a generated pod.
//
// Causal rules of the generator (only pods/requests the real system can produce):
//  1. when a container declares both a request and a limit of one resource, request <= limit
//     (API-server validation); amounts are integral (batch-cpu in milli-cores, batch-memory in bytes);
//  2. containers declare no native cpu/memory (batch pods carry their amounts in the batch-*
//     resources), so a container the hook leaves untouched keeps the kubelet's values for a container
//     without limits: unlimited;
//  3. containers have unique DNS-label names. 7 % of the pods also have init containers: the code documents
//     "TODO: count init container and pod overhead" and the statement's sums do not say whether they count, so
//     for those pods the regular containers' sums are only a lower bound of the pod values, the pod-vs-sum
//     relations are skipped, and an init container may be left untouched (CRI path: it is not in the
//     annotation) or get the conversion of its own amounts (reconciler path). Pod overhead carries no batch
//     resources and is not generated;
//  4. the extended-resource-spec annotation is the one the pod webhook writes from the same pod spec
//     (never stale): containers that declare no batch resource are omitted, an annotation is written
//     only when at least one container declares one; it is serialised with the same
//     apiext.SetExtendedResourceSpec the webhook calls. Alternatively it is absent altogether
//     (feature gate DisableExtendedResourceSpec / webhook not installed);
//  5. one plugin instance per case. Its rule is fed either at most one node-metadata state and one
//     NodeSLO state (60 %), or a history of 2-4 node-metadata states and 1-3 NodeSLO states in any
//     interleaving (40 %), as a koordlet sees them change over time; informer states of one object arrive
//     in order. rule.go documents that UpdateCPUNormalizationRatio ignores a new ratio closer than
//     ratioDiffEpsilon = 0.01 to the cached one, so successive ratios are exact repeats, involve an absent
//     annotation, or differ by >= 0.015; sub-epsilon drifts are not generated. The oracle uses only the
//     LAST state of each kind; in half of the histories the hooks also run after every update and must
//     match the state configured at that moment.
//
// The oracle never calls sysutil.MilliCPUToShares / MilliCPUToQuota or the code's aggregation: the
// "standard conversion" is written out below from the kernel / kubelet constants, and it is applied to
// the amounts of the generated containers (not to the parsed annotation).

import (
	"fmt"
	"math/big"
	"reflect"
	"sort"
	"strconv"
	"strings"
	"testing"

	nriapi "github.com/containerd/nri/pkg/api"
	corev1 "k8s.io/api/core/v1"
	"k8s.io/apimachinery/pkg/api/resource"
	metav1 "k8s.io/apimachinery/pkg/apis/meta/v1"
	"k8s.io/apimachinery/pkg/types"
	"k8s.io/klog/v2"
	"k8s.io/utils/ptr"

	apiext "github.com/koordinator-sh/koordinator/apis/extension"
	runtimeapi "github.com/koordinator-sh/koordinator/apis/runtime/v1alpha1"
	slov1alpha1 "github.com/koordinator-sh/koordinator/apis/slo/v1alpha1"
	"github.com/koordinator-sh/koordinator/pkg/koordlet/runtimehooks/protocol"
	"github.com/koordinator-sh/koordinator/pkg/koordlet/statesinformer"
	"github.com/koordinator-sh/koordinator/pkg/util"
	kit "github.com/koordinator-sh/koordinator/pkg/verifkit"
)

func init() {
	klog.SetOutput(c14Discard{})
	klog.LogToStderr(false)
}

type c14Discard struct{}

func (c14Discard) Write(p []byte) (int, error) { return len(p), nil }

// ---------------------------------------------------------------------------------------------
// the standard conversion, written out (kubelet pkg/kubelet/cm helpers_linux.go; kernel sched/core.c)

const (
	c14SharesPerCPU  = 1024   // cpu.shares of one whole CPU
	c14MilliPerCPU   = 1000   //
	c14MinShares     = 2      // kernel MIN_SHARES
	c14MaxShares     = 262144 // kernel MAX_SHARES
	c14QuotaPeriodUs = 100000 // default cpu.cfs_period_us
	c14MinQuotaUs    = 1000   // kernel min_cfs_quota_period (1 ms): smaller cpu.cfs_quota_us is EINVAL
	c14Unlimited     = -1     // cpu.cfs_quota_us / memory limit "no limit"
)

// c14StdShares: milli-CPU request -> cpu.shares. No / zero request -> the minimum.
func c14StdShares(milli int64) (v int64, minClamp, maxClamp bool) {
	if milli <= 0 {
		return c14MinShares, false, false
	}
	v = milli * c14SharesPerCPU / c14MilliPerCPU
	if v < c14MinShares {
		return c14MinShares, true, false
	}
	if v > c14MaxShares {
		return c14MaxShares, false, true
	}
	return v, false, false
}

type c14Quota struct {
	val int64 // the value the statement gives: conversion incl. its minimum
	doc int64 // ceil(conversion / ratio) without re-applying the minimum (what DESIGN.md wrote down);
	// differs from val exactly when the scaled value falls under the kernel minimum
	alt          int64 // second acceptable value when the float64 division is within rounding error of an integer (else == val)
	minClamp     bool  // the conversion's minimum was hit before scaling
	belowMin     bool  // doc < minimum
	ratioApplied bool
	ratioRounded bool  // the exact quotient was not an integer
	excess       int64 // val - ceil(milli*period/1000/ratio): what clamps added (for the pod-vs-sum relation)
}

// c14StdQuota: milli-CPU limit -> cpu.cfs_quota_us under the rule (cfs switch, normalization ratio).
// milli <= 0 means no limit. The ratio divides the converted quota (proposal 20230831-cpu-normalization:
// "CFSQuota_Original / CPU_Normalization_Ratio") and only a ratio above 1 counts; the quotient is
// rounded UP, as batch_resource.go and the sibling cpunormalization hook both document (math.Ceil):
// rounding up never hands out less than declared/ratio and keeps pod >= container (monotone).
func c14StdQuota(c *kit.Case, milli int64, cfsOn bool, ratio float64) c14Quota {
	if !cfsOn || milli <= 0 {
		return c14Quota{val: c14Unlimited, doc: c14Unlimited, alt: c14Unlimited}
	}
	if milli > (1<<62)/c14QuotaPeriodUs {
		c.Harness("generator produced a cpu amount %d that overflows the conversion", milli)
	}
	var q c14Quota
	conv := milli * c14QuotaPeriodUs / c14MilliPerCPU
	if conv < c14MinQuotaUs {
		conv = c14MinQuotaUs
		q.minClamp = true
	}
	q.doc = conv
	altDoc := conv
	unclamped := big.NewRat(milli*c14QuotaPeriodUs, c14MilliPerCPU) // exact, before clamps
	if ratio > 1 {
		q.ratioApplied = true
		r := new(big.Rat).SetFloat64(ratio) // exact value of the float64 the node annotation denotes
		ce, fl, exact := c14CeilRat(new(big.Rat).Quo(new(big.Rat).SetInt64(conv), r))
		q.doc, altDoc = ce, ce
		q.ratioRounded = !exact
		if !exact {
			// float64(conv)/ratio is correctly rounded: it can fall onto the integer below only when
			// the exact quotient is within half an ulp (< x * 2^-52) above it.
			x := new(big.Rat).Quo(new(big.Rat).SetInt64(conv), r)
			dist := new(big.Rat).Sub(x, new(big.Rat).SetInt64(fl))
			tol := new(big.Rat).Mul(x, big.NewRat(1, 1<<52))
			if dist.Cmp(tol) <= 0 {
				altDoc = fl
			}
		}
		unclamped.Quo(unclamped, r)
	}
	q.val, q.alt = q.doc, altDoc
	if q.doc < c14MinQuotaUs {
		q.belowMin = true
		q.val = c14MinQuotaUs
	}
	if q.alt < c14MinQuotaUs {
		q.alt = c14MinQuotaUs
	}
	uc, _, _ := c14CeilRat(unclamped)
	q.excess = q.val - uc
	if q.excess < 0 {
		c.Harness("negative clamp excess: milli=%d ratio=%v val=%d unclamped=%d", milli, ratio, q.val, uc)
	}
	return q
}

func c14CeilRat(x *big.Rat) (ceil, floor int64, exact bool) {
	fl, rem := new(big.Int).QuoRem(x.Num(), x.Denom(), new(big.Int))
	floor = fl.Int64()
	if rem.Sign() == 0 {
		return floor, floor, true
	}
	return floor + 1, floor, false
}

// ---------------------------------------------------------------------------------------------
// generated pods

type c14Amt struct {
	set bool
	v   int64
}

func (a c14Amt) String() string {
	if !a.set {
		return "-"
	}
	return strconv.FormatInt(a.v, 10)
}

// declared: the amount a conversion is applied to; missing and zero both mean "nothing declared".
func (a c14Amt) declared() int64 {
	if a.set && a.v > 0 {
		return a.v
	}
	return 0
}

type c14Ctr struct {
	name                           string
	cpuReq, cpuLim, memReq, memLim c14Amt
}

func (ct c14Ctr) bare() bool {
	return !ct.cpuReq.set && !ct.cpuLim.set && !ct.memReq.set && !ct.memLim.set
}

func (ct c14Ctr) String() string {
	return fmt.Sprintf("%s{cpu %s/%s mem %s/%s}", ct.name, ct.cpuReq, ct.cpuLim, ct.memReq, ct.memLim)
}

var (
	c14PoolPositive = []int64{1, 9, 10, 999, 1000, 1001, 1000000, 1 << 40}
	c14PoolExtra    = []int64{2, 3, 5, 11, 19, 20, 21, 1500, 2500, 262144, 1 << 30}
	c14PoolTiny     = []int64{1, 1, 2, 3, 5, 9, 9, 10, 19, 20}
	// 64-bit-scale byte amounts (memory only; a cpu amount whose microsecond conversion leaves int64 has no
	// standard conversion - the kubelet's own helper overflows there - and is not generated)
	c14PoolHugeMem = []int64{1<<53 + 1, 1 << 62, 1<<62 + 4095, 1<<63 - 1}
)

func c14GenAmt(r *kit.Rand, profile int, mem bool) c14Amt {
	if mem && profile != 2 && r.Pct(4) {
		return c14Amt{true, kit.Pick(r, c14PoolHugeMem)}
	}
	switch profile {
	case 1: // everything declared and positive
		if r.Pct(25) {
			return c14Amt{true, int64(r.Range(1, 4096))}
		}
		return c14Amt{true, kit.Pick(r, c14PoolPositive)}
	case 2: // tiny amounts (pod-level minimum, sub-minimum after scaling)
		if r.Pct(5) {
			return c14Amt{}
		}
		return c14Amt{true, kit.Pick(r, c14PoolTiny)}
	}
	switch r.Weighted(14, 8, 58, 12, 8) {
	case 0:
		return c14Amt{}
	case 1:
		return c14Amt{true, 0}
	case 2:
		return c14Amt{true, kit.Pick(r, c14PoolPositive)}
	case 3:
		return c14Amt{true, kit.Pick(r, c14PoolExtra)}
	default:
		return c14Amt{true, int64(r.Range(1, 4096))}
	}
}

// container names: DNS labels of different shapes (sort order, digits first, dashes); the index keeps them unique
var c14NamePrefixes = []string{"c", "c", "c", "main-", "istio-proxy-", "a", "x9-", "0", "zz-"}

func c14GenCtr(r *kit.Rand, i int, profile int) c14Ctr {
	ct := c14Ctr{name: fmt.Sprintf("%s%d", kit.Pick(r, c14NamePrefixes), i)}
	if profile != 1 && r.Pct(12) {
		return ct // declares no batch resource at all (e.g. an injected sidecar)
	}
	ct.cpuReq, ct.cpuLim = c14GenAmt(r, profile, false), c14GenAmt(r, profile, false)
	ct.memReq, ct.memLim = c14GenAmt(r, profile, true), c14GenAmt(r, profile, true)
	if r.Pct(35) && ct.cpuLim.set { // the common shape: request == limit
		ct.cpuReq = ct.cpuLim
	}
	// rule 1: request <= limit when both are declared
	if ct.cpuReq.set && ct.cpuLim.set && ct.cpuReq.v > ct.cpuLim.v {
		ct.cpuReq, ct.cpuLim = ct.cpuLim, ct.cpuReq
	}
	if ct.memReq.set && ct.memLim.set && ct.memReq.v > ct.memLim.v {
		ct.memReq, ct.memLim = ct.memLim, ct.memReq
	}
	return ct
}

// c14StatusOrder: 60 % sorted by name (kubelet), 20 % spec order, 20 % any permutation
func c14StatusOrder(r *kit.Rand, ctrs []c14Ctr) []int {
	switch r.Weighted(60, 20, 20) {
	case 0:
		o := make([]int, len(ctrs))
		for i := range o {
			o[i] = i
		}
		sort.Slice(o, func(a, b int) bool { return ctrs[o[a]].name < ctrs[o[b]].name })
		return o
	case 1:
		return nil
	}
	return r.Perm(len(ctrs))
}

type c14Pod struct {
	ctrs []c14Ctr
	// order of status.containerStatuses as indexes into ctrs; nil = spec order. The kubelet reports the statuses
	// sorted by container name, the API does not promise any order.
	statusOrder []int
	inits       []c14Ctr // init containers (the code: "TODO: count init container"; the statement does not decide them)
	marking     string   // "label:BE", "annotation-only:BE", "label:LS" ..., "none"
	webhook     bool     // spec annotation written by the pod webhook; false: no annotation at all
	emptyAnno   bool     // nothing declared but an (empty) annotation is present
}

func (p c14Pod) anyDeclared() bool {
	for _, ct := range p.ctrs {
		if !ct.bare() {
			return true
		}
	}
	return false
}

func c14RL(cpu, mem c14Amt) corev1.ResourceList {
	if !cpu.set && !mem.set {
		return nil
	}
	// the same integral amount in the different notations a manifest can use (1k / 1000 / 1e3 / 1Ki ...)
	fm := func(v int64) resource.Format {
		return []resource.Format{resource.DecimalSI, resource.BinarySI, resource.DecimalExponent}[uint64(v)%3]
	}
	rl := corev1.ResourceList{}
	if cpu.set {
		rl[apiext.BatchCPU] = *resource.NewQuantity(cpu.v, fm(cpu.v))
	}
	if mem.set {
		rl[apiext.BatchMemory] = *resource.NewQuantity(mem.v, fm(mem.v+1))
	}
	return rl
}

// c14BuildPod renders the generated pod as the API object a node sees after admission.
func c14BuildPod(c *kit.Case, p c14Pod) *corev1.Pod {
	pod := &corev1.Pod{
		ObjectMeta: metav1.ObjectMeta{Namespace: "ns", Name: "batch-pod", UID: types.UID("uid-c14"),
			Labels: map[string]string{"app": "c14"}, Annotations: map[string]string{"other": "x"}},
	}
	switch {
	case strings.HasPrefix(p.marking, "label:"):
		pod.Labels[apiext.LabelPodQoS] = strings.TrimPrefix(p.marking, "label:")
	case strings.HasPrefix(p.marking, "annotation-only:"):
		pod.Annotations[apiext.LabelPodQoS] = strings.TrimPrefix(p.marking, "annotation-only:")
	case p.marking == "none-nil-labels":
		pod.Labels = nil
	}
	for _, ct := range p.ctrs {
		pod.Spec.Containers = append(pod.Spec.Containers, corev1.Container{Name: ct.name, Resources: corev1.ResourceRequirements{
			Requests: c14RL(ct.cpuReq, ct.memReq), Limits: c14RL(ct.cpuLim, ct.memLim)}})
	}
	order := p.statusOrder
	if order == nil {
		for i := range p.ctrs {
			order = append(order, i)
		}
	}
	for _, i := range order {
		ct := p.ctrs[i]
		pod.Status.ContainerStatuses = append(pod.Status.ContainerStatuses, corev1.ContainerStatus{Name: ct.name, ContainerID: "containerd://id-" + ct.name})
	}
	for _, ct := range p.inits {
		pod.Spec.InitContainers = append(pod.Spec.InitContainers, corev1.Container{Name: ct.name, Resources: corev1.ResourceRequirements{
			Requests: c14RL(ct.cpuReq, ct.memReq), Limits: c14RL(ct.cpuLim, ct.memLim)}})
		pod.Status.InitContainerStatuses = append(pod.Status.InitContainerStatuses, corev1.ContainerStatus{Name: ct.name, ContainerID: "containerd://id-" + ct.name})
	}
	if p.webhook {
		// rule 4. pkg/util.GetPodExtendedResources is the exported twin of the webhook's
		// getContainerExtendedResourcesRequirement loop (same omission of containers without batch
		// resources, same nil result when nothing is declared).
		spec := util.GetPodExtendedResources(pod)
		if spec == nil && p.emptyAnno {
			spec = &apiext.ExtendedResourceSpec{}
		}
		if spec != nil {
			if err := apiext.SetExtendedResourceSpec(pod, spec); err != nil {
				c.Harness("SetExtendedResourceSpec: %v", err)
			}
		}
	}
	return pod
}

func c14CopyMap(m map[string]string) map[string]string {
	if m == nil {
		return nil
	}
	o := make(map[string]string, len(m))
	for k, v := range m {
		o[k] = v
	}
	return o
}

const c14PodCgroup = "kubepods.slice/kubepods-besteffort.slice/kubepods-besteffort-poduid_c14.slice"

func c14PodCtx(transport string, pod *corev1.Pod) *protocol.PodContext {
	ctx := &protocol.PodContext{}
	switch transport {
	case "proxy":
		ctx.FromProxy(&runtimeapi.PodSandboxHookRequest{
			PodMeta: &runtimeapi.PodSandboxMetadata{Name: pod.Name, Namespace: pod.Namespace, Uid: string(pod.UID)},
			Labels:  c14CopyMap(pod.Labels), Annotations: c14CopyMap(pod.Annotations), CgroupParent: c14PodCgroup})
	case "nri":
		ctx.FromNri(&nriapi.PodSandbox{Id: "sandbox-c14", Name: pod.Name, Namespace: pod.Namespace, Uid: string(pod.UID),
			Labels: c14CopyMap(pod.Labels), Annotations: c14CopyMap(pod.Annotations), Linux: &nriapi.LinuxPodSandbox{CgroupParent: c14PodCgroup}})
	default:
		ctx.FromReconciler(&statesinformer.PodMeta{Pod: pod.DeepCopy(), CgroupDir: c14PodCgroup})
	}
	return ctx
}

func c14CtrCtx(transport string, pod *corev1.Pod, name string) *protocol.ContainerContext {
	ctx := &protocol.ContainerContext{}
	switch transport {
	case "proxy":
		ctx.FromProxy(&runtimeapi.ContainerResourceHookRequest{
			PodMeta:       &runtimeapi.PodSandboxMetadata{Name: pod.Name, Namespace: pod.Namespace, Uid: string(pod.UID)},
			ContainerMeta: &runtimeapi.ContainerMetadata{Name: name, Id: "id-" + name},
			PodLabels:     c14CopyMap(pod.Labels), PodAnnotations: c14CopyMap(pod.Annotations), PodCgroupParent: c14PodCgroup,
			// what the kubelet sends for a container without native cpu/memory (rule 2)
			ContainerResources: &runtimeapi.LinuxContainerResources{CpuPeriod: c14QuotaPeriodUs, CpuShares: c14MinShares}})
	case "nri":
		ctx.FromNri(&nriapi.PodSandbox{Id: "sandbox-c14", Name: pod.Name, Namespace: pod.Namespace, Uid: string(pod.UID),
			Labels: c14CopyMap(pod.Labels), Annotations: c14CopyMap(pod.Annotations), Linux: &nriapi.LinuxPodSandbox{CgroupParent: c14PodCgroup}},
			&nriapi.Container{Id: "id-" + name, PodSandboxId: "sandbox-c14", Name: name})
	default:
		ctx.FromReconciler(&statesinformer.PodMeta{Pod: pod.DeepCopy(), CgroupDir: c14PodCgroup}, name, false)
	}
	return ctx
}

// ---------------------------------------------------------------------------------------------
// rule configuration through the real parsers

type c14Cfg struct {
	ratioStr string  // node annotation value, "" = annotation absent
	ratio    float64 // the float64 that string denotes, -1 = none
	slo      string
	cfsOn    bool
	metaSeen bool // bookkeeping of the update loop: a node-metadata state was parsed already
}

var c14Ratios = []string{"", "0.5", "1", "1.0001", "1.5", "2", "4"}

// rarer ratios: just above 1, two-decimal values as koord-manager writes them, other float notations, very large
var c14RatiosRare = []string{"1.01", "1.10", "2.35", "1e0", "3", "10", "100", "1000000", "0.01"}

// annotation values GetCPUNormalizationRatio rejects (parse error or <= 0): the rule is not updated. What is
// "configured" then is not decided by the statement: such a state is never the last one of a history, and the
// hooks are not checked while it is the current one.
var c14RatiosIllegal = []string{"0", "-1", "abc", ""}

// A rule update: one node-metadata state (the ratio annotation present with a value, or absent) fed to the
// real parseRuleForNodeMeta, or one NodeSLO state fed to the real parseRuleForNodeSLO.
type c14Step struct {
	meta bool
	val  string // meta: annotation value, "" = annotation absent; slo: mode name
	// meta only: the annotation is PRESENT with a value GetCPUNormalizationRatio rejects (val "" = present but empty)
	illegal bool
}

func (st c14Step) String() string {
	if st.meta && st.illegal {
		return fmt.Sprintf("node-meta(ILLEGAL ratio annotation %q)", st.val)
	}
	if st.meta {
		return fmt.Sprintf("node-meta(ratio=%q)", st.val)
	}
	return "NodeSLO(" + st.val + ")"
}

func c14ParseRatio(c *kit.Case, s string) float64 {
	if s == "" {
		return -1
	}
	v, err := strconv.ParseFloat(s, 64)
	if err != nil {
		c.Harness("ratio %q: %v", s, err)
	}
	return v
}

// rule.go: "If CPU Suppress Policy CPUCfsQuotaPolicy is enabled for batch pods, batch pods' cfs_quota
// should be unset" - the only way the switch goes off.
func c14CFSOn(sloMode string) bool { return sloMode != "suppress-on/cfsQuota" }

func c14SLOSpec(c *kit.Case, mode string) *slov1alpha1.NodeSLOSpec {
	var spec *slov1alpha1.NodeSLOSpec
	switch mode {
	case "default-spec":
		spec = &slov1alpha1.NodeSLOSpec{}
	case "suppress-on/cpuset":
		spec = &slov1alpha1.NodeSLOSpec{ResourceUsedThresholdWithBE: &slov1alpha1.ResourceThresholdStrategy{Enable: ptr.To(true), CPUSuppressPolicy: slov1alpha1.CPUSetPolicy}}
	case "suppress-off/cpuset":
		spec = &slov1alpha1.NodeSLOSpec{ResourceUsedThresholdWithBE: &slov1alpha1.ResourceThresholdStrategy{Enable: ptr.To(false), CPUSuppressPolicy: slov1alpha1.CPUSetPolicy,
			CPUSuppressThresholdPercent: ptr.To[int64](65), MemoryEvictThresholdPercent: ptr.To[int64](70)}}
	case "suppress-on/cfsQuota":
		spec = &slov1alpha1.NodeSLOSpec{ResourceUsedThresholdWithBE: &slov1alpha1.ResourceThresholdStrategy{Enable: ptr.To(true), CPUSuppressPolicy: slov1alpha1.CPUCfsQuotaPolicy}}
	case "suppress-off/cfsQuota":
		spec = &slov1alpha1.NodeSLOSpec{ResourceUsedThresholdWithBE: &slov1alpha1.ResourceThresholdStrategy{Enable: ptr.To(false), CPUSuppressPolicy: slov1alpha1.CPUCfsQuotaPolicy}}
	default:
		c.Harness("unknown slo mode %q", mode)
	}
	return spec
}

func c14Apply(c *kit.Case, p *plugin, st c14Step) {
	if st.meta {
		node := &corev1.Node{ObjectMeta: metav1.ObjectMeta{Name: "n0", Annotations: map[string]string{"other": "x"}}}
		if st.val != "" || st.illegal {
			node.Annotations[apiext.AnnotationCPUNormalizationRatio] = st.val
		}
		upd, err := p.parseRuleForNodeMeta(node)
		if st.illegal {
			c.Op("update %s -> updated=%v err=%v", st, upd, err)
			return
		}
		if err != nil {
			c.Harness("parseRuleForNodeMeta(%q): %v", st.val, err)
		}
		c.Op("update %s -> updated=%v", st, upd)
		return
	}
	spec := c14SLOSpec(c, st.val)
	upd, err := p.parseRuleForNodeSLO(spec)
	if err != nil {
		c.Harness("parseRuleForNodeSLO(%s): %v", st.val, err)
	}
	c.Op("update %s -> updated=%v", st, upd)
}

var (
	// suppress-off/cpuset is what the states informer's merge with the default strategy yields for a NodeSLO
	// that says nothing; default-spec (nil strategy) is handled by the code although the merge never produces it
	c14SLOModes = []string{"default-spec", "suppress-off/cpuset", "suppress-off/cpuset", "suppress-on/cpuset", "suppress-on/cpuset", "suppress-on/cfsQuota", "suppress-on/cfsQuota", "suppress-on/cfsQuota", "suppress-off/cfsQuota"}
	// earlier states of a ratio history (the last state comes from c14Ratios / c14RatiosRare)
	c14HistRatios = []string{"", "", "1.00", "1", "0.50", "0.99", "1.02", "1.25", "1.5", "2", "2.00", "3.00", "4", "1.0001", "1.01", "10", "100", "0.01", "1e0"}
)

// c14RatioChangeOK: rule.go documents that UpdateCPUNormalizationRatio ignores a new ratio closer than
// ratioDiffEpsilon = 0.01 to the cached one (koord-manager writes the annotation with two decimals).
// Successive node states are therefore either an exact repeat, or involve an absent annotation (-1), or
// differ by clearly more than the epsilon; sub-epsilon drifts are not generated (outside the statement).
func c14RatioChangeOK(a, b float64) bool {
	if a == b || a < 0 || b < 0 {
		return true
	}
	d := a - b
	if d < 0 {
		d = -d
	}
	return d >= 0.015
}

func c14RatioClass(v float64) string {
	switch {
	case v < 0:
		return "absent"
	case v <= 1:
		return "le1"
	}
	return "gt1"
}

// ---------------------------------------------------------------------------------------------
// oracle

type c14Want struct {
	shares               int64
	sharesMin, sharesMax bool
	quota                c14Quota
	mem                  int64
	// pod level: unlimited only because of containers that declare nothing at all
	cpuUnlOnlyBare, memUnlOnlyBare bool
	// pod level: the sum of the declared memory limits is not representable in int64 (e.g. two containers with
	// 4Ei each). The statement's "conversion of the sum" has no int64 value then; what remains decided is the
	// relation: the pod is never tighter than one of its containers (unlimited, or >= the largest container).
	memOverflow bool
	memMaxCtr   int64
}

func c14WantCtr(c *kit.Case, ct c14Ctr, cfg c14Cfg) c14Want {
	var w c14Want
	w.shares, w.sharesMin, w.sharesMax = c14StdShares(ct.cpuReq.declared())
	w.quota = c14StdQuota(c, ct.cpuLim.declared(), cfg.cfsOn, cfg.ratio)
	w.mem = c14Unlimited
	if m := ct.memLim.declared(); m > 0 {
		w.mem = m
	}
	return w
}

// c14WantPod: the same conversion applied to the sums over ALL containers of the pod; unlimited as
// soon as one container is unlimited (undeclared or zero limit).
func c14WantPod(c *kit.Case, ctrs []c14Ctr, cfg c14Cfg) c14Want {
	var w c14Want
	var sumReq, sumCPULim, sumMemLim int64
	cpuUnl, memUnl := false, false
	w.cpuUnlOnlyBare, w.memUnlOnlyBare = true, true
	for _, ct := range ctrs {
		sumReq += ct.cpuReq.declared()
		if l := ct.cpuLim.declared(); l > 0 {
			sumCPULim += l
		} else {
			cpuUnl = true
			if !ct.bare() {
				w.cpuUnlOnlyBare = false
			}
		}
		if l := ct.memLim.declared(); l > 0 {
			if l > (1<<63-1)-sumMemLim {
				w.memOverflow = true
			} else {
				sumMemLim += l
			}
			if l > w.memMaxCtr {
				w.memMaxCtr = l
			}
		} else {
			memUnl = true
			if !ct.bare() {
				w.memUnlOnlyBare = false
			}
		}
	}
	if memUnl && !w.memUnlOnlyBare {
		w.memOverflow = false // a container the hook sees is unlimited: the pod is unlimited anyway
	}
	w.cpuUnlOnlyBare = w.cpuUnlOnlyBare && cpuUnl
	w.memUnlOnlyBare = w.memUnlOnlyBare && memUnl
	w.shares, w.sharesMin, w.sharesMax = c14StdShares(sumReq)
	if cpuUnl {
		sumCPULim = 0
	}
	w.quota = c14StdQuota(c, sumCPULim, cfg.cfsOn, cfg.ratio)
	w.mem = sumMemLim
	if memUnl || sumMemLim <= 0 {
		w.mem = c14Unlimited
	}
	return w
}

func c14Res(r protocol.Resources) string {
	f := func(p *int64) string {
		if p == nil {
			return "nil"
		}
		return strconv.FormatInt(*p, 10)
	}
	s := fmt.Sprintf("shares=%s quota=%s mem=%s", f(r.CPUShares), f(r.CFSQuota), f(r.MemoryLimit))
	if r.CPUSet != nil || r.NetClsClassId != nil || r.CPUBvt != nil || r.CPUIdle != nil || r.Resctrl != nil {
		s += " +other-fields"
	}
	return s
}

type c14Flags struct{ quotaKnown, memKnown bool }

// c14CheckValues compares the injected values with the oracle. The two shapes analysed as genuine
// defects get their own narrow signatures and are reported without ending the case, so that they do
// not mask the remaining checks.
//
// lowerOnly (pod level of a pod that has init containers): the code documents "TODO: count init container and
// pod overhead" and the statement's sums do not say whether init containers count, so the regular containers'
// sums are only a LOWER bound there (a pod that also accounts for its init containers is not wrong).
func c14CheckValues(c *kit.Case, level, where string, got protocol.Resources, w c14Want, cfg c14Cfg, lowerOnly bool) (fl c14Flags) {
	if got.CPUShares == nil || got.CFSQuota == nil || got.MemoryLimit == nil {
		c.Fail("C14/"+level+"/value-not-injected", "%s: best-effort pod with a visible batch spec, but not every value was injected: %s", where, c14Res(got))
	}
	if lowerOnly {
		if *got.CPUShares < w.shares {
			c.Fail("C14/"+level+"/cpu-shares", "%s: cpu shares %d, below the standard conversion %d of the regular containers' declared batch-cpu requests", where, *got.CPUShares, w.shares)
		}
	} else if *got.CPUShares != w.shares {
		c.Fail("C14/"+level+"/cpu-shares", "%s: cpu shares %d, the standard conversion of the declared batch-cpu request gives %d", where, *got.CPUShares, w.shares)
	}
	fl.quotaKnown = c14CheckQuota(c, level, where, *got.CFSQuota, w, cfg, lowerOnly)
	m := *got.MemoryLimit
	switch {
	case w.memOverflow:
		fl.memKnown = true // no exact sum to relate to
		if m == c14Unlimited || m >= w.memMaxCtr {
			c.Count("memory_sum_overflow_handled", 1)
		} else {
			c.Report("C14/pod/memory-limit-sum-overflows-int64",
				"%s: the containers' declared batch-memory limits sum to more than int64 can hold (largest single limit %d); the pod memory limit came out as %d, which is tighter than that container (wrapped-around sum)", where, w.memMaxCtr, m)
		}
	case m == w.mem:
	case lowerOnly && c14GE(m, w.mem):
		c.Count("init_containers_pod_value_above_regular_sum", 1)
	case level == "pod" && w.memUnlOnlyBare && m > 0:
		fl.memKnown = true
		c.Report("C14/pod/memory-limited-although-a-container-declares-nothing",
			"%s: pod memory limit %d, but a container of the pod declares no batch resource at all (omitted from the spec annotation), so its limit is undeclared = unlimited and the pod must be unlimited (-1)", where, m)
	default:
		c.Fail("C14/"+level+"/memory-limit", "%s: memory limit %d, expected %d", where, m, w.mem)
	}
	return fl
}

// c14CheckQuota compares one cfs quota (a response value, or the content of cpu.cfs_quota_us after a rule-update
// callback) with the oracle; known reports the two analysed shapes, which are reported without ending the case.
func c14CheckQuota(c *kit.Case, level, where string, q int64, w c14Want, cfg c14Cfg, lowerOnly bool) (known bool) {
	var fl c14Flags
	switch {
	case q == w.quota.val || q == w.quota.alt:
		if q != w.quota.val {
			c.Count("ratio_float_ambiguous_accepted", 1)
		}
	case lowerOnly && c14GE(q, w.quota.val):
		c.Count("init_containers_pod_value_above_regular_sum", 1)
	case w.quota.belowMin && q > 0 && q < c14MinQuotaUs:
		fl.quotaKnown = true
		c.Report("C14/"+level+"/cfs-quota-below-kernel-minimum-after-ratio",
			"%s: cfs quota %d us is below the conversion's minimum of %d us (the kernel rejects cpu.cfs_quota_us < 1000 with EINVAL): the quota was divided by ratio %v after the minimum clamp and the minimum was not re-applied (statement value %d)",
			where, q, c14MinQuotaUs, cfg.ratio, w.quota.val)
	case level == "pod" && w.cpuUnlOnlyBare && cfg.cfsOn && q > 0:
		fl.quotaKnown = true
		c.Report("C14/pod/cfs-quota-limited-although-a-container-declares-nothing",
			"%s: pod cfs quota %d, but a container of the pod declares no batch resource at all (omitted from the spec annotation), so its limit is undeclared = unlimited and the pod must be unlimited (-1)", where, q)
	default:
		c.Fail("C14/"+level+"/cfs-quota", "%s: cfs quota %d, expected %d (cfs switch on=%v, ratio %v, pre-minimum value %d)", where, q, w.quota.val, cfg.cfsOn, cfg.ratio, w.quota.doc)
	}
	return fl.quotaKnown
}

// c14GE: a >= b for limits where -1 is "no limit".
func c14GE(a, b int64) bool {
	if a == c14Unlimited {
		return true
	}
	if b == c14Unlimited {
		return false
	}
	return a >= b
}

// ---------------------------------------------------------------------------------------------

var c14Transports = []string{"proxy", "nri", "reconciler"}

func TestVerifC14Hook(t *testing.T) {
	kit.Run(t, kit.Config{Property: "C14", Unit: "hook", Quick: 5000, Thorough: 500000,
		Rule: "one generated pod per case: 1-5 containers (8 %: 6-14; names of different DNS-label shapes), 7 % with 1-2 init containers, batch-cpu/batch-memory request and limit each from {missing, 0, 1, 9, 10, 999, 1000, 1001, 10^6, 2^40} plus neighbours and random 1..4096, memory also 2^53+1 / 2^62 / 2^63-1 (request <= limit; integral amounts in decimal, binary and exponent notation), some containers declaring nothing; marked BE by the QoS label, by the same key as an annotation only, or not BE (LS/LSR/LSE/SYSTEM/no label/label values that are no QoS class); spec annotation as the webhook writes it or absent; plugin configured through the real parseRuleForNodeSLO (cfs switch) and parseRuleForNodeMeta (ratio none/0.5/1/1.0001/1.5/2/4, rarer 0.01/1.01/1.10/2.35/1e0/3/10/100/10^6), in 40 % of the cases by a HISTORY of 2-4 (10 %: 5-8) node-metadata states (ratio absent / <=1 / >1 / changed, steps larger than the documented 0.01 update epsilon or exact repeats, rejected annotation values as non-final steps) and 1-3 (4-6) NodeSLO states (switch flips; suppress on/off x cpuset/cfsQuota, nil strategy) interleaved on the same instance, the oracle using only the last state of each, with the hooks also run and checked after every update in half of the histories; SetPodResources, SetContainerResources and the six single-value parts run on contexts built by FromProxy, FromNri and FromReconciler. distinct = (container count, sorted per-container unlimited pattern, clamp hits, ratio class, cfs switch, marking class, spec mode); non-trivial = BE-labelled pod with a visible spec and >= 2 containers in which a clamp, a ratio rounding or an unlimited propagation was exercised; evaluations = contexts checked"},
		func(c *kit.Case) {
			r := c.R
			// ---- generate
			profile := r.Weighted(55, 25, 20)
			n := r.Range(1, 5)
			switch {
			case profile == 2:
				n = r.Range(1, 3)
			case r.Pct(8):
				n = r.Range(6, 14) // many containers (sidecar-heavy pods)
			}
			p := c14Pod{webhook: !r.Pct(12), emptyAnno: r.Pct(30)}
			for i := 0; i < n; i++ {
				p.ctrs = append(p.ctrs, c14GenCtr(r, i, profile))
			}
			p.statusOrder = c14StatusOrder(r, p.ctrs)
			if p.statusOrder != nil {
				for i, j := range p.statusOrder {
					if i != j {
						c.Count("pods_status_order_differs_from_spec_order", 1)
						break
					}
				}
			}
			if r.Pct(7) { // init containers: declaring batch resources or not
				for i, ni := 0, r.Range(1, 2); i < ni; i++ {
					ic := c14GenCtr(r, i, profile)
					ic.name = "init-" + ic.name
					p.inits = append(p.inits, ic)
				}
			}
			switch r.Weighted(62, 8, 30) {
			case 0:
				p.marking = "label:BE"
			case 1:
				p.marking = "annotation-only:BE"
			default:
				// the API's QoS classes other than BE, no label, and label values that are no QoS class at all
				// (apis/extension/qos.go: anything but the five exact names is QoSNone)
				p.marking = kit.Pick(r, []string{"label:LS", "label:LSR", "label:LSE", "label:SYSTEM", "none", "none-nil-labels",
					"label:LS", "label:LSR", "none", "label:be", "label:BestEffort", "label:", "label:Be"})
			}
			// ---- rule states. 60 %: one state of each kind at most (a koordlet that just started);
			// 40 %: a history of 2-4 node-metadata states and 1-3 NodeSLO states on the same plugin
			// instance, interleaved in any order. The oracle uses ONLY the last state of each kind
			// ("when one above 1 is configured": configured now, not earlier).
			cfg := c14Cfg{ratioStr: kit.Pick(r, c14Ratios), cfsOn: true}
			if r.Pct(18) {
				cfg.ratioStr = kit.Pick(r, c14RatiosRare)
			}
			cfg.ratio = c14ParseRatio(c, cfg.ratioStr)
			history := r.Pct(40)
			var metaSteps, sloSteps []c14Step
			if !history {
				cfg.slo = kit.Pick(r, append([]string{"rule-never-set"}, c14SLOModes...))
				if cfg.slo != "rule-never-set" {
					sloSteps = []c14Step{{val: cfg.slo}}
				}
				if cfg.ratioStr != "" || cfg.slo != "rule-never-set" { // else: node metadata not seen yet either
					metaSteps = []c14Step{{meta: true, val: cfg.ratioStr}}
				}
			} else {
				cfg.slo = kit.Pick(r, c14SLOModes)
				nm, ns := r.Range(2, 4), r.Range(1, 3)
				if r.Pct(10) { // long histories
					nm, ns = r.Range(5, 8), r.Range(4, 6)
				}
				prev := float64(-2) // the last ACCEPTED ratio state (-2: nothing parsed yet)
				prevStr := ""
				for i := 0; i < nm-1; i++ {
					if r.Pct(8) {
						// an annotation value the parser rejects: the cached ratio stays; never the last state
						metaSteps = append(metaSteps, c14Step{meta: true, val: kit.Pick(r, c14RatiosIllegal), illegal: true})
						continue
					}
					var cand string
					for try := 0; ; try++ {
						cand = kit.Pick(r, c14HistRatios)
						if r.Pct(10) && prev != -2 {
							cand = prevStr // a node update that does not change the ratio
						}
						v := c14ParseRatio(c, cand)
						if prev == -2 || c14RatioChangeOK(prev, v) {
							prev, prevStr = v, cand
							break
						}
						if try > 400 {
							c.Harness("cannot place a ratio after %v", prev)
						}
					}
					metaSteps = append(metaSteps, c14Step{meta: true, val: cand})
				}
				if prev != -2 && !c14RatioChangeOK(prev, cfg.ratio) {
					// keep the last transition clear of the update epsilon as well: the annotation is removed first
					metaSteps = append(metaSteps, c14Step{meta: true, val: ""})
				}
				metaSteps = append(metaSteps, c14Step{meta: true, val: cfg.ratioStr})
				for i := 0; i < ns-1; i++ {
					sloSteps = append(sloSteps, c14Step{val: kit.Pick(r, c14SLOModes)})
				}
				sloSteps = append(sloSteps, c14Step{val: cfg.slo})
			}
			cfg.cfsOn = c14CFSOn(cfg.slo)
			// interleave, keeping the order within each kind
			var steps []c14Step
			for mi, si := 0, 0; mi < len(metaSteps) || si < len(sloSteps); {
				if si >= len(sloSteps) || (mi < len(metaSteps) && r.Intn(len(metaSteps)-mi+len(sloSteps)-si) < len(metaSteps)-mi) {
					steps = append(steps, metaSteps[mi])
					mi++
				} else {
					steps = append(steps, sloSteps[si])
					si++
				}
			}
			hooksBetween := history && r.Pct(50)
			betweenTransport := kit.Pick(r, c14Transports)
			pl := newPlugin()

			pod := c14BuildPod(c, p)
			_, hasAnno := pod.Annotations[apiext.AnnotationExtendedResourceSpec]
			ctrStr := make([]string, len(p.ctrs))
			for i, ct := range p.ctrs {
				ctrStr[i] = ct.String()
			}
			c.Op("pod marking=%s containers=%v status-order=%v init-containers=%v webhook=%v annotation=%q", p.marking, ctrStr, p.statusOrder, p.inits, p.webhook, pod.Annotations[apiext.AnnotationExtendedResourceSpec])
			c.Op("rule updates %v history=%v hooks-between=%v; last: slo=%s ratio=%q (cfs quota on=%v)", steps, history, hooksBetween, cfg.slo, cfg.ratioStr, cfg.cfsOn)

			labelBE := p.marking == "label:BE"
			annoOnly := p.marking == "annotation-only:BE"
			switch {
			case labelBE:
				c.Count("pods_be_by_label", 1)
			case annoOnly:
				c.Count("pods_be_by_annotation_only", 1)
			default:
				c.Count("pods_not_be", 1)
			}
			if cfg.cfsOn {
				c.Count("cfs_switch_on", 1)
			} else {
				c.Count("cfs_switch_off", 1)
			}

			exercised := false
			var wantPod c14Want
			var wantCtr []c14Want
			// runCheck runs every hook through the given transports and checks the results against the rule
			// state cfg (the state configured at this moment).
			runCheck := func(cfg c14Cfg, transports []string, at string, final bool) {
				// ---- oracle values (independent of transport)
				wantPod = c14WantPod(c, p.ctrs, cfg)
				wantCtr = make([]c14Want, len(p.ctrs))
				for i, ct := range p.ctrs {
					wantCtr[i] = c14WantCtr(c, ct, cfg)
				}
				for _, tname := range transports {
					tr := tname + at
					// which spec does this transport make visible to the hook?
					visible := hasAnno && p.anyDeclared()
					if tname == "reconciler" {
						visible = p.anyDeclared() // the pod spec is preferred, the annotation is the fallback
					}
					// ---- run: combined hook functions
					pctx := c14PodCtx(tname, pod)
					if err := pl.SetPodResources(pctx); err != nil {
						c.Count("hook_returned_error", 1) // not a verdict by itself: missing values are caught below
						c.Op("%s SetPodResources error: %v", tr, err)
					}
					podGot := pctx.Response.Resources
					podTouched := !reflect.DeepEqual(pctx.Response, protocol.PodResponse{})
					c.Op("%s pod -> %s", tr, c14Res(podGot))
					ctrGot := make([]protocol.Resources, len(p.ctrs))
					ctrTouched := make([]bool, len(p.ctrs))
					anyTouched := podTouched
					for i, ct := range p.ctrs {
						cctx := c14CtrCtx(tname, pod, ct.name)
						if err := pl.SetContainerResources(cctx); err != nil {
							c.Count("hook_returned_error", 1)
							c.Op("%s SetContainerResources(%s) error: %v", tr, ct.name, err)
						}
						ctrGot[i] = cctx.Response.Resources
						ctrTouched[i] = !reflect.DeepEqual(cctx.Response, protocol.ContainerResponse{})
						anyTouched = anyTouched || ctrTouched[i]
						c.Op("%s container %s -> %s", tr, ct.name, c14Res(ctrGot[i]))
					}
					c.Evals(1 + len(p.ctrs))

					// ---- run: the six single-value parts, each on a fresh context. The CRI/NRI hooks call the
					// combined functions, the cgroup reconciler registers the parts one per cgroup file: both
					// inject, so wherever the statement fixes the values (below) the parts must give the same.
					partsDiffer := ""
					partsRan := len(p.ctrs) <= 5 || tname == betweenTransport // large pods: the parts on one transport only (cost)
					if partsRan {
						var merged protocol.Resources
						a, b, d := c14PodCtx(tname, pod), c14PodCtx(tname, pod), c14PodCtx(tname, pod)
						e1, e2, e3 := pl.SetPodCPUShares(a), pl.SetPodCFSQuota(b), pl.SetPodMemoryLimit(d)
						if e1 != nil || e2 != nil || e3 != nil {
							c.Count("hook_returned_error", 1)
						}
						if a.Response.Resources.CFSQuota != nil || a.Response.Resources.MemoryLimit != nil || b.Response.Resources.CPUShares != nil ||
							b.Response.Resources.MemoryLimit != nil || d.Response.Resources.CPUShares != nil || d.Response.Resources.CFSQuota != nil {
							c.Count("parts_set_foreign_field", 1) // not in the statement
						}
						merged.CPUShares, merged.CFSQuota, merged.MemoryLimit = a.Response.Resources.CPUShares, b.Response.Resources.CFSQuota, d.Response.Resources.MemoryLimit
						c.Op("%s pod parts -> %s", tr, c14Res(merged))
						if !reflect.DeepEqual(merged, podGot) {
							partsDiffer = fmt.Sprintf("pod parts give {%s}, SetPodResources gives {%s}", c14Res(merged), c14Res(podGot))
						}
						for i, ct := range p.ctrs {
							var m protocol.Resources
							a, b, d := c14CtrCtx(tname, pod, ct.name), c14CtrCtx(tname, pod, ct.name), c14CtrCtx(tname, pod, ct.name)
							e1, e2, e3 := pl.SetContainerCPUShares(a), pl.SetContainerCFSQuota(b), pl.SetContainerMemoryLimit(d)
							if e1 != nil || e2 != nil || e3 != nil {
								c.Count("hook_returned_error", 1)
							}
							m.CPUShares, m.CFSQuota, m.MemoryLimit = a.Response.Resources.CPUShares, b.Response.Resources.CFSQuota, d.Response.Resources.MemoryLimit
							if !reflect.DeepEqual(m, ctrGot[i]) && partsDiffer == "" {
								partsDiffer = fmt.Sprintf("container %s parts give {%s}, SetContainerResources gives {%s}", ct.name, c14Res(m), c14Res(ctrGot[i]))
							}
						}
					}
					checkParts := func() {
						if partsDiffer != "" {
							c.Fail("C14/parts/differ-from-combined", "%s: %s", tr, partsDiffer)
						}
						if partsRan {
							c.Count("parts_vs_combined_checks", 1+len(p.ctrs))
						}
					}

					// ---- decide what the statement demands for this pod
					switch {
					case !labelBE && !annoOnly:
						// not best-effort: left untouched - no response field at all, at either level
						if podTouched {
							c.Fail("C14/non-be/pod-touched", "%s: pod marked %s is not best-effort but got %s", tr, p.marking, c14Res(podGot))
						}
						for i, ct := range p.ctrs {
							if ctrTouched[i] {
								c.Fail("C14/non-be/container-touched", "%s: container %s of a pod marked %s (not best-effort) got %s", tr, ct.name, p.marking, c14Res(ctrGot[i]))
							}
						}
						for _, ic := range p.inits {
							cctx := c14CtrCtx(tname, pod, ic.name)
							_ = pl.SetContainerResources(cctx)
							if !reflect.DeepEqual(cctx.Response, protocol.ContainerResponse{}) {
								c.Fail("C14/non-be/container-touched", "%s: init container %s of a pod marked %s (not best-effort) got %s", tr, ic.name, p.marking, c14Res(cctx.Response.Resources))
							}
						}
						c.Count("non_be_untouched_checks", 1+len(p.ctrs)+len(p.inits))
						checkParts()
						continue
					case annoOnly && !anyTouched:
						// The pinned tree defines no annotation form of the QoS class: GetQoSClassByAttrs
						// receives the annotations ("old format adaption") and ignores them. Not a verdict
						// either way; if such a pod IS treated as best-effort, it must get the right values.
						c.Count("annotation_only_marking_left_untouched", 1)
						continue
					case !visible:
						// best-effort but the transport shows no batch spec (nothing declared, or the
						// annotation is absent on the CRI/NRI path): the statement is about pods "using
						// reclaimed resources" whose declared amounts the hook can see; the code documents
						// "do nothing and keep the original cgroup configs". Counted, not a verdict.
						if anyTouched {
							c.Count("be_without_visible_spec_touched", 1)
						} else {
							c.Count("be_without_visible_spec_left_untouched", 1)
						}
						if p.anyDeclared() {
							c.Count("be_declared_but_annotation_absent_on_cri_path", 1)
						}
						if partsDiffer != "" {
							c.Count("parts_differ_in_unasserted_context", 1)
						}
						continue
					}
					if annoOnly {
						c.Count("annotation_only_marking_treated_as_be", 1)
					}
					c.Count("be_contexts_with_visible_spec", 1+len(p.ctrs))
					checkParts()

					// ---- values
					where := fmt.Sprintf("%s/pod", tr)
					hasInit := len(p.inits) > 0
					if hasInit {
						c.Count("pods_with_init_containers_checked", 1)
					}
					podFl := c14CheckValues(c, "pod", where, podGot, wantPod, cfg, hasInit)
					anyKnown := podFl.quotaKnown
					for i, ct := range p.ctrs {
						where := fmt.Sprintf("%s/container %s", tr, ct)
						if ct.bare() {
							// omitted from the spec: the hook has nothing to convert. Untouched = the kubelet's
							// values for a container without limits (rule 2) = unlimited, which is what the
							// statement gives for undeclared amounts; explicit injection of those values is
							// equally fine.
							g := ctrGot[i]
							if !ctrTouched[i] {
								c.Count("bare_container_left_untouched", 1)
							} else if (g.CPUShares != nil && *g.CPUShares != c14MinShares) || (g.CFSQuota != nil && *g.CFSQuota != c14Unlimited) ||
								(g.MemoryLimit != nil && *g.MemoryLimit != c14Unlimited) {
								c.Fail("C14/container/limited-although-nothing-declared", "%s: declares no batch resource but got %s", where, c14Res(g))
							} else {
								c.Count("bare_container_injected_unlimited", 1)
							}
							continue
						}
						fl := c14CheckValues(c, "container", where, ctrGot[i], wantCtr[i], cfg, false)
						anyKnown = anyKnown || fl.quotaKnown
					}
					// init containers: omitted from the annotation (webhook TODO), so the CRI/NRI path leaves them
					// untouched while the reconciler path reads the pod spec. Either is accepted; values that ARE
					// injected must be the conversion of what that init container declares.
					for _, ic := range p.inits {
						cctx := c14CtrCtx(tname, pod, ic.name)
						_ = pl.SetContainerResources(cctx)
						g := cctx.Response.Resources
						c.Op("%s init container %s -> %s", tr, ic.name, c14Res(g))
						where := fmt.Sprintf("%s/init container %s", tr, ic)
						switch {
						case reflect.DeepEqual(cctx.Response, protocol.ContainerResponse{}):
							c.Count("init_container_left_untouched", 1)
						case ic.bare():
							if (g.CPUShares != nil && *g.CPUShares != c14MinShares) || (g.CFSQuota != nil && *g.CFSQuota != c14Unlimited) ||
								(g.MemoryLimit != nil && *g.MemoryLimit != c14Unlimited) {
								c.Fail("C14/container/limited-although-nothing-declared", "%s: declares no batch resource but got %s", where, c14Res(g))
							}
							c.Count("init_container_injected", 1)
						default:
							c14CheckValues(c, "container", where, g, c14WantCtr(c, ic, cfg), cfg, false)
							c.Count("init_container_injected", 1)
						}
					}

					// ---- relations on the OBSERVED values
					sumQ, sumM, sumExcess := int64(0), int64(0), int64(0)
					allQ, allM, nResp := true, true, 0
					for i, ct := range p.ctrs {
						if ct.bare() && !ctrTouched[i] {
							// effective value: unlimited. pod >= unlimited is the narrow pod signature above.
							allQ, allM = false, false
							c.Count("relations_skipped_bare_container", 1)
							continue
						}
						g := ctrGot[i]
						if g.CFSQuota == nil || g.MemoryLimit == nil {
							allQ, allM = false, false
							continue
						}
						nResp++
						if !c14GE(*podGot.CFSQuota, *g.CFSQuota) {
							c.Fail("C14/relation/pod-cfs-quota-tighter-than-container", "%s: pod cfs quota %d < container %s cfs quota %d", tr, *podGot.CFSQuota, ct, *g.CFSQuota)
						}
						if !podFl.memKnown && !c14GE(*podGot.MemoryLimit, *g.MemoryLimit) {
							c.Fail("C14/relation/pod-memory-tighter-than-container", "%s: pod memory limit %d < container %s memory limit %d", tr, *podGot.MemoryLimit, ct, *g.MemoryLimit)
						}
						c.Count("relations_pod_ge_container", 2)
						if *g.CFSQuota == c14Unlimited {
							allQ = false
						} else {
							sumQ += *g.CFSQuota
							sumExcess += wantCtr[i].quota.excess
						}
						if *g.MemoryLimit == c14Unlimited {
							allM = false
						} else {
							sumM += *g.MemoryLimit
						}
					}
					if allQ && nResp == len(p.ctrs) && !anyKnown && !hasInit {
						pq := *podGot.CFSQuota
						if pq == c14Unlimited {
							if cfg.cfsOn {
								c.Fail("C14/relation/pod-unlimited-although-all-containers-limited", "%s: pod cfs quota -1, every container has a finite quota (sum %d)", tr, sumQ)
							}
						} else {
							// equal up to the conversion's rounding (ceil of each container vs ceil of the sum:
							// at most n-1) and the minimum clamps (what they added to the containers)
							if pq > sumQ {
								c.Fail("C14/relation/pod-cfs-quota-above-sum", "%s: pod cfs quota %d > sum of container quotas %d", tr, pq, sumQ)
							}
							if lo := sumQ - int64(nResp-1) - sumExcess; pq < lo {
								c.Fail("C14/relation/pod-cfs-quota-below-sum", "%s: pod cfs quota %d < sum of container quotas %d - rounding %d - clamp excess %d", tr, pq, sumQ, nResp-1, sumExcess)
							}
							c.Count("relations_pod_vs_sum_quota", 1)
							if pq < sumQ {
								c.Count("pod_quota_strictly_below_sum_rounding_or_clamp", 1)
							} else {
								c.Count("pod_quota_equals_sum", 1)
							}
						}
					}
					if allM && nResp == len(p.ctrs) && !podFl.memKnown && !hasInit {
						if pm := *podGot.MemoryLimit; pm != sumM {
							c.Fail("C14/relation/pod-memory-not-sum", "%s: pod memory limit %d, sum of container limits %d", tr, pm, sumM)
						}
						c.Count("relations_pod_vs_sum_memory", 1)
					}

					// ---- evidence (for the final state only, so that the counters stay per pod x transport)
					if !final {
						c.Count("history_intermediate_contexts_checked", 1+len(p.ctrs))
						continue
					}
					if wantPod.quota.minClamp {
						c.Count("quota_min_clamp_hit_pod", 1)
					}
					if wantPod.quota.belowMin {
						c.Count("quota_below_minimum_after_ratio_pod", 1)
					}
					if wantPod.memOverflow {
						c.Count("memory_sum_beyond_int64_pods", 1)
					}
					if wantPod.sharesMin {
						c.Count("shares_min_clamp_hit", 1)
					}
					if wantPod.sharesMax {
						c.Count("shares_max_clamp_hit", 1)
					}
					if wantPod.quota.ratioRounded {
						c.Count("ratio_rounding_exercised", 1)
					}
					if wantPod.quota.val == c14Unlimited && cfg.cfsOn && len(p.ctrs) > 1 {
						c.Count("pod_unlimited_by_propagation", 1)
					}
					for i := range p.ctrs {
						w := wantCtr[i]
						if w.quota.minClamp {
							c.Count("quota_min_clamp_hit_container", 1)
						}
						if w.quota.belowMin {
							c.Count("quota_below_minimum_after_ratio_container", 1)
						}
						if w.sharesMin {
							c.Count("shares_min_clamp_hit", 1)
						}
						if w.sharesMax {
							c.Count("shares_max_clamp_hit", 1)
						}
						if w.quota.ratioRounded {
							c.Count("ratio_rounding_exercised", 1)
						}
						if w.quota.ratioApplied {
							c.Count("ratio_applied", 1)
						}
						if cfg.cfsOn && w.quota.val != c14Unlimited && cfg.ratio > 0 && cfg.ratio <= 1 {
							c.Count("ratio_not_above_1_ignored", 1)
						}
					}
					if labelBE && len(p.ctrs) >= 2 {
						hit := wantPod.quota.minClamp || wantPod.quota.ratioRounded || wantPod.sharesMin || wantPod.sharesMax ||
							(cfg.cfsOn && wantPod.quota.val == c14Unlimited) || wantPod.mem == c14Unlimited
						for _, w := range wantCtr {
							hit = hit || w.quota.minClamp || w.quota.ratioRounded || w.sharesMin || w.sharesMax
						}
						exercised = exercised || hit
					}
				}
			}

			// ---- apply the rule updates (hooks in between in some histories), then the full check
			cur := c14Cfg{ratio: -1, cfsOn: true, slo: "rule-never-set"} // newRule(): cfs quota on, no ratio
			ratioUndecided := false
			for i, st := range steps {
				prevRatio, prevOn := cur.ratio, cur.cfsOn
				hadSLO := cur.slo != "rule-never-set"
				c14Apply(c, pl, st)
				if st.meta && st.illegal {
					// rejected annotation: the cached ratio stays; which ratio is "configured" now is not decided by
					// the statement, so the hooks are not checked until the next accepted node state
					c.Count("hist_ratio_illegal_annotation_step", 1)
					ratioUndecided = true
					continue
				}
				if st.meta {
					ratioUndecided = false
					if metaSeen := cur.metaSeen; metaSeen && history {
						a, b := c14RatioClass(prevRatio), c14RatioClass(c14ParseRatio(c, st.val))
						k := a + "_to_" + b
						if a == b && a != "absent" {
							if prevRatio == c14ParseRatio(c, st.val) {
								k += "_unchanged"
							} else {
								k += "_changed"
							}
						}
						c.Count("hist_ratio_"+k, 1)
					}
					cur.ratioStr, cur.ratio, cur.metaSeen = st.val, c14ParseRatio(c, st.val), true
				} else {
					on := c14CFSOn(st.val)
					if hadSLO && history {
						c.Count(fmt.Sprintf("hist_cfs_%s_to_%s", map[bool]string{true: "on", false: "off"}[prevOn], map[bool]string{true: "on", false: "off"}[on]), 1)
					}
					cur.slo, cur.cfsOn = st.val, on
				}
				if hooksBetween && i < len(steps)-1 && ratioUndecided {
					c.Count("hist_intermediate_check_skipped_ratio_undecided", 1)
				} else if hooksBetween && i < len(steps)-1 {
					runCheck(cur, []string{betweenTransport}, fmt.Sprintf("@after-update-%d", i+1), false)
				}
			}
			if history {
				c.Count("history_cases", 1)
				if hooksBetween {
					c.Count("history_cases_with_hooks_between_updates", 1)
				}
			}
			if cur.ratio != cfg.ratio || cur.cfsOn != cfg.cfsOn {
				c.Harness("harness bookkeeping: last applied state ratio=%v cfs=%v, oracle state ratio=%v cfs=%v", cur.ratio, cur.cfsOn, cfg.ratio, cfg.cfsOn)
			}
			runCheck(cfg, c14Transports, "", true)
			if exercised {
				c.NonTrivial()
			}

			// ---- distinct abstract shape
			pat := make([]string, len(p.ctrs))
			clamp := 0
			for i, ct := range p.ctrs {
				s := ""
				switch {
				case ct.bare():
					s = "bare"
				default:
					if ct.cpuLim.declared() > 0 {
						s += "q"
					} else {
						s += "Q"
					}
					if ct.memLim.declared() > 0 {
						s += "m"
					} else {
						s += "M"
					}
					if ct.cpuReq.declared() > 0 {
						s += "s"
					} else {
						s += "S"
					}
				}
				pat[i] = s
				w := wantCtr[i]
				if w.quota.minClamp {
					clamp |= 1
				}
				if w.quota.belowMin {
					clamp |= 2
				}
				if w.sharesMin {
					clamp |= 4
				}
				if w.sharesMax {
					clamp |= 8
				}
			}
			if wantPod.quota.minClamp {
				clamp |= 16
			}
			if wantPod.quota.belowMin {
				clamp |= 32
			}
			if wantPod.sharesMax {
				clamp |= 64
			}
			sort.Strings(pat)
			ratioClass := "none"
			switch {
			case cfg.ratio > 1 && wantPod.quota.ratioRounded:
				ratioClass = ">1 rounded"
			case cfg.ratio > 1:
				ratioClass = ">1"
			case cfg.ratio == 1:
				ratioClass = "=1"
			case cfg.ratio > 0:
				ratioClass = "<1"
			}
			markClass := "not-BE"
			if labelBE {
				markClass = "label"
			} else if annoOnly {
				markClass = "annotation-only"
			}
			c.Seen(len(p.ctrs), strings.Join(pat, ","), clamp, ratioClass, cfg.cfsOn, markClass, hasAnno)
			if c.K < 3 {
				c.Sample(map[string]any{"marking": p.marking, "containers": ctrStr, "annotation": pod.Annotations[apiext.AnnotationExtendedResourceSpec],
					"rule": fmt.Sprintf("slo=%s ratio=%q", cfg.slo, cfg.ratioStr), "ops": c.Ops()[2:]})
			}
		})
}
