//go:build verif

package batchresource

// C14 monitor, rule-update callbacks: when the NodeSLO rule (cfs-quota switch) or the node-metadata rule (CPU
// normalization ratio) of the BatchResource plugin changes, the rule framework runs the plugin's update callback
// over all pods of the node and the callback WRITES cpu.cfs_quota_us of every best-effort pod and of each of its
// containers. The unit drives the real parseRuleForNodeSLO / parseRuleForNodeMeta and, exactly as
// runtimehooks/rule.UpdateRules does, the real ruleUpdateCbForNodeSLO / ruleUpdateCbForNodeMeta whenever the
// parser reports an update, with a real ResourceUpdateExecutor on a temporary cgroup-v1 tree; after every callback
// the files are read back and judged PER POD AND PER CONTAINER.
//
// Oracle (same written-out conversion as the hook unit, applied to the amounts of the generated containers under
// the rule state configured at that moment): the pod file and the file of every container that declares a
// batch-cpu limit hold the conversion; the file of a container that declares no batch resource keeps the
// kubelet's value for a container without limits (-1: undeclared means unlimited); nothing of a pod that is not
// best-effort is written.
//
// Causal rules: pods as in the hook unit (rules 1-4), 1-3 pods on the node, status.containerStatuses sorted by
// name / in spec order / permuted; every cgroup starts with the kubelet's values (quota -1, rule 2); a callback
// runs iff the parser returned updated=true and no error (rule.UpdateRules); rule states change by more than the
// documented ratio epsilon (rule 5), no rejected annotation values here.

import (
	"fmt"
	"strconv"
	"strings"
	"testing"

	corev1 "k8s.io/api/core/v1"
	"k8s.io/apimachinery/pkg/types"

	apiext "github.com/koordinator-sh/koordinator/apis/extension"
	"github.com/koordinator-sh/koordinator/pkg/koordlet/resourceexecutor"
	"github.com/koordinator-sh/koordinator/pkg/koordlet/statesinformer"
	sysutil "github.com/koordinator-sh/koordinator/pkg/koordlet/util/system"
	kit "github.com/koordinator-sh/koordinator/pkg/verifkit"
)

type c14cbPod struct {
	gen     c14Pod
	pod     *corev1.Pod
	podDir  string
	ctrDirs []string // by index into gen.ctrs
	be      bool
}

func TestVerifC14Callback(t *testing.T) {
	helper := sysutil.NewFileTestUtil(t)
	defer helper.Cleanup()
	sysutil.SetupCgroupPathFormatter(sysutil.Systemd)

	readQuota := func(c *kit.Case, dir string) int64 {
		s := strings.TrimSpace(helper.ReadCgroupFileContents(dir, sysutil.CPUCFSQuota))
		v, err := strconv.ParseInt(s, 10, 64)
		if err != nil {
			c.Fail("C14/callback/unreadable-quota", "cpu.cfs_quota_us of %s holds %q after a rule-update callback", dir, s)
		}
		return v
	}

	kit.Run(t, kit.Config{Property: "C14", Unit: "callback", Quick: 500, Thorough: 40000,
		Rule: "1-3 generated pods (as in the hook unit: 1-5 containers with names of different shapes, amounts from the same pools, containers declaring nothing, BE by label or not BE, statuses sorted by name / spec order / permuted) on a temporary cgroup-v1 tree initialised with the kubelet's values; a history of 2-6 rule states (NodeSLO: cfs switch; node metadata: ratio absent / <=1 / >1, steps beyond the update epsilon) through the real parsers, the real rule-update callback run whenever the parser reports an update, real ResourceUpdateExecutor; after every callback cpu.cfs_quota_us of every pod and container is read back and compared with the conversion under the state configured at that moment. distinct = (pods, containers, bare pattern, status order class, callback kind, ratio class, cfs switch); non-trivial = a BE pod mixing declaring and bare containers with a status order different from the spec order; evaluations = files judged"},
		func(c *kit.Case) {
			r := c.R
			stopCh := make(chan struct{})
			defer close(stopCh)
			pl := newPlugin()
			pl.executor = resourceexecutor.NewTestResourceExecutor()
			pl.executor.Run(stopCh)

			// ---- pods of the node
			var pods []*c14cbPod
			target := &statesinformer.CallbackTarget{}
			mixedReordered := false
			for pi, np := 0, r.Range(1, 3); pi < np; pi++ {
				profile := r.Weighted(60, 25, 15)
				g := c14Pod{webhook: !r.Pct(15)}
				for i, n := 0, r.Range(1, 5); i < n; i++ {
					g.ctrs = append(g.ctrs, c14GenCtr(r, i, profile))
				}
				if profile != 1 && len(g.ctrs) >= 2 && r.Pct(35) { // make sure mixed pods are frequent
					g.ctrs[r.Intn(len(g.ctrs))] = c14Ctr{name: g.ctrs[0].name + "-agent"}
				}
				// names must stay unique
				seen := map[string]bool{}
				for i := range g.ctrs {
					for seen[g.ctrs[i].name] {
						g.ctrs[i].name += "x"
					}
					seen[g.ctrs[i].name] = true
				}
				g.statusOrder = c14StatusOrder(r, g.ctrs)
				if r.Pct(70) {
					g.marking = "label:BE"
				} else {
					g.marking = kit.Pick(r, []string{"label:LS", "label:LSR", "none", "label:be"})
				}
				pod := c14BuildPod(c, g)
				uid := fmt.Sprintf("c%dp%d", c.K, pi)
				pod.Name, pod.UID = "pod-"+uid, types.UID(uid)
				cp := &c14cbPod{gen: g, pod: pod, be: g.marking == "label:BE",
					podDir: fmt.Sprintf("kubepods.slice/kubepods-besteffort.slice/kubepods-besteffort-pod%s.slice", uid)}
				for i := range pod.Status.ContainerStatuses {
					st := &pod.Status.ContainerStatuses[i]
					st.ContainerID = "containerd://" + uid + "-" + st.Name
				}
				helper.WriteCgroupFileContents(cp.podDir, sysutil.CPUCFSQuota, "-1")
				bare, declaring, reordered := false, false, false
				for i, ct := range g.ctrs {
					dir := cp.podDir + "/cri-containerd-" + uid + "-" + ct.name + ".scope"
					cp.ctrDirs = append(cp.ctrDirs, dir)
					helper.WriteCgroupFileContents(dir, sysutil.CPUCFSQuota, "-1")
					if ct.bare() {
						bare = true
					} else if ct.cpuLim.declared() > 0 {
						declaring = true
					}
					if g.statusOrder != nil && g.statusOrder[i] != i {
						reordered = true
					}
				}
				if cp.be && bare && declaring && reordered {
					mixedReordered = true
				}
				if reordered {
					c.Count("cb_pods_status_order_differs_from_spec_order", 1)
				}
				if cp.be && bare && declaring {
					c.Count("cb_be_pods_mixing_declaring_and_bare_containers", 1)
				}
				pods = append(pods, cp)
				target.Pods = append(target.Pods, &statesinformer.PodMeta{Pod: pod, CgroupDir: "/" + cp.podDir + "/"})
				ctrStr := make([]string, len(g.ctrs))
				for i, ct := range g.ctrs {
					ctrStr[i] = ct.String()
				}
				c.Op("pod %s marking=%s containers=%v status-order=%v annotation=%q", uid, g.marking, ctrStr, g.statusOrder, pod.Annotations[apiext.AnnotationExtendedResourceSpec])
			}
			if mixedReordered {
				c.NonTrivial()
			}

			// ---- rule history
			cur := c14Cfg{ratio: -1, cfsOn: true, slo: "rule-never-set"}
			prevRatio := float64(-2)
			for step, ns := 0, r.Range(2, 6); step < ns; step++ {
				var st c14Step
				if r.Bool() {
					st = c14Step{val: kit.Pick(r, c14SLOModes)}
				} else {
					for try := 0; ; try++ {
						st = c14Step{meta: true, val: kit.Pick(r, c14HistRatios)}
						if v := c14ParseRatio(c, st.val); prevRatio == -2 || c14RatioChangeOK(prevRatio, v) {
							prevRatio = v
							break
						}
						if try > 400 {
							c.Harness("cannot place a ratio after %v", prevRatio)
						}
					}
				}
				// what runtimehooks/rule.UpdateRules does: parse, and run the update callback iff updated
				var updated bool
				var err error
				kind := "NodeSLO"
				if st.meta {
					kind = "NodeMeta"
					node := &corev1.Node{}
					node.Name = "n0"
					if st.val != "" {
						node.Annotations = map[string]string{apiext.AnnotationCPUNormalizationRatio: st.val}
					}
					updated, err = pl.parseRuleForNodeMeta(node)
					cur.ratioStr, cur.ratio = st.val, c14ParseRatio(c, st.val)
				} else {
					updated, err = pl.parseRuleForNodeSLO(c14SLOSpec(c, st.val))
					cur.slo, cur.cfsOn = st.val, c14CFSOn(st.val)
				}
				if err != nil {
					c.Harness("parse %s: %v", st, err)
				}
				c.Op("update %s -> updated=%v", st, updated)
				if !updated {
					c.Count("cb_rule_state_unchanged_no_callback", 1)
					continue
				}
				if st.meta {
					err = pl.ruleUpdateCbForNodeMeta(target)
				} else {
					err = pl.ruleUpdateCbForNodeSLO(target)
				}
				if err != nil {
					c.Count("cb_callback_returned_error", 1)
				}
				c.Count("cb_callbacks_run_"+kind, 1)

				// ---- judge every file
				for _, cp := range pods {
					podQ := readQuota(c, cp.podDir)
					c.Op("after %s callback: pod %s quota=%d", kind, cp.pod.UID, podQ)
					c.Evals(1 + len(cp.gen.ctrs))
					if !cp.be {
						if podQ != c14Unlimited {
							c.Fail("C14/non-be/pod-touched", "%s callback wrote cpu.cfs_quota_us=%d of pod %s marked %s (not best-effort)", kind, podQ, cp.pod.UID, cp.gen.marking)
						}
						for i, ct := range cp.gen.ctrs {
							if q := readQuota(c, cp.ctrDirs[i]); q != c14Unlimited {
								c.Fail("C14/non-be/container-touched", "%s callback wrote cpu.cfs_quota_us=%d of container %s of pod %s marked %s (not best-effort)", kind, q, ct.name, cp.pod.UID, cp.gen.marking)
							}
						}
						c.Count("cb_non_be_files_untouched", 1+len(cp.gen.ctrs))
						continue
					}
					if !cp.gen.anyDeclared() {
						// nothing declared: no spec visible, nothing finite may be written
						if podQ != c14Unlimited {
							c.Fail("C14/pod/limited-although-nothing-declared", "%s callback wrote cpu.cfs_quota_us=%d of pod %s, which declares no batch resource", kind, podQ, cp.pod.UID)
						}
					} else {
						c14CheckQuota(c, "pod", fmt.Sprintf("%s callback/pod %s cpu.cfs_quota_us", kind, cp.pod.UID), podQ, c14WantPod(c, cp.gen.ctrs, cur), cur, false)
					}
					for i, ct := range cp.gen.ctrs {
						q := readQuota(c, cp.ctrDirs[i])
						c.Op("after %s callback: pod %s container %s quota=%d", kind, cp.pod.UID, ct.name, q)
						where := fmt.Sprintf("%s callback/pod %s container %s cpu.cfs_quota_us (status order %v)", kind, cp.pod.UID, ct, cp.gen.statusOrder)
						if ct.bare() {
							if q != c14Unlimited {
								c.Fail("C14/container/limited-although-nothing-declared", "%s: declares no batch resource, the kubelet's value was -1, now %d (undeclared means unlimited)", where, q)
							}
							c.Count("cb_bare_container_files_judged", 1)
							continue
						}
						c14CheckQuota(c, "container", where, q, c14WantCtr(c, ct, cur), cur, false)
						c.Count("cb_declaring_container_files_judged", 1)
					}
					c.Count("cb_be_pods_judged", 1)
				}
				ratioClass := c14RatioClass(cur.ratio)
				for _, cp := range pods {
					nb := 0
					for _, ct := range cp.gen.ctrs {
						if ct.bare() {
							nb++
						}
					}
					oc := "spec"
					if cp.gen.statusOrder != nil {
						oc = "reordered"
					}
					c.Seen(len(pods), len(cp.gen.ctrs), nb, oc, kind, ratioClass, cur.cfsOn, cp.be)
				}
			}
			if c.K < 2 {
				c.Sample(map[string]any{"ops": c.Ops()})
			}
		})
}
