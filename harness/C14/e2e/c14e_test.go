//go:build verif

package mutating

// C14 end-to-end monitor "webhook-to-hook": the REAL pod mutating webhook writes the
// node.koordinator.sh/extended-resource-spec annotation, the REAL BatchResource runtime hooks read it.
// (The `hook` unit renders the annotation with pkg/util's twin of the webhook loop; here the webhook
// itself is in the loop.) See /verif/DESIGN.md section 4, C14.
//
// Every case: a generated pod is sent as a CREATE AdmissionRequest through PodMutatingHandler.Handle
// (clusterColocationProfileMutatingPod -> extendedResourceSpecMutatingPod -> mutateByExtendedResources
// -> ...) with a fake client; the returned JSON patch is applied to the request object the way the API
// server does. Then batchresource.Object().SetPodResources / SetContainerResources run on PodContext /
// ContainerContext requests built from the ADMITTED object by the real FromProxy (CRI path: labels and
// annotations only) and FromReconciler (pod object) constructors.
//
// Oracle: the same written-out standard conversion as the hook unit (duplicated on purpose: another
// package), applied to the batch amounts the FINAL admitted spec declares - never to the annotation:
// values of a BE pod = conversion of what its containers declare; pod = conversion of the sums,
// unlimited as soon as one container is; a container / pod that declares nothing gets no finite cfs
// quota, no memory limit and no shares above the minimum; non-BE pods get nothing.
//
// Causal rules of the generator:
//  1. request <= limit when both are declared; integral amounts; regular containers with unique names;
//  2. a pod may ARRIVE with an extended-resource-spec annotation that an earlier admission wrote
//     (copied pod: kubectl debug --copy-to, get -o yaml | create, a cloning controller): the annotation
//     is always one the real webhook produced in this case for a donor pod - for another spec, for the
//     same spec, or for a spec whose containers were then edited to declare nothing. Hand-made or
//     malformed annotations are not generated;
//  3. pods either declare batch resources directly (with the QoS label they carry), or - 20 % - declare
//     native cpu/memory and match a ClusterColocationProfile (QoS BE, batch PriorityClass) that makes
//     the webhook translate them; no native amounts otherwise (a container the hook leaves untouched is
//     unlimited);
//  4. the hook plugin is the package singleton with its default rule (cfs quota on, no normalization
//     ratio); rule configurations are the hook unit's business;
//  5. feature gates at their defaults (DisableExtendedResourceSpec=false), set explicitly.

import (
	"context"
	"encoding/json"
	"fmt"
	"reflect"
	"sort"
	"strconv"
	"strings"
	"testing"

	jsonpatch "github.com/evanphx/json-patch"
	admissionv1 "k8s.io/api/admission/v1"
	corev1 "k8s.io/api/core/v1"
	schedulingv1 "k8s.io/api/scheduling/v1"
	"k8s.io/apimachinery/pkg/api/resource"
	metav1 "k8s.io/apimachinery/pkg/apis/meta/v1"
	"k8s.io/apimachinery/pkg/runtime"
	"k8s.io/apimachinery/pkg/types"
	"k8s.io/client-go/kubernetes/scheme"
	"k8s.io/klog/v2"
	"sigs.k8s.io/controller-runtime/pkg/client"
	"sigs.k8s.io/controller-runtime/pkg/client/fake"
	"sigs.k8s.io/controller-runtime/pkg/webhook/admission"

	configv1alpha1 "github.com/koordinator-sh/koordinator/apis/config/v1alpha1"
	runtimeapi "github.com/koordinator-sh/koordinator/apis/runtime/v1alpha1"
	"github.com/koordinator-sh/koordinator/pkg/features"
	"github.com/koordinator-sh/koordinator/pkg/koordlet/runtimehooks/hooks/batchresource"
	"github.com/koordinator-sh/koordinator/pkg/koordlet/runtimehooks/protocol"
	"github.com/koordinator-sh/koordinator/pkg/koordlet/statesinformer"
	utilfeature "github.com/koordinator-sh/koordinator/pkg/util/feature"
	kit "github.com/koordinator-sh/koordinator/pkg/verifkit"
)

func init() {
	klog.SetOutput(c14eDiscard{})
	klog.LogToStderr(false)
	_ = configv1alpha1.AddToScheme(scheme.Scheme)
}

type c14eDiscard struct{}

func (c14eDiscard) Write(p []byte) (int, error) { return len(p), nil }

const (
	c14eQoSKey      = "koordinator.sh/qosClass"
	c14eAnnoKey     = "node.koordinator.sh/extended-resource-spec"
	c14eBatchCPU    = corev1.ResourceName("kubernetes.io/batch-cpu")
	c14eBatchMemory = corev1.ResourceName("kubernetes.io/batch-memory")

	// the standard conversion's constants (kubelet cm helpers / kernel sched)
	c14eSharesPerCPU  = 1024
	c14eMilliPerCPU   = 1000
	c14eMinShares     = 2
	c14eMaxShares     = 262144
	c14eQuotaPeriodUs = 100000
	c14eMinQuotaUs    = 1000
	c14eUnlimited     = -1
)

func c14eStdShares(milli int64) int64 {
	if milli <= 0 {
		return c14eMinShares
	}
	v := milli * c14eSharesPerCPU / c14eMilliPerCPU
	if v < c14eMinShares {
		v = c14eMinShares
	}
	if v > c14eMaxShares {
		v = c14eMaxShares
	}
	return v
}

// default rule: cfs quota on, no normalization ratio
func c14eStdQuota(milli int64) int64 {
	if milli <= 0 {
		return c14eUnlimited
	}
	v := milli * c14eQuotaPeriodUs / c14eMilliPerCPU
	if v < c14eMinQuotaUs {
		v = c14eMinQuotaUs
	}
	return v
}

// ---------------------------------------------------------------------------------------------
// generated pods

type c14eAmt struct {
	set bool
	v   int64
}

func (a c14eAmt) String() string {
	if !a.set {
		return "-"
	}
	return strconv.FormatInt(a.v, 10)
}

func (a c14eAmt) declared() int64 {
	if a.set && a.v > 0 {
		return a.v
	}
	return 0
}

type c14eCtr struct {
	name                           string
	cpuReq, cpuLim, memReq, memLim c14eAmt
}

func (ct c14eCtr) bare() bool {
	return !ct.cpuReq.set && !ct.cpuLim.set && !ct.memReq.set && !ct.memLim.set
}

func (ct c14eCtr) String() string {
	return fmt.Sprintf("%s{cpu %s/%s mem %s/%s}", ct.name, ct.cpuReq, ct.cpuLim, ct.memReq, ct.memLim)
}

var (
	c14ePoolPositive = []int64{1, 9, 10, 999, 1000, 1001, 1000000, 1 << 40}
	c14ePoolExtra    = []int64{2, 3, 5, 11, 19, 20, 21, 1500, 2500, 262144, 1 << 30}
)

func c14eGenAmt(r *kit.Rand, declaredOnly bool) c14eAmt {
	if declaredOnly {
		if r.Pct(25) {
			return c14eAmt{true, int64(r.Range(1, 4096))}
		}
		return c14eAmt{true, kit.Pick(r, c14ePoolPositive)}
	}
	switch r.Weighted(14, 8, 58, 12, 8) {
	case 0:
		return c14eAmt{}
	case 1:
		return c14eAmt{true, 0}
	case 2:
		return c14eAmt{true, kit.Pick(r, c14ePoolPositive)}
	case 3:
		return c14eAmt{true, kit.Pick(r, c14ePoolExtra)}
	default:
		return c14eAmt{true, int64(r.Range(1, 4096))}
	}
}

func c14eGenCtr(r *kit.Rand, i int, barePct int, declaredOnly bool) c14eCtr {
	ct := c14eCtr{name: c14eName(i)}
	if r.Pct(barePct) {
		return ct
	}
	ct.cpuReq, ct.cpuLim = c14eGenAmt(r, declaredOnly), c14eGenAmt(r, declaredOnly)
	ct.memReq, ct.memLim = c14eGenAmt(r, declaredOnly), c14eGenAmt(r, declaredOnly)
	if r.Pct(35) && ct.cpuLim.set {
		ct.cpuReq = ct.cpuLim
	}
	if ct.cpuReq.set && ct.cpuLim.set && ct.cpuReq.v > ct.cpuLim.v {
		ct.cpuReq, ct.cpuLim = ct.cpuLim, ct.cpuReq
	}
	if ct.memReq.set && ct.memLim.set && ct.memReq.v > ct.memLim.v {
		ct.memReq, ct.memLim = ct.memLim, ct.memReq
	}
	return ct
}

// container names: DNS labels of different shapes (sort order, digit first, dashes); a function of the index so
// that donor and main pod share names
func c14eName(i int) string {
	return []string{"c", "main-", "istio-proxy-", "a", "0", "zz-"}[i%6] + strconv.Itoa(i)
}

func c14eAnyDeclared(ctrs []c14eCtr) bool {
	for _, ct := range ctrs {
		if !ct.bare() {
			return true
		}
	}
	return false
}

// c14eRL renders one requests/limits list: batch names with integral amounts, or (native) cpu in
// milli-cores and memory in bytes for the profile-translated variant.
func c14eRL(cpu, mem c14eAmt, native bool) corev1.ResourceList {
	if !cpu.set && !mem.set {
		return nil
	}
	// the same integral amount in the different notations a manifest can use (1k / 1000 / 1e3 / 1Ki ...)
	fm := func(v int64) resource.Format {
		return []resource.Format{resource.DecimalSI, resource.BinarySI, resource.DecimalExponent}[uint64(v)%3]
	}
	rl := corev1.ResourceList{}
	if cpu.set {
		if native {
			rl[corev1.ResourceCPU] = *resource.NewMilliQuantity(cpu.v, resource.DecimalSI)
		} else {
			rl[c14eBatchCPU] = *resource.NewQuantity(cpu.v, fm(cpu.v))
		}
	}
	if mem.set {
		if native {
			rl[corev1.ResourceMemory] = *resource.NewQuantity(mem.v, resource.BinarySI)
		} else {
			rl[c14eBatchMemory] = *resource.NewQuantity(mem.v, fm(mem.v+1))
		}
	}
	return rl
}

func c14eBuildPod(name string, marking string, ctrs []c14eCtr, native bool) *corev1.Pod {
	pod := &corev1.Pod{
		TypeMeta:   metav1.TypeMeta{Kind: "Pod", APIVersion: "v1"},
		ObjectMeta: metav1.ObjectMeta{Namespace: "default", Name: name, UID: types.UID("uid-" + name), Labels: map[string]string{"app": "c14e"}, Annotations: map[string]string{"other": "x"}},
	}
	switch {
	case strings.HasPrefix(marking, "label:"):
		pod.Labels[c14eQoSKey] = strings.TrimPrefix(marking, "label:")
	case marking == "profile":
		pod.Labels["colocate"] = "true"
	}
	for _, ct := range ctrs {
		pod.Spec.Containers = append(pod.Spec.Containers, corev1.Container{Name: ct.name, Image: "img", Resources: corev1.ResourceRequirements{
			Requests: c14eRL(ct.cpuReq, ct.memReq, native), Limits: c14eRL(ct.cpuLim, ct.memLim, native)}})
	}
	return pod
}

func c14eJSON(c *kit.Case, v any) []byte {
	b, err := json.Marshal(v)
	if err != nil {
		c.Harness("marshal: %v", err)
	}
	return b
}

// c14eAdmit sends the pod through the real mutating handler as a CREATE and applies the returned patch.
func c14eAdmit(c *kit.Case, ctx context.Context, h *PodMutatingHandler, pod *corev1.Pod) *corev1.Pod {
	raw := c14eJSON(c, pod)
	req := admission.Request{AdmissionRequest: admissionv1.AdmissionRequest{
		Resource:  metav1.GroupVersionResource{Group: "", Version: "v1", Resource: "pods"},
		Operation: admissionv1.Create, Name: pod.Name, Namespace: "default",
		Object: runtime.RawExtension{Raw: raw},
	}}
	resp := h.Handle(ctx, req)
	if !resp.Allowed {
		msg := ""
		if resp.Result != nil {
			msg = resp.Result.Message
		}
		// every generated pod is admissible (rule 2: annotations are well-formed)
		c.Fail("C14/e2e/admission-refused", "the mutating webhook refused pod %s: %s", raw, msg)
	}
	out := raw
	if len(resp.Patches) > 0 {
		pj, err := json.Marshal(resp.Patches)
		if err != nil {
			c.Harness("marshal patches: %v", err)
		}
		patch, err := jsonpatch.DecodePatch(pj)
		if err != nil {
			c.Harness("decode patch %s: %v", pj, err)
		}
		if out, err = patch.Apply(raw); err != nil {
			c.Harness("apply patch %s: %v", pj, err)
		}
		c.Op("admit %s: patch %s", pod.Name, pj)
	} else {
		c.Op("admit %s: no patch", pod.Name)
	}
	admitted := &corev1.Pod{}
	if err := json.Unmarshal(out, admitted); err != nil {
		c.Harness("unmarshal admitted pod: %v", err)
	}
	c.Count("admitted_through_webhook", 1)
	return admitted
}

// c14eDeclared reads the batch amounts the FINAL spec declares, container by container.
func c14eDeclared(pod *corev1.Pod) []c14eCtr {
	amt := func(rl corev1.ResourceList, name corev1.ResourceName) c14eAmt {
		q, ok := rl[name]
		if !ok {
			return c14eAmt{}
		}
		return c14eAmt{true, q.Value()}
	}
	var out []c14eCtr
	for i := range pod.Spec.Containers {
		ct := &pod.Spec.Containers[i]
		out = append(out, c14eCtr{name: ct.Name,
			cpuReq: amt(ct.Resources.Requests, c14eBatchCPU), cpuLim: amt(ct.Resources.Limits, c14eBatchCPU),
			memReq: amt(ct.Resources.Requests, c14eBatchMemory), memLim: amt(ct.Resources.Limits, c14eBatchMemory)})
	}
	return out
}

// ---------------------------------------------------------------------------------------------
// oracle (default rule)

type c14eWant struct {
	shares, quota, mem             int64
	cpuUnlOnlyBare, memUnlOnlyBare bool
}

func c14eWantCtr(ct c14eCtr) c14eWant {
	w := c14eWant{shares: c14eStdShares(ct.cpuReq.declared()), quota: c14eStdQuota(ct.cpuLim.declared()), mem: c14eUnlimited}
	if m := ct.memLim.declared(); m > 0 {
		w.mem = m
	}
	return w
}

func c14eWantPod(ctrs []c14eCtr) c14eWant {
	var w c14eWant
	var sumReq, sumCPULim, sumMemLim int64
	cpuUnl, memUnl := false, false
	w.cpuUnlOnlyBare, w.memUnlOnlyBare = true, true
	for _, ct := range ctrs {
		sumReq += ct.cpuReq.declared()
		if l := ct.cpuLim.declared(); l > 0 {
			sumCPULim += l
		} else {
			cpuUnl = true
			if !ct.bare() {
				w.cpuUnlOnlyBare = false
			}
		}
		if l := ct.memLim.declared(); l > 0 {
			sumMemLim += l
		} else {
			memUnl = true
			if !ct.bare() {
				w.memUnlOnlyBare = false
			}
		}
	}
	w.cpuUnlOnlyBare = w.cpuUnlOnlyBare && cpuUnl
	w.memUnlOnlyBare = w.memUnlOnlyBare && memUnl
	w.shares = c14eStdShares(sumReq)
	if cpuUnl {
		sumCPULim = 0
	}
	w.quota = c14eStdQuota(sumCPULim)
	w.mem = sumMemLim
	if memUnl || sumMemLim <= 0 {
		w.mem = c14eUnlimited
	}
	return w
}

func c14eRes(r protocol.Resources) string {
	f := func(p *int64) string {
		if p == nil {
			return "nil"
		}
		return strconv.FormatInt(*p, 10)
	}
	return fmt.Sprintf("shares=%s quota=%s mem=%s", f(r.CPUShares), f(r.CFSQuota), f(r.MemoryLimit))
}

// c14eCheckValues: same comparison and the same attribution rule for the two known bare-container
// signatures as the hook unit (pod level, the only unlimited containers are ones that declare nothing at
// all, a finite value was injected).
func c14eCheckValues(c *kit.Case, level, where string, got protocol.Resources, w c14eWant) {
	if got.CPUShares == nil || got.CFSQuota == nil || got.MemoryLimit == nil {
		c.Fail("C14/"+level+"/value-not-injected", "%s: best-effort pod whose final spec declares batch resources, admitted through the webhook, but not every value was injected: %s", where, c14eRes(got))
	}
	if *got.CPUShares != w.shares {
		c.Fail("C14/"+level+"/cpu-shares", "%s: cpu shares %d, the standard conversion of the batch-cpu request declared by the final spec gives %d", where, *got.CPUShares, w.shares)
	}
	q := *got.CFSQuota
	switch {
	case q == w.quota:
	case level == "pod" && w.cpuUnlOnlyBare && q > 0:
		c.Report("C14/pod/cfs-quota-limited-although-a-container-declares-nothing",
			"%s: pod cfs quota %d, but a container of the pod declares no batch resource at all (omitted from the spec annotation), so its limit is undeclared = unlimited and the pod must be unlimited (-1)", where, q)
	default:
		c.Fail("C14/"+level+"/cfs-quota", "%s: cfs quota %d, the final spec's declared batch-cpu limit converts to %d", where, q, w.quota)
	}
	m := *got.MemoryLimit
	switch {
	case m == w.mem:
	case level == "pod" && w.memUnlOnlyBare && m > 0:
		c.Report("C14/pod/memory-limited-although-a-container-declares-nothing",
			"%s: pod memory limit %d, but a container of the pod declares no batch resource at all (omitted from the spec annotation), so its limit is undeclared = unlimited and the pod must be unlimited (-1)", where, m)
	default:
		c.Fail("C14/"+level+"/memory-limit", "%s: memory limit %d, the final spec declares %d", where, m, w.mem)
	}
}

// c14eNothingDeclared: a pod / container whose final spec declares no batch resource at all must not get
// a finite cfs quota, a memory limit or shares above the minimum. Untouched is fine (kubelet values of a
// container without limits = unlimited), so is explicit injection of unlimited / minimum.
func c14eNothingDeclared(c *kit.Case, level, where string, got protocol.Resources) {
	if (got.CFSQuota != nil && *got.CFSQuota != c14eUnlimited) || (got.MemoryLimit != nil && *got.MemoryLimit != c14eUnlimited) ||
		(got.CPUShares != nil && *got.CPUShares != c14eMinShares) {
		c.Fail("C14/"+level+"/limited-although-nothing-declared", "%s: the final spec declares no batch resource here, but the hook injected %s (undeclared means unlimited)", where, c14eRes(got))
	}
}

func c14eGE(a, b int64) bool {
	if a == c14eUnlimited {
		return true
	}
	if b == c14eUnlimited {
		return false
	}
	return a >= b
}

// ---------------------------------------------------------------------------------------------
// hook requests from the admitted object

const c14ePodCgroup = "kubepods.slice/kubepods-besteffort.slice/kubepods-besteffort-poduid_c14e.slice"

func c14eCopyMap(m map[string]string) map[string]string {
	if m == nil {
		return nil
	}
	o := make(map[string]string, len(m))
	for k, v := range m {
		o[k] = v
	}
	return o
}

func c14eWithStatus(pod *corev1.Pod) *corev1.Pod {
	p := pod.DeepCopy()
	p.Status.ContainerStatuses = nil
	for _, ct := range p.Spec.Containers {
		p.Status.ContainerStatuses = append(p.Status.ContainerStatuses, corev1.ContainerStatus{Name: ct.Name, ContainerID: "containerd://id-" + ct.Name})
	}
	// the kubelet reports the statuses sorted by container name, not in spec order
	sort.Slice(p.Status.ContainerStatuses, func(a, b int) bool { return p.Status.ContainerStatuses[a].Name < p.Status.ContainerStatuses[b].Name })
	return p
}

func c14ePodCtx(transport string, pod *corev1.Pod) *protocol.PodContext {
	ctx := &protocol.PodContext{}
	if transport == "proxy" {
		ctx.FromProxy(&runtimeapi.PodSandboxHookRequest{
			PodMeta: &runtimeapi.PodSandboxMetadata{Name: pod.Name, Namespace: pod.Namespace, Uid: string(pod.UID)},
			Labels:  c14eCopyMap(pod.Labels), Annotations: c14eCopyMap(pod.Annotations), CgroupParent: c14ePodCgroup})
	} else {
		ctx.FromReconciler(&statesinformer.PodMeta{Pod: c14eWithStatus(pod), CgroupDir: c14ePodCgroup})
	}
	return ctx
}

func c14eCtrCtx(transport string, pod *corev1.Pod, name string) *protocol.ContainerContext {
	ctx := &protocol.ContainerContext{}
	if transport == "proxy" {
		ctx.FromProxy(&runtimeapi.ContainerResourceHookRequest{
			PodMeta:       &runtimeapi.PodSandboxMetadata{Name: pod.Name, Namespace: pod.Namespace, Uid: string(pod.UID)},
			ContainerMeta: &runtimeapi.ContainerMetadata{Name: name, Id: "id-" + name},
			PodLabels:     c14eCopyMap(pod.Labels), PodAnnotations: c14eCopyMap(pod.Annotations), PodCgroupParent: c14ePodCgroup,
			ContainerResources: &runtimeapi.LinuxContainerResources{CpuPeriod: c14eQuotaPeriodUs, CpuShares: c14eMinShares}})
	} else {
		ctx.FromReconciler(&statesinformer.PodMeta{Pod: c14eWithStatus(pod), CgroupDir: c14ePodCgroup}, name, false)
	}
	return ctx
}

// ---------------------------------------------------------------------------------------------

func TestVerifC14WebhookToHook(t *testing.T) {
	for _, g := range []string{string(features.ColocationProfileSkipMutatingResources), string(features.DisableExtendedResourceSpec), string(features.MultiQuotaTree),
		string(features.DisableDeviceResourceSpec)} {
		_ = utilfeature.DefaultMutableFeatureGate.Set(g + "=false")
	}
	ctx := context.Background()
	decoder := admission.NewDecoder(scheme.Scheme)
	pp := corev1.PreemptLowerPriority
	profile := &configv1alpha1.ClusterColocationProfile{ObjectMeta: metav1.ObjectMeta{Name: "colocate-batch"},
		Spec: configv1alpha1.ClusterColocationProfileSpec{
			Selector: &metav1.LabelSelector{MatchLabels: map[string]string{"colocate": "true"}},
			QoSClass: "BE", PriorityClassName: "pc-batch"}}
	objs := []client.Object{
		&corev1.Namespace{ObjectMeta: metav1.ObjectMeta{Name: "default"}},
		&schedulingv1.PriorityClass{ObjectMeta: metav1.ObjectMeta{Name: "pc-batch"}, Value: 5500, PreemptionPolicy: &pp},
		profile,
	}
	hookPlugin := batchresource.Object() // default rule: cfs quota on, no normalization ratio

	kit.Run(t, kit.Config{Property: "C14", Unit: "webhook-to-hook", Quick: 2500, Thorough: 50000,
		Rule: "end to end: one generated pod per case (1-5 containers, batch-cpu/batch-memory request and limit from the hook unit's pools, some containers or the whole pod declaring nothing; BE by label, non-BE controls, or native cpu/memory translated by a matching ClusterColocationProfile) is admitted through the real PodMutatingHandler.Handle (CREATE, fake client, patch applied as the API server does); 45 % of the pods arrive with an extended-resource-spec annotation the real webhook wrote earlier in the case for a donor pod (other amounts / same spec / spec whose containers now declare nothing); then the real BatchResource hooks (package singleton, default rule) run on FromProxy and FromReconciler requests built from the admitted object; oracle = written-out conversion of the amounts the FINAL spec declares. distinct = (container count, sorted per-container pattern, marking, arrival mode, annotation state after admission); non-trivial = pod that arrived with an annotation not matching its final spec; evaluations = hook contexts checked",
	}, func(c *kit.Case) {
		r := c.R
		cl := fake.NewClientBuilder().WithScheme(scheme.Scheme).WithObjects(objs...).Build()
		h := &PodMutatingHandler{Client: cl, Decoder: decoder}

		// ---- generate
		marking := ""
		switch r.Weighted(52, 20, 28) {
		case 0:
			marking = "label:BE"
		case 1:
			marking = "profile" // native amounts, QoS BE + batch class injected by the profile
		default:
			marking = kit.Pick(r, []string{"label:LS", "label:LSR", "label:LSE", "label:SYSTEM", "none", "label:LS", "none", "label:be", "label:BestEffort", "label:"})
		}
		native := marking == "profile"
		arrival := []string{"fresh", "annotation-of-other-spec", "annotation-of-same-spec", "annotation-then-edited-to-declare-nothing"}[r.Weighted(55, 15, 10, 20)]
		n := r.Range(1, 5)
		if r.Pct(10) {
			n = r.Range(6, 10)
		}
		// feature gate DisableExtendedResourceSpec (8 %): the webhook leaves the annotation alone. Only fresh pods
		// then (what a gate-off cluster's stale annotations mean under the gate is not decided by the statement).
		gateOn := r.Pct(8)
		if gateOn {
			arrival = "fresh"
			_ = utilfeature.DefaultMutableFeatureGate.Set(string(features.DisableExtendedResourceSpec) + "=true")
			defer func() {
				_ = utilfeature.DefaultMutableFeatureGate.Set(string(features.DisableExtendedResourceSpec) + "=false")
			}()
			c.Count("e2e_gate_disable_extended_resource_spec_on", 1)
		}
		var ctrs []c14eCtr
		for i := 0; i < n; i++ {
			if arrival == "annotation-then-edited-to-declare-nothing" {
				ctrs = append(ctrs, c14eCtr{name: c14eName(i)})
			} else {
				ctrs = append(ctrs, c14eGenCtr(r, i, 12, false))
			}
		}
		if arrival == "fresh" && r.Pct(10) { // pods that declare nothing at all and never had an annotation
			for i := range ctrs {
				ctrs[i] = c14eCtr{name: ctrs[i].name}
			}
		}
		pod0 := c14eBuildPod("main", marking, ctrs, native)

		// ---- the annotation the pod arrives with (rule 2): written by the real webhook for a donor
		switch arrival {
		case "annotation-of-other-spec", "annotation-then-edited-to-declare-nothing":
			// the donor: same container names, other amounts, at least one container declares
			var dctrs []c14eCtr
			dn := r.Range(n, 5)
			if dn < n {
				dn = n
			}
			for i := 0; i < dn; i++ {
				dctrs = append(dctrs, c14eGenCtr(r, i, 5, true))
			}
			if !c14eAnyDeclared(dctrs) {
				dctrs[0] = c14eGenCtr(r, 0, 0, true)
			}
			donor := c14eAdmit(c, ctx, h, c14eBuildPod("donor", "label:BE", dctrs, false))
			a, ok := donor.Annotations[c14eAnnoKey]
			if !ok {
				c.Fail("C14/e2e/annotation-not-written", "the webhook admitted donor pod %v, which declares batch resources, without writing the %s annotation", dctrs, c14eAnnoKey)
			}
			pod0.Annotations[c14eAnnoKey] = a
			c.Count("arrived_with_stale_annotation", 1)
			if arrival == "annotation-then-edited-to-declare-nothing" {
				c.Count("arrived_with_annotation_declaring_nothing_now", 1)
			}
		case "annotation-of-same-spec":
			first := c14eAdmit(c, ctx, h, pod0)
			if a, ok := first.Annotations[c14eAnnoKey]; ok {
				pod0.Annotations[c14eAnnoKey] = a
				c.Count("arrived_with_same_spec_annotation", 1)
			}
		}
		ctrStr := make([]string, len(ctrs))
		for i, ct := range ctrs {
			ctrStr[i] = ct.String()
		}
		c.Op("pod marking=%s native=%v arrival=%s gate-DisableExtendedResourceSpec=%v containers=%v arrives-with-annotation=%q", marking, native, arrival, gateOn, ctrStr, pod0.Annotations[c14eAnnoKey])

		// ---- admit through the real webhook
		pod1 := c14eAdmit(c, ctx, h, pod0)
		finalAnno, hasAnno := pod1.Annotations[c14eAnnoKey]
		final := c14eDeclared(pod1)
		finStr := make([]string, len(final))
		for i, ct := range final {
			finStr[i] = ct.String()
		}
		c.Op("admitted: qos=%q final batch amounts=%v annotation=%q (present=%v)", pod1.Labels[c14eQoSKey], finStr, finalAnno, hasAnno)
		if len(final) != len(ctrs) {
			c.Harness("admitted pod has %d containers, generated %d", len(final), len(ctrs))
		}
		if !native {
			// nothing in this case translates resources: the final spec declares what was generated
			for i := range ctrs {
				if final[i] != ctrs[i] {
					c.Harness("final spec %s differs from the generated container %s although no profile matched", final[i], ctrs[i])
				}
			}
		}
		isBE := pod1.Labels[c14eQoSKey] == "BE"
		if marking == "profile" && !isBE {
			c.Harness("the colocate profile did not mark the pod BE: labels %v", pod1.Labels)
		}
		anyDeclared := c14eAnyDeclared(final)
		wantPod := c14eWantPod(final)
		if arrival != "fresh" && arrival != "annotation-of-same-spec" {
			c.NonTrivial()
		}
		switch {
		case isBE && anyDeclared:
			c.Count("e2e_pods_be_declaring", 1)
		case isBE:
			c.Count("e2e_pods_be_declaring_nothing", 1)
		default:
			c.Count("e2e_pods_not_be", 1)
		}
		if native && anyDeclared {
			c.Count("e2e_pods_translated_by_profile", 1)
		}

		// ---- the real hooks on the admitted object
		for _, tr := range []string{"proxy", "reconciler"} {
			pctx := c14ePodCtx(tr, pod1)
			if err := hookPlugin.SetPodResources(pctx); err != nil {
				c.Count("e2e_hook_returned_error", 1)
			}
			podGot := pctx.Response.Resources
			podTouched := !reflect.DeepEqual(pctx.Response, protocol.PodResponse{})
			c.Op("%s pod -> %s", tr, c14eRes(podGot))
			ctrGot := make([]protocol.Resources, len(final))
			ctrTouched := make([]bool, len(final))
			for i, ct := range final {
				cctx := c14eCtrCtx(tr, pod1, ct.name)
				if err := hookPlugin.SetContainerResources(cctx); err != nil {
					c.Count("e2e_hook_returned_error", 1)
				}
				ctrGot[i] = cctx.Response.Resources
				ctrTouched[i] = !reflect.DeepEqual(cctx.Response, protocol.ContainerResponse{})
				c.Op("%s container %s -> %s", tr, ct.name, c14eRes(ctrGot[i]))
			}
			c.Evals(1 + len(final))

			switch {
			case gateOn && isBE && anyDeclared && tr == "proxy":
				// gate on: no annotation is written, the CRI path cannot know the amounts (the reconciler path
				// reads the pod spec and is checked). Counted.
				if podTouched {
					c.Count("e2e_gate_on_cri_path_touched", 1)
				} else {
					c.Count("e2e_gate_on_cri_path_untouched", 1)
				}
			case !isBE:
				if podTouched {
					c.Fail("C14/non-be/pod-touched", "%s: pod (qos label %q) is not best-effort but got %s", tr, pod1.Labels[c14eQoSKey], c14eRes(podGot))
				}
				for i, ct := range final {
					if ctrTouched[i] {
						c.Fail("C14/non-be/container-touched", "%s: container %s of a pod that is not best-effort got %s", tr, ct.name, c14eRes(ctrGot[i]))
					}
				}
				c.Count("e2e_non_be_untouched_checks", 1+len(final))
			case !anyDeclared:
				// the final spec declares nothing at all: whatever annotation the pod arrived with, nothing
				// finite may be injected
				c14eNothingDeclared(c, "pod", tr+"/pod (arrival: "+arrival+")", podGot)
				for i, ct := range final {
					c14eNothingDeclared(c, "container", fmt.Sprintf("%s/container %s (arrival: %s)", tr, ct.name, arrival), ctrGot[i])
				}
				c.Count("e2e_nothing_declared_checks", 1+len(final))
			default:
				c14eCheckValues(c, "pod", tr+"/pod (arrival: "+arrival+")", podGot, wantPod)
				for i, ct := range final {
					where := fmt.Sprintf("%s/container %s (arrival: %s)", tr, ct, arrival)
					if ct.bare() {
						c14eNothingDeclared(c, "container", where, ctrGot[i])
						c.Count("e2e_bare_container_checks", 1)
						continue
					}
					c14eCheckValues(c, "container", where, ctrGot[i], c14eWantCtr(ct))
					g := ctrGot[i]
					if !c14eGE(*podGot.CFSQuota, *g.CFSQuota) {
						c.Fail("C14/relation/pod-cfs-quota-tighter-than-container", "%s: pod cfs quota %d < container %s cfs quota %d", tr, *podGot.CFSQuota, ct, *g.CFSQuota)
					}
					if !c14eGE(*podGot.MemoryLimit, *g.MemoryLimit) {
						c.Fail("C14/relation/pod-memory-tighter-than-container", "%s: pod memory limit %d < container %s memory limit %d", tr, *podGot.MemoryLimit, ct, *g.MemoryLimit)
					}
					c.Count("e2e_relations_pod_ge_container", 2)
				}
				c.Count("e2e_be_contexts_checked", 1+len(final))
			}
		}

		// ---- distinct shape
		pat := make([]string, len(final))
		for i, ct := range final {
			switch {
			case ct.bare():
				pat[i] = "bare"
			default:
				s := "Q"
				if ct.cpuLim.declared() > 0 {
					s = "q"
				}
				if ct.memLim.declared() > 0 {
					s += "m"
				} else {
					s += "M"
				}
				if ct.cpuReq.declared() > 0 {
					s += "s"
				} else {
					s += "S"
				}
				pat[i] = s
			}
		}
		sort.Strings(pat)
		annoState := "absent"
		if hasAnno {
			annoState = "empty"
			if strings.Contains(finalAnno, "containers") {
				annoState = "containers"
			}
		}
		c.Seen(len(final), strings.Join(pat, ","), marking, arrival, annoState, gateOn)
		if c.K < 3 {
			c.Sample(map[string]any{"marking": marking, "arrival": arrival, "containers": ctrStr, "admitted_annotation": finalAnno, "ops": c.Ops()})
		}
	})
}
