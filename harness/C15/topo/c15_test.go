//go:build verif

package elasticquota

// C15 monitors: admitted quota objects always form a well-formed quota tree.
// See /verif/DESIGN.md section 4, C15.
//
// What is executed: the real quotaTopology (NewQuotaTopology over a controller-runtime fake client
// that carries the pod index "label.quotaName", exactly as the package's own tests build it). Every
// request goes first through QuotaMetaChecker.AdmitQuota (the mutating step: it calls
// fillQuotaDefaultInformation for CREATE and nothing for UPDATE/DELETE, as the webhook does) and
// then through ValidAddQuota / ValidUpdateQuota / ValidDeleteQuota.
//
// Oracle (independent of the implementation's incremental checks): a shadow set of the objects the
// webhook accepted (what the API server would hold). After every ACCEPTED request a walker
// recomputes well-formedness from those objects alone (labels, annotations, spec) and the recorded
// topology (getQuotaTopologyInfo + namespace map) is compared with the topology derived from the
// shadow set. After every REJECTED request the complete recorded state must be equal to the
// snapshot taken before the request.
//
// Causal rules of the generated histories (what the real system can produce with one webhook
// replica, which is the system the statement describes):
//   - a CREATE may name any quota, also one that exists (validating admission runs before the
//     storage layer answers AlreadyExists);
//   - UPDATE and DELETE reach the webhook only for objects that exist in the API server, i.e. that
//     the webhook accepted before and has not accepted the deletion of; the old object of an UPDATE
//     and the object of a DELETE are the stored (last accepted, post-mutation) object;
//   - the new object of an UPDATE is the stored object with user-editable fields replaced (parent
//     label, is-parent label, tree-id label, namespaces annotation, spec.min, spec.max);
//   - pods appear in the API server only after the pod webhook (ValidateAddPod) admitted them;
//   - not generated, because the quantifier does not range over them: allow-force-update label,
//     is-root label (tree roots), allow-lent label, guaranteed/allocated annotations, the system /
//     root / default quota names, max-strict-check keys. Feature gates stay at their defaults.

import (
	"context"
	"encoding/json"
	"fmt"
	"sort"
	"strings"
	"testing"

	admissionv1 "k8s.io/api/admission/v1"
	corev1 "k8s.io/api/core/v1"
	"k8s.io/apimachinery/pkg/api/resource"
	metav1 "k8s.io/apimachinery/pkg/apis/meta/v1"
	"k8s.io/apimachinery/pkg/runtime"
	"k8s.io/apimachinery/pkg/runtime/serializer"
	clientgoscheme "k8s.io/client-go/kubernetes/scheme"
	k8stesting "k8s.io/client-go/testing"
	"k8s.io/klog/v2"
	"sigs.k8s.io/controller-runtime/pkg/client"
	"sigs.k8s.io/controller-runtime/pkg/client/fake"
	"sigs.k8s.io/controller-runtime/pkg/webhook/admission"

	"github.com/koordinator-sh/koordinator/apis/extension"
	"github.com/koordinator-sh/koordinator/apis/thirdparty/scheduler-plugins/pkg/apis/scheduling/v1alpha1"
	koordfeatures "github.com/koordinator-sh/koordinator/pkg/features"
	utilfeature "github.com/koordinator-sh/koordinator/pkg/util/feature"
	kit "github.com/koordinator-sh/koordinator/pkg/verifkit"
)

func init() {
	klog.SetOutput(c15Discard{})
	klog.LogToStderr(false)
}

type c15Discard struct{}

func (c15Discard) Write(p []byte) (int, error) { return len(p), nil }

const (
	c15Root    = extension.RootQuotaName
	c15Missing = "missing" // a parent name that never exists
)

// ---------------------------------------------------------------------------------------------
// requests

// c15Spec is the user-editable content of a quota object. Empty strings / nil mean "label or
// annotation absent"; min/max hold only the keys that are present.
type c15Spec struct {
	name     string
	parent   string // "" (absent) | root | a quota name | c15Missing
	isParent string // "" (absent) | "true" | "false"
	tree     string // "" (absent) | tree id
	nss      []string
	hasNss   bool
	min, max map[string]int64
}

type c15Req struct {
	op   string // create | update | delete
	spec c15Spec
}

func c15VecStr(m map[string]int64) string {
	if m == nil {
		return "-"
	}
	keys := make([]string, 0, len(m))
	for k := range m {
		keys = append(keys, k)
	}
	sort.Strings(keys)
	s := "{"
	for i, k := range keys {
		if i > 0 {
			s += ","
		}
		s += fmt.Sprintf("%s:%d", k, m[k])
	}
	return s + "}"
}

func c15Dash(s string) string {
	if s == "" {
		return "-"
	}
	if s == c15Root {
		return "ROOT"
	}
	return s
}

func (r c15Req) String() string {
	if r.op == "delete" {
		return "delete " + r.spec.name
	}
	s := r.spec
	ns := "-"
	if s.hasNss {
		ns = "[" + strings.Join(s.nss, ",") + "]"
	}
	return fmt.Sprintf("%s %s parent=%s isParent=%s tree=%s ns=%s max=%s min=%s", r.op, s.name, c15Dash(s.parent), c15Dash(s.isParent), c15Dash(s.tree), ns, c15VecStr(s.max), c15VecStr(s.min))
}

func c15RL(m map[string]int64) corev1.ResourceList {
	if m == nil {
		return nil
	}
	rl := corev1.ResourceList{}
	for k, v := range m {
		rl[corev1.ResourceName(k)] = *resource.NewQuantity(v, resource.DecimalSI)
	}
	return rl
}

func c15SetOrDelete(m map[string]string, k, v string) {
	if v == "" {
		delete(m, k)
	} else {
		m[k] = v
	}
}

// c15Apply writes the user-editable fields of s into q.
func c15Apply(q *v1alpha1.ElasticQuota, s c15Spec) {
	if q.Labels == nil && (s.parent != "" || s.isParent != "" || s.tree != "") {
		q.Labels = map[string]string{}
	}
	if q.Labels != nil {
		c15SetOrDelete(q.Labels, extension.LabelQuotaParent, s.parent)
		c15SetOrDelete(q.Labels, extension.LabelQuotaIsParent, s.isParent)
		c15SetOrDelete(q.Labels, extension.LabelQuotaTreeID, s.tree)
	}
	if s.hasNss {
		if q.Annotations == nil {
			q.Annotations = map[string]string{}
		}
		b, _ := json.Marshal(s.nss)
		q.Annotations[extension.AnnotationQuotaNamespaces] = string(b)
	} else if q.Annotations != nil {
		delete(q.Annotations, extension.AnnotationQuotaNamespaces)
	}
	q.Spec.Max = c15RL(s.max)
	q.Spec.Min = c15RL(s.min)
}

func c15NewObject(s c15Spec) *v1alpha1.ElasticQuota {
	q := &v1alpha1.ElasticQuota{
		TypeMeta:   metav1.TypeMeta{Kind: "ElasticQuota", APIVersion: "scheduling.sigs.k8s.io/v1alpha1"},
		ObjectMeta: metav1.ObjectMeta{Name: s.name, Namespace: "default"},
	}
	c15Apply(q, s)
	return q
}

// ---------------------------------------------------------------------------------------------
// the oracle's own reading of an admitted object (labels/annotations/spec; no koordinator helper)

type c15Info struct {
	name, parent string
	isParent     bool
	lent         bool
	tree         string
	nss          []string
	min, max     corev1.ResourceList
}

func c15Derive(q *v1alpha1.ElasticQuota) c15Info {
	in := c15Info{name: q.Name, parent: q.Labels[extension.LabelQuotaParent]}
	if in.parent == "" {
		in.parent = c15Root // a quota without a parent label hangs off the root
	}
	in.isParent = q.Labels[extension.LabelQuotaIsParent] == "true"
	in.lent = q.Labels[extension.LabelAllowLentResource] != "false"
	in.tree = q.Labels[extension.LabelQuotaTreeID]
	if a := q.Annotations[extension.AnnotationQuotaNamespaces]; a != "" {
		var nss []string
		if err := json.Unmarshal([]byte(a), &nss); err == nil {
			in.nss = nss
		}
	}
	in.min, in.max = q.Spec.Min, q.Spec.Max
	return in
}

func c15SpecOf(q *v1alpha1.ElasticQuota) c15Spec {
	s := c15Spec{name: q.Name, parent: q.Labels[extension.LabelQuotaParent], isParent: q.Labels[extension.LabelQuotaIsParent], tree: q.Labels[extension.LabelQuotaTreeID]}
	if a, ok := q.Annotations[extension.AnnotationQuotaNamespaces]; ok {
		s.hasNss = true
		_ = json.Unmarshal([]byte(a), &s.nss)
	}
	conv := func(rl corev1.ResourceList) map[string]int64 {
		if rl == nil {
			return nil
		}
		m := map[string]int64{}
		for k, v := range rl {
			m[string(k)] = v.Value()
		}
		return m
	}
	s.min, s.max = conv(q.Spec.Min), conv(q.Spec.Max)
	return s
}

func c15RLStr(rl corev1.ResourceList) string {
	keys := make([]string, 0, len(rl))
	for k := range rl {
		keys = append(keys, string(k))
	}
	sort.Strings(keys)
	var b strings.Builder
	b.WriteByte('{')
	for i, k := range keys {
		if i > 0 {
			b.WriteByte(',')
		}
		q := rl[corev1.ResourceName(k)]
		fmt.Fprintf(&b, "%s:%dm", k, q.MilliValue())
	}
	b.WriteByte('}')
	return b.String()
}

// ---------------------------------------------------------------------------------------------
// world = real topology + shadow set

type c15Viol struct{ sig, msg string }

type c15World struct {
	qt     *quotaTopology
	chk    *QuotaMetaChecker
	cl     client.Client
	shadow map[string]*v1alpha1.ElasticQuota // objects the webhook accepted and that still exist
	pods   map[string]string                 // ns/name -> quota label ("" = none)
	stats  map[string]int
	// bookkeeping for signatures / non-triviality
	lastParentChange bool
	log              func(format string, a ...any) // nil = silent
}

// c15PodIndexClient builds the fake API server the way the package's tests do (controller-runtime
// fake client with the pod index "label.quotaName"), on a private scheme and with client-go's plain
// object tracker: the default field-managed tracker rebuilds a REST mapper on every Create (~4 ms),
// which would dominate the run; reads (List with field selector / namespace) are the same code.
func c15PodIndexClient() client.Client {
	sch := runtime.NewScheme()
	_ = clientgoscheme.AddToScheme(sch)
	_ = v1alpha1.AddToScheme(sch)
	return fake.NewClientBuilder().WithScheme(sch).
		WithObjectTracker(k8stesting.NewObjectTracker(sch, serializer.NewCodecFactory(sch).UniversalDecoder())).
		WithIndex(&corev1.Pod{}, "label.quotaName", func(object client.Object) []string {
			return []string{object.(*corev1.Pod).Labels[extension.LabelQuotaName]}
		}).Build()
}

func c15NewWorld(cl client.Client, pods map[string]string, stats map[string]int) *c15World {
	qt := NewQuotaTopology(cl)
	return &c15World{qt: qt, chk: &QuotaMetaChecker{QuotaTopo: qt}, cl: cl, shadow: map[string]*v1alpha1.ElasticQuota{}, pods: pods, stats: stats}
}

func (w *c15World) names() []string {
	out := make([]string, 0, len(w.shadow))
	for n := range w.shadow {
		out = append(out, n)
	}
	sort.Strings(out)
	return out
}

// enabled: the causal rule for UPDATE/DELETE.
func (w *c15World) enabled(r c15Req) bool {
	if r.op == "create" {
		return true
	}
	_, ok := w.shadow[r.spec.name]
	return ok
}

// snapshot renders the COMPLETE recorded state (every field of every QuotaInfo, the hierarchy and
// the namespace map) canonically.
func (w *c15World) snapshot() string {
	qt := w.qt
	qt.lock.RLock()
	defer qt.lock.RUnlock()
	var b strings.Builder
	keys := make([]string, 0, len(qt.quotaInfoMap))
	for k := range qt.quotaInfoMap {
		keys = append(keys, k)
	}
	sort.Strings(keys)
	for _, k := range keys {
		qi := qt.quotaInfoMap[k]
		if qi == nil {
			fmt.Fprintf(&b, "Q %s=nil\n", k)
			continue
		}
		fmt.Fprintf(&b, "Q %s={name=%s parent=%s isParent=%v lent=%v force=%v tree=%s treeRoot=%v max=%s min=%s guaranteed=%s allocated=%s}\n",
			k, qi.Name, qi.ParentName, qi.IsParent, qi.AllowLentResource, qi.AllowForceUpdate, qi.TreeID, qi.IsTreeRoot,
			c15RLStr(qi.CalculateInfo.Max), c15RLStr(qi.CalculateInfo.Min), c15RLStr(qi.CalculateInfo.Guaranteed), c15RLStr(qi.CalculateInfo.Allocated))
	}
	keys = keys[:0]
	for k := range qt.quotaHierarchyInfo {
		keys = append(keys, k)
	}
	sort.Strings(keys)
	for _, k := range keys {
		ch := make([]string, 0, len(qt.quotaHierarchyInfo[k]))
		for c := range qt.quotaHierarchyInfo[k] {
			ch = append(ch, c)
		}
		sort.Strings(ch)
		fmt.Fprintf(&b, "H %s=[%s]\n", k, strings.Join(ch, ","))
	}
	keys = keys[:0]
	for k := range qt.namespaceToQuotaMap {
		keys = append(keys, k)
	}
	sort.Strings(keys)
	for _, k := range keys {
		fmt.Fprintf(&b, "N %s=%s\n", k, qt.namespaceToQuotaMap[k])
	}
	return b.String()
}

func (w *c15World) bump(k string) {
	if w.stats != nil {
		w.stats[k]++
	}
}

// c15Reason buckets a rejection message (evidence counters only; never used for a verdict).
func c15Reason(err error) string {
	m := err.Error()
	for _, p := range [][2]string{
		{"parent not exist", "fill_parent_missing"},
		{"already exist", "duplicate_create"},
		{"is already bound to quota", "namespace_bound"},
		{" > max ", "self_min_gt_max"},
		{"included in min, which is not included in max", "self_min_key_not_in_max"},
		{"isParent is forbidden to modify as false", "isparent_false_with_children"},
		{"isParent is forbidden to modify as true", "isparent_true_with_pods"},
		{"tree id changed", "tree_changed"},
		{"tree id is different from parent", "tree_differs_parent"},
		{"tree id is different from child", "tree_differs_child"},
		{"not find parentInfo", "parent_missing"},
		{"IsParent is false", "parent_not_parent_group"},
		{"max keys are not the same", "max_keys_differ"},
		{"min keys are not all included", "min_keys_not_included"},
		{"brothers' MinQuota", "brothers_min_sum"},
		{"children's MinQuota", "children_min_sum"},
		{"child quotas", "delete_with_children"},
		{"child pods", "delete_with_pods"},
		{"own ancestor", "cycle"},
	} {
		if strings.Contains(m, p[0]) {
			return p[1]
		}
	}
	return "other"
}

// request executes one in-domain request on the real topology, updates the shadow set and, unless
// oracle is false (replay of an already checked prefix), applies the oracle. It returns whether
// the webhook accepted and the first violated clause (nil = none).
func (w *c15World) request(r c15Req, oracle bool) (accepted bool, viol *c15Viol) {
	ctx := context.TODO()
	var before string
	if oracle {
		before = w.snapshot()
	}
	var err error
	stage := "validate"
	var obj *v1alpha1.ElasticQuota
	parentChange := false
	switch r.op {
	case "create":
		obj = c15NewObject(r.spec)
		err = w.chk.AdmitQuota(ctx, admission.Request{AdmissionRequest: admissionv1.AdmissionRequest{Operation: admissionv1.Create}}, obj)
		if err != nil {
			stage = "mutate"
		} else {
			err = w.qt.ValidAddQuota(obj)
		}
	case "update":
		old := w.shadow[r.spec.name].DeepCopy()
		obj = old.DeepCopy()
		c15Apply(obj, r.spec)
		err = w.chk.AdmitQuota(ctx, admission.Request{AdmissionRequest: admissionv1.AdmissionRequest{Operation: admissionv1.Update}}, obj)
		if err != nil {
			stage = "mutate"
		} else {
			err = w.qt.ValidUpdateQuota(old, obj)
		}
		parentChange = c15Derive(old).parent != c15Derive(obj).parent
	case "delete":
		obj = w.shadow[r.spec.name].DeepCopy()
		err = w.qt.ValidDeleteQuota(obj)
	}
	if w.log != nil {
		res := "ACCEPTED"
		if err != nil {
			res = fmt.Sprintf("REJECTED(%s): %v", stage, err)
		}
		w.log("%s -> %s", r.String(), res)
	}
	if err != nil {
		w.bump(r.op + "_rejected")
		w.bump("reject_" + c15Reason(err))
		if oracle {
			if after := w.snapshot(); after != before {
				return false, &c15Viol{"C15/rejected/topology-changed", fmt.Sprintf("request %q was rejected (%v) but the recorded topology changed.\nbefore:\n%safter:\n%s", r.String(), err, before, after)}
			}
			w.bump("oracle_rejected_unchanged_checks")
		}
		return false, nil
	}
	w.bump(r.op + "_accepted")
	// shadow update + delete clauses
	switch r.op {
	case "create", "update":
		if _, dup := w.shadow[obj.Name]; dup && r.op == "create" {
			w.bump("duplicate_create_accepted")
		}
		w.shadow[obj.Name] = obj
		if parentChange {
			w.bump("update_parent_change_accepted")
		}
	case "delete":
		if oracle {
			var kids []string
			for _, n := range w.names() {
				if n != obj.Name && c15Derive(w.shadow[n]).parent == obj.Name {
					kids = append(kids, n)
				}
			}
			if c15Derive(obj).parent == obj.Name {
				kids = append(kids, obj.Name)
			}
			if len(kids) > 0 {
				return true, &c15Viol{"C15/delete/with-children", fmt.Sprintf("deletion of quota %s was accepted although it has children %v", obj.Name, kids)}
			}
			var pods []string
			for p, q := range w.pods {
				if q == obj.Name {
					pods = append(pods, p)
				}
			}
			sort.Strings(pods)
			if len(pods) > 0 {
				return true, &c15Viol{"C15/delete/with-pods", fmt.Sprintf("deletion of quota %s was accepted although pods %v carry its quota label", obj.Name, pods)}
			}
			// pods that are bound only through a namespace: counted, not asserted (the statement's
			// "pods of a quota" is taken in its narrowest sense, the quota-name label)
			for p, q := range w.pods {
				ns := p[:strings.IndexByte(p, '/')]
				if q == "" {
					for _, n := range c15Derive(obj).nss {
						if n == ns {
							w.bump("deleted_with_namespace_bound_pods")
						}
					}
				}
			}
		}
		delete(w.shadow, obj.Name)
	}
	w.lastParentChange = parentChange
	if !oracle {
		return true, nil
	}
	if v := w.wellFormed(r); v != nil {
		return true, v
	}
	if v := w.recordedEqualsDerived(r); v != nil {
		return true, v
	}
	return true, nil
}

// wellFormed is the invariant walker over the shadow set (clauses of the statement, in its order).
func (w *c15World) wellFormed(last c15Req) *c15Viol {
	names := w.names()
	infos := make(map[string]c15Info, len(names))
	for _, n := range names {
		infos[n] = c15Derive(w.shadow[n])
	}
	after := fmt.Sprintf("after accepted %q", last.String())
	for _, n := range names {
		in := infos[n]
		// every parent exists and is marked as a parent
		if in.parent != c15Root {
			if in.parent == n {
				return &c15Viol{"C15/tree/self-parent", fmt.Sprintf("%s: quota %s is its own parent", after, n)}
			}
			p, ok := infos[in.parent]
			if !ok {
				return &c15Viol{"C15/tree/parent-missing", fmt.Sprintf("%s: quota %s has parent %s which does not exist", after, n, in.parent)}
			}
			if !p.isParent {
				return &c15Viol{"C15/tree/parent-not-parent-group", fmt.Sprintf("%s: quota %s has parent %s which is not marked as a parent", after, n, in.parent)}
			}
		}
	}
	// following parent links from any quota reaches the root
	for _, n := range names {
		cur, steps := n, 0
		path := []string{n}
		for infos[cur].parent != c15Root {
			cur = infos[cur].parent
			path = append(path, cur)
			steps++
			if steps > len(names) {
				sig := "C15/tree/cycle"
				if w.lastParentChange {
					sig = "C15/tree/cycle-via-parent-update"
				}
				return &c15Viol{sig, fmt.Sprintf("%s: following parent links from %s never reaches the root: %s", after, n, strings.Join(path, " -> "))}
			}
		}
		w.bump("oracle_root_walks")
	}
	for _, n := range names {
		in := infos[n]
		// min never exceeds max and is declared only for dimensions max declares
		for k, v := range in.min {
			mv, ok := in.max[k]
			if !ok {
				return &c15Viol{"C15/quota/min-key-not-in-max", fmt.Sprintf("%s: quota %s declares min for %s which max does not declare (min=%s max=%s)", after, n, k, c15RLStr(in.min), c15RLStr(in.max))}
			}
			if v.Cmp(mv) > 0 {
				return &c15Viol{"C15/quota/min-exceeds-max", fmt.Sprintf("%s: quota %s has min %s > max %s for %s", after, n, v.String(), mv.String(), k)}
			}
		}
	}
	// the children's mins sum to at most the parent's min (parents other than the root)
	sums := map[string]map[corev1.ResourceName]int64{}
	for _, n := range names {
		in := infos[n]
		if in.parent == c15Root {
			continue
		}
		if sums[in.parent] == nil {
			sums[in.parent] = map[corev1.ResourceName]int64{}
		}
		for k, v := range in.min {
			sums[in.parent][k] += v.MilliValue()
		}
	}
	for _, p := range names {
		for k, s := range sums[p] {
			pm := infos[p].min[k] // absent = nothing guaranteed = 0
			if s > pm.MilliValue() {
				return &c15Viol{"C15/tree/children-min-sum-exceeds-parent-min", fmt.Sprintf("%s: the children of %s have min %s summing to %dm, the parent's min is %s", after, p, k, s, c15RLStr(infos[p].min))}
			}
		}
		if len(sums[p]) > 0 {
			w.bump("oracle_min_sum_checks")
		}
	}
	// resource dimensions agree along the tree: with ElasticQuotaEnableUpdateResourceKey off (its
	// default) the code defines this as "a quota declares max for exactly the dimensions its
	// parent declares max for".
	for _, n := range names {
		in := infos[n]
		if in.parent == c15Root {
			continue
		}
		p := infos[in.parent]
		same := len(p.max) == len(in.max)
		for k := range in.max {
			if _, ok := p.max[k]; !ok {
				same = false
			}
		}
		if !same {
			return &c15Viol{"C15/tree/max-keys-differ", fmt.Sprintf("%s: quota %s declares max %s, its parent %s declares max %s", after, n, c15RLStr(in.max), in.parent, c15RLStr(p.max))}
		}
		w.bump("oracle_dimension_checks")
		for k := range in.min {
			if _, ok := p.min[k]; !ok {
				w.bump("min_key_not_in_parent_min") // stricter reading of "dimensions agree": counted only
			}
		}
		if in.tree != p.tree {
			w.bump("tree_id_differs_from_parent") // no clause of the statement: counted only
		}
	}
	// a namespace is bound to at most one quota
	bound := map[string]string{}
	for _, n := range names {
		for _, ns := range infos[n].nss {
			if o, ok := bound[ns]; ok && o != n {
				return &c15Viol{"C15/namespace/bound-twice", fmt.Sprintf("%s: namespace %s is bound to quota %s and to quota %s", after, ns, o, n)}
			}
			bound[ns] = n
		}
	}
	w.bump("oracle_wellformed_walks")
	return nil
}

// recordedEqualsDerived compares what the webhook recorded (observed through
// getQuotaTopologyInfo, plus the namespace map) with the topology derived from the shadow set.
func (w *c15World) recordedEqualsDerived(last c15Req) *c15Viol {
	after := fmt.Sprintf("after accepted %q", last.String())
	sum := w.qt.getQuotaTopologyInfo()
	names := w.names()
	// quotaInfoMap
	if len(sum.QuotaInfoMap) != len(names) {
		rec := make([]string, 0)
		for k := range sum.QuotaInfoMap {
			rec = append(rec, k)
		}
		sort.Strings(rec)
		return &c15Viol{"C15/record/quota-set-mismatch", fmt.Sprintf("%s: recorded quotas %v, accepted objects %v", after, rec, names)}
	}
	kids := map[string][]string{c15Root: {}}
	for _, n := range names {
		kids[n] = []string{}
	}
	nsWant := map[string]string{}
	for _, n := range names {
		in := c15Derive(w.shadow[n])
		rec, ok := sum.QuotaInfoMap[n]
		if !ok || rec == nil {
			return &c15Viol{"C15/record/quota-set-mismatch", fmt.Sprintf("%s: accepted quota %s is not recorded", after, n)}
		}
		want := fmt.Sprintf("name=%s parent=%s isParent=%v lent=%v max=%s min=%s", in.name, in.parent, in.isParent, in.lent, c15RLStr(in.max), c15RLStr(in.min))
		have := fmt.Sprintf("name=%s parent=%s isParent=%v lent=%v max=%s min=%s", rec.Name, rec.ParentName, rec.IsParent, rec.AllowLentResource, c15RLStr(rec.Max), c15RLStr(rec.Min))
		if want != have {
			return &c15Viol{"C15/record/quota-info-mismatch", fmt.Sprintf("%s: quota %s is recorded as {%s}, the accepted object says {%s}", after, n, have, want)}
		}
		kids[in.parent] = append(kids[in.parent], n)
		for _, ns := range in.nss {
			nsWant[ns] = n
		}
	}
	// hierarchy: every quota and the root have an entry holding exactly their children
	for k, want := range kids {
		have, ok := sum.QuotaHierarchyInfo[k]
		if !ok {
			return &c15Viol{"C15/record/hierarchy-mismatch", fmt.Sprintf("%s: the hierarchy has no entry for %s", after, k)}
		}
		have = append([]string(nil), have...)
		sort.Strings(have)
		sort.Strings(want)
		if strings.Join(have, ",") != strings.Join(want, ",") {
			return &c15Viol{"C15/record/hierarchy-mismatch", fmt.Sprintf("%s: the hierarchy records children %v for %s, the accepted objects say %v", after, have, k, want)}
		}
	}
	for k, have := range sum.QuotaHierarchyInfo {
		if _, ok := kids[k]; ok {
			continue
		}
		if len(have) > 0 {
			return &c15Viol{"C15/record/hierarchy-mismatch", fmt.Sprintf("%s: the hierarchy records children %v for %s, which is not an accepted quota", after, have, k)}
		}
		w.bump("hierarchy_stale_empty_entries") // harmless left-over key: counted only
	}
	// namespace map
	w.qt.lock.RLock()
	nsHave := make(map[string]string, len(w.qt.namespaceToQuotaMap))
	for k, v := range w.qt.namespaceToQuotaMap {
		nsHave[k] = v
	}
	w.qt.lock.RUnlock()
	if fmt.Sprint(nsHave) != fmt.Sprint(nsWant) { // fmt prints maps in key order
		return &c15Viol{"C15/record/namespace-map-mismatch", fmt.Sprintf("%s: recorded namespace bindings %v, the accepted objects say %v", after, nsHave, nsWant)}
	}
	w.bump("oracle_recorded_vs_derived_checks")
	return nil
}

// shape is the abstract state recorded as "distinct": the multiset over quotas of (depth,
// parent-group flag, number of children capped at 2), the number of namespace bindings capped at 2,
// the number of distinct max key sets and of distinct tree ids. Names and amounts are abstracted away.
func (w *c15World) shape() string {
	names := w.names()
	infos := map[string]c15Info{}
	nkids := map[string]int{}
	for _, n := range names {
		infos[n] = c15Derive(w.shadow[n])
	}
	for _, n := range names {
		nkids[infos[n].parent]++
	}
	var parts []string
	bound := 0
	keysets, trees := map[string]bool{}, map[string]bool{}
	for _, n := range names {
		d, cur := 0, n
		for infos[cur].parent != c15Root && d <= len(names) {
			cur = infos[cur].parent
			d++
		}
		in := infos[n]
		k := nkids[n]
		if k > 2 {
			k = 2
		}
		parts = append(parts, fmt.Sprintf("d%d/p%v/k%d", d, in.isParent, k))
		bound += len(in.nss)
		keysets[fmt.Sprint(c15KeysOf(in.max))] = true
		trees[in.tree] = true
	}
	sort.Strings(parts)
	if bound > 2 {
		bound = 2
	}
	return fmt.Sprintf("%s|ns%d|keysets%d|trees%d", strings.Join(parts, " "), bound, len(keysets), len(trees))
}

// shapeFine is the finer abstraction used by the exhaustive unit (small universes): per quota also
// the number of bound namespaces, whether it carries a tree id, and the key sets of max and min.
func (w *c15World) shapeFine() string {
	names := w.names()
	infos := map[string]c15Info{}
	nkids := map[string]int{}
	for _, n := range names {
		infos[n] = c15Derive(w.shadow[n])
	}
	for _, n := range names {
		nkids[infos[n].parent]++
	}
	var parts []string
	for _, n := range names {
		d, cur := 0, n
		for infos[cur].parent != c15Root && d <= len(names) {
			cur = infos[cur].parent
			d++
		}
		in := infos[n]
		parts = append(parts, fmt.Sprintf("d%d/p%v/k%d/n%d/t%v/M%v/m%v", d, in.isParent, nkids[n], len(in.nss), in.tree != "", c15KeysOf(in.max), c15KeysOf(in.min)))
	}
	sort.Strings(parts)
	return strings.Join(parts, " ")
}

func (w *c15World) depth() int {
	max := 0
	for _, n := range w.names() {
		d, cur := 1, n
		for d <= len(w.shadow) {
			p := c15Derive(w.shadow[cur]).parent
			if p == c15Root {
				break
			}
			if _, ok := w.shadow[p]; !ok {
				break
			}
			cur = p
			d++
		}
		if d > max {
			max = d
		}
	}
	return max
}

func c15Gates(t *testing.T) func() {
	// the statement is about the default configuration; pin the gates the checks consult
	var undo []func()
	undo = append(undo, utilfeature.SetFeatureGateDuringTest(t, utilfeature.DefaultMutableFeatureGate, koordfeatures.ElasticQuotaEnableUpdateResourceKey, false))
	undo = append(undo, utilfeature.SetFeatureGateDuringTest(t, utilfeature.DefaultMutableFeatureGate, koordfeatures.ElasticQuotaGuaranteeUsage, false))
	undo = append(undo, utilfeature.SetFeatureGateDuringTest(t, utilfeature.DefaultMutableFeatureGate, koordfeatures.SupportParentQuotaSubmitPod, false))
	undo = append(undo, utilfeature.SetFeatureGateDuringTest(t, utilfeature.DefaultMutableFeatureGate, koordfeatures.DisableDefaultQuota, false))
	return func() {
		for i := len(undo) - 1; i >= 0; i-- {
			undo[i]()
		}
	}
}

func c15Flush(c *kit.Case, stats map[string]int) {
	keys := make([]string, 0, len(stats))
	for k := range stats {
		keys = append(keys, k)
	}
	sort.Strings(keys)
	for _, k := range keys {
		c.Count(k, stats[k])
	}
}

// ---------------------------------------------------------------------------------------------
// (1) exhaustive: every in-domain request sequence up to the tier's depth, from the empty topology

// Two reduced universes (scope A: two names with namespaces and tree ids; scope B: three names, so
// that a parent can have two children, without namespaces/tree ids).
//
//	A: name in {a,b}; parent in {ROOT,a,b,missing}; isParent in {true,false}; namespaces in
//	   {none,[n1]}; tree in {none,t1}; (max,min) over cpu in
//	   {(-,-),(-,1),(1,2),(2,-),(2,1),(2,2)}            -> 2*4*2*2*2*6 = 384 objects
//	B: name in {a,b,c}; parent in {ROOT,a,b,c,missing}; isParent in {true,false}; (max,min) over
//	   cpu in the same six pairs                          -> 3*5*2*6 = 180 objects
//
// Requests of a scope: create(object), update(object) for every object, delete(name) for every
// name. A pod carrying the quota label "b" (namespace n1) exists throughout, so that deleting b /
// turning b into a parent meets the pod clauses; a has no pods.
var c15MinMax = [][2]map[string]int64{
	{nil, nil},
	{nil, {"cpu": 1}},
	{{"cpu": 1}, {"cpu": 2}},
	{{"cpu": 2}, nil},
	{{"cpu": 2}, {"cpu": 1}},
	{{"cpu": 2}, {"cpu": 2}},
}

func c15Universe(names []string, withNsTree bool) []c15Req {
	var objs []c15Spec
	parents := append([]string{c15Root}, names...)
	parents = append(parents, c15Missing)
	nsOpts := [][]string{nil}
	treeOpts := []string{""}
	if withNsTree {
		nsOpts = [][]string{nil, {"n1"}}
		treeOpts = []string{"", "t1"}
	}
	for _, n := range names {
		for _, p := range parents {
			for _, ip := range []string{"true", "false"} {
				for _, ns := range nsOpts {
					for _, tr := range treeOpts {
						for _, mm := range c15MinMax {
							objs = append(objs, c15Spec{name: n, parent: p, isParent: ip, tree: tr, nss: ns, hasNss: ns != nil, max: mm[0], min: mm[1]})
						}
					}
				}
			}
		}
	}
	var reqs []c15Req
	for _, o := range objs {
		reqs = append(reqs, c15Req{op: "create", spec: o})
	}
	for _, o := range objs {
		reqs = append(reqs, c15Req{op: "update", spec: o})
	}
	for _, n := range names {
		reqs = append(reqs, c15Req{op: "delete", spec: c15Spec{name: n}})
	}
	return reqs
}

var (
	c15UnivA = c15Universe([]string{"a", "b"}, true)
	c15UnivB = c15Universe([]string{"a", "b", "c"}, false)
)

func c15CountCreates(u []c15Req) int {
	n := 0
	for _, r := range u {
		if r.op == "create" {
			n++
		}
	}
	return n
}

type c15Explorer struct {
	c      *kit.Case
	cl     client.Client
	pods   map[string]string
	univ   []c15Req
	stats  map[string]int
	evals  int
	logged map[string]bool
}

func (e *c15Explorer) replay(prefix []c15Req, logTo func(string, ...any)) *c15World {
	w := c15NewWorld(e.cl, e.pods, nil)
	w.log = logTo
	for _, r := range prefix {
		if !w.enabled(r) {
			e.c.Harness("replayed prefix contains a request that is not enabled: %s", r.String())
		}
		w.request(r, false)
	}
	w.log = nil
	w.stats = e.stats
	return w
}

// explore executes every enabled request of the universe after prefix (oracle after each), then
// extends each non-violating one-step extension recursively. Shorter sequences are checked before
// longer ones so that the first report of a signature is a shortest one.
func (e *c15Explorer) explore(prefix []c15Req, depthLeft int) {
	w := e.replay(prefix, nil)
	extend := make([]bool, len(e.univ))
	for i := range e.univ {
		r := e.univ[i]
		if !w.enabled(r) {
			e.stats["skipped_not_in_domain"]++
			continue
		}
		acc, viol := w.request(r, true)
		e.evals++
		e.stats[fmt.Sprintf("sequences_len_%d", len(prefix)+1)]++
		if viol != nil {
			e.report(append(append([]c15Req(nil), prefix...), r), viol)
			w = e.replay(prefix, nil)
			continue // a violating sequence is not extended
		}
		extend[i] = true
		if acc {
			e.c.Seen(r.op, w.shapeFine())
			w = e.replay(prefix, nil) // restore the state after the prefix by re-executing it
		}
	}
	if depthLeft <= 1 {
		return
	}
	for i := range e.univ {
		if extend[i] {
			e.explore(append(append([]c15Req(nil), prefix...), e.univ[i]), depthLeft-1)
		}
	}
}

// report logs the literal sequence with its outcomes (first occurrence of the signature in this
// case only) and reports without unwinding, so that the enumeration continues.
func (e *c15Explorer) report(seq []c15Req, viol *c15Viol) {
	if !e.logged[viol.sig] {
		e.logged[viol.sig] = true
		e.c.Op("--- violating sequence (%s):", viol.sig)
		e.replay(seq, e.c.Op)
	}
	e.c.Report(viol.sig, "%s\nsequence from the empty topology: %s", viol.msg, c15SeqStr(seq))
}

func c15SeqStr(seq []c15Req) string {
	s := make([]string, len(seq))
	for i, r := range seq {
		s[i] = r.String()
	}
	return strings.Join(s, " ; ")
}

func TestVerifC15Exhaustive(t *testing.T) {
	defer c15Gates(t)()
	nA, nB := c15CountCreates(c15UnivA), c15CountCreates(c15UnivB)
	space := nA + nB
	depth := 2
	if kit.Tier() == "thorough" {
		depth = 3
	}
	cl := c15PodIndexClient()
	pods := map[string]string{"n1/pod-b": "b"}
	pod := MakePod("n1", "pod-b").Label(extension.LabelQuotaName, "b").Obj()
	if err := cl.Create(context.TODO(), pod); err != nil {
		t.Fatalf("fake client: %v", err)
	}
	kit.Run(t, kit.Config{Property: "C15", Unit: "exhaustive", Quick: space, Thorough: space, Exhaustive: true,
		Rule: fmt.Sprintf("exhaustive: every in-domain sequence of create/update/delete requests of length 1..depth (depth 2 in the quick tier, 3 in the thorough tier) from the empty topology, executed on the real quotaTopology, over two reduced universes: A = names {a,b} x parent {root,a,b,missing} x isParent x namespaces {none,[n1]} x tree {none,t1} x (max,min) in 6 cpu pairs (%d objects, %d requests); B = names {a,b,c} x parent {root,a,b,c,missing} x isParent x the 6 pairs (%d objects, %d requests); a labelled pod of quota b exists throughout. One case = one first request (always a create: update/delete need an existing object), the inner sequences are counted as evaluations; distinct = (op, per-quota depth/parent flag/children/namespaces/tree/key sets) after accepted requests; non-trivial = first request accepted", nA, len(c15UnivA), nB, len(c15UnivB))},
		func(c *kit.Case) {
			univ, k := c15UnivA, c.K
			scope := "A"
			if k >= nA {
				univ, k, scope = c15UnivB, k-nA, "B"
			}
			first := univ[k] // creates come first in the universe
			if first.op != "create" {
				c.Harness("case %d does not index a create", c.K)
			}
			e := &c15Explorer{c: c, cl: cl, pods: pods, univ: univ, stats: map[string]int{}, logged: map[string]bool{}}
			c.Op("scope %s depth %d first request: %s", scope, depth, first.String())
			w := c15NewWorld(cl, pods, e.stats)
			acc, viol := w.request(first, true)
			e.stats["sequences_len_1"]++
			if viol != nil {
				e.report([]c15Req{first}, viol)
			} else {
				if acc {
					c.NonTrivial()
					c.Seen(first.op, w.shapeFine())
				}
				if depth > 1 {
					e.explore([]c15Req{first}, depth-1)
				}
			}
			c.Evals(e.evals)
			c15Flush(c, e.stats)
			if c.K == 0 || c.K == nA {
				c.Sample(map[string]any{"scope": scope, "first_request": first.String(), "depth": depth, "sequences_executed_in_this_case": e.evals + 1})
			}
		})
}

// ---------------------------------------------------------------------------------------------
// (2) sampled: longer histories over the full universe of DESIGN.md

var (
	c15Names = []string{"a", "b", "c", "d"}
	c15NS    = []string{"n1", "n2", "n3"}
	c15Trees = []string{"", "t1", "t2"}
	c15Vals  = []int64{0, 1, 2, 4}
	c15Res   = []string{"cpu", "memory"}
)

func c15RandVec(r *kit.Rand) map[string]int64 {
	if r.Pct(8) {
		return nil
	}
	m := map[string]int64{}
	for _, k := range c15Res {
		if r.Pct(65) {
			m[k] = kit.Pick(r, c15Vals)
		}
	}
	return m
}

func c15RandNss(r *kit.Rand) ([]string, bool) {
	switch r.Weighted(55, 30, 10, 5) {
	case 0:
		return nil, false
	case 1:
		return []string{kit.Pick(r, c15NS)}, true
	case 2:
		p := r.Perm(len(c15NS))
		return []string{c15NS[p[0]], c15NS[p[1]]}, true
	default:
		return []string{}, true
	}
}

func c15RandParentAny(r *kit.Rand) string {
	switch r.Weighted(20, 10, 60, 10) {
	case 0:
		return c15Root
	case 1:
		return ""
	case 2:
		return kit.Pick(r, c15Names)
	default:
		return c15Missing
	}
}

func c15RandSpec(r *kit.Rand, name string) c15Spec {
	s := c15Spec{name: name, parent: c15RandParentAny(r), isParent: kit.Pick(r, []string{"true", "true", "false", ""}), tree: kit.Pick(r, c15Trees)}
	s.nss, s.hasNss = c15RandNss(r)
	s.max, s.min = c15RandVec(r), c15RandVec(r)
	return s
}

func c15KeysOf(rl corev1.ResourceList) []string {
	var ks []string
	for k := range rl {
		ks = append(ks, string(k))
	}
	sort.Strings(ks)
	return ks
}

// c15CoherentSpec proposes an object that has a fair chance of being admitted under the chosen
// parent (same max keys as the parent, min within max and within the parent's min keys).
func (w *c15World) c15CoherentSpec(r *kit.Rand, name string) c15Spec {
	s := c15Spec{name: name}
	var groups []string
	for _, n := range w.names() {
		if c15Derive(w.shadow[n]).isParent && n != name {
			groups = append(groups, n)
		}
	}
	wGroup := 55
	if len(groups) == 0 {
		wGroup = 0
	}
	var pinfo *c15Info
	switch r.Weighted(25, 10, wGroup) {
	case 0:
		s.parent = c15Root
	case 1:
		s.parent = ""
	default:
		s.parent = kit.Pick(r, groups)
		in := c15Derive(w.shadow[s.parent])
		pinfo = &in
	}
	var keys, minKeys []string
	if pinfo != nil {
		keys, minKeys = c15KeysOf(pinfo.max), c15KeysOf(pinfo.min)
		s.tree = kit.Pick(r, []string{"", "", pinfo.tree})
	} else {
		keys = [][]string{{"cpu"}, {"cpu", "memory"}, {"cpu", "memory"}, {"memory"}, {}}[r.Intn(5)]
		minKeys = keys
		s.tree = kit.Pick(r, c15Trees)
	}
	s.max = map[string]int64{}
	for _, k := range keys {
		s.max[k] = kit.Pick(r, []int64{1, 2, 4, 4, 4})
	}
	s.min = map[string]int64{}
	for _, k := range minKeys {
		if _, ok := s.max[k]; !ok || r.Pct(35) {
			continue
		}
		var cands []int64
		for _, v := range c15Vals {
			if v <= s.max[k] {
				cands = append(cands, v)
			}
		}
		s.min[k] = kit.Pick(r, cands)
	}
	s.isParent = kit.Pick(r, []string{"true", "true", "false"})
	if r.Pct(25) {
		free := []string{}
		for _, ns := range c15NS {
			taken := false
			for _, n := range w.names() {
				for _, x := range c15Derive(w.shadow[n]).nss {
					if x == ns && n != name {
						taken = true
					}
				}
			}
			if !taken {
				free = append(free, ns)
			}
		}
		if len(free) > 0 {
			s.nss, s.hasNss = []string{kit.Pick(r, free)}, true
		}
	}
	return s
}

func c15CopyVec(m map[string]int64) map[string]int64 {
	if m == nil {
		return nil
	}
	o := map[string]int64{}
	for k, v := range m {
		o[k] = v
	}
	return o
}

// c15Mutate changes one user-editable dimension of s.
func (w *c15World) c15Mutate(r *kit.Rand, s c15Spec) (c15Spec, string) {
	s.min, s.max = c15CopyVec(s.min), c15CopyVec(s.max)
	switch r.Weighted(40, 12, 20, 10, 10, 5, 3) {
	case 0:
		// any existing quota (also the quota itself and its descendants), the root, or a missing one
		opts := append([]string{c15Root, "", c15Missing}, w.names()...)
		opts = append(opts, w.names()...)
		s.parent = kit.Pick(r, opts)
		return s, "parent"
	case 1:
		if s.isParent == "true" {
			s.isParent = kit.Pick(r, []string{"false", ""})
		} else {
			s.isParent = "true"
		}
		return s, "isParent"
	case 2:
		if s.min == nil {
			s.min = map[string]int64{}
		}
		k := kit.Pick(r, c15Res)
		if r.Pct(25) {
			delete(s.min, k)
		} else {
			s.min[k] = kit.Pick(r, c15Vals)
		}
		return s, "min"
	case 3:
		if s.max == nil {
			s.max = map[string]int64{}
		}
		k := kit.Pick(r, c15Res)
		if r.Pct(25) {
			delete(s.max, k)
		} else {
			s.max[k] = kit.Pick(r, c15Vals)
		}
		return s, "max"
	case 4:
		s.nss, s.hasNss = c15RandNss(r)
		return s, "namespaces"
	case 5:
		s.tree = kit.Pick(r, c15Trees)
		return s, "tree"
	default:
		return s, "nothing"
	}
}

func TestVerifC15Sampled(t *testing.T) {
	defer c15Gates(t)()
	cl := c15PodIndexClient()
	kit.Run(t, kit.Config{Property: "C15", Unit: "sampled", Quick: 25000, Thorough: 400000,
		Rule: "sampled: histories of 10-40 create/update/delete requests (interleaved with pod creations through ValidateAddPod and pod deletions) on one real quotaTopology over 4 names, parent in names+{root, absent label, missing}, isParent {true,false,absent}, tree {none,t1,t2}, namespaces = subsets of {n1,n2,n3} up to size 2, min/max over {cpu,memory} with each key absent or in {0,1,2,4}; 60% of the objects are proposed coherently with the current tree (parent group's key set, min<=max) and then perturbed, the rest uniformly; updates change 1-2 dimensions of the stored object (parent changes may target the quota itself or its descendants); oracle after every request; distinct = (op, outcome, multiset of per-quota depth/parent flag/children, namespace bindings, number of key sets and tree ids); non-trivial = case with accepted and rejected requests, a tree of depth >= 2 and an accepted parent change",
	}, func(c *kit.Case) {
		r := c.R
		stats := map[string]int{}
		defer c15Flush(c, stats)
		w := c15NewWorld(cl, map[string]string{}, stats)
		w.log = c.Op
		// the fake API server is shared by all cases (building one costs milliseconds): every case
		// starts and ends with no pods
		defer func() {
			for k := range w.pods {
				parts := strings.SplitN(k, "/", 2)
				_ = cl.Delete(context.TODO(), &corev1.Pod{ObjectMeta: metav1.ObjectMeta{Namespace: parts[0], Name: parts[1]}})
			}
		}()
		nreq := r.Range(10, 40)
		podSeq := 0
		anyAcc, anyRej, deep, parentMoved := false, false, false, false
		for i := 0; i < nreq; i++ {
			// environment: pods come and go
			if r.Pct(25) {
				if len(w.pods) < 4 && r.Pct(65) {
					podSeq++
					ns := kit.Pick(r, append([]string{"a"}, c15NS...))
					label := kit.Pick(r, append([]string{""}, c15Names...))
					pw := MakePod(ns, fmt.Sprintf("p%d", podSeq))
					if label != "" {
						pw = pw.Label(extension.LabelQuotaName, label)
					}
					pod := pw.Obj()
					if err := w.qt.ValidateAddPod(pod); err != nil {
						c.Op("pod %s/%s label=%s refused by the pod webhook: %v", ns, pod.Name, c15Dash(label), err)
						stats["pod_refused"]++
					} else {
						if err := cl.Create(context.TODO(), pod); err != nil {
							c.Harness("fake client create pod: %v", err)
						}
						w.pods[ns+"/"+pod.Name] = label
						c.Op("pod %s/%s label=%s created", ns, pod.Name, c15Dash(label))
						stats["pod_created"]++
					}
				} else if len(w.pods) > 0 {
					keys := make([]string, 0, len(w.pods))
					for k := range w.pods {
						keys = append(keys, k)
					}
					sort.Strings(keys)
					k := kit.Pick(r, keys)
					parts := strings.SplitN(k, "/", 2)
					if err := cl.Delete(context.TODO(), &corev1.Pod{ObjectMeta: metav1.ObjectMeta{Namespace: parts[0], Name: parts[1]}}); err != nil {
						c.Harness("fake client delete pod: %v", err)
					}
					delete(w.pods, k)
					c.Op("pod %s deleted", k)
					stats["pod_deleted"]++
				}
			}
			// the request
			existing := w.names()
			wCreate, wUpdate, wDelete := 40, 0, 0
			if len(existing) > 0 {
				wUpdate, wDelete = 45, 15
			}
			if len(existing) == len(c15Names) {
				wCreate = 8
			}
			var req c15Req
			switch r.Weighted(wCreate, wUpdate, wDelete) {
			case 0:
				name := kit.Pick(r, c15Names)
				if r.Pct(80) { // prefer a free name
					var free []string
					for _, n := range c15Names {
						if _, ok := w.shadow[n]; !ok {
							free = append(free, n)
						}
					}
					if len(free) > 0 {
						name = kit.Pick(r, free)
					}
				}
				var s c15Spec
				if r.Pct(60) {
					s = w.c15CoherentSpec(r, name)
					if r.Pct(30) {
						s, _ = w.c15Mutate(r, s)
					}
				} else {
					s = c15RandSpec(r, name)
				}
				req = c15Req{op: "create", spec: s}
			case 1:
				name := kit.Pick(r, existing)
				if r.Pct(30) { // prefer a quota that has children: its min/keys/flag/parent are constrained from below
					var withKids []string
					for _, n := range existing {
						for _, m := range existing {
							if m != n && c15Derive(w.shadow[m]).parent == n {
								withKids = append(withKids, n)
								break
							}
						}
					}
					if len(withKids) > 0 {
						name = kit.Pick(r, withKids)
					}
				}
				var s c15Spec
				switch r.Weighted(70, 15, 15) {
				case 0:
					s = c15SpecOf(w.shadow[name])
					s, _ = w.c15Mutate(r, s)
					if r.Pct(25) {
						s, _ = w.c15Mutate(r, s)
					}
				case 1:
					s = w.c15CoherentSpec(r, name)
					if r.Pct(60) {
						s.tree = c15SpecOf(w.shadow[name]).tree // a tree id change is always refused
					}
				default:
					s = c15RandSpec(r, name)
				}
				req = c15Req{op: "update", spec: s}
			default:
				req = c15Req{op: "delete", spec: c15Spec{name: kit.Pick(r, existing)}}
			}
			acc, viol := w.request(req, true)
			if viol != nil {
				c.Fail(viol.sig, "%s", viol.msg)
			}
			outcome := "rejected"
			if acc {
				outcome = "accepted"
				anyAcc = true
				if w.lastParentChange {
					parentMoved = true
				}
				if w.depth() >= 2 {
					deep = true
				}
				if d := w.depth(); d >= 3 {
					stats["states_depth_ge_3"]++
				}
			} else {
				anyRej = true
			}
			c.Seen(req.op, outcome, w.shape())
		}
		if anyAcc && anyRej && deep && parentMoved {
			c.NonTrivial()
		}
		if c.K < 2 {
			ops := c.Ops()
			if len(ops) > 14 {
				ops = ops[:14]
			}
			c.Sample(ops)
		}
	})
}
