//go:build verif

package elasticquota

// C15 monitors: admitted quota objects always form a well-formed quota tree.
// See /verif/DESIGN.md section 4, C15.
//
// What is executed: the real quotaTopology (NewQuotaTopology over a controller-runtime fake client
// that carries the pod index "label.quotaName", exactly as the package's own tests build it). Every
// request goes first through QuotaMetaChecker.AdmitQuota (the mutating step: it calls
// fillQuotaDefaultInformation for CREATE and nothing for UPDATE/DELETE, as the webhook does) and
// then through ValidAddQuota / ValidUpdateQuota / ValidDeleteQuota.
//
// Oracle (independent of the implementation's incremental checks): a shadow set of the objects the
// webhook accepted (what the API server would hold). After every ACCEPTED request a walker
// recomputes well-formedness from those objects alone (labels, annotations, spec) and the recorded
// topology (getQuotaTopologyInfo + namespace map) is compared with the topology derived from the
// shadow set. After every REJECTED request the complete recorded state must be equal to the
// snapshot taken before the request.
//
// Causal rules of the generated histories (what the real system can produce with one webhook
// replica, which is the system the statement describes):
//   - a CREATE may name any quota, also one that exists (validating admission runs before the
//     storage layer answers AlreadyExists);
//   - UPDATE and DELETE reach the webhook only for objects that exist in the API server, i.e. that
//     the webhook accepted before and has not accepted the deletion of; the old object of an UPDATE
//     and the object of a DELETE are the stored (last accepted, post-mutation) object;
//   - the new object of an UPDATE is the stored object with user-editable fields replaced (parent,
//     is-parent, tree-id, allow-lent labels; namespaces / shared-weight / strict-check / guaranteed
//     annotations; spec.min, spec.max; status.used); metadata.namespace never changes;
//   - pods appear in the API server only after the pod webhook (ValidateAddPod) admitted them;
//   - the webhook's own informer echoes every accepted write back through OnQuotaAdd /
//     OnQuotaUpdate / OnQuotaDelete, in the order of the writes; "immediate echo" cases deliver it
//     before the next request (everything is asserted), "lagged echo" cases deliver it later
//     (the statement does not describe that window: only the rejected-unchanged clause is asserted
//     there, everything else is counted);
//   - the objects the scheduler itself creates through the webhook are generated too: the system
//     and default quotas (ordinary quotas with reserved names) and the root quota object
//     (is-parent=true, allow-lent=false, empty parent label). The root object IS the root: it is
//     not a node of the forest for the walker, and where the webhook records it is only counted;
//   - not generated, because the quantifier does not range over them and DESIGN.md excludes them as
//     documented bypasses of the min clauses: allow-force-update label, is-root label (tree roots).

import (
	"context"
	"encoding/json"
	"errors"
	"fmt"
	"os"
	"sort"
	"strings"
	"testing"

	admissionv1 "k8s.io/api/admission/v1"
	corev1 "k8s.io/api/core/v1"
	"k8s.io/apimachinery/pkg/api/resource"
	metav1 "k8s.io/apimachinery/pkg/apis/meta/v1"
	"k8s.io/apimachinery/pkg/runtime"
	"k8s.io/apimachinery/pkg/runtime/serializer"
	clientgoscheme "k8s.io/client-go/kubernetes/scheme"
	k8stesting "k8s.io/client-go/testing"
	"k8s.io/component-base/featuregate"
	"k8s.io/klog/v2"
	"sigs.k8s.io/controller-runtime/pkg/client"
	"sigs.k8s.io/controller-runtime/pkg/client/fake"
	"sigs.k8s.io/controller-runtime/pkg/client/interceptor"
	"sigs.k8s.io/controller-runtime/pkg/webhook/admission"

	"github.com/koordinator-sh/koordinator/apis/extension"
	"github.com/koordinator-sh/koordinator/apis/thirdparty/scheduler-plugins/pkg/apis/scheduling/v1alpha1"
	koordfeatures "github.com/koordinator-sh/koordinator/pkg/features"
	utilfeature "github.com/koordinator-sh/koordinator/pkg/util/feature"
	kit "github.com/koordinator-sh/koordinator/pkg/verifkit"
)

func init() {
	klog.SetOutput(c15Discard{})
	klog.LogToStderr(false)
}

type c15Discard struct{}

func (c15Discard) Write(p []byte) (int, error) { return len(p), nil }

const (
	c15Root    = extension.RootQuotaName
	c15Missing = "missing" // a parent name that never exists
	c15GPU     = "nvidia.com/gpu"
)

// ---------------------------------------------------------------------------------------------
// requests

// c15Spec is the user-editable content of a quota object. Empty strings / nil mean "label or
// annotation absent"; min/max hold only the keys that are present, as quantity strings.
type c15Spec struct {
	name     string
	objNS    string // metadata.namespace (create only)
	parent   string // "" (absent) | root | a quota name | c15Missing
	isParent string // "" (absent) | "true" | "false" | other
	tree     string // "" (absent) | tree id
	lent     string // "" (absent) | "true" | "false"   (allow-lent label)
	nss      []string
	hasNss   bool
	rawNss   string            // when set (with hasNss) the annotation is written verbatim
	min, max map[string]string // quantity strings
	extra    map[string]string // annotations written verbatim (shared weight, strict keys, guaranteed); nil = untouched
	used     map[string]string // status.used; nil = untouched
}

type c15Req struct {
	op   string // create | update | delete
	spec c15Spec
}

func c15SortedKeys[V any](m map[string]V) []string {
	keys := make([]string, 0, len(m))
	for k := range m {
		keys = append(keys, k)
	}
	sort.Strings(keys)
	return keys
}

func c15VecStr(m map[string]string) string {
	if m == nil {
		return "-"
	}
	s := "{"
	for i, k := range c15SortedKeys(m) {
		if i > 0 {
			s += ","
		}
		s += k + ":" + m[k]
	}
	return s + "}"
}

func c15Dash(s string) string {
	if s == "" {
		return "-"
	}
	if s == c15Root {
		return "ROOT"
	}
	return s
}

func (r c15Req) String() string {
	if r.op == "delete" {
		return "delete " + r.spec.name
	}
	s := r.spec
	ns := "-"
	if s.hasNss {
		if s.rawNss != "" {
			ns = "raw(" + s.rawNss + ")"
		} else {
			ns = "[" + strings.Join(s.nss, ",") + "]"
		}
	}
	out := fmt.Sprintf("%s %s parent=%s isParent=%s tree=%s ns=%s max=%s min=%s", r.op, s.name, c15Dash(s.parent), c15Dash(s.isParent), c15Dash(s.tree), ns, c15VecStr(s.max), c15VecStr(s.min))
	if s.lent != "" {
		out += " lent=" + s.lent
	}
	if s.objNS != "" && r.op == "create" {
		out += " objNS=" + s.objNS
	}
	if s.extra != nil {
		out += " annotations=" + c15VecStr(s.extra)
	}
	if s.used != nil {
		out += " used=" + c15VecStr(s.used)
	}
	return out
}

func c15RL(m map[string]string) corev1.ResourceList {
	if m == nil {
		return nil
	}
	rl := corev1.ResourceList{}
	for k, v := range m {
		rl[corev1.ResourceName(k)] = resource.MustParse(v)
	}
	return rl
}

func c15SetOrDelete(m map[string]string, k, v string) {
	if v == "" {
		delete(m, k)
	} else {
		m[k] = v
	}
}

// c15Apply writes the user-editable fields of s into q.
func c15Apply(q *v1alpha1.ElasticQuota, s c15Spec) {
	if q.Labels == nil && (s.parent != "" || s.isParent != "" || s.tree != "" || s.lent != "") {
		q.Labels = map[string]string{}
	}
	if q.Labels != nil {
		c15SetOrDelete(q.Labels, extension.LabelQuotaParent, s.parent)
		c15SetOrDelete(q.Labels, extension.LabelQuotaIsParent, s.isParent)
		c15SetOrDelete(q.Labels, extension.LabelQuotaTreeID, s.tree)
		c15SetOrDelete(q.Labels, extension.LabelAllowLentResource, s.lent)
	}
	if (s.hasNss || s.extra != nil) && q.Annotations == nil {
		q.Annotations = map[string]string{}
	}
	if s.hasNss {
		if s.rawNss != "" {
			q.Annotations[extension.AnnotationQuotaNamespaces] = s.rawNss
		} else {
			b, _ := json.Marshal(s.nss)
			q.Annotations[extension.AnnotationQuotaNamespaces] = string(b)
		}
	} else if q.Annotations != nil {
		delete(q.Annotations, extension.AnnotationQuotaNamespaces)
	}
	for k, v := range s.extra {
		q.Annotations[k] = v
	}
	q.Spec.Max = c15RL(s.max)
	q.Spec.Min = c15RL(s.min)
	if s.used != nil {
		q.Status.Used = c15RL(s.used)
	}
}

func c15NewObject(s c15Spec) *v1alpha1.ElasticQuota {
	ns := s.objNS
	if ns == "" {
		ns = "default"
	}
	q := &v1alpha1.ElasticQuota{
		TypeMeta:   metav1.TypeMeta{Kind: "ElasticQuota", APIVersion: "scheduling.sigs.k8s.io/v1alpha1"},
		ObjectMeta: metav1.ObjectMeta{Name: s.name, Namespace: ns},
	}
	c15Apply(q, s)
	return q
}

// c15RootSpec is the root quota object exactly as the scheduler creates it
// (createRootQuotaIfNotPresent): is-parent=true, allow-lent=false, parent label "".
func c15RootSpec() c15Spec {
	return c15Spec{name: c15Root, objNS: "koordinator-system", isParent: "true", lent: "false"}
}

// ---------------------------------------------------------------------------------------------
// the oracle's own reading of an admitted object (labels/annotations/spec; no koordinator helper)

type c15Info struct {
	name, parent string
	isParent     bool
	lent         bool
	tree         string
	nss          []string
	min, max     corev1.ResourceList
}

func c15Derive(q *v1alpha1.ElasticQuota) c15Info {
	in := c15Info{name: q.Name, parent: q.Labels[extension.LabelQuotaParent]}
	if in.parent == "" {
		in.parent = c15Root // a quota without a parent label hangs off the root
	}
	in.isParent = q.Labels[extension.LabelQuotaIsParent] == "true"
	in.lent = q.Labels[extension.LabelAllowLentResource] != "false"
	in.tree = q.Labels[extension.LabelQuotaTreeID]
	if a := q.Annotations[extension.AnnotationQuotaNamespaces]; a != "" {
		var nss []string
		if err := json.Unmarshal([]byte(a), &nss); err == nil { // an unreadable annotation binds nothing
			in.nss = nss
		}
	}
	in.min, in.max = q.Spec.Min, q.Spec.Max
	return in
}

func c15SpecOf(q *v1alpha1.ElasticQuota) c15Spec {
	s := c15Spec{name: q.Name, parent: q.Labels[extension.LabelQuotaParent], isParent: q.Labels[extension.LabelQuotaIsParent],
		tree: q.Labels[extension.LabelQuotaTreeID], lent: q.Labels[extension.LabelAllowLentResource]}
	if a, ok := q.Annotations[extension.AnnotationQuotaNamespaces]; ok {
		s.hasNss = true
		if err := json.Unmarshal([]byte(a), &s.nss); err != nil || a == "" {
			s.rawNss = a
			if a == "" {
				s.hasNss = false // c15Apply cannot write an empty raw value; treat as absent
			}
		}
	}
	conv := func(rl corev1.ResourceList) map[string]string {
		if rl == nil {
			return nil
		}
		m := map[string]string{}
		for k, v := range rl {
			m[string(k)] = v.String()
		}
		return m
	}
	s.min, s.max = conv(q.Spec.Min), conv(q.Spec.Max)
	return s
}

func c15RLStr(rl corev1.ResourceList) string {
	keys := make([]string, 0, len(rl))
	for k := range rl {
		keys = append(keys, string(k))
	}
	sort.Strings(keys)
	var b strings.Builder
	b.WriteByte('{')
	for i, k := range keys {
		if i > 0 {
			b.WriteByte(',')
		}
		q := rl[corev1.ResourceName(k)]
		b.WriteString(k)
		b.WriteByte(':')
		b.WriteString(q.String())
	}
	b.WriteByte('}')
	return b.String()
}

// ---------------------------------------------------------------------------------------------
// world = real topology + shadow set

type c15Viol struct{ sig, msg string }

type c15Echo struct {
	kind     string // add | update | delete
	old, obj *v1alpha1.ElasticQuota
}

type c15World struct {
	qt     *quotaTopology
	chk    *QuotaMetaChecker
	cl     client.Client
	shadow map[string]*v1alpha1.ElasticQuota // objects the webhook accepted and that still exist (incl. the root object)
	pods   map[string]string                 // ns/name -> quota label ("" = none)
	stats  map[string]int
	// configuration of the case
	keysIncluded bool   // ElasticQuotaEnableUpdateResourceKey on: "dimensions agree" = child's max keys included in the parent's
	echo         string // "" | "immediate" | "lagged"
	pending      []c15Echo
	// bookkeeping for signatures / non-triviality
	lastParentChange bool
	log              func(format string, a ...any) // nil = silent
}

// c15FailList makes the fake API server fail the next List calls (injected API failure).
var c15FailList bool

// c15PodIndexClient builds the fake API server the way the package's tests do (controller-runtime
// fake client with the pod index "label.quotaName"), on a private scheme and with client-go's plain
// object tracker: the default field-managed tracker rebuilds a REST mapper on every Create (~4 ms),
// which would dominate the run; reads (List with field selector / namespace) are the same code.
func c15PodIndexClient() client.Client {
	sch := runtime.NewScheme()
	_ = clientgoscheme.AddToScheme(sch)
	_ = v1alpha1.AddToScheme(sch)
	return fake.NewClientBuilder().WithScheme(sch).
		WithObjectTracker(k8stesting.NewObjectTracker(sch, serializer.NewCodecFactory(sch).UniversalDecoder())).
		WithIndex(&corev1.Pod{}, "label.quotaName", func(object client.Object) []string {
			return []string{object.(*corev1.Pod).Labels[extension.LabelQuotaName]}
		}).
		WithInterceptorFuncs(interceptor.Funcs{List: func(ctx context.Context, cl client.WithWatch, list client.ObjectList, opts ...client.ListOption) error {
			if c15FailList {
				return errors.New("injected API failure")
			}
			return cl.List(ctx, list, opts...)
		}}).Build()
}

func c15NewWorld(cl client.Client, pods map[string]string, stats map[string]int) *c15World {
	qt := NewQuotaTopology(cl)
	return &c15World{qt: qt, chk: &QuotaMetaChecker{QuotaTopo: qt}, cl: cl, shadow: map[string]*v1alpha1.ElasticQuota{}, pods: pods, stats: stats}
}

// names lists the quotas of the forest (the root object, if it was created, is the root itself and
// not a node).
func (w *c15World) names() []string {
	out := make([]string, 0, len(w.shadow))
	for n := range w.shadow {
		if n != c15Root {
			out = append(out, n)
		}
	}
	sort.Strings(out)
	return out
}

// enabled: the causal rule for UPDATE/DELETE.
func (w *c15World) enabled(r c15Req) bool {
	if r.op == "create" {
		return true
	}
	_, ok := w.shadow[r.spec.name]
	return ok
}

// snapshot renders the COMPLETE recorded state (every field of every QuotaInfo, the hierarchy and
// the namespace map) canonically.
func (w *c15World) snapshot() string {
	qt := w.qt
	qt.lock.RLock()
	defer qt.lock.RUnlock()
	var b strings.Builder
	for _, k := range c15SortedKeys(qt.quotaInfoMap) {
		qi := qt.quotaInfoMap[k]
		if qi == nil {
			fmt.Fprintf(&b, "Q %s=nil\n", k)
			continue
		}
		fmt.Fprintf(&b, "Q %s={name=%s parent=%s isParent=%v lent=%v force=%v tree=%s treeRoot=%v max=%s min=%s guaranteed=%s allocated=%s}\n",
			k, qi.Name, qi.ParentName, qi.IsParent, qi.AllowLentResource, qi.AllowForceUpdate, qi.TreeID, qi.IsTreeRoot,
			c15RLStr(qi.CalculateInfo.Max), c15RLStr(qi.CalculateInfo.Min), c15RLStr(qi.CalculateInfo.Guaranteed), c15RLStr(qi.CalculateInfo.Allocated))
	}
	for _, k := range c15SortedKeys(qt.quotaHierarchyInfo) {
		fmt.Fprintf(&b, "H %s=[%s]\n", k, strings.Join(c15SortedKeys(qt.quotaHierarchyInfo[k]), ","))
	}
	for _, k := range c15SortedKeys(qt.namespaceToQuotaMap) {
		fmt.Fprintf(&b, "N %s=%s\n", k, qt.namespaceToQuotaMap[k])
	}
	return b.String()
}

func (w *c15World) bump(k string) {
	if w.stats != nil {
		w.stats[k]++
	}
}

// c15Reason buckets a rejection message (evidence counters only; never used for a verdict).
func c15Reason(err error) string {
	m := err.Error()
	for _, p := range [][2]string{
		{"injected API failure", "api_list_failure"},
		{"parent not exist", "fill_parent_missing"},
		{"sharedWeight failed", "fill_shared_weight_unreadable"},
		{"already exist", "duplicate_create"},
		{"is already bound to quota", "namespace_bound"},
		{"value < 0", "negative_value"},
		{"invalid quota", "forbidden_modify"},
		{"can not delete quotaGroup", "forbidden_delete"},
		{"max-strict-check-resource-keys", "strict_keys_unreadable"},
		{"< used", "strict_max_lt_used"},
		{"included in used", "strict_key_not_in_max"},
		{" > max ", "self_min_gt_max"},
		{"included in min, which is not included in max", "self_min_key_not_in_max"},
		{"isParent is forbidden to modify as false", "isparent_false_with_children"},
		{"isParent is forbidden to modify as true", "isparent_true_with_pods"},
		{"tree id changed", "tree_changed"},
		{"tree id is different from parent", "tree_differs_parent"},
		{"tree id is different from child", "tree_differs_child"},
		{"not find parentInfo", "parent_missing"},
		{"IsParent is false", "parent_not_parent_group"},
		{"max keys are not the same", "max_keys_differ"},
		{"max keys are not all included", "max_keys_not_included"},
		{"min keys are not all included", "min_keys_not_included"},
		{"brothers' MinQuota", "brothers_min_sum"},
		{"children's MinQuota", "children_min_sum"},
		{"child quotas", "delete_with_children"},
		{"child pods", "delete_with_pods"},
		{"own ancestor", "cycle"},
		{"guarantee for min", "guarantee"},
		{"invalid character", "annotation_unreadable"},
		{"cannot unmarshal", "annotation_unreadable"},
	} {
		if strings.Contains(m, p[0]) {
			return p[1]
		}
	}
	if c15DebugOther {
		fmt.Println("C15-OTHER:", m)
	}
	return "other"
}

var c15DebugOther = os.Getenv("C15_DEBUG_OTHER") != ""

// deliver hands one echo to the informer handlers.
func (w *c15World) deliver(e c15Echo) {
	switch e.kind {
	case "add":
		w.qt.OnQuotaAdd(e.obj.DeepCopy())
	case "update":
		w.qt.OnQuotaUpdate(e.old.DeepCopy(), e.obj.DeepCopy())
	case "delete":
		w.qt.OnQuotaDelete(e.obj.DeepCopy())
	}
	w.bump("echo_" + e.kind + "_delivered")
	if w.log != nil {
		w.log("  informer echo: %s %s", e.kind, e.obj.Name)
	}
}

// request executes one in-domain request on the real topology, updates the shadow set and, unless
// oracle is false (replay of an already checked prefix), applies the oracle. It returns whether
// the webhook accepted and the first violated clause (nil = none).
func (w *c15World) request(r c15Req, oracle bool) (accepted bool, viol *c15Viol) {
	ctx := context.TODO()
	var before string
	if oracle {
		before = w.snapshot()
	}
	var err error
	stage := "validate"
	var obj, old *v1alpha1.ElasticQuota
	parentChange := false
	switch r.op {
	case "create":
		obj = c15NewObject(r.spec)
		err = w.chk.AdmitQuota(ctx, admission.Request{AdmissionRequest: admissionv1.AdmissionRequest{Operation: admissionv1.Create}}, obj)
		if err != nil {
			stage = "mutate"
		} else {
			err = w.qt.ValidAddQuota(obj)
		}
	case "update":
		old = w.shadow[r.spec.name].DeepCopy()
		obj = old.DeepCopy()
		c15Apply(obj, r.spec)
		err = w.chk.AdmitQuota(ctx, admission.Request{AdmissionRequest: admissionv1.AdmissionRequest{Operation: admissionv1.Update}}, obj)
		if err != nil {
			stage = "mutate"
		} else {
			err = w.qt.ValidUpdateQuota(old, obj)
		}
		parentChange = c15Derive(old).parent != c15Derive(obj).parent
	case "delete":
		obj = w.shadow[r.spec.name].DeepCopy()
		err = w.qt.ValidDeleteQuota(obj)
	}
	if w.log != nil {
		res := "ACCEPTED"
		if err != nil {
			res = fmt.Sprintf("REJECTED(%s): %v", stage, err)
		}
		w.log("%s -> %s", r.String(), res)
	}
	if err != nil {
		w.bump(r.op + "_rejected")
		w.bump("reject_" + c15Reason(err))
		if oracle {
			if after := w.snapshot(); after != before {
				return false, &c15Viol{"C15/rejected/topology-changed", fmt.Sprintf("request %q was rejected (%v) but the recorded topology changed.\nbefore:\n%safter:\n%s", r.String(), err, before, after)}
			}
			w.bump("oracle_rejected_unchanged_checks")
		}
		return false, nil
	}
	w.bump(r.op + "_accepted")
	// a CREATE of an existing name that the webhook accepts is refused by the storage layer
	// afterwards (AlreadyExists): the stored object stays, nothing is written, nothing is echoed
	dupCreate := false
	if _, dup := w.shadow[obj.Name]; dup && r.op == "create" {
		dupCreate = true
		w.bump("duplicate_create_accepted")
	}
	// the informer echo of the accepted write
	if !dupCreate {
		kind := map[string]string{"create": "add", "update": "update", "delete": "delete"}[r.op]
		switch w.echo {
		case "immediate":
			w.deliver(c15Echo{kind: kind, old: old, obj: obj})
		case "lagged":
			w.pending = append(w.pending, c15Echo{kind: kind, old: old, obj: obj})
		}
	}
	// shadow update + delete clauses
	switch r.op {
	case "create", "update":
		if !dupCreate {
			w.shadow[obj.Name] = obj
		}
		if parentChange {
			w.bump("update_parent_change_accepted")
		}
		if obj.Name == c15Root && !dupCreate {
			w.bump("root_object_created")
		}
	case "delete":
		if oracle {
			var kids []string
			for _, n := range w.names() {
				if n != obj.Name && c15Derive(w.shadow[n]).parent == obj.Name {
					kids = append(kids, n)
				}
			}
			if c15Derive(obj).parent == obj.Name {
				kids = append(kids, obj.Name)
			}
			if len(kids) > 0 {
				return true, &c15Viol{"C15/delete/with-children", fmt.Sprintf("deletion of quota %s was accepted although it has children %v", obj.Name, kids)}
			}
			var pods []string
			for p, q := range w.pods {
				if q == obj.Name {
					pods = append(pods, p)
				}
			}
			sort.Strings(pods)
			if len(pods) > 0 {
				return true, &c15Viol{"C15/delete/with-pods", fmt.Sprintf("deletion of quota %s was accepted although pods %v carry its quota label", obj.Name, pods)}
			}
			// pods that are bound only through a namespace: counted, not asserted (the statement's
			// "pods of a quota" is taken in its narrowest sense, the quota-name label)
			for p, q := range w.pods {
				ns := p[:strings.IndexByte(p, '/')]
				if q == "" {
					for _, n := range c15Derive(obj).nss {
						if n == ns {
							w.bump("deleted_with_namespace_bound_pods")
						}
					}
				}
			}
		}
		delete(w.shadow, obj.Name)
	}
	w.lastParentChange = parentChange
	if !oracle {
		return true, nil
	}
	if v := w.wellFormed(r); v != nil {
		return true, v
	}
	if w.echo == "lagged" {
		return true, nil // the record is compared at quiescence only (see TestVerifC15Sampled)
	}
	if v := w.recordedEqualsDerived(fmt.Sprintf("after accepted %q", r.String())); v != nil {
		return true, v
	}
	return true, nil
}

// wellFormed is the invariant walker over the shadow set (clauses of the statement, in its order).
func (w *c15World) wellFormed(last c15Req) *c15Viol {
	names := w.names()
	infos := make(map[string]c15Info, len(names))
	for _, n := range names {
		infos[n] = c15Derive(w.shadow[n])
	}
	after := fmt.Sprintf("after accepted %q", last.String())
	for _, n := range names {
		in := infos[n]
		// every parent exists and is marked as a parent
		if in.parent != c15Root {
			if in.parent == n {
				return &c15Viol{"C15/tree/self-parent", fmt.Sprintf("%s: quota %s is its own parent", after, n)}
			}
			p, ok := infos[in.parent]
			if !ok {
				return &c15Viol{"C15/tree/parent-missing", fmt.Sprintf("%s: quota %s has parent %s which does not exist", after, n, in.parent)}
			}
			if !p.isParent {
				return &c15Viol{"C15/tree/parent-not-parent-group", fmt.Sprintf("%s: quota %s has parent %s which is not marked as a parent", after, n, in.parent)}
			}
		}
	}
	// following parent links from any quota reaches the root
	for _, n := range names {
		cur, steps := n, 0
		path := []string{n}
		for infos[cur].parent != c15Root {
			cur = infos[cur].parent
			path = append(path, cur)
			steps++
			if steps > len(names) {
				sig := "C15/tree/cycle"
				if w.lastParentChange {
					sig = "C15/tree/cycle-via-parent-update"
				}
				return &c15Viol{sig, fmt.Sprintf("%s: following parent links from %s never reaches the root: %s", after, n, strings.Join(path, " -> "))}
			}
		}
		if steps >= 4 {
			w.bump("oracle_root_walks_depth_ge_5")
		}
		w.bump("oracle_root_walks")
	}
	for _, n := range names {
		in := infos[n]
		// min never exceeds max and is declared only for dimensions max declares
		for k, v := range in.min {
			mv, ok := in.max[k]
			if !ok {
				return &c15Viol{"C15/quota/min-key-not-in-max", fmt.Sprintf("%s: quota %s declares min for %s which max does not declare (min=%s max=%s)", after, n, k, c15RLStr(in.min), c15RLStr(in.max))}
			}
			if v.Cmp(mv) > 0 {
				return &c15Viol{"C15/quota/min-exceeds-max", fmt.Sprintf("%s: quota %s has min %s > max %s for %s", after, n, v.String(), mv.String(), k)}
			}
		}
	}
	// the children's mins sum to at most the parent's min (parents other than the root); quantity
	// arithmetic, no fixed-width sums
	sums := map[string]corev1.ResourceList{}
	for _, n := range names {
		in := infos[n]
		if in.parent == c15Root {
			continue
		}
		if sums[in.parent] == nil {
			sums[in.parent] = corev1.ResourceList{}
		}
		for k, v := range in.min {
			cur := sums[in.parent][k]
			cur.Add(v)
			sums[in.parent][k] = cur
		}
	}
	for _, p := range names {
		for k, s := range sums[p] {
			pm := infos[p].min[k] // absent = nothing guaranteed = 0
			if s.Cmp(pm) > 0 {
				return &c15Viol{"C15/tree/children-min-sum-exceeds-parent-min", fmt.Sprintf("%s: the children of %s have min %s summing to %s, the parent's min is %s", after, p, k, s.String(), c15RLStr(infos[p].min))}
			}
		}
		if len(sums[p]) > 0 {
			w.bump("oracle_min_sum_checks")
		}
	}
	// resource dimensions agree along the tree, as the code's check defines it: with
	// ElasticQuotaEnableUpdateResourceKey off (default) a quota declares max for exactly the
	// dimensions its parent declares max for; with the gate on, for a subset of them.
	for _, n := range names {
		in := infos[n]
		if in.parent == c15Root {
			continue
		}
		p := infos[in.parent]
		included := true
		for k := range in.max {
			if _, ok := p.max[k]; !ok {
				included = false
			}
		}
		if w.keysIncluded {
			if !included {
				return &c15Viol{"C15/tree/max-keys-not-included", fmt.Sprintf("%s: quota %s declares max %s, its parent %s declares max %s (update-resource-key gate on)", after, n, c15RLStr(in.max), in.parent, c15RLStr(p.max))}
			}
			if len(p.max) != len(in.max) {
				w.bump("states_child_max_keys_strict_subset")
			}
		} else if !included || len(p.max) != len(in.max) {
			return &c15Viol{"C15/tree/max-keys-differ", fmt.Sprintf("%s: quota %s declares max %s, its parent %s declares max %s", after, n, c15RLStr(in.max), in.parent, c15RLStr(p.max))}
		}
		w.bump("oracle_dimension_checks")
		for k := range in.min {
			if _, ok := p.min[k]; !ok {
				w.bump("min_key_not_in_parent_min") // stricter reading of "dimensions agree": counted only
			}
		}
		if in.tree != p.tree {
			w.bump("tree_id_differs_from_parent") // no clause of the statement: counted only
		}
	}
	// a namespace is bound to at most one quota
	bound := map[string]string{}
	for _, n := range names {
		for _, ns := range infos[n].nss {
			if o, ok := bound[ns]; ok && o != n {
				return &c15Viol{"C15/namespace/bound-twice", fmt.Sprintf("%s: namespace %s is bound to quota %s and to quota %s", after, ns, o, n)}
			}
			bound[ns] = n
		}
	}
	w.bump("oracle_wellformed_walks")
	return nil
}

func c15Without(xs []string, x string) []string {
	out := make([]string, 0, len(xs))
	for _, v := range xs {
		if v != x {
			out = append(out, v)
		}
	}
	return out
}

// recordedEqualsDerived compares what the webhook recorded (observed through
// getQuotaTopologyInfo, plus the namespace map) with the topology derived from the shadow set.
// Only the parts of the record that feed an admission decision the statement talks about are
// asserted: the set of recorded quotas and each one's name/parent/is-parent/max/min (parent
// exists, is a parent group, key agreement, min sums), the child sets of ordinary quotas, the
// namespace map (namespace uniqueness). The root OBJECT (if the scheduler created it) is outside
// the statement: whether and where it is recorded, and the root's recorded child set, are counted.
func (w *c15World) recordedEqualsDerived(after string) *c15Viol {
	sum := w.qt.getQuotaTopologyInfo()
	names := w.names()
	_, rootRecorded := sum.QuotaInfoMap[c15Root]
	_, rootExists := w.shadow[c15Root]
	if rootRecorded != rootExists {
		w.bump("root_object_record_presence_differs")
	}
	nrec := len(sum.QuotaInfoMap)
	if rootRecorded {
		nrec--
	}
	// quotaInfoMap
	if nrec != len(names) {
		rec := c15Without(c15SortedKeys(sum.QuotaInfoMap), c15Root)
		return &c15Viol{"C15/record/quota-set-mismatch", fmt.Sprintf("%s: recorded quotas %v, accepted objects %v", after, rec, names)}
	}
	kids := map[string][]string{c15Root: {}}
	for _, n := range names {
		kids[n] = []string{}
	}
	nsWant := map[string]string{}
	for _, n := range names {
		in := c15Derive(w.shadow[n])
		rec, ok := sum.QuotaInfoMap[n]
		if !ok || rec == nil {
			return &c15Viol{"C15/record/quota-set-mismatch", fmt.Sprintf("%s: accepted quota %s is not recorded", after, n)}
		}
		want := fmt.Sprintf("name=%s parent=%s isParent=%v max=%s min=%s", in.name, in.parent, in.isParent, c15RLStr(in.max), c15RLStr(in.min))
		have := fmt.Sprintf("name=%s parent=%s isParent=%v max=%s min=%s", rec.Name, rec.ParentName, rec.IsParent, c15RLStr(rec.Max), c15RLStr(rec.Min))
		if want != have {
			return &c15Viol{"C15/record/quota-info-mismatch", fmt.Sprintf("%s: quota %s is recorded as {%s}, the accepted object says {%s}", after, n, have, want)}
		}
		if rec.AllowLentResource != in.lent {
			w.bump("allow_lent_record_stale") // not part of the tree the statement describes: counted only
		}
		kids[in.parent] = append(kids[in.parent], n)
		for _, ns := range in.nss {
			nsWant[ns] = n
		}
	}
	if root, ok := w.shadow[c15Root]; ok {
		for _, ns := range c15Derive(root).nss {
			nsWant[ns] = c15Root
		}
	}
	// hierarchy. Asserted: the child set recorded for every ORDINARY quota (it feeds the delete guard,
	// the is-parent guard and the children-min-sum check). Counted only (converse_misses_*), because
	// no admission decision the statement talks about reads them: the child set recorded for the
	// ROOT (ValidAddQuota of the root quota object re-initialises it; nothing reads it), and entries
	// kept for names that are not accepted quotas.
	for _, k := range c15SortedKeys(kids) {
		want := kids[k]
		have, ok := sum.QuotaHierarchyInfo[k]
		have = c15Without(have, c15Root)
		sort.Strings(have)
		sort.Strings(want)
		if k == c15Root {
			if !ok || strings.Join(have, ",") != strings.Join(want, ",") {
				if rootExists && len(have) < len(want) {
					w.bump("converse_misses_root_child_record_lost_after_root_object_create")
				} else {
					w.bump("converse_misses_root_child_record_differs")
				}
			}
			continue
		}
		if !ok {
			return &c15Viol{"C15/record/hierarchy-mismatch", fmt.Sprintf("%s: the hierarchy has no entry for %s", after, k)}
		}
		if strings.Join(have, ",") != strings.Join(want, ",") {
			return &c15Viol{"C15/record/hierarchy-mismatch", fmt.Sprintf("%s: the hierarchy records children %v for %s, the accepted objects say %v", after, have, k, want)}
		}
	}
	for _, k := range c15SortedKeys(sum.QuotaHierarchyInfo) {
		if _, ok := kids[k]; ok {
			continue
		}
		have := c15Without(sum.QuotaHierarchyInfo[k], c15Root)
		switch {
		case len(have) > 0:
			w.bump("converse_misses_hierarchy_children_recorded_for_unknown_name")
		case rootExists && k == "":
			w.bump("root_object_hierarchy_entry")
		default:
			w.bump("hierarchy_stale_empty_entries")
		}
	}
	// namespace map
	w.qt.lock.RLock()
	nsHave := make(map[string]string, len(w.qt.namespaceToQuotaMap))
	for k, v := range w.qt.namespaceToQuotaMap {
		nsHave[k] = v
	}
	w.qt.lock.RUnlock()
	if fmt.Sprint(nsHave) != fmt.Sprint(nsWant) { // fmt prints maps in key order
		return &c15Viol{"C15/record/namespace-map-mismatch", fmt.Sprintf("%s: recorded namespace bindings %v, the accepted objects say %v", after, nsHave, nsWant)}
	}
	w.bump("oracle_recorded_vs_derived_checks")
	return nil
}

// shape is the abstract state recorded as "distinct": which classes (depth capped at 3, parent-group
// flag, number of children capped at 2) occur among the quotas and whether once or more often, the
// number of namespace bindings capped at 2, the number of distinct max key sets and of distinct
// tree ids. Names and amounts are abstracted away.
func (w *c15World) shape() string {
	names := w.names()
	infos := map[string]c15Info{}
	nkids := map[string]int{}
	for _, n := range names {
		infos[n] = c15Derive(w.shadow[n])
	}
	for _, n := range names {
		nkids[infos[n].parent]++
	}
	classes := map[string]int{}
	bound := 0
	keysets, trees := map[string]bool{}, map[string]bool{}
	for _, n := range names {
		d, cur := 0, n
		for infos[cur].parent != c15Root && d <= len(names) {
			cur = infos[cur].parent
			d++
		}
		if d > 3 {
			d = 3
		}
		in := infos[n]
		k := nkids[n]
		if k > 2 {
			k = 2
		}
		classes[fmt.Sprintf("d%d/p%v/k%d", d, in.isParent, k)]++
		bound += len(in.nss)
		keysets[fmt.Sprint(c15KeysOf(in.max))] = true
		trees[in.tree] = true
	}
	var parts []string
	for _, cl := range c15SortedKeys(classes) {
		n := classes[cl]
		if n > 2 {
			n = 2
		}
		parts = append(parts, fmt.Sprintf("%sx%d", cl, n))
	}
	if bound > 2 {
		bound = 2
	}
	return fmt.Sprintf("%s|ns%d|keysets%d|trees%d", strings.Join(parts, " "), bound, len(keysets), len(trees))
}

// shapeFine is the finer abstraction used by the exhaustive unit (small universes): per quota also
// the number of bound namespaces, whether it carries a tree id, and the key sets of max and min.
func (w *c15World) shapeFine() string {
	names := w.names()
	infos := map[string]c15Info{}
	nkids := map[string]int{}
	for _, n := range names {
		infos[n] = c15Derive(w.shadow[n])
	}
	for _, n := range names {
		nkids[infos[n].parent]++
	}
	var parts []string
	for _, n := range names {
		d, cur := 0, n
		for infos[cur].parent != c15Root && d <= len(names) {
			cur = infos[cur].parent
			d++
		}
		in := infos[n]
		parts = append(parts, fmt.Sprintf("d%d/p%v/k%d/n%d/t%v/M%v/m%v", d, in.isParent, nkids[n], len(in.nss), in.tree != "", c15KeysOf(in.max), c15KeysOf(in.min)))
	}
	sort.Strings(parts)
	return strings.Join(parts, " ")
}

func (w *c15World) depth() int {
	max := 0
	for _, n := range w.names() {
		d, cur := 1, n
		for d <= len(w.shadow) {
			p := c15Derive(w.shadow[cur]).parent
			if p == c15Root {
				break
			}
			if _, ok := w.shadow[p]; !ok {
				break
			}
			cur = p
			d++
		}
		if d > max {
			max = d
		}
	}
	return max
}

var c15GateList = []struct {
	name string
	f    featuregate.Feature
}{
	{"updkey", koordfeatures.ElasticQuotaEnableUpdateResourceKey},
	{"guarantee", koordfeatures.ElasticQuotaGuaranteeUsage},
	{"parentpods", koordfeatures.SupportParentQuotaSubmitPod},
	{"nodefault", koordfeatures.DisableDefaultQuota},
}

// c15SetGates sets the four gates the webhook's quota/pod checks consult (process globals; cases run
// one after the other) and returns the restore function. nil = all at their defaults (off).
func c15SetGates(on map[string]bool) func() {
	gate := utilfeature.DefaultMutableFeatureGate
	prev := map[string]bool{}
	for _, g := range c15GateList {
		prev[g.name] = gate.Enabled(g.f)
		if err := gate.Set(fmt.Sprintf("%s=%v", g.f, on[g.name])); err != nil {
			panic(err)
		}
	}
	return func() {
		for _, g := range c15GateList {
			_ = gate.Set(fmt.Sprintf("%s=%v", g.f, prev[g.name]))
		}
	}
}

func c15Flush(c *kit.Case, stats map[string]int) {
	for _, k := range c15SortedKeys(stats) {
		c.Count(k, stats[k])
	}
}

// ---------------------------------------------------------------------------------------------
// (1) exhaustive: every in-domain request sequence up to the tier's depth, from the empty topology

// Two reduced universes (scope A: two names with namespaces and tree ids; scope B: three names, so
// that a parent can have two children, without namespaces/tree ids). Gates at their defaults, no
// informer echo.
//
//	A: name in {a,b}; parent in {ROOT,a,b,missing}; isParent in {true,false}; namespaces in
//	   {none,[n1]}; tree in {none,t1}; (max,min) over cpu in
//	   {(-,-),(-,1),(1,2),(2,-),(2,1),(2,2)}            -> 2*4*2*2*2*6 = 384 objects
//	B: name in {a,b,c}; parent in {ROOT,a,b,c,missing}; isParent in {true,false}; (max,min) over
//	   cpu in the same six pairs                          -> 3*5*2*6 = 180 objects
//
// Requests of a scope: create(object), update(object) for every object, delete(name) for every
// name; scope B additionally has the creation of the root quota object as the scheduler issues it.
// A pod carrying the quota label "b" (namespace n1) exists throughout, so that deleting b /
// turning b into a parent meets the pod clauses; a has no pods.
var c15MinMax = [][2]map[string]string{
	{nil, nil},
	{nil, {"cpu": "1"}},
	{{"cpu": "1"}, {"cpu": "2"}},
	{{"cpu": "2"}, nil},
	{{"cpu": "2"}, {"cpu": "1"}},
	{{"cpu": "2"}, {"cpu": "2"}},
}

func c15Universe(names []string, withNsTree bool) []c15Req {
	var objs []c15Spec
	parents := append([]string{c15Root}, names...)
	parents = append(parents, c15Missing)
	nsOpts := [][]string{nil}
	treeOpts := []string{""}
	if withNsTree {
		nsOpts = [][]string{nil, {"n1"}}
		treeOpts = []string{"", "t1"}
	}
	for _, n := range names {
		for _, p := range parents {
			for _, ip := range []string{"true", "false"} {
				for _, ns := range nsOpts {
					for _, tr := range treeOpts {
						for _, mm := range c15MinMax {
							objs = append(objs, c15Spec{name: n, parent: p, isParent: ip, tree: tr, nss: ns, hasNss: ns != nil, max: mm[0], min: mm[1]})
						}
					}
				}
			}
		}
	}
	var reqs []c15Req
	for _, o := range objs {
		reqs = append(reqs, c15Req{op: "create", spec: o})
	}
	if !withNsTree {
		reqs = append(reqs, c15Req{op: "create", spec: c15RootSpec()})
	}
	for _, o := range objs {
		reqs = append(reqs, c15Req{op: "update", spec: o})
	}
	for _, n := range names {
		reqs = append(reqs, c15Req{op: "delete", spec: c15Spec{name: n}})
	}
	return reqs
}

var (
	c15UnivA = c15Universe([]string{"a", "b"}, true)
	c15UnivB = c15Universe([]string{"a", "b", "c"}, false)
)

func c15CountCreates(u []c15Req) int {
	n := 0
	for _, r := range u {
		if r.op == "create" {
			n++
		}
	}
	return n
}

type c15Explorer struct {
	c      *kit.Case
	cl     client.Client
	pods   map[string]string
	univ   []c15Req
	stats  map[string]int
	evals  int
	logged map[string]bool
}

func (e *c15Explorer) replay(prefix []c15Req, logTo func(string, ...any)) *c15World {
	w := c15NewWorld(e.cl, e.pods, nil)
	w.log = logTo
	for _, r := range prefix {
		if !w.enabled(r) {
			e.c.Harness("replayed prefix contains a request that is not enabled: %s", r.String())
		}
		w.request(r, false)
	}
	w.log = nil
	w.stats = e.stats
	return w
}

// explore executes every enabled request of the universe after prefix (oracle after each), then
// extends each non-violating one-step extension recursively. Shorter sequences are checked before
// longer ones so that the first report of a signature is a shortest one.
func (e *c15Explorer) explore(prefix []c15Req, depthLeft int) {
	w := e.replay(prefix, nil)
	extend := make([]bool, len(e.univ))
	for i := range e.univ {
		r := e.univ[i]
		if !w.enabled(r) {
			e.stats["skipped_not_in_domain"]++
			continue
		}
		acc, viol := w.request(r, true)
		e.evals++
		e.stats[fmt.Sprintf("sequences_len_%d", len(prefix)+1)]++
		if viol != nil {
			e.report(append(append([]c15Req(nil), prefix...), r), viol)
			w = e.replay(prefix, nil)
			continue // a violating sequence is not extended
		}
		extend[i] = true
		if acc {
			e.c.Seen(r.op, w.shapeFine())
			w = e.replay(prefix, nil) // restore the state after the prefix by re-executing it
		}
	}
	if depthLeft <= 1 {
		return
	}
	for i := range e.univ {
		if extend[i] {
			e.explore(append(append([]c15Req(nil), prefix...), e.univ[i]), depthLeft-1)
		}
	}
}

// report logs the literal sequence with its outcomes (first occurrence of the signature in this
// case only) and reports without unwinding, so that the enumeration continues.
func (e *c15Explorer) report(seq []c15Req, viol *c15Viol) {
	if !e.logged[viol.sig] {
		e.logged[viol.sig] = true
		e.c.Op("--- violating sequence (%s):", viol.sig)
		e.replay(seq, e.c.Op)
	}
	e.c.Report(viol.sig, "%s\nsequence from the empty topology: %s", viol.msg, c15SeqStr(seq))
}

func c15SeqStr(seq []c15Req) string {
	s := make([]string, len(seq))
	for i, r := range seq {
		s[i] = r.String()
	}
	return strings.Join(s, " ; ")
}

func TestVerifC15Exhaustive(t *testing.T) {
	defer c15SetGates(nil)()
	nA, nB := c15CountCreates(c15UnivA), c15CountCreates(c15UnivB)
	space := nA + nB
	depth := 2
	if kit.Tier() == "thorough" {
		depth = 3
	}
	cl := c15PodIndexClient()
	pods := map[string]string{"n1/pod-b": "b"}
	pod := MakePod("n1", "pod-b").Label(extension.LabelQuotaName, "b").Obj()
	if err := cl.Create(context.TODO(), pod); err != nil {
		t.Fatalf("fake client: %v", err)
	}
	kit.Run(t, kit.Config{Property: "C15", Unit: "exhaustive", Quick: space, Thorough: space, Exhaustive: true,
		Rule: fmt.Sprintf("exhaustive: every in-domain sequence of create/update/delete requests of length 1..depth (depth 2 in the quick tier, 3 in the thorough tier) from the empty topology, executed on the real quotaTopology, over two reduced universes: A = names {a,b} x parent {root,a,b,missing} x isParent x namespaces {none,[n1]} x tree {none,t1} x (max,min) in 6 cpu pairs (%d creates, %d requests); B = names {a,b,c} x parent {root,a,b,c,missing} x isParent x the 6 pairs, plus the creation of the root quota object as the scheduler issues it (%d creates, %d requests); a labelled pod of quota b exists throughout; gates at their defaults. One case = one first request (always a create: update/delete need an existing object), the inner sequences are counted as evaluations; distinct = (op, per-quota depth/parent flag/children/namespaces/tree/key sets) after accepted requests; non-trivial = first request accepted", nA, len(c15UnivA), nB, len(c15UnivB))},
		func(c *kit.Case) {
			univ, k := c15UnivA, c.K
			scope := "A"
			if k >= nA {
				univ, k, scope = c15UnivB, k-nA, "B"
			}
			first := univ[k] // creates come first in the universe
			if first.op != "create" {
				c.Harness("case %d does not index a create", c.K)
			}
			e := &c15Explorer{c: c, cl: cl, pods: pods, univ: univ, stats: map[string]int{}, logged: map[string]bool{}}
			c.Op("scope %s depth %d first request: %s", scope, depth, first.String())
			w := c15NewWorld(cl, pods, e.stats)
			acc, viol := w.request(first, true)
			e.stats["sequences_len_1"]++
			if viol != nil {
				e.report([]c15Req{first}, viol)
			} else {
				if acc {
					c.NonTrivial()
					c.Seen(first.op, w.shapeFine())
				}
				if depth > 1 {
					e.explore([]c15Req{first}, depth-1)
				}
			}
			c.Evals(e.evals)
			c15Flush(c, e.stats)
			if c.K == 0 || c.K == nA {
				c.Sample(map[string]any{"scope": scope, "first_request": first.String(), "depth": depth, "sequences_executed_in_this_case": e.evals + 1})
			}
		})
}

// ---------------------------------------------------------------------------------------------
// (2) sampled: longer histories over the full universe of DESIGN.md, widened by the domain audit

var (
	c15BaseNames  = []string{"a", "b", "c", "d"}
	c15MoreNames  = []string{"e", "f"}
	c15Reserved   = []string{extension.SystemQuotaName, extension.DefaultQuotaName}
	c15NS         = []string{"n1", "n2", "n3"}
	c15Trees      = []string{"", "t1", "t2"}
	c15Vals       = []string{"0", "1", "2", "4"}
	c15RareVals   = []string{"500m", "1500m", "1Ti", "4611686018427387904", "-1"}
	c15Res        = []string{"cpu", "memory"}
	c15ObjNSOther = []string{"n1", "kube-system", "a"}
)

// c15Gen holds the per-case universe.
type c15Gen struct {
	r     *kit.Rand
	w     *c15World
	names []string // quota names of this case
	res   []string // resource names of this case
	guar  bool     // guarantee gate on: also draw guaranteed annotations
}

func (g *c15Gen) val() string {
	if g.r.Pct(10) {
		return kit.Pick(g.r, c15RareVals)
	}
	return kit.Pick(g.r, c15Vals)
}

func (g *c15Gen) randVec() map[string]string {
	if g.r.Pct(8) {
		return nil
	}
	m := map[string]string{}
	for _, k := range g.res {
		p := 65
		if k == c15GPU {
			p = 35
		}
		if g.r.Pct(p) {
			m[k] = g.val()
		}
	}
	return m
}

func (g *c15Gen) randNss() (nss []string, has bool, raw string) {
	r := g.r
	switch r.Weighted(50, 27, 9, 4, 3, 3, 2, 2) {
	case 0:
		return nil, false, ""
	case 1:
		return []string{kit.Pick(r, c15NS)}, true, ""
	case 2:
		p := r.Perm(len(c15NS))
		return []string{c15NS[p[0]], c15NS[p[1]]}, true, ""
	case 3:
		return []string{}, true, ""
	case 4:
		return append([]string(nil), c15NS...), true, "" // all three
	case 5:
		n := kit.Pick(r, c15NS)
		return []string{n, n}, true, "" // the same namespace twice
	case 6:
		return []string{kit.Pick(r, g.names)}, true, "" // a namespace named like a quota
	default:
		return nil, true, "n1,n2" // not JSON: binds nothing
	}
}

func (g *c15Gen) randParentAny() string {
	switch g.r.Weighted(20, 10, 60, 10) {
	case 0:
		return c15Root
	case 1:
		return ""
	case 2:
		return kit.Pick(g.r, g.names)
	default:
		return c15Missing
	}
}

// decorate adds the rarely set fields (allow-lent, metadata.namespace, odd is-parent spelling,
// shared weight, strict-check keys + status.used, guaranteed).
func (g *c15Gen) decorate(s c15Spec, create bool) c15Spec {
	r := g.r
	if r.Pct(8) {
		s.lent = kit.Pick(r, []string{"true", "false", "false"})
	}
	if create && r.Pct(15) {
		s.objNS = kit.Pick(r, c15ObjNSOther)
	}
	if r.Pct(2) {
		s.isParent = kit.Pick(r, []string{"True", "1"})
	}
	addExtra := func(k, v string) {
		if s.extra == nil {
			s.extra = map[string]string{}
		}
		s.extra[k] = v
	}
	if r.Pct(4) {
		addExtra(extension.AnnotationSharedWeight, kit.Pick(r, []string{`{"cpu":"3","memory":"1"}`, `{"cpu":"-1"}`, `{"nvidia.com/gpu":"1"}`, `nonsense`}))
	}
	if r.Pct(4) {
		addExtra(extension.AnnotationMaxStrictCheckResourceKeys, kit.Pick(r, []string{`["cpu"]`, `["cpu","memory"]`, `nonsense`}))
		s.used = map[string]string{"cpu": kit.Pick(r, []string{"0", "2", "4"})}
		if r.Pct(40) {
			s.used["memory"] = kit.Pick(r, []string{"0", "4"})
		}
	}
	if g.guar && r.Pct(35) {
		v := g.randVec()
		if v == nil {
			v = map[string]string{}
		}
		for k, q := range v {
			if strings.HasPrefix(q, "-") {
				v[k] = "1"
			}
		}
		b, _ := json.Marshal(c15RL(v))
		addExtra(extension.AnnotationGuaranteed, string(b))
	}
	return s
}

func (g *c15Gen) randSpec(name string) c15Spec {
	s := c15Spec{name: name, parent: g.randParentAny(), isParent: kit.Pick(g.r, []string{"true", "true", "false", ""}), tree: kit.Pick(g.r, c15Trees)}
	s.nss, s.hasNss, s.rawNss = g.randNss()
	s.max, s.min = g.randVec(), g.randVec()
	return s
}

func c15KeysOf(rl corev1.ResourceList) []string {
	var ks []string
	for k := range rl {
		ks = append(ks, string(k))
	}
	sort.Strings(ks)
	return ks
}

func c15LE(a, b string) bool {
	qa, qb := resource.MustParse(a), resource.MustParse(b)
	return qa.Cmp(qb) <= 0
}

// coherentSpec proposes an object that has a fair chance of being admitted under the chosen
// parent (same max keys as the parent, min within max and within the parent's min keys).
func (g *c15Gen) coherentSpec(name string) c15Spec {
	r, w := g.r, g.w
	s := c15Spec{name: name}
	var groups []string
	for _, n := range w.names() {
		if c15Derive(w.shadow[n]).isParent && n != name {
			groups = append(groups, n)
		}
	}
	wGroup := 55
	if len(groups) == 0 {
		wGroup = 0
	}
	var pinfo *c15Info
	switch r.Weighted(25, 10, wGroup) {
	case 0:
		s.parent = c15Root
	case 1:
		s.parent = ""
	default:
		s.parent = kit.Pick(r, groups)
		if r.Pct(40) { // prefer the deepest group now and then, so that chains grow
			best, bestD := s.parent, -1
			for _, gname := range groups {
				d, cur := 0, gname
				for d <= len(groups) {
					p := c15Derive(w.shadow[cur]).parent
					if _, ok := w.shadow[p]; !ok || p == c15Root {
						break
					}
					cur = p
					d++
				}
				if d > bestD {
					best, bestD = gname, d
				}
			}
			s.parent = best
		}
		in := c15Derive(w.shadow[s.parent])
		pinfo = &in
	}
	var keys, minKeys []string
	if pinfo != nil {
		keys, minKeys = c15KeysOf(pinfo.max), c15KeysOf(pinfo.min)
		if w.keysIncluded && len(keys) > 1 && r.Pct(40) {
			keys = keys[:len(keys)-1] // a strict subset is legal with the update-resource-key gate
		}
		s.tree = kit.Pick(r, []string{"", "", pinfo.tree})
	} else {
		keys = [][]string{{"cpu"}, {"cpu", "memory"}, {"cpu", "memory"}, {"memory"}, {}}[r.Intn(5)]
		if len(g.res) > 2 && r.Pct(40) {
			keys = append(append([]string(nil), keys...), c15GPU)
		}
		minKeys = keys
		s.tree = kit.Pick(r, c15Trees)
	}
	s.max = map[string]string{}
	for _, k := range keys {
		s.max[k] = kit.Pick(r, []string{"1", "2", "4", "4", "4"})
		if r.Pct(6) {
			s.max[k] = kit.Pick(r, []string{"1Ti", "4611686018427387904", "1500m"})
		}
	}
	s.min = map[string]string{}
	for _, k := range minKeys {
		if _, ok := s.max[k]; !ok || r.Pct(35) {
			continue
		}
		cands := []string{}
		for _, v := range append(append([]string(nil), c15Vals...), "500m", "1500m", "1Ti", "4611686018427387904") {
			if c15LE(v, s.max[k]) {
				cands = append(cands, v)
			}
		}
		s.min[k] = kit.Pick(r, cands)
	}
	s.isParent = kit.Pick(r, []string{"true", "true", "false"})
	if r.Pct(25) {
		free := []string{}
		for _, ns := range c15NS {
			taken := false
			for _, n := range w.names() {
				for _, x := range c15Derive(w.shadow[n]).nss {
					if x == ns && n != name {
						taken = true
					}
				}
			}
			if !taken {
				free = append(free, ns)
			}
		}
		if len(free) > 0 {
			s.nss, s.hasNss = []string{kit.Pick(r, free)}, true
		}
	}
	return s
}

func c15CopyVec(m map[string]string) map[string]string {
	if m == nil {
		return nil
	}
	o := map[string]string{}
	for k, v := range m {
		o[k] = v
	}
	return o
}

// mutate changes one user-editable dimension of s.
func (g *c15Gen) mutate(s c15Spec) c15Spec {
	r, w := g.r, g.w
	s.min, s.max = c15CopyVec(s.min), c15CopyVec(s.max)
	switch r.Weighted(40, 12, 20, 10, 10, 5, 3, 3) {
	case 0:
		// any existing quota (also the quota itself and its descendants), the root, or a missing one
		opts := append([]string{c15Root, "", c15Missing}, w.names()...)
		opts = append(opts, w.names()...)
		s.parent = kit.Pick(r, opts)
	case 1:
		if s.isParent == "true" {
			s.isParent = kit.Pick(r, []string{"false", ""})
		} else {
			s.isParent = "true"
		}
	case 2:
		if s.min == nil {
			s.min = map[string]string{}
		}
		k := kit.Pick(r, g.res)
		if r.Pct(25) {
			delete(s.min, k)
		} else {
			s.min[k] = g.val()
		}
	case 3:
		if s.max == nil {
			s.max = map[string]string{}
		}
		k := kit.Pick(r, g.res)
		if r.Pct(25) {
			delete(s.max, k)
		} else {
			s.max[k] = g.val()
		}
	case 4:
		s.nss, s.hasNss, s.rawNss = g.randNss()
	case 5:
		s.tree = kit.Pick(r, c15Trees)
	case 6:
		s.lent = kit.Pick(r, []string{"true", "false", ""})
	default:
		// nothing: an update that changes no field
	}
	return s
}

func TestVerifC15Sampled(t *testing.T) {
	defer c15SetGates(nil)()
	cl := c15PodIndexClient()
	kit.Run(t, kit.Config{Property: "C15", Unit: "sampled", Quick: 14000, Thorough: 250000,
		Rule: "sampled: histories of 10-40 (15% of the cases 41-80) create/update/delete requests, interleaved with pod creations through ValidateAddPod and pod deletions, on one real quotaTopology. Names: 4 (30% of the cases 6; 25% also the reserved system/default names; 25% also the root quota object as the scheduler creates it). parent in names+{root, absent label, missing}; isParent {true,false,absent, rarely 'True'/'1'}; tree {none,t1,t2}; allow-lent label rarely set; namespaces = subsets of {n1,n2,n3} of size 0-3, also a repeated entry, a namespace named like a quota, unreadable JSON; min/max over {cpu,memory} (25% of the cases also nvidia.com/gpu) with each key absent or in {0,1,2,4}, 10% from {500m,1500m,1Ti,2^62,-1}; rarely shared-weight / strict-check keys+status.used / guaranteed annotations; metadata.namespace varied. Per case the gates ElasticQuotaEnableUpdateResourceKey (15%), ElasticQuotaGuaranteeUsage (10%), SupportParentQuotaSubmitPod (10%), DisableDefaultQuota (5%) are switched on; 35% of the cases echo every accepted write through OnQuotaAdd/Update/Delete before the next request, 10% echo it lagged (count-only mode); 2% of the requests meet an API server whose List fails. 60% of the objects are proposed coherently with the current tree and then perturbed, the rest uniformly; updates change 1-2 dimensions of the stored object (parent changes may target the quota itself or its descendants). Oracle after every request; distinct = (op, outcome, multiset of per-quota depth/parent flag/children, namespace bindings, number of key sets and tree ids); non-trivial = case with accepted and rejected requests, a tree of depth >= 2 and an accepted parent change",
	}, func(c *kit.Case) {
		r := c.R
		stats := map[string]int{}
		defer c15Flush(c, stats)
		w := c15NewWorld(cl, map[string]string{}, stats)
		w.log = c.Op
		// the fake API server is shared by all cases (building one costs milliseconds): every case
		// starts and ends with no pods
		defer func() {
			c15FailList = false
			for k := range w.pods {
				parts := strings.SplitN(k, "/", 2)
				_ = cl.Delete(context.TODO(), &corev1.Pod{ObjectMeta: metav1.ObjectMeta{Namespace: parts[0], Name: parts[1]}})
			}
		}()
		// ---- the case's configuration
		g := &c15Gen{r: r, w: w, names: append([]string(nil), c15BaseNames...), res: append([]string(nil), c15Res...)}
		if r.Pct(30) {
			g.names = append(g.names, c15MoreNames...)
			stats["cases_6_names"]++
		}
		if r.Pct(25) {
			g.names = append(g.names, c15Reserved...)
			stats["cases_reserved_names"]++
		}
		rootObject := r.Pct(25)
		if r.Pct(25) {
			g.res = append(g.res, c15GPU)
		}
		gates := map[string]bool{"updkey": r.Pct(15), "guarantee": r.Pct(10), "parentpods": r.Pct(10), "nodefault": r.Pct(5)}
		defer c15SetGates(gates)()
		w.keysIncluded = gates["updkey"]
		g.guar = gates["guarantee"]
		for _, k := range c15SortedKeys(gates) {
			if gates[k] {
				stats["cases_gate_"+k]++
			}
		}
		switch r.Weighted(55, 35, 10) {
		case 1:
			w.echo = "immediate"
			stats["cases_echo_immediate"]++
		case 2:
			w.echo = "lagged"
			stats["cases_echo_lagged"]++
		}
		nreq := r.Range(10, 40)
		if r.Pct(15) {
			nreq = r.Range(41, 80)
		}
		maxPods := 4
		if len(g.names) > 4 {
			maxPods = 6
		}
		c.Op("config: names=%v resources=%v rootObject=%v gates=%v echo=%s requests=%d", g.names, g.res, rootObject, gates, c15Dash(w.echo), nreq)
		podSeq := 0
		anyAcc, anyRej, deep, parentMoved := false, false, false, false
		// lagged-echo mode: the state between an accepted write and its echo is outside the
		// statement; breaks found there are counted and end the case quietly
		lagStop := func(what string) {
			stats["lag_mode_"+what]++
		}
		for i := 0; i < nreq; i++ {
			// lagged echoes arrive in order, at arbitrary later moments
			if w.echo == "lagged" && len(w.pending) > 0 && r.Pct(55) {
				n := r.Range(1, len(w.pending))
				stop := false
				func() {
					defer func() {
						if e := recover(); e != nil {
							c.Op("  PANIC in informer handler (lagged echo): %v", e)
							lagStop("panic_in_informer_handler")
							stop = true
						}
					}()
					for ; n > 0; n-- {
						w.deliver(w.pending[0])
						w.pending = w.pending[1:]
					}
				}()
				if stop {
					return
				}
				if len(w.pending) == 0 {
					if v := w.recordedEqualsDerived("at quiescence (all echoes delivered)"); v != nil {
						c.Op("  lagged echo: %s", v.msg)
						lagStop("quiescence_" + strings.TrimPrefix(v.sig, "C15/"))
						if c15DebugOther {
							fmt.Println("C15-QUIESCENCE:", v.sig, v.msg, "\n", strings.Join(c.Ops(), "\n"))
						}
						return
					}
					stats["lag_mode_quiescent_record_checks"]++
				}
			}
			// environment: pods come and go
			if r.Pct(25) {
				if len(w.pods) < maxPods && r.Pct(65) {
					podSeq++
					ns := kit.Pick(r, append([]string{"a", "e"}, c15NS...))
					label := kit.Pick(r, append([]string{""}, g.names...))
					pw := MakePod(ns, fmt.Sprintf("p%d", podSeq))
					if label != "" {
						pw = pw.Label(extension.LabelQuotaName, label)
					}
					pod := pw.Obj()
					if err := w.qt.ValidateAddPod(pod); err != nil {
						c.Op("pod %s/%s label=%s refused by the pod webhook: %v", ns, pod.Name, c15Dash(label), err)
						stats["pod_refused"]++
					} else {
						if err := cl.Create(context.TODO(), pod); err != nil {
							c.Harness("fake client create pod: %v", err)
						}
						w.pods[ns+"/"+pod.Name] = label
						c.Op("pod %s/%s label=%s created", ns, pod.Name, c15Dash(label))
						stats["pod_created"]++
						if in, ok := w.shadow[label]; ok && label != "" && c15Derive(in).isParent {
							stats["pod_created_on_parent_quota"]++
						}
					}
				} else if len(w.pods) > 0 {
					k := kit.Pick(r, c15SortedKeys(w.pods))
					parts := strings.SplitN(k, "/", 2)
					if err := cl.Delete(context.TODO(), &corev1.Pod{ObjectMeta: metav1.ObjectMeta{Namespace: parts[0], Name: parts[1]}}); err != nil {
						c.Harness("fake client delete pod: %v", err)
					}
					delete(w.pods, k)
					c.Op("pod %s deleted", k)
					stats["pod_deleted"]++
				}
			}
			// the request
			existing := w.names()
			_, rootExists := w.shadow[c15Root]
			wCreate, wUpdate, wDelete, wRoot := 40, 0, 0, 0
			if len(existing) > 0 {
				wUpdate, wDelete = 45, 15
			}
			if len(existing) >= len(g.names) || len(existing) >= 5 && r.Pct(50) {
				wCreate = 8
			}
			if rootObject {
				wRoot = 4
			}
			var req c15Req
			switch r.Weighted(wCreate, wUpdate, wDelete, wRoot) {
			case 0:
				name := kit.Pick(r, g.names)
				if r.Pct(80) { // prefer a free name
					var free []string
					for _, n := range g.names {
						if _, ok := w.shadow[n]; !ok {
							free = append(free, n)
						}
					}
					if len(free) > 0 {
						name = kit.Pick(r, free)
					}
				}
				var s c15Spec
				switch {
				case (name == extension.SystemQuotaName || name == extension.DefaultQuotaName) && r.Pct(60):
					// as the scheduler creates them: only spec.max
					s = c15Spec{name: name, objNS: "koordinator-system", max: map[string]string{"cpu": "4", "memory": "4"}}
				case r.Pct(60):
					s = g.coherentSpec(name)
					if r.Pct(30) {
						s = g.mutate(s)
					}
					s = g.decorate(s, true)
				default:
					s = g.decorate(g.randSpec(name), true)
				}
				req = c15Req{op: "create", spec: s}
			case 1:
				name := kit.Pick(r, existing)
				if r.Pct(30) { // prefer a quota that has children: its min/keys/flag/parent are constrained from below
					var withKids []string
					for _, n := range existing {
						for _, m := range existing {
							if m != n && c15Derive(w.shadow[m]).parent == n {
								withKids = append(withKids, n)
								break
							}
						}
					}
					if len(withKids) > 0 {
						name = kit.Pick(r, withKids)
					}
				}
				var s c15Spec
				switch r.Weighted(70, 15, 15) {
				case 0:
					s = g.mutate(c15SpecOf(w.shadow[name]))
					if r.Pct(25) {
						s = g.mutate(s)
					}
				case 1:
					s = g.coherentSpec(name)
					if r.Pct(60) {
						s.tree = c15SpecOf(w.shadow[name]).tree // a tree id change is always refused
					}
					s.lent = c15SpecOf(w.shadow[name]).lent
				default:
					s = g.randSpec(name)
				}
				if r.Pct(12) {
					s = g.decorate(s, false)
				}
				req = c15Req{op: "update", spec: s}
			case 2:
				req = c15Req{op: "delete", spec: c15Spec{name: kit.Pick(r, existing)}}
			default:
				// the root quota object: created once by the scheduler; later writes to it are refused
				switch {
				case !rootExists || r.Pct(30):
					req = c15Req{op: "create", spec: c15RootSpec()}
				case r.Pct(50):
					s := c15SpecOf(w.shadow[c15Root])
					s.max = map[string]string{"cpu": "4"}
					req = c15Req{op: "update", spec: s}
				default:
					req = c15Req{op: "delete", spec: c15Spec{name: c15Root}}
				}
			}
			if r.Pct(2) {
				c15FailList = true
				c.Op("  (the API server fails List during the next request)")
				stats["requests_with_api_list_failure"]++
			}
			var acc bool
			var viol *c15Viol
			if w.echo == "lagged" {
				stop := false
				func() {
					defer func() {
						if e := recover(); e != nil {
							c.Op("  PANIC in the webhook on a record that is ahead of its echoes: %v", e)
							lagStop("panic_in_webhook")
							stop = true
						}
					}()
					acc, viol = w.request(req, true)
				}()
				c15FailList = false
				if stop {
					return
				}
				if viol != nil && viol.sig != "C15/rejected/topology-changed" {
					c.Op("  lagged echo: %s: %s", viol.sig, viol.msg)
					lagStop("break_" + strings.TrimPrefix(viol.sig, "C15/"))
					return
				}
			} else {
				acc, viol = w.request(req, true)
				c15FailList = false
			}
			if viol != nil {
				c.Fail(viol.sig, "%s", viol.msg)
			}
			outcome := "rejected"
			if acc {
				outcome = "accepted"
				anyAcc = true
				if w.lastParentChange {
					parentMoved = true
				}
				d := w.depth()
				if d >= 2 {
					deep = true
				}
				if d >= 3 {
					stats["states_depth_ge_3"]++
				}
				if d >= 5 {
					stats["states_depth_ge_5"]++
				}
				if len(w.names()) >= 5 {
					stats["states_ge_5_quotas"]++
				}
			} else {
				anyRej = true
			}
			c.Seen(req.op, outcome, w.shape())
		}
		if anyAcc && anyRej && deep && parentMoved {
			c.NonTrivial()
		}
		if c.K < 2 {
			ops := c.Ops()
			if len(ops) > 14 {
				ops = ops[:14]
			}
			c.Sample(ops)
		}
	})
}
