//go:build verif

package loadaware

// C08 monitors — shared part: environment (real podAssignCache + Plugin on a fake clock), the
// generators for pods / pod versions / NodeMetric reports, the shadow model of "which pod is
// assigned where", and the two oracles used by every unit:
//
//	(a) differential: the live cache against a FRESH cache that is fed the current metric report
//	    and the currently assigned pods (same assignment timestamps), in a random order;
//	(b) independent recomputation of the estimate from the shadow model, per the statement:
//	    reported usage + for every pod whose usage the report does not yet reflect the amount by
//	    which its estimate exceeds its reported usage.
//
// See /verif/DESIGN.md section 4, C08.
//
// Causal rules of the generated histories (what the real system can produce):
//   - informer events of one pod arrive in version order; an event showing a binding (NodeName set)
//     appears only after the scheduler reserved the pod on that node (or the pod is first seen
//     already bound: initial list / other scheduler); a terminated pod stays terminated; annotations of a
//     pod never change after creation; the koordinator priority-class / QoS labels change only on
//     bound pods and only in an update that also changes spec or conditions (label-only updates are
//     ignored by the cache by design, so they are not generated); one update may change any
//     combination of resources, priority, conditions, phase and node; a (namespace,name) is re-used with a new UID only after
//     the previous incarnation is completely gone (deleted and not reserved any more).
//   - Reserve is issued only for a pod the informer shows as unbound; the object handed to Reserve is
//     the scheduler's assumed pod (Spec.NodeName already set, as kube-scheduler's assume does);
//     Unreserve is issued only for an outstanding Reserve whose binding has not been observed.
//   - a NodeMetric status is either empty (object just created by koord-manager: no UpdateTime, no
//     NodeMetric, no PodsMetric) or complete (koordlet writes UpdateTime, NodeMetric and PodsMetric in
//     one status update); PodsMetric holds at most one entry per (namespace,name); aggregated usages
//     have distinct positive durations.
//
// Shadow model of "assigned": a pod is assigned to node N iff the scheduler holds an outstanding
// Reserve(pod,N) (object = the assumed pod), or else the informer's latest version of the pod has
// Spec.NodeName==N and is not terminated (object = that version). An informer version that shows the
// binding consumes the Reserve.

import (
	"context"
	"encoding/json"
	"fmt"
	"reflect"
	"sort"
	"strconv"
	"strings"
	"time"

	corev1 "k8s.io/api/core/v1"
	"k8s.io/apimachinery/pkg/api/errors"
	"k8s.io/apimachinery/pkg/api/resource"
	metav1 "k8s.io/apimachinery/pkg/apis/meta/v1"
	"k8s.io/apimachinery/pkg/types"
	"k8s.io/client-go/tools/cache"
	"k8s.io/klog/v2"
	clocktesting "k8s.io/utils/clock/testing"
	"k8s.io/utils/ptr"

	"github.com/koordinator-sh/koordinator/apis/extension"
	slov1alpha1 "github.com/koordinator-sh/koordinator/apis/slo/v1alpha1"
	"github.com/koordinator-sh/koordinator/pkg/scheduler/apis/config"
	"github.com/koordinator-sh/koordinator/pkg/scheduler/plugins/loadaware/estimator"
	kit "github.com/koordinator-sh/koordinator/pkg/verifkit"
)

func init() {
	klog.SetOutput(c08Discard{})
	klog.LogToStderr(false)
}

type c08Discard struct{}

func (c08Discard) Write(p []byte) (int, error) { return len(p), nil }

// c08Base is the origin of the fake time line of the estimate and conc units (no wall clock).
var c08Base = time.Date(2026, 1, 1, 0, 0, 0, 0, time.UTC)

const c08R3 = corev1.ResourceName("verif.io/r3")
const c08R4 = corev1.ResourceName("a.verif.io/r4")

var c08AggTypes = []extension.AggregationType{extension.AVG, extension.P50, extension.P90, extension.P95, extension.P99}

// ---------------------------------------------------------------------------------------------
// environment

type c08Env struct {
	args  *config.LoadAwareSchedulingArgs
	vec   ResourceVectorizer
	est   estimator.Estimator
	cache *podAssignCache
	pl    *Plugin
	clk   *clocktesting.FakeClock
	useR3 bool
	// pristine is a deep copy of the args taken before any koordinator code saw them. Everything the
	// oracles compute (per-pod estimate, node allocatable, estimation deadline, the fresh cache) is
	// computed from a NEW estimator / cache built from a new deep copy of it, so that the oracle's
	// values are functions of (object, configuration) only and never of what the live plugin's
	// estimator or args have been through.
	pristine *config.LoadAwareSchedulingArgs
	// durations used in aggregated usages of generated reports (distinct, positive)
	aggDurations []time.Duration
}

func c08Int64Ptr(r *kit.Rand, nilPct, zeroPct int, vals []int64) *int64 {
	v := r.Intn(100)
	switch {
	case v < nilPct:
		return nil
	case v < nilPct+zeroPct:
		return ptr.To[int64](0)
	}
	return ptr.To(kit.Pick(r, vals))
}

func c08GenFactor(r *kit.Rand) int64 {
	return kit.Pick(r, []int64{85, 70, 100, 100, 50, 1, 99, int64(r.Range(1, 100))})
}

// c08GenArgs generates plugin args that pass ValidateLoadAwareSchedulingArgs. Thresholds are filled
// by the filter/conc units.
func c08GenArgs(r *kit.Rand) (*config.LoadAwareSchedulingArgs, bool) {
	a := &config.LoadAwareSchedulingArgs{}
	useR3 := r.Pct(25)
	switch r.Weighted(80, 8, 7, 5) {
	case 0:
		a.EstimatedScalingFactors = map[corev1.ResourceName]int64{corev1.ResourceCPU: c08GenFactor(r), corev1.ResourceMemory: c08GenFactor(r)}
	case 1:
		a.EstimatedScalingFactors = map[corev1.ResourceName]int64{corev1.ResourceCPU: c08GenFactor(r)}
	case 2:
		a.EstimatedScalingFactors = map[corev1.ResourceName]int64{corev1.ResourceMemory: c08GenFactor(r)}
	case 3:
		// estimation disabled: every pod estimate is empty
	}
	if useR3 {
		if r.Bool() && a.EstimatedScalingFactors != nil {
			a.EstimatedScalingFactors[c08R3] = c08GenFactor(r)
		} else {
			a.SupportedResources = []corev1.ResourceName{c08R3}
		}
	}
	if r.Pct(12) {
		// a resource that is only collected (never requested, never thresholded) and whose name sorts
		// BEFORE cpu: the vector index of cpu/memory is then not 0/1
		a.SupportedResources = append(a.SupportedResources, c08R4)
	}
	a.EstimatedSecondsAfterPodScheduled = c08Int64Ptr(r, 30, 10, []int64{30, 60, 60, 300, 300, 3600, 3600, 1, 86400})
	a.EstimatedSecondsAfterInitialized = c08Int64Ptr(r, 40, 10, []int64{30, 60, 60, 600, 600, 1, 86400})
	a.AllowCustomizeEstimation = r.Pct(40)
	a.ProdUsageIncludeSys = r.Bool()
	return a, useR3
}

func c08NewEnv(c *kit.Case, args *config.LoadAwareSchedulingArgs, useR3 bool, start time.Time) *c08Env {
	e := &c08Env{args: args, useR3: useR3, pristine: args.DeepCopy()}
	e.vec = NewResourceVectorizerFromArgs(args)
	est, err := estimator.NewDefaultEstimator(args, nil)
	if err != nil {
		c.Harness("estimator: %v", err)
	}
	e.est = est
	e.clk = clocktesting.NewFakeClock(start)
	e.cache = newPodAssignCache(est, e.vec, args)
	e.cache.clock = e.clk
	e.pl = &Plugin{args: args, vectorizer: e.vec, filterProfile: NewUsageThresholdsFilterProfile(args, e.vec), estimator: est, podAssignCache: e.cache}
	e.aggDurations = []time.Duration{5 * time.Minute, 10 * time.Minute, 30 * time.Minute}
	return e
}

// oracleArgs returns a new deep copy of the configuration as generated.
func (e *c08Env) oracleArgs() *config.LoadAwareSchedulingArgs { return e.pristine.DeepCopy() }

// freshEst builds a new estimator instance from the configuration as generated (no shared state
// with the live plugin's estimator, not even the configured-factor map).
func (e *c08Env) freshEst() estimator.Estimator {
	est, err := estimator.NewDefaultEstimator(e.oracleArgs(), nil)
	if err != nil {
		panic(fmt.Sprintf("harness: estimator: %v", err))
	}
	return est
}

// oracleFactors: the scaling factors in force for a pod, from the documented configuration semantics
// (the harness decodes the pod annotation itself and does not call the extension helper under
// check): the configured estimatedScalingFactors; with allowCustomizeEstimation a pod's
// load-estimated-scaling-factors annotation — a JSON object of integer percentages — overrides
// them per resource and the configured factors fill in what it does not mention; an annotation that
// does not decode (syntax error OR a value of the wrong type, "returns nil if unmarshal error") or
// that is empty is no setting at all: the configured factors apply.
func (e *c08Env) oracleFactors(pod *corev1.Pod) map[corev1.ResourceName]int64 {
	conf := e.pristine.EstimatedScalingFactors
	if !e.pristine.AllowCustomizeEstimation {
		return conf
	}
	s := pod.Annotations[extension.AnnotationCustomEstimatedScalingFactors]
	if s == "" {
		return conf
	}
	custom := map[corev1.ResourceName]int64{}
	if err := json.Unmarshal([]byte(s), &custom); err != nil || len(custom) == 0 {
		return conf
	}
	merged := make(map[corev1.ResourceName]int64, len(conf)+len(custom))
	for k, v := range conf {
		merged[k] = v
	}
	for k, v := range custom {
		merged[k] = v
	}
	return merged
}

// oracleEstimatePod: the pod's estimate as a function of the pod and the configuration only: a new
// estimator instance, configured with exactly the factors in force for this pod (oracleFactors) and
// with per-pod customisation switched off, applied to a copy of the pod without the annotation.
func (e *c08Env) oracleEstimatePod(pod *corev1.Pod) []int64 {
	out := make([]int64, len(e.vec))
	factors := e.oracleFactors(pod)
	args := e.oracleArgs()
	args.AllowCustomizeEstimation = false
	args.EstimatedScalingFactors = nil
	if factors != nil {
		args.EstimatedScalingFactors = make(map[corev1.ResourceName]int64, len(factors))
		for k, v := range factors {
			args.EstimatedScalingFactors[k] = v
		}
	}
	est, err := estimator.NewDefaultEstimator(args, nil)
	if err != nil {
		panic(fmt.Sprintf("harness: estimator: %v", err))
	}
	bare := pod.DeepCopy()
	delete(bare.Annotations, extension.AnnotationCustomEstimatedScalingFactors)
	list, err := est.EstimatePod(bare)
	if err == nil {
		for i, name := range e.vec {
			out[i] = list[name]
		}
	}
	return out
}

// c08NonNegSeconds parses a per-pod "force estimation seconds" annotation: a user-defined number of
// seconds >= 0 (0 = no forced estimation for this pod); anything else is not a setting.
func c08NonNegSeconds(s string) (int64, bool) {
	if s == "" {
		return 0, false
	}
	v, err := strconv.ParseInt(s, 10, 64)
	if err != nil || v < 0 {
		return 0, false
	}
	return v, true
}

// oracleDeadline is the harness's OWN statement of when the report is taken not to reflect a placed
// pod yet because of the configured estimation windows. It is written from the documented
// configuration semantics and does not call the code under test:
//
//   - estimatedSecondsAfterPodScheduled (S): "the force estimation duration after pod condition
//     PodScheduled transition to True" — the pod stays estimated until (assignment time + S);
//   - estimatedSecondsAfterInitialized (I): "the force estimation duration after pod condition
//     Initialized transition to True" — once the pod IS initialized (condition True with a
//     transition time) it stays estimated until (that time + I), and this window then replaces the
//     after-scheduled one (S "might be set to a long duration to wait for time consuming init
//     containers"); a pod that is not initialized yet is governed by S alone;
//   - with allowCustomizeEstimation a pod's annotations override S / I for that pod (a number >= 0;
//     0 switches the window off); a window of 0 or an unset option forces nothing.
//
// kind: "none", "after-initialized", "after-scheduled", or "after-scheduled/not-initialized-both"
// (both windows in effect, pod not initialized yet: the long after-scheduled window must hold).
func (e *c08Env) oracleDeadline(pod *corev1.Pod, ts time.Time) (deadline time.Time, kind string) {
	a := e.pristine
	var S, I int64
	sSet, iSet := false, false
	if a.AllowCustomizeEstimation {
		if v, ok := c08NonNegSeconds(pod.Annotations[extension.AnnotationCustomEstimatedSecondsAfterPodScheduled]); ok {
			S, sSet = v, true
		}
		if v, ok := c08NonNegSeconds(pod.Annotations[extension.AnnotationCustomEstimatedSecondsAfterInitialized]); ok {
			I, iSet = v, true
		}
	}
	if !sSet && a.EstimatedSecondsAfterPodScheduled != nil {
		S = *a.EstimatedSecondsAfterPodScheduled
	}
	if !iSet && a.EstimatedSecondsAfterInitialized != nil {
		I = *a.EstimatedSecondsAfterInitialized
	}
	if I > 0 {
		for i := range pod.Status.Conditions {
			cd := &pod.Status.Conditions[i]
			if cd.Type != corev1.PodInitialized {
				continue
			}
			if cd.Status == corev1.ConditionTrue && !cd.LastTransitionTime.IsZero() {
				return cd.LastTransitionTime.Add(time.Duration(I) * time.Second), "after-initialized"
			}
			break
		}
	}
	if S > 0 && !ts.IsZero() {
		if I > 0 {
			return ts.Add(time.Duration(S) * time.Second), "after-scheduled/not-initialized-both"
		}
		return ts.Add(time.Duration(S) * time.Second), "after-scheduled"
	}
	return time.Time{}, "none"
}

func (e *c08Env) argsString() string {
	a := e.args
	p := func(x *int64) string {
		if x == nil {
			return "nil"
		}
		return fmt.Sprint(*x)
	}
	b := func(x *bool) string {
		if x == nil {
			return "nil"
		}
		return fmt.Sprint(*x)
	}
	s := fmt.Sprintf("vec=%v factors=%s afterScheduled=%s afterInitialized=%s customize=%v prodIncludeSys=%v", []corev1.ResourceName(e.vec), c08MapStr(a.EstimatedScalingFactors),
		p(a.EstimatedSecondsAfterPodScheduled), p(a.EstimatedSecondsAfterInitialized), a.AllowCustomizeEstimation, a.ProdUsageIncludeSys)
	s += fmt.Sprintf(" thresholds=%s prodThresholds=%s", c08MapStr(a.UsageThresholds), c08MapStr(a.ProdUsageThresholds))
	if g := a.Aggregated; g != nil {
		s += fmt.Sprintf(" agg={%s %s %s}", c08MapStr(g.UsageThresholds), g.UsageAggregationType, g.UsageAggregatedDuration.Duration)
	}
	s += fmt.Sprintf(" filterExpired=%s expirationSeconds=%s enableWhenExpired=%s", b(a.FilterExpiredNodeMetrics), p(a.NodeMetricExpirationSeconds), b(a.EnableScheduleWhenNodeMetricsExpired))
	return s
}

func c08MapStr(m map[corev1.ResourceName]int64) string {
	if m == nil {
		return "nil"
	}
	keys := make([]string, 0, len(m))
	for k := range m {
		keys = append(keys, string(k))
	}
	sort.Strings(keys)
	parts := make([]string, 0, len(keys))
	for _, k := range keys {
		parts = append(parts, fmt.Sprintf("%s:%d", k, m[corev1.ResourceName(k)]))
	}
	return "{" + strings.Join(parts, ",") + "}"
}

// c08Q builds the quantity that vectorises to v (milli for cpu, plain value otherwise).
func c08Q(name corev1.ResourceName, v int64) resource.Quantity {
	if name == corev1.ResourceCPU {
		return *resource.NewMilliQuantity(v, resource.DecimalSI)
	}
	return *resource.NewQuantity(v, resource.BinarySI)
}

// c08Vec is the harness's own vectorisation of a reported resource list (milli-CPU, bytes/units).
func c08Vec(vz ResourceVectorizer, list corev1.ResourceList) []int64 {
	out := make([]int64, len(vz))
	for i, name := range vz {
		q, ok := list[name]
		if !ok {
			continue
		}
		if name == corev1.ResourceCPU {
			out[i] = q.MilliValue()
		} else {
			out[i] = q.Value()
		}
	}
	return out
}

func c08ListStr(list corev1.ResourceList) string {
	if list == nil {
		return "nil"
	}
	keys := make([]string, 0, len(list))
	for k := range list {
		keys = append(keys, string(k))
	}
	sort.Strings(keys)
	parts := make([]string, 0, len(keys))
	for _, k := range keys {
		q := list[corev1.ResourceName(k)]
		short := k
		if i := strings.LastIndex(k, "/"); i >= 0 {
			short = k[i+1:]
		}
		if k == string(corev1.ResourceCPU) {
			parts = append(parts, fmt.Sprintf("%s:%dm", short, q.MilliValue()))
		} else {
			parts = append(parts, fmt.Sprintf("%s:%d", short, q.Value()))
		}
	}
	return "{" + strings.Join(parts, ",") + "}"
}

// ---------------------------------------------------------------------------------------------
// pods

type c08Pod struct {
	slot     int
	ns, name string
	inc      int // incarnation counter (new UID per incarnation)
	uid      types.UID
	inf      *corev1.Pod // latest informer version, nil when the informer does not hold the pod
	lastInf  *corev1.Pod // last object ever delivered for this incarnation
	ver      int

	reservedOn string      // outstanding Reserve
	resObj     *corev1.Pod // the assumed pod handed to Reserve

	// assignedAt: the (fake) clock value read by the harness immediately before it delivered the event
	// that placed the pod on its current node (Reserve, informer add of a bound pod, update that
	// shows a (new) node). The pod was not placed there before that instant.
	assignedAt time.Time
}

func (p *c08Pod) state() string {
	switch {
	case p.reservedOn != "" && p.inf == nil:
		return "reserved-deleted"
	case p.reservedOn != "":
		return "reserved"
	case p.inf == nil:
		return "absent"
	case c08Terminated(p.inf):
		return "terminated"
	case p.inf.Spec.NodeName != "":
		return "bound"
	}
	return "pending"
}

func c08Terminated(pod *corev1.Pod) bool {
	return pod.Status.Phase == corev1.PodSucceeded || pod.Status.Phase == corev1.PodFailed
}

// assigned returns the node the pod is assigned to per the shadow model and the object that
// represents it there ("" when not assigned).
func (p *c08Pod) assigned() (string, *corev1.Pod) {
	if p.reservedOn != "" {
		return p.reservedOn, p.resObj
	}
	if p.inf != nil && p.inf.Spec.NodeName != "" && !c08Terminated(p.inf) {
		return p.inf.Spec.NodeName, p.inf
	}
	return "", nil
}

// value pools: the everyday values are repeated, the rare ones (0 = explicit zero quantity, hundreds of
// cores, a TiB) appear once
var c08CPUPool = []int64{1, 100, 100, 250, 250, 500, 500, 999, 1000, 1000, 1001, 2000, 2000, 4000, 4000, 7777, 0, 64000, 1000000}
var c08MemPool = []int64{1, 1 << 20, 1 << 20, 200 << 20, 200 << 20, 1 << 30, 1 << 30, 1<<30 + 1, 3 << 30, 3 << 30, 1000000000, 1 << 33, 1 << 33, 0, 1 << 40}
var c08R3Pool = []int64{1, 2, 8, 100, 0, 1 << 20}

func c08P32(v int32) *int32 { return ptr.To(v) }

// priorities: nil, the class defaults (frequent) and every class boundary, both sides, plus negative and system-critical values
var c08Priorities = []*int32{nil, nil, nil, nil, c08P32(9500), c08P32(9500), c08P32(7500), c08P32(7500), c08P32(5500), c08P32(5500), c08P32(3500), c08P32(0), c08P32(0),
	c08P32(9000), c08P32(9999), c08P32(8999), c08P32(10000), c08P32(7000), c08P32(7999), c08P32(6999), c08P32(8000), c08P32(8500), c08P32(5000), c08P32(5999), c08P32(4999), c08P32(6000),
	c08P32(3000), c08P32(3999), c08P32(2999), c08P32(4000), c08P32(-1), c08P32(2000000000), c08P32(2000001000)}

func c08GenResources(r *kit.Rand, flavor int, useR3 bool) corev1.ResourceRequirements {
	req, lim := corev1.ResourceList{}, corev1.ResourceList{}
	cpuName, memName := corev1.ResourceCPU, corev1.ResourceMemory
	switch flavor {
	case 1:
		cpuName, memName = extension.BatchCPU, extension.BatchMemory
	case 2:
		cpuName, memName = extension.MidCPU, extension.MidMemory
	}
	put := func(name corev1.ResourceName, pool []int64, milli bool) {
		mk := func(v int64) resource.Quantity {
			if milli {
				if v > 0 && v < 1000 && r.Pct(6) {
					// finer than a milli-core (legal quantity, e.g. "999500u"): MilliValue rounds up
					return *resource.NewScaledQuantity(v*1000-500, resource.Micro)
				}
				return *resource.NewMilliQuantity(v, resource.DecimalSI)
			}
			return *resource.NewQuantity(v, resource.BinarySI)
		}
		v := kit.Pick(r, pool)
		switch r.Weighted(15, 50, 25, 10) {
		case 0: // nothing
		case 1:
			req[name] = mk(v)
		case 2:
			req[name] = mk(v)
			lim[name] = mk(kit.Pick(r, []int64{v, v + 1, 2 * v, 4 * v}))
		case 3:
			lim[name] = mk(v)
		}
	}
	put(cpuName, c08CPUPool, cpuName == corev1.ResourceCPU)
	put(memName, c08MemPool, false)
	if flavor == 3 { // mixed: native and batch names side by side
		put(extension.BatchCPU, c08CPUPool, false)
		put(extension.BatchMemory, c08MemPool, false)
	}
	if useR3 && r.Pct(50) {
		put(c08R3, c08R3Pool, false)
	}
	return corev1.ResourceRequirements{Requests: req, Limits: lim}
}

func c08GenContainers(r *kit.Rand, flavor int, useR3 bool) (cs, inits []corev1.Container) {
	n := kit.Pick(r, []int{1, 1, 1, 1, 1, 2, 2, 3, 4, 6})
	for i := 0; i < n; i++ {
		cs = append(cs, corev1.Container{Name: fmt.Sprintf("c%d", i), Resources: c08GenResources(r, flavor, useR3)})
	}
	for i, ni := 0, kit.Pick(r, []int{0, 0, 0, 0, 0, 0, 1, 1, 2, 3}); i < ni; i++ {
		ic := corev1.Container{Name: fmt.Sprintf("init%d", i), Resources: c08GenResources(r, flavor, useR3)}
		if r.Pct(25) {
			// restartable init container (sidecar): counts like a regular container
			ic.RestartPolicy = ptr.To(corev1.ContainerRestartPolicyAlways)
		}
		inits = append(inits, ic)
	}
	return
}

// c08NewIncarnation starts a new incarnation of the pod slot and returns its first (unbound,
// pending) object. Labels and annotations are fixed for the whole incarnation.
func c08NewIncarnation(r *kit.Rand, p *c08Pod, useR3 bool) *corev1.Pod {
	p.inc++
	p.uid = types.UID(fmt.Sprintf("%s.%s-%d", p.ns[:1], p.name, p.inc)) // slots may share a name across namespaces
	p.ver = 0
	p.inf, p.lastInf, p.reservedOn, p.resObj = nil, nil, "", nil
	flavor := r.Weighted(60, 15, 10, 15)
	pod := &corev1.Pod{
		ObjectMeta: metav1.ObjectMeta{Namespace: p.ns, Name: p.name, UID: p.uid},
		Status:     corev1.PodStatus{Phase: corev1.PodPending},
	}
	pod.Spec.Containers, pod.Spec.InitContainers = c08GenContainers(r, flavor, useR3)
	if r.Pct(8) {
		// RuntimeClass overhead is part of what the pod requests
		pod.Spec.Overhead = corev1.ResourceList{corev1.ResourceCPU: *resource.NewMilliQuantity(kit.Pick(r, []int64{10, 100, 250}), resource.DecimalSI),
			corev1.ResourceMemory: *resource.NewQuantity(kit.Pick(r, []int64{1 << 20, 64 << 20}), resource.BinarySI)}
	}
	switch flavor {
	case 1:
		pod.Spec.Priority = kit.Pick(r, []*int32{ptr.To[int32](5500), ptr.To[int32](5500), ptr.To[int32](5000), nil})
	case 2:
		pod.Spec.Priority = kit.Pick(r, []*int32{ptr.To[int32](7500), ptr.To[int32](7999), nil})
	default:
		pod.Spec.Priority = kit.Pick(r, c08Priorities)
	}
	if r.Pct(10) {
		pod.Labels = map[string]string{extension.LabelPodPriorityClass: string(kit.Pick(r, []extension.PriorityClass{extension.PriorityProd, extension.PriorityProd, extension.PriorityMid, extension.PriorityBatch, extension.PriorityFree, "bogus", ""}))}
	}
	if r.Pct(10) {
		if pod.Labels == nil {
			pod.Labels = map[string]string{}
		}
		pod.Labels[extension.LabelPodQoS] = string(kit.Pick(r, []extension.QoSClass{extension.QoSBE, extension.QoSBE, extension.QoSLS, extension.QoSLS, extension.QoSLSR, extension.QoSLSE, extension.QoSSystem, "bogus"}))
	}
	ann := map[string]string{}
	if r.Pct(15) {
		ann[extension.AnnotationCustomEstimatedScalingFactors] = kit.Pick(r, []string{`{"cpu":60}`, `{"cpu":60}`, `{"cpu":100,"memory":100}`, `{"cpu":100,"memory":100}`, `{"memory":1}`, `not-json`,
			`{}`, `{"cpu":0}`, `{"cpu":150,"memory":200}`, `{"verif.io/r3":50}`, `{"cpu":60,"unknown.io/x":10}`,
			// syntactically valid JSON with a value of the wrong type (a string, a ratio): not a setting
			`{"cpu":"50","memory":70}`, `{"cpu":0.85}`, `{"memory":70,"cpu":"50"}`, `{"cpu":50,"memory":[70]}`, `[{"cpu":50}]`})
	}
	if r.Pct(12) {
		ann[extension.AnnotationCustomEstimatedSecondsAfterPodScheduled] = kit.Pick(r, []string{"0", "120", "120", "30", "30", "-1", "x", "1", "+45", "100000000"})
	}
	if r.Pct(12) {
		ann[extension.AnnotationCustomEstimatedSecondsAfterInitialized] = kit.Pick(r, []string{"0", "90", "90", "600", "600", "-1", "1", "1e3", "100000000"})
	}
	if len(ann) > 0 {
		pod.Annotations = ann
	}
	return pod
}

func c08SetCond(pod *corev1.Pod, typ corev1.PodConditionType, status corev1.ConditionStatus, t time.Time) {
	cond := corev1.PodCondition{Type: typ, Status: status}
	if !t.IsZero() {
		cond.LastTransitionTime = metav1.NewTime(t)
	}
	for i := range pod.Status.Conditions {
		if pod.Status.Conditions[i].Type == typ {
			pod.Status.Conditions[i] = cond
			return
		}
	}
	pod.Status.Conditions = append(pod.Status.Conditions, cond)
}

func c08PodStr(pod *corev1.Pod) string {
	if pod == nil {
		return "<nil>"
	}
	prio := "nil"
	if pod.Spec.Priority != nil {
		prio = fmt.Sprint(*pod.Spec.Priority)
	}
	var cs []string
	for _, ct := range pod.Spec.InitContainers {
		cs = append(cs, "init:req"+c08ListStr(ct.Resources.Requests)+"lim"+c08ListStr(ct.Resources.Limits))
	}
	for _, ct := range pod.Spec.Containers {
		cs = append(cs, "req"+c08ListStr(ct.Resources.Requests)+"lim"+c08ListStr(ct.Resources.Limits))
	}
	var conds []string
	for _, cd := range pod.Status.Conditions {
		ts := "-"
		if !cd.LastTransitionTime.IsZero() {
			ts = cd.LastTransitionTime.Time.UTC().Format("15:04:05.000000000")
		}
		conds = append(conds, fmt.Sprintf("%s=%s@%s", cd.Type, cd.Status, ts))
	}
	own := ""
	for _, o := range pod.OwnerReferences {
		own += " owner=" + o.Kind
	}
	if len(pod.Spec.Overhead) > 0 {
		own += " overhead=" + c08ListStr(pod.Spec.Overhead)
	}
	if pod.DeletionTimestamp != nil {
		own += " deletionTimestamp=" + c08T(pod.DeletionTimestamp.Time)
	}
	return fmt.Sprintf("%s/%s uid=%s rv=%s node=%q prio=%s phase=%s labels=%v ann=%v conds=%v %s%s", pod.Namespace, pod.Name, pod.UID, pod.ResourceVersion,
		pod.Spec.NodeName, prio, pod.Status.Phase, pod.Labels, pod.Annotations, conds, strings.Join(cs, " "), own)
}

// ---------------------------------------------------------------------------------------------
// shadow model + event drivers (each driver calls the real code and updates the shadow)

type c08Model struct {
	env     *c08Env
	nodes   []string
	pods    []*c08Pod
	metrics map[string]*slov1alpha1.NodeMetric // current report per node (nil/absent = none)
	mver    map[string]int
	// concurrent units: when an estimate oracle fires and the cache turns out not to hold an object
	// the shadow model holds, the violation gets the narrow signature C08/lost-event/<kind>
	labelLost bool
}

// lostObject names an object of node that the shadow model holds and the cache (anchored state
// nodeInfo.nodeMetric / nodeInfo.podInfos) does not: "nodemetric", "pod" or "". Diagnosis only: it
// never raises a violation by itself, it narrows the signature of one raised by an estimate oracle.
func (m *c08Model) lostObject(node string) string {
	hasMetric := false
	uids := map[types.UID]bool{}
	if n, ok := m.env.cache.getNodeInfo(node); ok && n != nil {
		n.RLock()
		hasMetric = n.nodeMetric != nil
		for uid := range n.podInfos {
			uids[uid] = true
		}
		n.RUnlock()
	}
	if m.metrics[node] != nil && !hasMetric {
		return "nodemetric"
	}
	for _, p := range m.pods {
		if nd, _ := p.assigned(); nd == node && !uids[p.uid] {
			return "pod"
		}
	}
	return ""
}

func c08NewModel(env *c08Env, nnodes, npods int) *c08Model {
	m := &c08Model{env: env, metrics: map[string]*slov1alpha1.NodeMetric{}, mver: map[string]int{}}
	for i := 0; i < nnodes; i++ {
		m.nodes = append(m.nodes, fmt.Sprintf("node-%d", i))
	}
	for i := 0; i < npods; i++ {
		m.pods = append(m.pods, &c08Pod{slot: i, ns: c08Namespace(i), name: fmt.Sprintf("pod-%d", i)})
	}
	return m
}

// shareNames makes every kube-system slot carry the NAME of the default-namespace slot before it:
// two live pods then differ only in their namespace (the report is keyed by namespace AND name).
func (m *c08Model) shareNames() {
	for i, p := range m.pods {
		if i > 0 && p.ns == "kube-system" && m.pods[i-1].ns == "default" {
			p.name = m.pods[i-1].name
		}
	}
}

func c08Namespace(i int) string {
	if i%3 == 2 {
		return "kube-system"
	}
	return "default"
}

func (m *c08Model) nextVersion(p *c08Pod, obj *corev1.Pod) *corev1.Pod {
	p.ver++
	obj.ResourceVersion = fmt.Sprint(p.ver)
	return obj
}

func (m *c08Model) evInformerAdd(c *kit.Case, tag string, p *c08Pod, obj *corev1.Pod) {
	m.nextVersion(p, obj)
	c.Op("%sOnAdd %s", tag, c08PodStr(obj))
	if obj.Spec.NodeName != "" {
		p.assignedAt = m.env.clk.Now()
	}
	m.env.cache.OnAdd(obj, p.inc%2 == 0) // isInInitialList must not matter
	p.inf, p.lastInf = obj, obj
}

func (m *c08Model) evReserve(c *kit.Case, tag string, p *c08Pod, node string) {
	assumed := p.inf.DeepCopy()
	assumed.Spec.NodeName = node
	now := m.env.clk.Now()
	c.Op("%sReserve node=%s now=%s %s", tag, node, c08T(now), c08PodStr(assumed))
	p.assignedAt = now
	if st := m.env.pl.Reserve(context.TODO(), nil, assumed, node); st != nil {
		c.Fail("C08/reserve/status", "Reserve returned %v", st)
	}
	p.reservedOn, p.resObj = node, assumed
}

func (m *c08Model) evUnreserve(c *kit.Case, tag string, p *c08Pod) {
	c.Op("%sUnreserve node=%s uid=%s", tag, p.reservedOn, p.uid)
	m.env.pl.Unreserve(context.TODO(), nil, p.resObj, p.reservedOn)
	p.reservedOn, p.resObj = "", nil
}

func (m *c08Model) evUpdate(c *kit.Case, tag, what string, p *c08Pod, newObj *corev1.Pod) {
	old := p.inf
	m.nextVersion(p, newObj)
	now := m.env.clk.Now()
	c.Op("%sOnUpdate[%s] now=%s old.node=%q new: %s", tag, what, c08T(now), old.Spec.NodeName, c08PodStr(newObj))
	if before, _ := p.assigned(); newObj.Spec.NodeName != "" && newObj.Spec.NodeName != before {
		p.assignedAt = now // placed on a (new) node by this very event
	}
	m.env.cache.OnUpdate(old, newObj)
	p.inf, p.lastInf = newObj, newObj
	if p.reservedOn != "" && newObj.Spec.NodeName == p.reservedOn {
		// the informer shows the binding: the Reserve is consumed, the informer version governs
		p.reservedOn, p.resObj = "", nil
	}
}

// evResync: the informer's periodic resync delivers an update whose old and new object are the SAME object.
func (m *c08Model) evResync(c *kit.Case, tag string, p *c08Pod) {
	c.Op("%sOnUpdate[resync: old==new] uid=%s node=%q", tag, p.uid, p.inf.Spec.NodeName)
	m.env.cache.OnUpdate(p.inf, p.inf)
}

func (m *c08Model) evDelete(c *kit.Case, tag string, p *c08Pod, obj *corev1.Pod, tombstone bool) {
	c.Op("%sOnDelete tombstone=%v uid=%s node=%q", tag, tombstone, obj.UID, obj.Spec.NodeName)
	if tombstone {
		m.env.cache.OnDelete(cache.DeletedFinalStateUnknown{Key: obj.Namespace + "/" + obj.Name, Obj: obj})
	} else {
		m.env.cache.OnDelete(obj)
	}
	p.inf = nil
}

func (m *c08Model) evMetric(c *kit.Case, tag string, node string, nm *slov1alpha1.NodeMetric) {
	old := m.metrics[node]
	h := m.env.cache.NodeMetricHandler()
	c.Op("%sNodeMetric %s %s", tag, map[bool]string{true: "add", false: "update"}[old == nil], c08MetricStr(nm))
	if old == nil {
		h.OnAdd(nm, false)
	} else {
		h.OnUpdate(old, nm)
	}
	m.metrics[node] = nm
}

func (m *c08Model) evMetricDelete(c *kit.Case, tag string, node string, tombstone bool) {
	old := m.metrics[node]
	if old == nil {
		old = &slov1alpha1.NodeMetric{ObjectMeta: metav1.ObjectMeta{Name: node}}
	}
	h := m.env.cache.NodeMetricHandler()
	c.Op("%sNodeMetric delete node=%s tombstone=%v", tag, node, tombstone)
	if tombstone {
		h.OnDelete(cache.DeletedFinalStateUnknown{Key: node, Obj: old})
	} else {
		h.OnDelete(old)
	}
	delete(m.metrics, node)
}

func c08T(t time.Time) string {
	if t.IsZero() {
		return "0"
	}
	return t.UTC().Format("01-02T15:04:05.000000000")
}

// mutate derives the next informer version of a pod by applying ALL the given aspects in one update
// (the API server coalesces nothing, but one writer often changes several things at once — a kubelet
// reports phase and conditions of a finished pod in a single status update).
//
//	resources | priority           spec changes
//	cond-init | cond-sched | cond-ready   status.conditions changes
//	phase-running | terminate      phase changes (terminate: Succeeded/Failed)
//	kubelet-complete               phase Succeeded/Failed + Ready/ContainersReady=False(PodCompleted) in one update
//	labels                         koordinator priority-class / QoS label changed or removed — kept only when the
//	                               same update also changes spec or conditions (label-only updates are ignored by
//	                               the cache by design and therefore not generated) and only for bound pods
//	node-change | noop
//
// It returns the new object and the aspects that really changed something.
func (m *c08Model) mutate(r *kit.Rand, p *c08Pod, aspects []string, now time.Time) (*corev1.Pod, []string) {
	old := p.inf
	n := old.DeepCopy()
	sec := now.Truncate(time.Second)
	wantLabels := false
	for _, kind := range aspects {
		switch kind {
		case "resources":
			flavor := r.Weighted(60, 15, 10, 15)
			i := r.Intn(len(n.Spec.Containers))
			n.Spec.Containers[i].Resources = c08GenResources(r, flavor, m.env.useR3)
		case "priority":
			n.Spec.Priority = kit.Pick(r, c08Priorities)
		case "cond-init":
			if r.Pct(8) {
				c08SetCond(n, corev1.PodInitialized, corev1.ConditionUnknown, sec)
			} else if r.Pct(80) {
				c08SetCond(n, corev1.PodInitialized, corev1.ConditionTrue, sec.Add(-time.Duration(kit.Pick(r, []int{0, 1, 30, 60, 600, 3600}))*time.Second))
			} else {
				c08SetCond(n, corev1.PodInitialized, corev1.ConditionFalse, sec)
			}
		case "cond-sched":
			if n.Spec.NodeName != "" {
				c08SetCond(n, corev1.PodScheduled, corev1.ConditionTrue, sec.Add(-time.Duration(kit.Pick(r, []int{0, 1, 59, 60, 61, 300, 7200}))*time.Second))
			} else {
				c08SetCond(n, corev1.PodScheduled, corev1.ConditionFalse, sec)
			}
		case "cond-ready":
			c08SetCond(n, corev1.PodReady, kit.Pick(r, []corev1.ConditionStatus{corev1.ConditionTrue, corev1.ConditionFalse}), sec)
		case "phase-running":
			if n.Spec.NodeName != "" && !c08Terminated(n) {
				n.Status.Phase = corev1.PodRunning
				if r.Pct(10) {
					n.Status.Phase = corev1.PodUnknown // node unreachable: the pod is still placed there
				}
			}
		case "terminating":
			// graceful deletion has started (metadata only): the pod still runs on its node until it is finished or gone
			if n.DeletionTimestamp == nil {
				n.DeletionTimestamp = &metav1.Time{Time: sec}
				n.DeletionGracePeriodSeconds = ptr.To[int64](30)
			}
		case "terminate":
			n.Status.Phase = kit.Pick(r, []corev1.PodPhase{corev1.PodSucceeded, corev1.PodFailed})
		case "kubelet-complete":
			n.Status.Phase = kit.Pick(r, []corev1.PodPhase{corev1.PodSucceeded, corev1.PodSucceeded, corev1.PodFailed})
			for _, typ := range []corev1.PodConditionType{corev1.PodReady, corev1.ContainersReady} {
				c08SetCond(n, typ, corev1.ConditionFalse, sec)
				for i := range n.Status.Conditions {
					if n.Status.Conditions[i].Type == typ {
						n.Status.Conditions[i].Reason = "PodCompleted"
					}
				}
			}
			if r.Pct(40) {
				c08SetCond(n, corev1.PodInitialized, corev1.ConditionTrue, sec.Add(-time.Duration(kit.Pick(r, []int{30, 600}))*time.Second))
				for i := range n.Status.Conditions {
					if n.Status.Conditions[i].Type == corev1.PodInitialized {
						n.Status.Conditions[i].Reason = "PodCompleted"
					}
				}
			}
		case "labels":
			wantLabels = true
		case "node-change":
			var others []string
			for _, nd := range m.nodes {
				if nd != n.Spec.NodeName {
					others = append(others, nd)
				}
			}
			n.Spec.NodeName = kit.Pick(r, others)
		case "noop":
		}
	}
	observed := !reflect.DeepEqual(&n.Spec, &old.Spec) || !reflect.DeepEqual(n.Status.Conditions, old.Status.Conditions)
	if wantLabels && observed && old.Spec.NodeName != "" {
		lb := map[string]string{}
		for k, v := range old.Labels {
			lb[k] = v
		}
		switch r.Intn(3) {
		case 0:
			lb[extension.LabelPodPriorityClass] = string(kit.Pick(r, []extension.PriorityClass{extension.PriorityProd, extension.PriorityProd, extension.PriorityMid, extension.PriorityBatch, extension.PriorityFree, "bogus", ""}))
		case 1:
			lb[extension.LabelPodQoS] = string(kit.Pick(r, []extension.QoSClass{extension.QoSBE, extension.QoSLS, extension.QoSLSR, extension.QoSLSE, extension.QoSSystem, "bogus"}))
		case 2:
			delete(lb, extension.LabelPodPriorityClass)
			delete(lb, extension.LabelPodQoS)
		}
		if len(lb) == 0 {
			lb = nil
		}
		n.Labels = lb
	}
	var changed []string
	if !reflect.DeepEqual(n.Spec.Containers, old.Spec.Containers) {
		changed = append(changed, "resources")
	}
	if !reflect.DeepEqual(n.Spec.Priority, old.Spec.Priority) {
		changed = append(changed, "priority")
	}
	if n.Spec.NodeName != old.Spec.NodeName {
		changed = append(changed, "node")
	}
	if !reflect.DeepEqual(n.Status.Conditions, old.Status.Conditions) {
		changed = append(changed, "conditions")
	}
	if n.Status.Phase != old.Status.Phase {
		changed = append(changed, "phase")
	}
	if !reflect.DeepEqual(n.Labels, old.Labels) {
		changed = append(changed, "labels")
	}
	if !n.DeletionTimestamp.Equal(old.DeletionTimestamp) {
		changed = append(changed, "deletion-timestamp")
	}
	return n, changed
}

// bindConfirm builds the informer version that shows the binding of a reserved pod.
func (m *c08Model) bindConfirm(r *kit.Rand, p *c08Pod, now time.Time) *corev1.Pod {
	n := p.inf.DeepCopy()
	n.Spec.NodeName = p.reservedOn
	sec := now.Truncate(time.Second)
	switch r.Weighted(75, 15, 10) {
	case 0:
		c08SetCond(n, corev1.PodScheduled, corev1.ConditionTrue, sec.Add(-time.Duration(kit.Pick(r, []int{0, 0, 1, 2, 60}))*time.Second))
	case 1:
		c08SetCond(n, corev1.PodScheduled, corev1.ConditionTrue, time.Time{}) // condition without transition time
	case 2:
		// binding visible before the condition is
	}
	return n
}

// ---------------------------------------------------------------------------------------------
// NodeMetric reports

type c08Hint struct {
	ns, name string
	e        []int64 // estimate of the pod's current object (nil if unknown)
	prod     bool
	known    bool // e/prod valid
	ts, dl   time.Time
}

func c08MetricStr(nm *slov1alpha1.NodeMetric) string {
	if nm == nil {
		return "<nil>"
	}
	iv := "default"
	if cp := nm.Spec.CollectPolicy; cp != nil && cp.ReportIntervalSeconds != nil {
		iv = fmt.Sprint(*cp.ReportIntervalSeconds)
	}
	s := fmt.Sprintf("node=%s rv=%s interval=%s", nm.Name, nm.ResourceVersion, iv)
	if nm.Status.UpdateTime == nil {
		s += " updateTime=nil"
	} else {
		s += " updateTime=" + c08T(nm.Status.UpdateTime.Time)
	}
	if info := nm.Status.NodeMetric; info == nil {
		s += " nodeMetric=nil"
	} else {
		s += " usage=" + c08ListStr(info.NodeUsage.ResourceList) + " sys=" + c08ListStr(info.SystemUsage.ResourceList)
		for _, ag := range info.AggregatedNodeUsages {
			var ts []string
			for _, t := range c08AggTypes {
				if u, ok := ag.Usage[t]; ok {
					ts = append(ts, string(t)+c08ListStr(u.ResourceList))
				}
			}
			s += fmt.Sprintf(" agg[%s]=%v", ag.Duration.Duration, ts)
		}
	}
	for _, pm := range nm.Status.PodsMetric {
		if pm == nil {
			s += " pod<nil>"
			continue
		}
		s += fmt.Sprintf(" pod[%s/%s prio=%q %s]", pm.Namespace, pm.Name, pm.Priority, c08ListStr(pm.PodUsage.ResourceList))
	}
	return s
}

func c08GenUsageList(r *kit.Rand, env *c08Env, cpuMax, memMax int64) corev1.ResourceList {
	list := corev1.ResourceList{}
	for _, name := range env.vec {
		if r.Pct(12) {
			continue
		}
		var v int64
		switch name {
		case corev1.ResourceCPU:
			v = r.Int63n(cpuMax + 1)
		case corev1.ResourceMemory:
			v = r.Int63n(memMax + 1)
		default:
			v = r.Int63n(200)
		}
		if r.Pct(8) {
			v = 0
		} else if r.Pct(2) {
			// a figure far beyond any machine of today (still far from 64-bit overflow when summed)
			v = kit.Pick(r, []int64{1 << 44, 10000000, 1<<40 + 1})
		}
		list[name] = c08Q(name, v)
	}
	return list
}

type c08MetricOpt struct {
	updateTime time.Time // zero = pick one on/around the boundaries given by the hints
	forceFull  bool      // never generate the empty status
	interval   *int64    // report interval in seconds; nil = choose (incl. "not set" = default 60s)
}

// c08GenInterval picks a report interval: 0 = leave the collect policy unset (default 60s).
func c08GenInterval(r *kit.Rand) int64 {
	return kit.Pick(r, []int64{0, 0, 0, 20, 20, 60, 60, 60, 180, 180, 600, 600, 1, 5, 3600})
}

// c08GenMetric generates a NodeMetric object for node.
func c08GenMetric(r *kit.Rand, env *c08Env, node string, ver int, now time.Time, hints []c08Hint, opt c08MetricOpt) *slov1alpha1.NodeMetric {
	nm := &slov1alpha1.NodeMetric{ObjectMeta: metav1.ObjectMeta{Name: node, ResourceVersion: fmt.Sprint(ver)}}
	var interval = 60 * time.Second
	ivs := c08GenInterval(r)
	if opt.interval != nil {
		ivs = *opt.interval
	}
	if ivs > 0 {
		nm.Spec.CollectPolicy = &slov1alpha1.NodeMetricCollectPolicy{ReportIntervalSeconds: ptr.To(ivs)}
		interval = time.Duration(ivs) * time.Second
	} else if r.Bool() {
		nm.Spec.CollectPolicy = &slov1alpha1.NodeMetricCollectPolicy{}
	}
	updateTime := opt.updateTime
	if !opt.forceFull && r.Pct(8) {
		return nm // empty status: object just created, koordlet has not reported yet
	}
	if updateTime.IsZero() {
		cands := []time.Time{now.Truncate(time.Second), now, now.Add(-time.Duration(r.Int63n(int64(2*interval) + 1))), now.Add(5 * time.Second), now.Add(-3 * time.Hour), now.Add(-3 * time.Hour), now.Add(5 * time.Second), now.Add(-30 * 24 * time.Hour), now.Add(time.Hour)}
		for _, h := range hints {
			if !h.ts.IsZero() {
				// boundary "assigned within the report interval": updateTime-interval vs timestamp
				b := h.ts.Add(interval)
				cands = append(cands, b.Add(-time.Second), b, b, b.Add(time.Second), b.Add(-time.Nanosecond), b.Add(time.Nanosecond))
				if t := b.Truncate(time.Second); !t.Equal(b) {
					// koordlet's updateTime has second resolution on the wire: the window start is the whole
					// second just before / after a sub-second placement
					cands = append(cands, t, t, t.Add(time.Second))
				}
			}
			if !h.dl.IsZero() {
				// boundary "estimation deadline after updateTime"
				cands = append(cands, h.dl.Add(-time.Second), h.dl, h.dl, h.dl.Add(time.Second))
			}
		}
		updateTime = kit.Pick(r, cands)
	}
	nm.Status.UpdateTime = &metav1.Time{Time: updateTime}
	info := &slov1alpha1.NodeMetricInfo{}
	info.NodeUsage.ResourceList = c08GenUsageList(r, env, 64000, 256<<30)
	if r.Pct(80) {
		info.SystemUsage.ResourceList = c08GenUsageList(r, env, 4000, 8<<30)
	}
	for _, d := range env.aggDurations {
		if !r.Pct(45) {
			continue
		}
		ag := slov1alpha1.AggregatedUsage{Duration: metav1.Duration{Duration: d}, Usage: map[extension.AggregationType]slov1alpha1.ResourceMap{}}
		for _, t := range c08AggTypes {
			switch r.Weighted(40, 50, 10) {
			case 1:
				ag.Usage[t] = slov1alpha1.ResourceMap{ResourceList: c08GenUsageList(r, env, 64000, 256<<30)}
			case 2:
				ag.Usage[t] = slov1alpha1.ResourceMap{} // type present, no samples
			}
		}
		info.AggregatedNodeUsages = append(info.AggregatedNodeUsages, ag)
	}
	if len(info.AggregatedNodeUsages) > 1 && r.Bool() {
		kit.Shuffle(r, info.AggregatedNodeUsages)
	}
	nm.Status.NodeMetric = info
	for _, h := range hints {
		if !r.Pct(70) {
			continue
		}
		pm := &slov1alpha1.PodMetricInfo{Namespace: h.ns, Name: h.name}
		if !r.Pct(8) {
			list := corev1.ResourceList{}
			for i, name := range env.vec {
				var e int64
				if h.known && h.e != nil {
					e = h.e[i]
				}
				var v int64
				switch r.Weighted(10, 12, 14, 12, 14, 14, 24) {
				case 0:
					continue // resource not reported
				case 1:
					v = e - 1
				case 2:
					v = e
				case 3:
					v = e + 1
				case 4:
					v = e / 2
				case 5:
					v = 2 * e
				default:
					switch name {
					case corev1.ResourceCPU:
						v = r.Int63n(8001)
					case corev1.ResourceMemory:
						v = r.Int63n(8 << 30)
					default:
						v = r.Int63n(100)
					}
				}
				if v < 0 {
					v = 0
				}
				list[name] = c08Q(name, v)
			}
			pm.PodUsage.ResourceList = list
		}
		if h.known && r.Pct(65) {
			if h.prod {
				pm.Priority = extension.PriorityProd
			} else {
				pm.Priority = kit.Pick(r, []extension.PriorityClass{extension.PriorityMid, extension.PriorityBatch, extension.PriorityFree, extension.PriorityNone})
			}
		} else {
			pm.Priority = kit.Pick(r, []extension.PriorityClass{extension.PriorityProd, extension.PriorityProd, extension.PriorityMid, extension.PriorityBatch, extension.PriorityNone})
		}
		nm.Status.PodsMetric = append(nm.Status.PodsMetric, pm)
	}
	if r.Pct(20) {
		nm.Status.PodsMetric = append(nm.Status.PodsMetric, &slov1alpha1.PodMetricInfo{Namespace: "default", Name: "leaked-pod", Priority: extension.PriorityProd,
			PodUsage: slov1alpha1.ResourceMap{ResourceList: c08GenUsageList(r, env, 4000, 4<<30)}})
	}
	if r.Pct(8) {
		nm.Status.PodsMetric = append(nm.Status.PodsMetric, nil)
	}
	if len(nm.Status.PodsMetric) > 1 && r.Pct(30) {
		kit.Shuffle(r, nm.Status.PodsMetric)
	}
	return nm
}

// ---------------------------------------------------------------------------------------------
// oracle

type c08Mode struct {
	prod    bool
	aggType extension.AggregationType
	aggDur  time.Duration
}

func (md c08Mode) String() string {
	switch {
	case md.prod:
		return "prod"
	case md.aggType != "":
		return fmt.Sprintf("agg(%s,%s)", md.aggType, md.aggDur)
	}
	return "node"
}

func (md c08Mode) class() string {
	switch {
	case md.prod:
		return "prod"
	case md.aggType != "":
		return "aggregated"
	}
	return "node"
}

// c08Assigned is one pod assigned to the node under check, with everything the statement needs.
type c08Assigned struct {
	p   *c08Pod
	obj *corev1.Pod
	ts  time.Time // assignment timestamp
	dl  time.Time // estimation deadline (zero = none)
	dlK string    // which window gives the deadline (see oracleDeadline)
	// the cache's internal assignment time lies before the instant the placing event was delivered
	tsClamped bool
	e         []int64 // the estimator's estimate of obj, vectorised
	prod      bool
}

// assignedOn lists the pods the shadow model assigns to node (slot order). The assignment
// timestamp is the PodScheduled=True transition time of the object when it has one, otherwise the
// scheduler-internal time the cache recorded for the pod (read from the anchored podInfos state).
func (m *c08Model) assignedOn(node string) []c08Assigned {
	var out []c08Assigned
	env := m.env
	var live map[types.UID]time.Time
	if n, ok := env.cache.getNodeInfo(node); ok && n != nil {
		n.RLock()
		live = make(map[types.UID]time.Time, len(n.podInfos))
		for uid, pi := range n.podInfos {
			live[uid] = pi.timestamp
		}
		n.RUnlock()
	}
	for _, p := range m.pods {
		nd, obj := p.assigned()
		if nd != node {
			continue
		}
		a := c08Assigned{p: p, obj: obj}
		for i := range obj.Status.Conditions {
			cd := &obj.Status.Conditions[i]
			if cd.Type == corev1.PodScheduled {
				if cd.Status == corev1.ConditionTrue && !cd.LastTransitionTime.IsZero() {
					a.ts = cd.LastTransitionTime.Time
				}
				break
			}
		}
		if a.ts.IsZero() {
			// No PodScheduled=True time: the assignment time is the scheduler-internal time of the placement.
			// The cache may have renewed it at a later update of the pod (taken over from podInfos), but a
			// pod is never taken to be placed EARLIER than the harness delivered the placing event.
			if t, ok := live[p.uid]; ok {
				a.ts = t
			} else {
				a.ts = env.clk.Now()
			}
			if a.ts.Before(p.assignedAt) {
				a.ts = p.assignedAt
				a.tsClamped = true
			}
		}
		a.dl, a.dlK = env.oracleDeadline(obj, a.ts)
		a.e = env.oracleEstimatePod(obj)
		a.prod = extension.GetPodPriorityClassWithDefault(obj) == extension.PriorityProd
		out = append(out, a)
	}
	return out
}

// ghostPod: does the cache (anchored state nodeInfo.podInfos) still hold, for node, a pod that the
// shadow model does not assign to node (terminated, deleted, rolled back, moved)? Diagnosis only: it
// narrows the signature of a violation raised by an estimate oracle.
func (m *c08Model) ghostPod(node string) bool {
	want := map[types.UID]bool{}
	for _, p := range m.pods {
		if nd, _ := p.assigned(); nd == node {
			want[p.uid] = true
		}
	}
	n, ok := m.env.cache.getNodeInfo(node)
	if !ok || n == nil {
		return false
	}
	n.RLock()
	defer n.RUnlock()
	for uid := range n.podInfos {
		if !want[uid] {
			return true
		}
	}
	return false
}

// podEstimateDiffers: does the cache keep, for some assigned pod, a per-pod estimate (anchored state
// podAssignInfo.estimated) other than what a NEW estimator built from the configuration gives for
// the pod's object? Diagnosis only: it narrows the signature of a violation raised by an estimate
// oracle (the kept node estimate is then not what is computed from scratch because a per-pod
// estimate depends on something else than the pod and the configuration, e.g. on estimation history).
func (m *c08Model) podEstimateDiffers(node string, pods []c08Assigned) bool {
	n, ok := m.env.cache.getNodeInfo(node)
	if !ok || n == nil {
		return false
	}
	n.RLock()
	defer n.RUnlock()
	for _, a := range pods {
		pi := n.podInfos[a.p.uid]
		if pi == nil {
			continue
		}
		for i := range a.e {
			var v int64
			if pi.estimated != nil {
				v = pi.estimated[i]
			}
			if v != a.e[i] {
				return true
			}
		}
	}
	return false
}

// windowDiffers: does the cache keep, for some assigned pod, an estimation deadline (anchored state
// podAssignInfo.estimatedDeadline) other than the one the documented window semantics give
// (oracleDeadline)? Diagnosis only: it narrows the signature of a violation raised by an estimate oracle.
func (m *c08Model) windowDiffers(node string, pods []c08Assigned) bool {
	n, ok := m.env.cache.getNodeInfo(node)
	if !ok || n == nil {
		return false
	}
	n.RLock()
	defer n.RUnlock()
	for _, a := range pods {
		if pi := n.podInfos[a.p.uid]; pi != nil && !pi.estimatedDeadline.Equal(a.dl) {
			return true
		}
	}
	return false
}

// c08ReportedPodUsage looks the pod up in the report: its usage vector (nil = the report carries no
// usage for it) and whether the report flags it as prod.
func c08ReportedPodUsage(env *c08Env, nm *slov1alpha1.NodeMetric, ns, name string) (u []int64, reportedProd bool) {
	for _, pm := range nm.Status.PodsMetric {
		if pm == nil || pm.Namespace != ns || pm.Name != name || len(pm.PodUsage.ResourceList) == 0 {
			continue
		}
		u = c08Vec(env.vec, pm.PodUsage.ResourceList)
		reportedProd = pm.Priority == extension.PriorityProd
	}
	return
}

// c08ReportInterval: the interval the report says it is produced at (default 60s).
func c08ReportInterval(nm *slov1alpha1.NodeMetric) time.Duration {
	if cp := nm.Spec.CollectPolicy; cp != nil && cp.ReportIntervalSeconds != nil {
		return time.Duration(*cp.ReportIntervalSeconds) * time.Second
	}
	return 60 * time.Second
}

type c08ExpectStats struct {
	estimated, reflected, intervalExact, intervalNear, deadlineExact, deadlineNear, withUsage int
	// pods with a reported usage, assigned longer ago than one report interval, that are estimated
	// ONLY because an estimation window is still open at the time of the report, by window kind
	forcedOnlyByWindow map[string]int
}

// c08Expect recomputes, from the report object and the assigned pods only, what the statement says
// the estimate of the existing pods is. defined=false: the statement does not determine the value
// (a specific aggregation period that the report does not carry while the report is otherwise
// complete) — only the differential oracle applies then.
func c08Expect(env *c08Env, nm *slov1alpha1.NodeMetric, pods []c08Assigned, md c08Mode, st *c08ExpectStats) (want []int64, defined bool) {
	nres := len(env.vec)
	want = make([]int64, nres)
	info := nm.Status.NodeMetric
	// 1. the reported usage for the mode
	var base []int64 // nil = the report carries no usage figure for this mode
	switch {
	case md.prod:
		base = make([]int64, nres)
		if info != nil && env.args.ProdUsageIncludeSys {
			base = c08Vec(env.vec, info.SystemUsage.ResourceList)
		}
	case info == nil:
		base = nil
	case md.aggType == "":
		base = c08Vec(env.vec, info.NodeUsage.ResourceList)
	default:
		var best *slov1alpha1.ResourceMap
		var bestD time.Duration = -1
		for i := range info.AggregatedNodeUsages {
			ag := &info.AggregatedNodeUsages[i]
			u, ok := ag.Usage[md.aggType]
			if !ok || len(u.ResourceList) == 0 {
				continue
			}
			d := ag.Duration.Duration
			if md.aggDur != 0 {
				if d == md.aggDur {
					uu := u
					best, bestD = &uu, d
				}
			} else if d > bestD {
				uu := u
				best, bestD = &uu, d
			}
		}
		switch {
		case best != nil:
			base = c08Vec(env.vec, best.ResourceList)
		case md.aggDur == 0:
			// no period requested and none recorded: the plain node usage is the reported usage
			base = c08Vec(env.vec, info.NodeUsage.ResourceList)
		default:
			return nil, false
		}
	}
	var ut time.Time
	if nm.Status.UpdateTime != nil {
		ut = nm.Status.UpdateTime.Time
	}
	interval := c08ReportInterval(nm)
	if base != nil {
		copy(want, base)
	}
	for _, a := range pods {
		if md.prod && !a.prod {
			continue
		}
		u, reportedProd := c08ReportedPodUsage(env, nm, a.p.ns, a.p.name)
		if md.prod {
			// prod profile: only usage that the report attributes to a prod pod counts as reported
			if !reportedProd {
				u = nil
			}
			if u != nil {
				for i := range want {
					want[i] += u[i]
				}
			}
		}
		// does the report reflect the pod's usage?
		notReflected := u == nil || base == nil ||
			a.ts.After(ut.Add(-interval)) || // assigned within the report interval before the report
			(!a.dl.IsZero() && a.dl.After(ut)) // estimation still forced at the time of the report
		if st != nil {
			if u != nil {
				st.withUsage++
				if a.ts.Equal(ut.Add(-interval)) {
					st.intervalExact++
				} else if d := a.ts.Sub(ut.Add(-interval)); d >= -time.Second && d <= time.Second {
					st.intervalNear++
				}
				if !a.dl.IsZero() {
					if a.dl.Equal(ut) {
						st.deadlineExact++
					} else if d := a.dl.Sub(ut); d >= -time.Second && d <= time.Second {
						st.deadlineNear++
					}
				}
			}
			if notReflected {
				st.estimated++
				if u != nil && base != nil && !a.ts.After(ut.Add(-interval)) {
					if st.forcedOnlyByWindow == nil {
						st.forcedOnlyByWindow = map[string]int{}
					}
					st.forcedOnlyByWindow[a.dlK]++
				}
			} else {
				st.reflected++
			}
		}
		if !notReflected {
			continue
		}
		for i := range want {
			d := a.e[i]
			if u != nil && base != nil {
				d -= u[i]
			}
			if d > 0 {
				want[i] += d
			}
		}
	}
	return want, true
}

func c08VecEq(a ResourceVector, b []int64) bool {
	if len(a) != len(b) {
		return false
	}
	for i := range a {
		if a[i] != b[i] {
			return false
		}
	}
	return true
}

// c08Fresh builds a fresh cache from the current report and the assigned pods, in random order.
func c08Fresh(r *kit.Rand, env *c08Env, node string, nm *slov1alpha1.NodeMetric, pods []c08Assigned) (*podAssignCache, string) {
	f := newPodAssignCache(env.freshEst(), env.vec, env.oracleArgs())
	clk := clocktesting.NewFakeClock(env.clk.Now())
	f.clock = clk
	order := r.Perm(len(pods))
	metricAt := -1
	if nm != nil {
		metricAt = kit.Pick(r, []int{0, len(pods), r.Intn(len(pods) + 1)})
	}
	desc := ""
	for i := 0; i <= len(pods); i++ {
		if i == metricAt {
			f.AddOrUpdateNodeMetric(nm)
			desc += "M "
		}
		if i < len(pods) {
			a := pods[order[i]]
			clk.SetTime(a.ts)
			f.assign(node, a.obj)
			desc += string(a.p.uid) + " "
		}
	}
	return f, desc
}

type c08CheckOut struct {
	nAssigned, estimated, reflected int
	metricKind                      string
}

// c08CheckNode runs both oracles for one node and every mode in modes.
func c08CheckNode(c *kit.Case, or *kit.Rand, m *c08Model, node string, modes []c08Mode, where string) c08CheckOut {
	env := m.env
	nm := m.metrics[node]
	pods := m.assignedOn(node)
	out := c08CheckOut{nAssigned: len(pods), metricKind: "none"}
	sig := func(def string) string {
		if m.labelLost {
			if lost := m.lostObject(node); lost != "" {
				return "C08/lost-event/" + lost
			}
		}
		if m.ghostPod(node) {
			return "C08/estimate/ghost-pod-kept"
		}
		if m.podEstimateDiffers(node, pods) {
			return "C08/estimate/pod-estimate-not-from-scratch"
		}
		for _, a := range pods {
			if a.tsClamped {
				// diagnosis only: the cache dates the placement before the placing event was delivered
				return "C08/estimate/placement-dated-before-placement"
			}
		}
		if m.windowDiffers(node, pods) {
			return "C08/estimate/estimation-window-not-honoured"
		}
		return def
	}
	fresh, order := c08Fresh(or, env, node, nm, pods)
	if nm != nil {
		out.metricKind = "full"
		if nm.Status.NodeMetric == nil {
			out.metricKind = "empty"
		}
	}
	for mi, md := range modes {
		lnm, lvec, _, lerr := env.cache.GetNodeMetricAndEstimatedOfExisting(node, md.prod, metav1.Duration{Duration: md.aggDur}, md.aggType, false)
		_, fvec, _, ferr := fresh.GetNodeMetricAndEstimatedOfExisting(node, md.prod, metav1.Duration{Duration: md.aggDur}, md.aggType, false)
		if nm == nil {
			c.Count("cmp_no_metric", 1)
			if lerr == nil || !errors.IsNotFound(lerr) {
				c.Fail("C08/estimate/metric-deleted-but-served", "%s: node %s has no metric report, live cache returned err=%v vec=%v", where, node, lerr, lvec)
			}
			if ferr == nil {
				c.Harness("fresh cache without metric returned no error")
			}
			continue
		}
		if lerr != nil {
			c.Fail(sig("C08/estimate/metric-lost"), "%s: node %s has a metric report, live cache returned error %v (mode %s)", where, node, lerr, md)
		}
		if ferr != nil {
			c.Harness("fresh cache with metric returned %v", ferr)
		}
		if lnm != nm {
			c.Fail("C08/estimate/stale-metric-object", "%s: node %s: live cache serves NodeMetric rv=%s, current is rv=%s", where, node, lnm.ResourceVersion, nm.ResourceVersion)
		}
		c.Count("cmp_live_fresh", 1)
		if !c08VecEq(lvec, fvec) {
			c.Fail(sig("C08/estimate/drift-vs-fresh/"+md.class()), "%s: node %s mode %s: incrementally maintained estimate %v != %v computed by a fresh cache fed the current report and the %d assigned pods (feed order: %s); resources %v",
				where, node, md, lvec, fvec, len(pods), order, []corev1.ResourceName(env.vec))
		}
		var st *c08ExpectStats
		if mi == 0 {
			st = &c08ExpectStats{}
		}
		want, defined := c08Expect(env, nm, pods, md, st)
		if st != nil {
			out.estimated, out.reflected = st.estimated, st.reflected
			c.Count("pods_estimated", st.estimated)
			c.Count("pods_reflected_by_report", st.reflected)
			c.Count("boundary_interval_exact", st.intervalExact)
			c.Count("boundary_interval_within_1s", st.intervalNear)
			c.Count("boundary_deadline_exact", st.deadlineExact)
			c.Count("boundary_deadline_within_1s", st.deadlineNear)
			for _, k := range []string{"after-initialized", "after-scheduled", "after-scheduled/not-initialized-both"} {
				if n := st.forcedOnlyByWindow[k]; n > 0 {
					c.Count("pods_estimated_only_by_window_"+k, n)
				}
			}
		}
		if !defined {
			c.Count("cmp_model_skipped_agg_period_not_reported", 1)
			continue
		}
		c.Count("cmp_live_model", 1)
		c.Count("cmp_live_model_"+md.class(), 1)
		if !c08VecEq(lvec, want) {
			c.Fail(sig("C08/estimate/aggregation-vs-statement/"+md.class()), "%s: node %s mode %s: cache estimate %v != %v recomputed from the report and the %d assigned pods per the statement; resources %v; report: %s; pods: %s",
				where, node, md, lvec, want, len(pods), []corev1.ResourceName(env.vec), c08MetricStr(nm), c08AssignedStr(pods))
		}
	}
	return out
}

func c08AssignedStr(pods []c08Assigned) string {
	var parts []string
	for _, a := range pods {
		parts = append(parts, fmt.Sprintf("[%s/%s uid=%s ts=%s dl=%s e=%v prod=%v]", a.p.ns, a.p.name, a.p.uid, c08T(a.ts), c08T(a.dl), a.e, a.prod))
	}
	return strings.Join(parts, " ")
}

// c08AllModes: whole node, prod, and aggregated for every type x {no period, every generated period, one period never reported}.
func c08AllModes(env *c08Env) []c08Mode {
	modes := []c08Mode{{}, {prod: true}}
	for _, t := range c08AggTypes {
		modes = append(modes, c08Mode{aggType: t})
		for _, d := range env.aggDurations {
			modes = append(modes, c08Mode{aggType: t, aggDur: d})
		}
	}
	modes = append(modes, c08Mode{aggType: extension.P90, aggDur: 7 * time.Minute})
	return modes
}

func (m *c08Model) hints(node string, withState bool) []c08Hint {
	var hs []c08Hint
	var onNode map[int]c08Assigned
	if withState {
		onNode = map[int]c08Assigned{}
		for _, a := range m.assignedOn(node) {
			onNode[a.p.slot] = a
		}
	}
	for _, p := range m.pods {
		h := c08Hint{ns: p.ns, name: p.name}
		if a, ok := onNode[p.slot]; ok {
			h.known, h.e, h.prod, h.ts, h.dl = true, a.e, a.prod, a.ts, a.dl
		}
		hs = append(hs, h)
	}
	return hs
}

func c08JSON(v any) string {
	b, _ := json.Marshal(v)
	return string(b)
}
