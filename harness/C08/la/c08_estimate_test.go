//go:build verif

package loadaware

import (
	"fmt"
	"strings"
	"testing"
	"time"

	kit "github.com/koordinator-sh/koordinator/pkg/verifkit"
)

// stepClock advances the fake clock by a boundary-biased step (incl. 0 and sub-second steps so that
// scheduler-internal assignment timestamps are not always whole seconds).
func (m *c08Model) stepClock(r *kit.Rand) {
	d := kit.Pick(r, []time.Duration{0, time.Nanosecond, 500 * time.Millisecond, time.Second, time.Second, 7 * time.Second, 19 * time.Second, 20 * time.Second,
		59 * time.Second, 60 * time.Second, 61 * time.Second, 3 * time.Minute, 10 * time.Minute, time.Duration(r.Int63n(int64(90 * time.Second)))})
	m.env.clk.Step(d)
}

// podEvent issues one in-domain event for pod p, chosen by the pod's state, and returns its kind.
func (m *c08Model) podEvent(c *kit.Case, r *kit.Rand, tag string, p *c08Pod) string {
	now := m.env.clk.Now()
	// update issues ONE informer update that applies all the given aspects and returns its kind:
	// "update-<aspect>" when one thing changed, "update-combined[-terminate]" when several did.
	update := func(aspects []string) string {
		wasTerminated := c08Terminated(p.inf)
		nv, changed := m.mutate(r, p, aspects, now)
		m.evUpdate(c, tag, strings.Join(aspects, "+"), p, nv)
		for _, a := range aspects {
			c.Count("upd_aspect_"+a, 1)
		}
		term := !wasTerminated && c08Terminated(nv)
		if term {
			c.Count("updates_terminate", 1)
			for _, ch := range changed {
				switch ch {
				case "conditions":
					c.Count("updates_terminate_with_condition_change", 1)
				case "resources", "priority":
					c.Count("updates_terminate_with_spec_change", 1)
				}
			}
		}
		switch {
		case len(changed) >= 2:
			c.Count("updates_combined", 1)
			if term {
				return "update-combined-terminate"
			}
			return "update-combined"
		case len(changed) == 1:
			return "update-" + changed[0]
		}
		return "update-nothing-changed"
	}
	// subset draws a random non-empty subset of the aspects (each with its own percentage).
	subset := func(aspects []string, pct []int) []string {
		var out []string
		for i, a := range aspects {
			if r.Pct(pct[i]) {
				out = append(out, a)
			}
		}
		if len(out) == 0 {
			out = append(out, kit.Pick(r, aspects))
		}
		return out
	}
	pendingUpdate := func() string {
		if r.Pct(15) {
			return update([]string{"noop"})
		}
		return update(subset([]string{"resources", "priority", "cond-sched"}, []int{45, 40, 25}))
	}
	switch p.state() {
	case "absent":
		if p.lastInf != nil && r.Pct(6) {
			// delete delivered twice (harmless by the informer contract, hostile for bookkeeping)
			m.evDelete(c, tag, p, p.lastInf, r.Bool())
			return "delete-again"
		}
		obj := c08NewIncarnation(r, p, m.env.useR3)
		if r.Pct(35) {
			// first seen already bound (initial list / scheduled by another scheduler)
			obj.Spec.NodeName = kit.Pick(r, m.nodes)
			if r.Pct(85) {
				c08SetCond(obj, "PodScheduled", "True", now.Truncate(time.Second).Add(-time.Duration(kit.Pick(r, []int{0, 1, 30, 59, 60, 61, 600, 86400}))*time.Second))
			}
			if r.Pct(40) {
				c08SetCond(obj, "Initialized", "True", now.Truncate(time.Second).Add(-time.Duration(kit.Pick(r, []int{0, 1, 30, 60, 600}))*time.Second))
			}
			if r.Pct(60) {
				obj.Status.Phase = "Running"
			}
			m.evInformerAdd(c, tag, p, obj)
			return "add-bound"
		}
		if r.Pct(15) {
			c08SetCond(obj, "PodScheduled", "False", now.Truncate(time.Second))
		}
		m.evInformerAdd(c, tag, p, obj)
		return "add-pending"
	case "pending":
		switch r.Weighted(50, 35, 15) {
		case 0:
			m.evReserve(c, tag, p, kit.Pick(r, m.nodes))
			return "reserve"
		case 1:
			return pendingUpdate()
		}
		m.evDelete(c, tag, p, p.inf, r.Pct(20))
		return "delete-pending"
	case "reserved":
		switch r.Weighted(40, 22, 25, 13) {
		case 0:
			nv := m.bindConfirm(r, p, now)
			if r.Pct(15) {
				// the version that shows the binding also carries a spec change
				nv.Spec.Priority = kit.Pick(r, c08Priorities)
			}
			m.evUpdate(c, tag, "bind-confirm", p, nv)
			return "bind-confirm"
		case 1:
			m.evUnreserve(c, tag, p)
			return "unreserve"
		case 2:
			// informer still shows the pod unbound (stale w.r.t. the scheduler's own action)
			return pendingUpdate() + "-while-reserved"
		}
		m.evDelete(c, tag, p, p.inf, r.Pct(20))
		return "delete-while-reserved"
	case "reserved-deleted":
		m.evUnreserve(c, tag, p)
		return "unreserve-after-delete"
	case "bound":
		if r.Pct(18) {
			m.evDelete(c, tag, p, p.inf, r.Pct(20))
			return "delete-bound"
		}
		switch r.Weighted(8, 8, 5, 79) {
		case 0:
			// what a kubelet writes when the pod's containers have finished: phase and conditions in ONE status update
			asp := []string{"kubelet-complete"}
			if r.Pct(15) {
				asp = append(asp, "labels")
			}
			return update(asp)
		case 1:
			if len(m.nodes) >= 2 {
				asp := []string{"node-change"}
				if r.Pct(35) {
					asp = append(asp, subset([]string{"resources", "priority", "cond-sched", "cond-init", "labels"}, []int{30, 30, 30, 20, 20})...)
				}
				return update(asp)
			}
			fallthrough
		case 2:
			if r.Pct(40) {
				m.evResync(c, tag, p)
				return "resync"
			}
			return update([]string{"noop"})
		}
		asp := subset([]string{"resources", "priority", "cond-init", "cond-sched", "cond-ready", "phase-running", "terminate", "labels", "terminating"}, []int{28, 24, 18, 14, 12, 12, 6, 12, 6})
		return update(asp)
	case "terminated":
		// a finished pod stays around for a while (until its owner or the GC deletes it): reports keep coming
		if r.Pct(55) {
			return update(subset([]string{"noop", "cond-ready", "resources", "priority"}, []int{40, 35, 15, 15})) + "-terminated"
		}
		m.evDelete(c, tag, p, p.inf, r.Pct(20))
		return "delete-terminated"
	}
	c.Harness("unknown pod state %q", p.state())
	return ""
}

// metricEvent issues one NodeMetric event for node and returns its kind.
func (m *c08Model) metricEvent(c *kit.Case, r *kit.Rand, tag string, node string, withState bool) string {
	if r.Pct(12) {
		had := m.metrics[node] != nil
		m.evMetricDelete(c, tag, node, r.Pct(20))
		if had {
			return "metric-delete"
		}
		return "metric-delete-unknown"
	}
	m.mver[node]++
	nm := c08GenMetric(r, m.env, node, m.mver[node], m.env.clk.Now(), m.hints(node, withState), c08MetricOpt{})
	if withState && nm.Status.NodeMetric != nil {
		// finished pods whose object still exists: the following reports list them or (koordlet has
		// dropped the pod) do not list them any more
		for _, p := range m.pods {
			if p.inf == nil || !c08Terminated(p.inf) || p.inf.Spec.NodeName != node {
				continue
			}
			if u, _ := c08ReportedPodUsage(m.env, nm, p.ns, p.name); u == nil {
				c.Count("terminated_pods_followed_by_report_without_them", 1)
			} else {
				c.Count("terminated_pods_followed_by_report_with_them", 1)
			}
		}
	}
	had := m.metrics[node] != nil
	m.evMetric(c, tag, node, nm)
	kind := "metric-update"
	if !had {
		kind = "metric-add"
	}
	if nm.Status.NodeMetric == nil {
		kind += "-empty"
	}
	return kind
}

func TestVerifC08Estimate(t *testing.T) {
	kit.Run(t, kit.Config{Property: "C08", Unit: "estimate", Quick: 280, Thorough: 9000,
		Rule: "histories of 60-200 events (4%: 300-450) over 1-5 nodes (mostly 2-3) and 2-12 pod slots (mostly 3-8; in 35% of the cases two slots share a name across namespaces) on a real podAssignCache with a fake clock; pods with 1-6 containers, 0-3 init containers (also restartable), overhead, zero/sub-milli/huge quantities, every priority-class boundary, all priority/QoS label values, custom factor/seconds annotations incl. degenerate ones, terminating (deletionTimestamp) and phase-Unknown pods, resync updates (old==new); report intervals 1s-1h and unset, a fourth resource sorting before cpu in 12%: informer add (pending or already bound)/update changing a random non-empty COMBINATION of {resources, priority, conditions, phase incl. terminate, priority/QoS labels together with a spec/conditions change}, the kubelet's completion update (phase Succeeded/Failed + Ready/ContainersReady=False in one update) at a fixed weight, node change alone or combined, no-op; finished pods linger and are followed by reports that do and do not list them; delete(+tombstone, repeated), Reserve/Unreserve through the Plugin, binding confirmation, re-use of a name with a new UID, NodeMetric add/update/delete with updateTime placed on and around (timestamp+interval) and the estimation deadlines, pod usages present/absent/partial, prod flags right and wrong, empty status; after every event both oracles for every node x {whole node, prod, 5 aggregation types x (no period, 3 periods), one unreported period}; distinct = (event kind, pod state before, per-node report kind, #assigned, #estimated, #reflected); non-trivial = a case in which some check saw a complete report with at least one pod still estimated and at least one pod reflected by the report on the same node"},
		func(c *kit.Case) {
			r := c.R
			or := r.Fork() // oracle-side choices (fresh cache feed order) do not perturb the history
			args, useR3 := c08GenArgs(r)
			env := c08NewEnv(c, args, useR3, c08Base.Add(time.Duration(r.Intn(1000))*time.Millisecond))
			// mostly 2-3 nodes and 3-8 pod slots (collisions and re-use happen constantly); sometimes a single
			// node, 4-5 nodes, 2 slots or up to 12 slots
			m := c08NewModel(env, kit.Pick(r, []int{2, 2, 2, 3, 3, 3, 3, 1, 4, 5}), kit.Pick(r, []int{3, 4, 5, 6, 7, 8, 3, 4, 5, 6, 7, 8, 2, 10, 12}))
			if r.Pct(35) {
				m.shareNames()
				c.Count("cases_names_shared_across_namespaces", 1)
			}
			c.Count(fmt.Sprintf("cases_nodes_%d", len(m.nodes)), 1)
			if len(m.pods) >= 10 {
				c.Count("cases_10_or_more_pod_slots", 1)
			}
			if len(env.vec) >= 1 && env.vec[0] == c08R4 {
				c.Count("cases_resource_sorting_before_cpu", 1)
			}
			modes := c08AllModes(env)
			c.Op("args: %s", env.argsString())
			c.Op("nodes=%v pods=%d", m.nodes, len(m.pods))
			nev := r.Range(60, 200)
			if r.Pct(4) {
				nev = r.Range(300, 450) // an occasional long history
				c.Count("cases_long_history", 1)
			}
			nontrivial := false
			for i := 0; i < nev; i++ {
				m.stepClock(r)
				var kind, before string
				if r.Pct(72) {
					p := kit.Pick(r, m.pods)
					before = p.state()
					kind = m.podEvent(c, r, "", p)
				} else {
					before = "-"
					kind = m.metricEvent(c, r, "", kit.Pick(r, m.nodes), true)
				}
				c.Count("ev_"+kind, 1)
				where := fmt.Sprintf("after event #%d (%s)", i, kind)
				for _, node := range m.nodes {
					out := c08CheckNode(c, or, m, node, modes, where)
					c.Seen(kind, before, out.metricKind, out.nAssigned, out.estimated, out.reflected)
					if out.metricKind == "full" && out.estimated > 0 && out.reflected > 0 {
						nontrivial = true
					}
				}
			}
			c.Count("events", nev)
			if nontrivial {
				c.NonTrivial()
			}
			if c.K < 2 {
				var st []string
				for _, p := range m.pods {
					nd, _ := p.assigned()
					st = append(st, fmt.Sprintf("%s:%s@%s", p.name, p.state(), nd))
				}
				c.Sample(map[string]any{"args": env.argsString(), "events": nev, "final_pods": st})
			}
		})
}
