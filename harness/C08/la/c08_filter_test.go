//go:build verif

package loadaware

import (
	"context"
	"encoding/json"
	"fmt"
	"strings"
	"testing"
	"time"

	corev1 "k8s.io/api/core/v1"
	metav1 "k8s.io/apimachinery/pkg/apis/meta/v1"
	fwktype "k8s.io/kube-scheduler/framework"
	"k8s.io/kubernetes/pkg/scheduler/framework"
	"k8s.io/utils/ptr"

	"github.com/koordinator-sh/koordinator/apis/extension"
	slov1alpha1 "github.com/koordinator-sh/koordinator/apis/slo/v1alpha1"
	"github.com/koordinator-sh/koordinator/pkg/scheduler/apis/config"
	kit "github.com/koordinator-sh/koordinator/pkg/verifkit"
)

// ---------------------------------------------------------------------------------------------
// threshold profiles

func c08ThresholdResources(useR3 bool) []corev1.ResourceName {
	rs := []corev1.ResourceName{corev1.ResourceCPU, corev1.ResourceMemory}
	if useR3 {
		rs = append(rs, c08R3)
	}
	return rs
}

func c08GenThresholdMap(r *kit.Rand, useR3 bool) map[corev1.ResourceName]int64 {
	m := map[corev1.ResourceName]int64{}
	for _, name := range c08ThresholdResources(useR3) {
		if !r.Pct(78) {
			continue
		}
		// 12, 37, 62, 87: thresholds for which t+0.5 percent of a power-of-two allocatable is an integer
		m[name] = kit.Pick(r, []int64{0, 1, 12, 12, 37, 37, 50, 62, 62, 65, 87, 87, 95, 99, 100, int64(r.Range(1, 100)), int64(r.Range(1, 100))})
	}
	return m
}

func c08GenAggregated(r *kit.Rand, useR3 bool) (map[corev1.ResourceName]int64, extension.AggregationType, time.Duration) {
	return c08GenThresholdMap(r, useR3), kit.Pick(r, c08AggTypes), kit.Pick(r, []time.Duration{0, 0, 5 * time.Minute, 10 * time.Minute, 30 * time.Minute, 7 * time.Minute})
}

func c08GenFilterArgs(r *kit.Rand, args *config.LoadAwareSchedulingArgs, useR3 bool) {
	if r.Pct(75) {
		args.UsageThresholds = c08GenThresholdMap(r, useR3)
	}
	if r.Pct(45) {
		args.ProdUsageThresholds = c08GenThresholdMap(r, useR3)
	}
	if r.Pct(35) {
		th, t, d := c08GenAggregated(r, useR3)
		args.Aggregated = &config.LoadAwareSchedulingAggregatedArgs{UsageThresholds: th, UsageAggregationType: t, UsageAggregatedDuration: metav1.Duration{Duration: d}}
		if r.Pct(10) {
			args.Aggregated.UsageAggregationType = "" // thresholds without a type: the aggregated profile is not configured
		}
	}
	switch r.Weighted(15, 65, 20) {
	case 1:
		args.FilterExpiredNodeMetrics = ptr.To(true)
	case 2:
		args.FilterExpiredNodeMetrics = ptr.To(false)
	}
	if !r.Pct(10) {
		args.NodeMetricExpirationSeconds = ptr.To(kit.Pick(r, []int64{1800, 3600, 86400}))
	}
	switch r.Weighted(30, 30, 40) {
	case 1:
		args.EnableScheduleWhenNodeMetricsExpired = ptr.To(true)
	case 2:
		args.EnableScheduleWhenNodeMetricsExpired = ptr.To(false)
	}
}

// c08Profile is the threshold profile in force for one (node, incoming pod).
type c08Profile struct {
	mode       c08Mode
	thresholds map[corev1.ResourceName]int64
}

func c08AnyPositive(env *c08Env, m map[corev1.ResourceName]int64) bool {
	for _, name := range env.vec {
		if m[name] != 0 {
			return true
		}
	}
	return false
}

// c08EffectiveProfile: configuration semantics taken as given (not part of what is verified): a
// node annotation overrides each of the three sections it sets; a prod pod is checked against the
// prod thresholds when there are any; otherwise the aggregated profile when configured; otherwise
// the whole-node thresholds.
func c08EffectiveProfile(env *c08Env, custom *extension.CustomUsageThresholds, podProd bool) c08Profile {
	a := env.args
	whole, prod := a.UsageThresholds, a.ProdUsageThresholds
	var aggTh map[corev1.ResourceName]int64
	var aggType extension.AggregationType
	var aggDur time.Duration
	hasAgg := false
	if g := a.Aggregated; g != nil && len(g.UsageThresholds) > 0 && g.UsageAggregationType != "" {
		hasAgg, aggTh, aggType, aggDur = true, g.UsageThresholds, g.UsageAggregationType, g.UsageAggregatedDuration.Duration
	}
	if custom != nil {
		if len(custom.UsageThresholds) > 0 {
			whole = custom.UsageThresholds
		}
		if len(custom.ProdUsageThresholds) > 0 {
			prod = custom.ProdUsageThresholds
		}
		if g := custom.AggregatedUsage; g != nil {
			hasAgg, aggTh, aggType, aggDur = true, g.UsageThresholds, g.UsageAggregationType, 0
			if g.UsageAggregatedDuration != nil {
				aggDur = g.UsageAggregatedDuration.Duration
			}
		}
	}
	switch {
	case podProd && c08AnyPositive(env, prod):
		return c08Profile{mode: c08Mode{prod: true}, thresholds: prod}
	case hasAgg:
		return c08Profile{mode: c08Mode{aggType: aggType, aggDur: aggDur}, thresholds: aggTh}
	}
	return c08Profile{mode: c08Mode{}, thresholds: whole}
}

// ---------------------------------------------------------------------------------------------
// node

func c08GenNode(r *kit.Rand, env *c08Env, name string) (*corev1.Node, *extension.CustomUsageThresholds) {
	node := &corev1.Node{ObjectMeta: metav1.ObjectMeta{Name: name}}
	alloc := corev1.ResourceList{}
	// power-of-two values make the float division in the percentage exact
	cpu := kit.Pick(r, []int64{4000, 8000, 16000, 32000, 64000, 96000, 8192, 8192, 16384, 16384, 65536, 65536, 0, -1, 1000, 500, 256000, 1 << 20})
	mem := kit.Pick(r, []int64{8 << 30, 16 << 30, 64 << 30, 64 << 30, 256 << 30, 100000000000, 1000 << 20, 0, -1, 1 << 30, 512 << 20, 1 << 40, 12 << 40})
	if cpu >= 0 {
		alloc[corev1.ResourceCPU] = c08Q(corev1.ResourceCPU, cpu)
	}
	if mem >= 0 {
		alloc[corev1.ResourceMemory] = c08Q(corev1.ResourceMemory, mem)
	}
	if env.useR3 {
		alloc[c08R3] = c08Q(c08R3, kit.Pick(r, []int64{0, 8, 100, 128, 128, 1, 1 << 20}))
	}
	alloc[corev1.ResourcePods] = c08Q(corev1.ResourcePods, 110)
	node.Status.Allocatable = alloc
	if r.Pct(25) && cpu > 0 {
		// amplified node: status.allocatable is the amplified figure, the annotation holds the raw one.
		// Either dimension may be the only amplified one (the ratio annotation is per resource).
		raw := corev1.ResourceList{corev1.ResourceCPU: c08Q(corev1.ResourceCPU, cpu)}
		mode := r.Weighted(40, 30, 30) // cpu only listed / cpu+memory listed / memory-only amplified
		if mode != 2 || mem <= 0 {
			alloc[corev1.ResourceCPU] = c08Q(corev1.ResourceCPU, cpu*3/2)
		}
		if mode >= 1 && mem > 0 {
			raw[corev1.ResourceMemory] = c08Q(corev1.ResourceMemory, mem)
			if mode == 2 || r.Bool() {
				alloc[corev1.ResourceMemory] = c08Q(corev1.ResourceMemory, mem*2)
			}
		}
		extension.SetNodeRawAllocatable(node, raw)
	}
	var custom *extension.CustomUsageThresholds
	if r.Pct(25) {
		custom = &extension.CustomUsageThresholds{}
		if r.Pct(55) {
			custom.UsageThresholds = c08GenThresholdMap(r, env.useR3)
		}
		if r.Pct(40) {
			custom.ProdUsageThresholds = c08GenThresholdMap(r, env.useR3)
		}
		if r.Pct(35) {
			th, t, d := c08GenAggregated(r, env.useR3)
			if len(th) > 0 {
				custom.AggregatedUsage = &extension.CustomAggregatedUsage{UsageThresholds: th, UsageAggregationType: t}
				if d != 0 || r.Bool() {
					custom.AggregatedUsage.UsageAggregatedDuration = &metav1.Duration{Duration: d}
				}
			}
		}
		if node.Annotations == nil {
			node.Annotations = map[string]string{}
		}
		if r.Pct(10) {
			// a threshold on a resource the plugin does not collect: nothing is reported or estimated for it
			// (the annotation section still replaces the section of the args)
			if custom.UsageThresholds == nil {
				custom.UsageThresholds = map[corev1.ResourceName]int64{}
			}
			custom.UsageThresholds["unknown.verif.io/x"] = int64(r.Range(1, 100))
		}
		node.Annotations[extension.AnnotationCustomUsageThresholds] = c08JSON(custom)
		switch {
		case r.Pct(6):
			// unparsable annotation: the configured (args) thresholds stay in force
			node.Annotations[extension.AnnotationCustomUsageThresholds] = `{"usageThresholds": {"cpu": "a lot"`
			custom = nil
		case custom.AggregatedUsage != nil && r.Pct(10):
			// aggregated section without an aggregation type is not a configuration: the section of the args stays in force
			noType := *custom
			noType.AggregatedUsage = &extension.CustomAggregatedUsage{UsageThresholds: custom.AggregatedUsage.UsageThresholds}
			node.Annotations[extension.AnnotationCustomUsageThresholds] = c08JSON(&noType)
			custom.AggregatedUsage = nil
		}
		if custom != nil && len(custom.UsageThresholds) == 0 && len(custom.ProdUsageThresholds) == 0 && custom.AggregatedUsage == nil {
			custom = nil
		}
	}
	return node, custom
}

// ---------------------------------------------------------------------------------------------
// placing the percentage

// c08FreeVar returns the resource list of the report whose entry for a resource moves the reported
// usage of the profile one-to-one (nil if there is none in this scenario).
func c08FreeVar(env *c08Env, nm *slov1alpha1.NodeMetric, md c08Mode, filler *c08Pod, createAgg bool) corev1.ResourceList {
	info := nm.Status.NodeMetric
	switch {
	case md.prod:
		if env.args.ProdUsageIncludeSys {
			if info.SystemUsage.ResourceList == nil {
				info.SystemUsage.ResourceList = corev1.ResourceList{}
			}
			return info.SystemUsage.ResourceList
		}
		if filler == nil {
			return nil
		}
		for _, pm := range nm.Status.PodsMetric {
			if pm != nil && pm.Namespace == filler.ns && pm.Name == filler.name {
				return pm.PodUsage.ResourceList
			}
		}
		return nil
	case md.aggType == "":
		return info.NodeUsage.ResourceList
	}
	var best corev1.ResourceList
	var bestD time.Duration = -1
	for i := range info.AggregatedNodeUsages {
		ag := &info.AggregatedNodeUsages[i]
		u, ok := ag.Usage[md.aggType]
		if !ok || len(u.ResourceList) == 0 {
			continue
		}
		d := ag.Duration.Duration
		if md.aggDur != 0 {
			if d == md.aggDur {
				best, bestD = u.ResourceList, d
			}
		} else if d > bestD {
			best, bestD = u.ResourceList, d
		}
	}
	if best != nil {
		return best
	}
	if md.aggDur == 0 {
		return info.NodeUsage.ResourceList
	}
	if !createAgg {
		return nil
	}
	list := corev1.ResourceList{corev1.ResourceCPU: c08Q(corev1.ResourceCPU, 1)}
	for i := range info.AggregatedNodeUsages {
		if ag := &info.AggregatedNodeUsages[i]; ag.Duration.Duration == md.aggDur {
			ag.Usage[md.aggType] = slov1alpha1.ResourceMap{ResourceList: list}
			return list
		}
	}
	info.AggregatedNodeUsages = append(info.AggregatedNodeUsages, slov1alpha1.AggregatedUsage{Duration: metav1.Duration{Duration: md.aggDur},
		Usage: map[extension.AggregationType]slov1alpha1.ResourceMap{md.aggType: {ResourceList: list}}})
	return list
}

var c08TargetKinds = []string{"t-1", "t", "t+0.49", "t+0.5", "t+1", "random"}

// c08Target: the total (existing + incoming) that puts 100*total/alloc at the wanted place.
func c08Target(r *kit.Rand, kind string, t, alloc int64) int64 {
	switch kind {
	case "t-1":
		return (t - 1) * alloc / 100
	case "t":
		return t * alloc / 100
	case "t+0.49":
		return (100*t + 49) * alloc / 10000
	case "t+0.5":
		v := (2*t + 1) * alloc
		if v%200 == 0 {
			return v / 200 // exactly t+0.5 percent
		}
		if r.Bool() {
			return v / 200 // just below
		}
		return v/200 + 1 // just above
	case "t+1":
		return (t+1)*alloc/100 + 1
	}
	return r.Int63n(alloc*12/10 + 1)
}

func c08IsPow2(x int64) bool { return x > 0 && x&(x-1) == 0 }

// ---------------------------------------------------------------------------------------------

func TestVerifC08Filter(t *testing.T) {
	kit.Run(t, kit.Config{Property: "C08", Unit: "filter", Quick: 7000, Thorough: 150000,
		Rule: "one node (allocatable incl. powers of two, zero/missing entries, amplified with raw-allocatable annotation, optional custom-threshold annotation), generated args (whole/prod/aggregated thresholds 0-100, scaling factors, estimation deadlines, expiry switches), 0-5 assigned pods (bound or reserved, timestamps and deadlines on/around the report boundaries) plus an optional old prod pod, one incoming pod; scenarios: daemon-set pod, no report, expired/empty report x the two switches, and threshold decisions where the free usage figure of the profile in force is set so that (existing+incoming)/allocatable lands at t-1, t, t+0.49, t+0.5, t+1 percent or anywhere; every Filter call is one evaluation; distinct = (scenario, profile class, target, outcome, #thresholded resources, expiry switches, PreFilter used); non-trivial = a case with at least one pass and one rejection among its threshold decisions",
	}, func(c *kit.Case) {
		r := c.R
		// The expiry check inside Filter reads the wall clock (time.Since). The wall clock is used only as
		// the origin of this case's time line; every updateTime is >= 10 min away from the expiry
		// threshold on either side, every other relation is relative to the generated updateTime.
		wall := time.Now().Truncate(time.Second)
		args, useR3 := c08GenArgs(r)
		c08GenFilterArgs(r, args, useR3)
		env := c08NewEnv(c, args, useR3, wall)
		m := c08NewModel(env, 1, kit.Pick(r, []int{0, 1, 2, 3, 4, 5, 0, 1, 2, 3, 4, 5, 8, 12})+1)
		if r.Pct(35) {
			m.shareNames()
		}
		nodeName := m.nodes[0]
		node, custom := c08GenNode(r, env, nodeName)
		ni := framework.NewNodeInfo()
		ni.SetNode(node)
		// the allocatable the thresholds are percentages of, decoded by the harness itself: the raw
		// (un-amplified) figure for every dimension the raw-allocatable annotation lists, else status.allocatable
		allocList := node.Status.Allocatable.DeepCopy()
		if s, ok := node.Annotations[extension.AnnotationNodeRawAllocatable]; ok {
			rawList := corev1.ResourceList{}
			if err := json.Unmarshal([]byte(s), &rawList); err != nil {
				c.Harness("raw allocatable annotation: %v", err)
			}
			amplified := false
			for k, v := range rawList {
				if cur, ok := allocList[k]; !ok || cur.Cmp(v) != 0 {
					amplified = true
				}
				allocList[k] = v
			}
			if amplified {
				c.Count("amplified_nodes", 1)
			}
		}
		alloc := c08Vec(env.vec, allocList)
		if a, ok := node.Annotations[extension.AnnotationCustomUsageThresholds]; ok {
			switch {
			case strings.Contains(a, "a lot"):
				c.Count("node_annotation_unparsable", 1)
			case strings.Contains(a, "unknown.verif.io/x"):
				c.Count("node_annotation_threshold_on_uncollected_resource", 1)
			case strings.Contains(a, "aggregatedUsage") && !strings.Contains(a, "usageAggregationType"):
				c.Count("node_annotation_aggregated_without_type", 1)
			default:
				c.Count("node_annotation_custom_thresholds", 1)
			}
		}
		c.Op("args: %s", env.argsString())
		c.Op("node: allocatable=%s annotations=%v => allocatable used %v", c08ListStr(node.Status.Allocatable), node.Annotations, alloc)

		expiryOn := args.FilterExpiredNodeMetrics != nil && *args.FilterExpiredNodeMetrics && args.NodeMetricExpirationSeconds != nil
		rejectExpired := args.EnableScheduleWhenNodeMetricsExpired != nil && !*args.EnableScheduleWhenNodeMetricsExpired
		scenario := []string{"daemonset", "no-report", "expired", "threshold"}[r.Weighted(7, 7, 14, 72)]
		var exp int64 = 1800
		if args.NodeMetricExpirationSeconds != nil {
			exp = *args.NodeMetricExpirationSeconds
		}
		var ut time.Time
		emptyStatus := false
		switch scenario {
		case "expired":
			if r.Pct(25) {
				emptyStatus = true // never reported: no updateTime at all
			} else {
				ut = wall.Add(-time.Duration(exp+600+int64(r.Intn(86400))) * time.Second)
			}
		default:
			ut = wall.Add(-time.Duration(r.Intn(1201)) * time.Second) // >= 10 min inside the smallest expiry (1800s)
		}
		ivs := c08GenInterval(r)
		interval := 60 * time.Second
		if ivs > 0 {
			interval = time.Duration(ivs) * time.Second
		}
		refUT := ut
		if refUT.IsZero() {
			refUT = wall
		}

		// ---- pods already on the node. Slot 0 is the optional "filler": a prod pod assigned long ago,
		// past every deadline, whose reported usage is therefore fully reflected by the report.
		var filler *c08Pod
		tsCands := []time.Duration{-interval - time.Second, -interval, -interval, -interval + time.Second, -interval - time.Hour, -time.Second, 5 * time.Second, -interval + time.Nanosecond, -interval + 300*time.Millisecond, -interval + 999*time.Millisecond, -interval - 300*time.Millisecond}
		for _, s := range []*int64{args.EstimatedSecondsAfterPodScheduled} {
			if s != nil && *s > 0 {
				d := time.Duration(*s) * time.Second
				tsCands = append(tsCands, -d-time.Second, -d, -d+time.Second)
				if d > interval+2*time.Second {
					// scheduled longer ago than one report interval, after-scheduled window still open
					tsCands = append(tsCands, -interval-(d-interval)/2, -interval-(d-interval)/2, -interval-time.Second-time.Second)
				}
			}
		}
		for i, p := range m.pods {
			if i == 0 {
				if !r.Pct(70) {
					continue
				}
				filler = p
				obj := c08NewIncarnation(r, p, useR3)
				obj.Labels, obj.Annotations = nil, nil
				obj.Spec.Priority = ptr.To[int32](9500)
				obj.Spec.NodeName = nodeName
				obj.Status.Phase = corev1.PodRunning
				c08SetCond(obj, corev1.PodScheduled, corev1.ConditionTrue, refUT.Add(-30*24*time.Hour))
				m.evInformerAdd(c, "", p, obj)
				continue
			}
			obj := c08NewIncarnation(r, p, useR3)
			ts := refUT.Add(kit.Pick(r, tsCands))
			if r.Pct(70) {
				obj.Spec.NodeName = nodeName
				obj.Status.Phase = corev1.PodRunning
				if r.Pct(90) {
					c08SetCond(obj, corev1.PodScheduled, corev1.ConditionTrue, ts.Truncate(time.Second))
				} else {
					env.clk.SetTime(ts)
				}
				if s := args.EstimatedSecondsAfterInitialized; r.Pct(50) {
					d := time.Duration(kit.Pick(r, []int{0, 30, 600})) * time.Second
					if s != nil && *s > 0 && r.Pct(70) {
						d = time.Duration(*s) * time.Second
					}
					c08SetCond(obj, corev1.PodInitialized, corev1.ConditionTrue, refUT.Add(-d).Add(time.Duration(r.Range(-1, 1))*time.Second).Truncate(time.Second))
				} else if r.Pct(40) {
					// still running its init containers
					obj.Status.Phase = corev1.PodPending
					c08SetCond(obj, corev1.PodInitialized, corev1.ConditionFalse, ts.Truncate(time.Second))
				}
				m.evInformerAdd(c, "", p, obj)
			} else {
				m.evInformerAdd(c, "", p, obj)
				env.clk.SetTime(ts)
				m.evReserve(c, "", p, nodeName)
			}
		}
		env.clk.SetTime(wall)

		// ---- incoming pod
		inc := &c08Pod{slot: 100, ns: "default", name: "incoming"}
		incoming := c08NewIncarnation(r, inc, useR3)
		if scenario == "daemonset" || r.Pct(2) {
			incoming.OwnerReferences = []metav1.OwnerReference{{APIVersion: "apps/v1", Kind: "DaemonSet", Name: "ds", UID: "ds-uid"}}
			if r.Bool() {
				incoming.OwnerReferences = append([]metav1.OwnerReference{{APIVersion: "v1", Kind: "Something", Name: "x", UID: "x"}}, incoming.OwnerReferences...)
			}
		}
		isDS := len(incoming.OwnerReferences) > 0
		// the incoming pod's own estimate: a function of the pod and the configuration only (new estimator instance)
		incVec := env.oracleEstimatePod(incoming)
		podProd := extension.GetPodPriorityClassWithDefault(incoming) == extension.PriorityProd
		prof := c08EffectiveProfile(env, custom, podProd)
		c.Op("incoming: %s estimate=%v prod=%v => profile %s thresholds=%s", c08PodStr(incoming), incVec, podProd, prof.mode, c08MapStr(prof.thresholds))

		// thresholded resources with non-zero allocatable
		var thIdx []int
		for i, name := range env.vec {
			if prof.thresholds[name] > 0 && alloc[i] > 0 {
				thIdx = append(thIdx, i)
			}
		}

		doFilter := func() (*fwktype.Status, bool) {
			state := framework.NewCycleState()
			pre := r.Bool()
			if pre {
				env.pl.PreFilter(context.TODO(), state, incoming, nil)
			}
			return env.pl.Filter(context.TODO(), state, incoming, ni), pre
		}

		newMetric := func(full bool) *slov1alpha1.NodeMetric {
			m.mver[nodeName]++
			opt := c08MetricOpt{updateTime: ut, forceFull: full, interval: &ivs}
			nm := c08GenMetric(r, env, nodeName, m.mver[nodeName], wall, m.hints(nodeName, true), opt)
			if filler != nil && nm.Status.NodeMetric != nil {
				// the filler is always reported, as prod, with a usage for every resource
				kept := nm.Status.PodsMetric[:0]
				for _, pm := range nm.Status.PodsMetric {
					if pm == nil || pm.Namespace != filler.ns || pm.Name != filler.name {
						kept = append(kept, pm)
					}
				}
				list := corev1.ResourceList{}
				for _, name := range env.vec {
					list[name] = c08Q(name, int64(r.Intn(1000)))
				}
				nm.Status.PodsMetric = append(kept, &slov1alpha1.PodMetricInfo{Namespace: filler.ns, Name: filler.name, Priority: extension.PriorityProd, PodUsage: slov1alpha1.ResourceMap{ResourceList: list}})
			}
			return nm
		}

		switch scenario {
		case "daemonset":
			// make the node as loaded as it gets: the decision must not depend on it
			if r.Pct(85) {
				nm := newMetric(true)
				for _, name := range env.vec {
					nm.Status.NodeMetric.NodeUsage.ResourceList[name] = c08Q(name, 1<<40)
				}
				m.evMetric(c, "", nodeName, nm)
			}
			st, pre := doFilter()
			c.Op("Filter(daemonset pod) => %v", st)
			c.Count("filter_daemonset", 1)
			c.Seen(scenario, st.IsSuccess(), pre)
			if !st.IsSuccess() {
				c.Fail("C08/filter/daemonset-rejected", "daemon-set pod did not pass load-aware filtering: %v", st)
			}
			return
		case "no-report":
			switch r.Intn(3) {
			case 0:
			case 1:
				m.evMetric(c, "", nodeName, newMetric(false))
				m.evMetricDelete(c, "", nodeName, r.Bool())
			case 2:
				// the report of another node does not count
				m.evMetric(c, "", "other-node", c08GenMetric(r, env, "other-node", 1, wall, nil, c08MetricOpt{updateTime: ut, forceFull: true}))
			}
			st, pre := doFilter()
			c.Op("Filter(no report) => %v", st)
			c.Count("filter_no_report", 1)
			c.Seen(scenario, st.IsSuccess(), pre, isDS)
			if !st.IsSuccess() {
				c.Fail("C08/filter/no-report-rejected", "node without NodeMetric must be skipped by load-aware filtering, got %v", st)
			}
			return
		case "expired":
			var nm *slov1alpha1.NodeMetric
			if emptyStatus {
				m.mver[nodeName]++
				nm = &slov1alpha1.NodeMetric{ObjectMeta: metav1.ObjectMeta{Name: nodeName, ResourceVersion: fmt.Sprint(m.mver[nodeName])}}
			} else {
				nm = newMetric(true)
				if r.Bool() {
					// heavily loaded: a node skipped because of expiry must pass whatever the stale figures say
					for _, name := range env.vec {
						nm.Status.NodeMetric.NodeUsage.ResourceList[name] = c08Q(name, 1<<40)
					}
				}
			}
			m.evMetric(c, "", nodeName, nm)
			st, pre := doFilter()
			c.Op("Filter(expired report; filterExpired=%v rejectExpired=%v) => %v", expiryOn, rejectExpired, st)
			c.Seen(scenario, emptyStatus, expiryOn, rejectExpired, st.IsSuccess(), pre, isDS, len(thIdx) > 0, prof.mode.class())
			if isDS {
				if !st.IsSuccess() {
					c.Fail("C08/filter/daemonset-rejected", "daemon-set pod did not pass load-aware filtering: %v", st)
				}
				return
			}
			noThresholds := !c08AnyPositive(env, prof.thresholds)
			switch {
			case noThresholds:
				// nothing is thresholded for this pod: the plugin is not in force
				c.Count("filter_expired_no_thresholds", 1)
				if !st.IsSuccess() {
					c.Count("converse_misses_rejected_without_thresholds", 1)
				}
			case expiryOn && rejectExpired:
				c.Count("filter_expired_must_reject", 1)
				if st.IsSuccess() || st.Code() != fwktype.Unschedulable {
					c.Fail("C08/filter/expired-not-rejected", "expired NodeMetric, filterExpiredNodeMetrics=true, enableScheduleWhenNodeMetricsExpired=false: want Unschedulable, got %v", st)
				}
			case expiryOn:
				c.Count("filter_expired_must_skip", 1)
				if !st.IsSuccess() {
					c.Fail("C08/filter/expired-not-skipped", "expired NodeMetric, filterExpiredNodeMetrics=true, scheduling on expired metrics allowed: node must be skipped (pass), got %v", st)
				}
			default:
				// expiry is not checked by configuration: the stale report is used like a fresh one
				c.Count("filter_expired_unchecked", 1)
				if nm.Status.NodeMetric != nil {
					c08CheckDecision(c, env, m, nodeName, prof, alloc, incVec, st, "expired-unchecked")
				}
			}
			return
		}

		// ---- threshold decisions
		passes, rejects := 0, 0
		for _, kind := range c08TargetKinds {
			nm := newMetric(true)
			createAgg := r.Pct(90)
			free := c08FreeVar(env, nm, prof.mode, filler, createAgg)
			boundary := -1
			if len(thIdx) > 0 {
				boundary = kit.Pick(r, thIdx)
			}
			placed := false
			if free != nil && boundary >= 0 {
				// set the free figure to 0, recompute what the statement gives, then move it to the target
				for _, i := range thIdx {
					free[env.vec[i]] = c08Q(env.vec[i], 0)
				}
				pods := m.assignedOn(nodeName)
				x0, defined := c08Expect(env, nm, pods, prof.mode, nil)
				if defined {
					for _, i := range thIdx {
						name := env.vec[i]
						th := prof.thresholds[name]
						var target int64
						if i == boundary {
							target = c08Target(r, kind, th, alloc[i])
						} else if r.Pct(65) {
							target = th * alloc[i] / 200 // well below: let the boundary resource decide
						} else {
							target = c08Target(r, "random", th, alloc[i])
						}
						need := target - x0[i] - incVec[i]
						if need >= 0 {
							free[name] = c08Q(name, need)
							if i == boundary {
								placed = true
							}
						} else {
							free[name] = c08Q(name, 0)
						}
					}
				}
			}
			if placed {
				c.Count("placed_"+kind, 1)
			} else {
				c.Count("not_placed", 1)
			}
			m.evMetric(c, "", nodeName, nm)
			st, pre := doFilter()
			c.Op("Filter(target %s on %v, placed=%v, prefilter=%v) => %v", kind, boundaryName(env, boundary), placed, pre, st)
			c.Evals(1)
			if isDS {
				if !st.IsSuccess() {
					c.Fail("C08/filter/daemonset-rejected", "daemon-set pod did not pass load-aware filtering: %v", st)
				}
				c.Count("filter_daemonset", 1)
				continue
			}
			if expiryOn {
				c.Count("filter_fresh_report_with_expiry_check", 1)
			}
			res := c08CheckDecision(c, env, m, nodeName, prof, alloc, incVec, st, kind)
			if st.IsSuccess() {
				passes++
			} else {
				rejects++
			}
			tk := kind
			if !placed {
				tk = "unplaced"
			}
			c.Seen(scenario, prof.mode.class(), tk, st.IsSuccess(), len(thIdx), res, pre, expiryOn)
		}
		c.Evals(-1) // the case itself is counted by the driver; evaluations = Filter calls
		if passes > 0 && rejects > 0 {
			c.NonTrivial()
		}
		if c.K < 40 && passes > 0 && rejects > 0 {
			c.Sample(map[string]any{"args": env.argsString(), "allocatable": alloc, "profile": prof.mode.String(), "thresholds": c08MapStr(prof.thresholds), "passes": passes, "rejects": rejects})
		}
	})
}

func boundaryName(env *c08Env, i int) string {
	if i < 0 {
		return "-"
	}
	return string(env.vec[i])
}

// c08CheckDecision is the threshold oracle for one Filter decision on a node whose report is
// complete: passes => for every thresholded resource with non-zero allocatable the integer percent
// round(100*(existing+incoming)/allocatable) is <= threshold, with "existing" recomputed from the
// shadow model per the statement. Rejections are only classified (converse is counted, never failed).
func c08CheckDecision(c *kit.Case, env *c08Env, m *c08Model, nodeName string, prof c08Profile, alloc, incVec []int64, st *fwktype.Status, kind string) string {
	nm := m.metrics[nodeName]
	pods := m.assignedOn(nodeName)
	var est c08ExpectStats
	existing, defined := c08Expect(env, nm, pods, prof.mode, &est)
	for _, k := range []string{"after-initialized", "after-scheduled", "after-scheduled/not-initialized-both"} {
		if n := est.forcedOnlyByWindow[k]; n > 0 {
			c.Count("filter_pods_estimated_only_by_window_"+k, n)
		}
	}
	pass := st.IsSuccess()
	if pass {
		c.Count("filter_pass", 1)
		c.Count("filter_pass_"+prof.mode.class(), 1)
	} else {
		c.Count("filter_reject", 1)
		c.Count("filter_reject_"+prof.mode.class(), 1)
		if st.Code() != fwktype.Unschedulable {
			c.Count("filter_status_other_than_unschedulable", 1)
		}
	}
	if !defined {
		c.Count("filter_skipped_agg_period_not_reported", 1)
		return "undefined"
	}
	over, exactHalf, exactHalfInexact := false, false, false
	var detail string
	for i, name := range env.vec {
		th := prof.thresholds[name]
		if th <= 0 || alloc[i] <= 0 {
			continue
		}
		x := existing[i] + incVec[i]
		// round-half-up(100x/a) <= th  <=>  100x/a < th+0.5  <=>  200x < (2th+1)a
		lhs, rhs := 200*x, (2*th+1)*alloc[i]
		switch {
		case lhs > rhs:
			over = true
			detail += fmt.Sprintf(" %s: (existing %d + incoming %d)/allocatable %d = %.6f%% > threshold %d%%;", name, existing[i], incVec[i], alloc[i], 100*float64(x)/float64(alloc[i]), th)
		case lhs == rhs:
			if c08IsPow2(alloc[i]) {
				exactHalf = true
				detail += fmt.Sprintf(" %s: (existing %d + incoming %d)/allocatable %d is exactly %d.5%% which rounds to %d%% > threshold %d%%;", name, existing[i], incVec[i], alloc[i], th, th+1, th)
			} else {
				exactHalfInexact = true
			}
		}
		if 200*x >= (2*th-1)*alloc[i] && 200*x < (2*th+3)*alloc[i] {
			c.Count("decisions_within_1pct_of_threshold", 1)
		}
	}
	if exactHalf {
		c.Count("boundary_exactly_half_percent_exact_float", 1)
	}
	if exactHalfInexact {
		c.Count("boundary_exactly_half_percent_inexact_float_tolerated", 1)
	}
	switch {
	case pass && (over || exactHalf):
		c.Fail("C08/filter/passed-over-threshold/"+prof.mode.class(), "Filter passed the pod (target %s, profile %s, thresholds %s) although%s resources %v existing(recomputed)=%v incoming=%v allocatable=%v; report: %s; pods: %s",
			kind, prof.mode, c08MapStr(prof.thresholds), detail, []corev1.ResourceName(env.vec), existing, incVec, alloc, c08MetricStr(nm), c08AssignedStr(pods))
	case pass:
		return "pass-within"
	case over || exactHalf:
		return "reject-over"
	case exactHalfInexact:
		return "reject-at-half"
	}
	c.Count("converse_misses_rejected_within_threshold", 1)
	return "reject-within"
}
