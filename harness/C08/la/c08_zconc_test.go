//go:build verif

package loadaware

import (
	"context"
	"fmt"
	"runtime"
	"runtime/debug"
	"sync"
	"testing"
	"time"

	corev1 "k8s.io/api/core/v1"
	metav1 "k8s.io/apimachinery/pkg/apis/meta/v1"
	"k8s.io/kubernetes/pkg/scheduler/framework"

	slov1alpha1 "github.com/koordinator-sh/koordinator/apis/slo/v1alpha1"
	kit "github.com/koordinator-sh/koordinator/pkg/verifkit"
)

// TestVerifC08Conc: the informer goroutine for pods (+ the scheduler's Reserve/Unreserve), the
// informer goroutine for NodeMetrics and two scheduling goroutines running Filter / reading the
// estimate, all on one cache, under the race detector. Verdicts: race reports (collected by
// bin/check), panics, and — at quiescence — both estimate oracles: the final estimate must be the
// one computed from scratch from the final report and the finally assigned pods, whatever the
// interleaving of the two event streams was.
func TestVerifC08Conc(t *testing.T) {
	kit.Run(t, kit.Config{Property: "C08", Unit: "conc", Quick: 800, Thorough: 20000,
		Rule: "per case: a sequential prefix of 10-30 events, then concurrently one or (50%) two pod-event goroutines over disjoint pod slots (60-140 events in total, as in unit estimate; 1-4 nodes, 4-12 slots), a NodeMetric-event goroutine (30-70 add/update/delete events over the same 2-3 nodes) and two reader goroutines (250 Filter / estimate reads each) on one cache, -race; at quiescence the differential and the statement oracle for every node and mode; distinct = (per-node final report kind, #assigned, #estimated, #reflected, nodes, pods); non-trivial = at quiescence some node has a complete report and at least one assigned pod",
	}, func(c *kit.Case) {
		r := c.R
		or := r.Fork()
		args, useR3 := c08GenArgs(r)
		c08GenFilterArgs(r, args, useR3)
		// expiry in Filter reads the wall clock; it is irrelevant here (decisions are not verdicts)
		env := c08NewEnv(c, args, useR3, c08Base)
		m := c08NewModel(env, kit.Pick(r, []int{2, 2, 3, 3, 3, 1, 4}), kit.Pick(r, []int{4, 5, 6, 7, 8, 4, 6, 8, 10, 12}))
		if r.Pct(35) {
			m.shareNames()
		}
		m.labelLost = true
		modes := c08AllModes(env)
		c.Op("args: %s", env.argsString())
		var nis []*framework.NodeInfo
		for _, name := range m.nodes {
			node, _ := c08GenNode(r, env, name)
			ni := framework.NewNodeInfo()
			ni.SetNode(node)
			nis = append(nis, ni)
		}
		for i, n := 0, r.Range(10, 30); i < n; i++ {
			m.stepClock(r)
			if r.Pct(70) {
				m.podEvent(c, r, "", kit.Pick(r, m.pods))
			} else {
				m.metricEvent(c, r, "", kit.Pick(r, m.nodes), true)
			}
		}
		var incoming []*c08Pod
		for i := 0; i < 4; i++ {
			p := &c08Pod{slot: 100 + i, ns: "default", name: fmt.Sprintf("incoming-%d", i)}
			p.inf = c08NewIncarnation(r, p, useR3)
			incoming = append(incoming, p)
		}
		incObjs := make([]*corev1.Pod, len(incoming))
		for i, p := range incoming {
			incObjs[i] = p.inf
		}

		rA, rC, rB1, rB2, rA2 := r.Fork(), r.Fork(), r.Fork(), r.Fork(), r.Fork()
		twoPodStreams := r.Pct(50)
		nA, nC, nB := r.Range(60, 140), r.Range(30, 70), 250
		var wg sync.WaitGroup
		guard := func(name string, f func()) {
			wg.Add(1)
			go func() {
				defer wg.Done()
				defer func() {
					if e := recover(); e != nil {
						c.Report("C08/panic/conc-"+name, "panic in goroutine %s: %v\n%s", name, e, debug.Stack())
					}
				}()
				f()
			}()
		}
		// Pod events come from more than one goroutine in the real scheduler (pod informer, scheduling
		// cycle for Reserve, binding cycles for Unreserve, the forced sync at plugin start; the cache's
		// header states that it handles concurrent delta events). The pod slots are split between two
		// goroutines so that every slot's history stays sequential and the shadow model determinate.
		var podsA, podsB []*c08Pod
		for i, p := range m.pods {
			if i%2 == 0 || !twoPodStreams {
				podsA = append(podsA, p)
			} else {
				podsB = append(podsB, p)
			}
		}
		podStream := func(tag string, rr *kit.Rand, pods []*c08Pod, n int) func() {
			return func() {
				for i := 0; i < n; i++ {
					m.stepClock(rr)
					kind := m.podEvent(c, rr, tag, kit.Pick(rr, pods))
					c.Count("conc_ev_"+kind, 1)
					if rr.Pct(40) {
						runtime.Gosched()
					}
				}
			}
		}
		if twoPodStreams {
			c.Count("conc_cases_two_pod_streams", 1)
			guard("pod-events", podStream("A: ", rA, podsA, nA/2))
			guard("pod-events-2", podStream("A2: ", rA2, podsB, nA-nA/2))
		} else {
			guard("pod-events", podStream("A: ", rA, podsA, nA))
		}
		guard("metric-events", func() {
			for i := 0; i < nC; i++ {
				kind := m.metricEvent(c, rC, "C: ", kit.Pick(rC, m.nodes), false)
				c.Count("conc_ev_"+kind, 1)
				if rC.Pct(60) {
					runtime.Gosched()
				}
			}
		})
		reader := func(rr *kit.Rand) func() {
			return func() {
				for i := 0; i < nB; i++ {
					k := rr.Intn(len(nis))
					if rr.Pct(70) {
						state := framework.NewCycleState()
						pod := kit.Pick(rr, incObjs)
						if rr.Bool() {
							env.pl.PreFilter(context.TODO(), state, pod, nil)
						}
						st := env.pl.Filter(context.TODO(), state, pod, nis[k])
						if st.IsSuccess() {
							c.Count("conc_filter_pass", 1)
						} else {
							c.Count("conc_filter_reject", 1)
						}
					} else {
						md := kit.Pick(rr, modes)
						_, _, _, err := env.cache.GetNodeMetricAndEstimatedOfExisting(m.nodes[k], md.prod, metav1.Duration{Duration: md.aggDur}, md.aggType, rr.Pct(30))
						if err != nil {
							c.Count("conc_read_notfound", 1)
						} else {
							c.Count("conc_read_ok", 1)
						}
					}
					if rr.Pct(30) {
						runtime.Gosched()
					}
				}
			}
		}
		guard("reader-1", reader(rB1))
		guard("reader-2", reader(rB2))
		wg.Wait()
		c.Count("conc_events", nA+nC)

		nontrivial := false
		for _, node := range m.nodes {
			out := c08CheckNode(c, or, m, node, modes, "at quiescence")
			c.Seen(out.metricKind, out.nAssigned, out.estimated, out.reflected, len(m.nodes), len(m.pods))
			if out.metricKind == "full" && out.nAssigned > 0 {
				nontrivial = true
			}
		}
		if nontrivial {
			c.NonTrivial()
		}
	})
}

// TestVerifC08Cleanup: the narrowest concurrent shape of the property — the event that removes the
// LAST object of a node (nodeInfo becomes empty and is removed from the cache) races with an event
// that adds another object for the same node, each delivered by the goroutine that delivers it in
// the real scheduler (pod informer, NodeMetric informer, scheduling goroutine for Reserve/Unreserve).
// Whatever the interleaving, the surviving objects are known, so at quiescence the estimate must be
// the one computed from scratch from them (both oracles); when no report survived, one is added
// sequentially afterwards so that a lost pod becomes observable.
func TestVerifC08Cleanup(t *testing.T) {
	const rounds = 40
	kit.Run(t, kit.Config{Property: "C08", Unit: "cleanup", Quick: 600, Thorough: 15000,
		Rule: "per case 40 rounds, each on a fresh cache: (0) last pod removed (informer delete / terminate / Unreserve) vs NodeMetric add; (1) NodeMetric delete vs pod add (informer add of a bound pod / Reserve); (2) informer delete of the last pod vs Reserve of another pod; (3) all three goroutines; both estimate oracles at quiescence and again after a sequential NodeMetric add; every round is one evaluation; distinct = (variant, removal kind, add kind, report survived, #assigned); non-trivial = every case (each round ends with a complete report and the oracle run)",
	}, func(c *kit.Case) {
		r := c.R
		or := r.Fork()
		caseArgs, useR3 := c08GenArgs(r)
		if len(caseArgs.EstimatedScalingFactors) == 0 {
			caseArgs.EstimatedScalingFactors = map[corev1.ResourceName]int64{corev1.ResourceCPU: 85, corev1.ResourceMemory: 70}
		}
		modes := []c08Mode{{}, {prod: true}, {aggType: "avg"}, {aggType: "p90", aggDur: 5 * time.Minute}}
		for round := 0; round < rounds; round++ {
			env := c08NewEnv(c, caseArgs.DeepCopy(), useR3, c08Base) // every round starts from the configuration as generated
			m := c08NewModel(env, 1, 2)
			m.labelLost = true
			node := m.nodes[0]
			P, Q := m.pods[0], m.pods[1]
			variant := r.Intn(4)
			now := env.clk.Now()
			c.Op("---- round %d variant %d", round, variant)
			// setup (sequential)
			removal, addKind := "-", "-"
			var g []func()
			mkMetric := func(rr *kit.Rand) *slov1alpha1.NodeMetric {
				m.mver[node]++
				return c08GenMetric(rr, env, node, m.mver[node], now, m.hints(node, false), c08MetricOpt{forceFull: true})
			}
			placeP := func() {
				obj := c08NewIncarnation(r, P, useR3)
				if r.Pct(60) {
					obj.Spec.NodeName = node
					c08SetCond(obj, corev1.PodScheduled, corev1.ConditionTrue, now.Truncate(time.Second))
					m.evInformerAdd(c, "", P, obj)
					if r.Bool() {
						removal = "informer-delete"
						g = append(g, func() { m.evDelete(c, "G-pod: ", P, P.inf, false) })
					} else {
						removal = "terminate"
						rr := r.Fork()
						asp := []string{kit.Pick(rr, []string{"terminate", "kubelet-complete", "kubelet-complete"})}
						g = append(g, func() {
							nv, _ := m.mutate(rr, P, asp, now)
							m.evUpdate(c, "G-pod: ", asp[0], P, nv)
						})
					}
				} else {
					m.evInformerAdd(c, "", P, obj)
					m.evReserve(c, "", P, node)
					removal = "unreserve"
					g = append(g, func() { m.evUnreserve(c, "G-sched: ", P) })
				}
			}
			switch variant {
			case 0:
				placeP()
				addKind = "metric-add"
				rr := r.Fork()
				g = append(g, func() { m.evMetric(c, "G-metric: ", node, mkMetric(rr)) })
			case 1:
				m.evMetric(c, "", node, mkMetric(r))
				removal = "metric-delete"
				g = append(g, func() { m.evMetricDelete(c, "G-metric: ", node, false) })
				obj := c08NewIncarnation(r, P, useR3)
				if r.Bool() {
					addKind = "informer-add-bound"
					obj.Spec.NodeName = node
					c08SetCond(obj, corev1.PodScheduled, corev1.ConditionTrue, now.Truncate(time.Second))
					g = append(g, func() { m.evInformerAdd(c, "G-pod: ", P, obj) })
				} else {
					addKind = "reserve"
					m.evInformerAdd(c, "", P, obj)
					g = append(g, func() { m.evReserve(c, "G-sched: ", P, node) })
				}
			case 2, 3:
				placeP()
				if removal == "unreserve" {
					// keep the two streams on different goroutines of the real system: make the removal an informer event
					m.evUpdate(c, "", "bind-confirm", P, m.bindConfirm(r, P, now))
					removal = "informer-delete"
					g = g[:0]
					g = append(g, func() { m.evDelete(c, "G-pod: ", P, P.inf, false) })
				}
				m.evInformerAdd(c, "", Q, c08NewIncarnation(r, Q, useR3))
				addKind = "reserve"
				g = append(g, func() { m.evReserve(c, "G-sched: ", Q, node) })
				if variant == 3 {
					addKind = "reserve+metric-add"
					rr := r.Fork()
					g = append(g, func() { m.evMetric(c, "G-metric: ", node, mkMetric(rr)) })
				}
			}
			var wg sync.WaitGroup
			start := make(chan struct{})
			for i, f := range g {
				wg.Add(1)
				go func(i int, f func()) {
					defer wg.Done()
					defer func() {
						if e := recover(); e != nil {
							c.Report("C08/panic/cleanup-goroutine", "panic in goroutine %d: %v\n%s", i, e, debug.Stack())
						}
					}()
					<-start
					f()
				}(i, f)
			}
			close(start)
			wg.Wait()
			c.Evals(1)
			c.Count("cleanup_rounds", 1)
			c.Count(fmt.Sprintf("cleanup_variant_%d", variant), 1)
			survived := m.metrics[node] != nil
			out := c08CheckNode(c, or, m, node, modes, fmt.Sprintf("round %d (variant %d: %s vs %s) at quiescence", round, variant, removal, addKind))
			if !survived {
				m.evMetric(c, "", node, mkMetric(r))
				out = c08CheckNode(c, or, m, node, modes, fmt.Sprintf("round %d (variant %d: %s vs %s) after a sequential NodeMetric add", round, variant, removal, addKind))
			}
			c.Seen(variant, removal, addKind, survived, out.nAssigned)
		}
		c.Evals(-1)
		c.NonTrivial()
	})
}
