//go:build verif

package cpusuppress

// C10 unit "budget": calculateBESuppressCPU against the statement's formula computed in exact
// rational arithmetic, plus metamorphic monotonicity in every non-BE consumption input.

import (
	"encoding/json"
	"fmt"
	"math/big"
	"sort"
	"testing"

	corev1 "k8s.io/api/core/v1"
	"k8s.io/apimachinery/pkg/api/resource"
	metav1 "k8s.io/apimachinery/pkg/apis/meta/v1"
	"k8s.io/apimachinery/pkg/types"

	apiext "github.com/koordinator-sh/koordinator/apis/extension"
	slov1alpha1 "github.com/koordinator-sh/koordinator/apis/slo/v1alpha1"
	"github.com/koordinator-sh/koordinator/pkg/koordlet/statesinformer"
	kit "github.com/koordinator-sh/koordinator/pkg/verifkit"
)

// classification of a consumer by the STATEMENT ("non-BE pods / host applications"):
//   c10BE     certainly best-effort  (koordinator QoS BE and Kubernetes BestEffort, or no koordinator
//             label and Kubernetes BestEffort; host app: QoS BE running under the besteffort cgroup)
//   c10NonBE  certainly not best-effort
//   c10Ambig  the statement does not decide (label and Kubernetes class disagree, host app with QoS BE
//             outside the besteffort cgroup or without QoS, usage sample of a pod the agent has no
//             meta for). For these the oracle accepts both readings (interval).
const (
	c10BE = iota
	c10NonBE
	c10Ambig
)

type c10BPod struct {
	uid      string
	rawLabel string // a QoS label value koordinator does not know
	label    apiext.QoSClass
	kube     corev1.PodQOSClass
	statusQ  bool // Status.QOSClass filled in (else derived from the spec)
	class    int
	hasMeta  bool
	hasUsage bool
	usage    float64
}

type c10BApp struct {
	name     string
	qos      apiext.QoSClass
	base     string // "" = no cgroup path
	class    int
	hasUsage bool
	usage    float64
}

type c10BInput struct {
	capMilli    int64
	kubeResMil  int64  // capacity - allocatable
	annoKind    string // none | resources | cpus | both (amount and CPU list together)
	applyPolicy string // ApplyPolicy of the annotation: "" | Default | ReservedCPUsOnly
	annoResMil  int64  // resources.cpu of the node reservation annotation
	annoCPUs    []int  // reservedCPUs of the node reservation annotation
	nodeUsage   float64
	pods        []c10BPod
	apps        []c10BApp
	thr         int64
	min         *int64
	exactFloats bool // every usage is a multiple of 1/1024 < 2^20: float sums and x*1000 are exact
}

func (in *c10BInput) String() string {
	m := "nil"
	if in.min != nil {
		m = fmt.Sprint(*in.min)
	}
	s := fmt.Sprintf("cap=%dm kubeReserved=%dm anno=%s/%s(res=%dm cpus=%v) nodeUsage=%v thr=%d%% min=%s exact=%v pods=[", in.capMilli, in.kubeResMil, in.annoKind, in.applyPolicy, in.annoResMil, in.annoCPUs, in.nodeUsage, in.thr, m, in.exactFloats)
	for _, p := range in.pods {
		s += fmt.Sprintf("{%s label=%q kube=%s statusQ=%v class=%d meta=%v usage=%v/%v} ", p.uid, p.label, p.kube, p.statusQ, p.class, p.hasMeta, p.hasUsage, p.usage)
	}
	s += "] apps=["
	for _, a := range in.apps {
		s += fmt.Sprintf("{%s qos=%q base=%q class=%d usage=%v/%v} ", a.name, a.qos, a.base, a.class, a.hasUsage, a.usage)
	}
	return s + "]"
}

func c10Usage(r *kit.Rand, exact bool, max int) float64 {
	if exact {
		switch r.Intn(6) {
		case 0:
			return 0
		case 1:
			return float64(r.Range(1, 3)) / 1024
		default:
			return float64(r.Intn(max*1024+1)) / 1024
		}
	}
	switch r.Intn(6) {
	case 0:
		return 0
	case 1: // what a metric usually looks like: milli-cores
		return float64(r.Intn(max*1000+1)) / 1000
	case 2: // just below / above a milli boundary
		return float64(r.Intn(max*1000+1))/1000 + kit.Pick(r, []float64{1e-9, -1e-9, 4.9e-4, 9.99e-4})
	default:
		return r.Float() * float64(max)
	}
}

func c10BuildPod(p c10BPod) *corev1.Pod {
	pod := &corev1.Pod{ObjectMeta: metav1.ObjectMeta{Name: p.uid, Namespace: "ns", UID: types.UID(p.uid), Labels: map[string]string{}}}
	if p.label != apiext.QoSNone {
		pod.Labels[apiext.LabelPodQoS] = string(p.label)
	} else if p.rawLabel != "" {
		pod.Labels[apiext.LabelPodQoS] = p.rawLabel
	}
	ctr := corev1.Container{Name: "c"}
	switch p.kube {
	case corev1.PodQOSGuaranteed:
		rl := corev1.ResourceList{corev1.ResourceCPU: resource.MustParse("1"), corev1.ResourceMemory: resource.MustParse("1Gi")}
		ctr.Resources = corev1.ResourceRequirements{Requests: rl, Limits: rl}
	case corev1.PodQOSBurstable:
		ctr.Resources = corev1.ResourceRequirements{Requests: corev1.ResourceList{corev1.ResourceCPU: resource.MustParse("500m")}}
	default: // BestEffort: batch resources only, as koordinator's BE pods carry
		ctr.Resources = corev1.ResourceRequirements{Requests: corev1.ResourceList{apiext.BatchCPU: resource.MustParse("1000")}, Limits: corev1.ResourceList{apiext.BatchCPU: resource.MustParse("1000")}}
	}
	pod.Spec.Containers = []corev1.Container{ctr}
	if p.statusQ {
		pod.Status.QOSClass = p.kube
	}
	return pod
}

func c10PodClass(label apiext.QoSClass, kube corev1.PodQOSClass) int {
	be := kube == corev1.PodQOSBestEffort
	switch label {
	case apiext.QoSBE:
		if be {
			return c10BE
		}
		return c10Ambig
	case apiext.QoSNone:
		if be {
			return c10BE
		}
		return c10NonBE
	default:
		if be {
			return c10Ambig
		}
		return c10NonBE
	}
}

func c10GenBudgetInput(r *kit.Rand) *c10BInput {
	in := &c10BInput{exactFloats: r.Bool()}
	cpus := kit.Pick(r, []int{1, 2, 3, 4, 8, 16, 32, 64, 96, 128, r.Range(1, 128), r.Range(1, 128), r.Range(1, 128), kit.Pick(r, []int{192, 256, 384, 512, 1024})})
	in.capMilli = int64(cpus) * 1000
	if r.Pct(10) {
		in.capMilli += int64(r.Range(1, 999)) // fractional capacity (virtual nodes)
	}
	if r.Pct(60) {
		in.kubeResMil = int64(kit.Pick(r, []int{0, 1, 100, 500, 1000, 1001, 2000, r.Range(0, c10Min(8000, int(in.capMilli)))}))
		if in.kubeResMil > in.capMilli {
			in.kubeResMil = in.capMilli
		}
	}
	switch r.Intn(5) {
	case 0, 1:
		in.annoKind = "none"
	case 2, 3:
		in.annoKind = "resources"
		in.annoResMil = int64(kit.Pick(r, []int{0, 1, 999, 1000, 1500, 4000, r.Range(0, c10Min(16000, int(in.capMilli)))}))
	default:
		in.annoKind = "cpus"
		n := r.Range(1, c10Min(cpus, 16))
		perm := r.Perm(cpus)
		in.annoCPUs = append(in.annoCPUs, perm[:n]...)
		sort.Ints(in.annoCPUs)
		if r.Pct(20) { // amount and CPU list together
			in.annoKind = "both"
			in.annoResMil = int64(kit.Pick(r, []int{500, 1000, 4000, r.Range(0, c10Min(16000, int(in.capMilli)))}))
		}
	}
	if in.annoKind != "none" {
		in.applyPolicy = kit.Pick(r, []string{"", "", "", string(apiext.NodeReservationApplyPolicyDefault), string(apiext.NodeReservationApplyPolicyReservedCPUsOnly)})
	}
	in.thr = int64(kit.Pick(r, []int{0, 1, 50, 65, 65, 65, 99, 100, r.Range(0, 100), r.Range(0, 100)}))
	if r.Pct(65) {
		m := int64(kit.Pick(r, []int{0, 1, 5, 10, 25, 50, 100, r.Range(0, 100)}))
		in.min = &m
	}
	npods := kit.Pick(r, []int{0, 1, 2, 3, 5, 8, 12, 12, 30, 100})
	ambigAllowed := r.Pct(12)
	labels := []apiext.QoSClass{apiext.QoSLSE, apiext.QoSLSR, apiext.QoSLS, apiext.QoSLS, apiext.QoSBE, apiext.QoSBE, apiext.QoSSystem, apiext.QoSNone}
	perPod := c10Max(1, cpus/c10Max(1, npods))
	for i := 0; i < npods; i++ {
		p := c10BPod{uid: fmt.Sprintf("pod-%d", i), label: kit.Pick(r, labels), statusQ: r.Pct(70), hasMeta: true}
		switch p.label {
		case apiext.QoSBE:
			p.kube = corev1.PodQOSBestEffort
		case apiext.QoSNone:
			p.kube = kit.Pick(r, []corev1.PodQOSClass{corev1.PodQOSBestEffort, corev1.PodQOSBurstable, corev1.PodQOSGuaranteed})
		case apiext.QoSLSE, apiext.QoSLSR:
			p.kube = corev1.PodQOSGuaranteed
		default:
			p.kube = kit.Pick(r, []corev1.PodQOSClass{corev1.PodQOSBurstable, corev1.PodQOSGuaranteed})
		}
		if ambigAllowed && r.Pct(30) {
			if p.label == apiext.QoSBE {
				p.kube = corev1.PodQOSBurstable
			} else if p.label != apiext.QoSNone {
				p.kube = corev1.PodQOSBestEffort
			}
		}
		p.class = c10PodClass(p.label, p.kube)
		if ambigAllowed && p.label == apiext.QoSNone && r.Pct(30) {
			// a label value koordinator does not know: the statement does not say which class that is
			p.rawLabel, p.class = kit.Pick(r, []string{"be", "Lsr", "best-effort", "x"}), c10Ambig
		}
		p.hasUsage = r.Pct(85)
		p.usage = c10Usage(r, in.exactFloats, perPod)
		if ambigAllowed && r.Pct(15) { // a usage sample of a pod the agent has no meta for (yet / any more)
			p.hasMeta, p.hasUsage, p.class = false, true, c10Ambig
		}
		in.pods = append(in.pods, p)
	}
	napps := kit.Pick(r, []int{0, 0, 1, 2, 3, 3, 8})
	for i := 0; i < napps; i++ {
		a := c10BApp{name: fmt.Sprintf("app-%d", i), hasUsage: r.Pct(80), usage: c10Usage(r, in.exactFloats, c10Max(1, cpus/4))}
		switch r.Intn(4) {
		case 0:
			a.qos, a.base, a.class = apiext.QoSBE, string(slov1alpha1.CgroupBaseTypeKubeBesteffort), c10BE
		case 1:
			a.qos, a.class = kit.Pick(r, []apiext.QoSClass{apiext.QoSLS, apiext.QoSLSR, apiext.QoSSystem}), c10NonBE
			a.base = kit.Pick(r, []string{"", string(slov1alpha1.CgroupBaseTypeRoot), string(slov1alpha1.CgroupBaseTypeKubepods), string(slov1alpha1.CgroupBaseTypeKubeBurstable)})
		case 2:
			a.qos, a.base, a.class = apiext.QoSLS, string(slov1alpha1.CgroupBaseTypeKubeBurstable), c10NonBE
		default:
			if ambigAllowed {
				a.qos, a.class = kit.Pick(r, []apiext.QoSClass{apiext.QoSBE, apiext.QoSNone}), c10Ambig
				a.base = kit.Pick(r, []string{"", string(slov1alpha1.CgroupBaseTypeRoot), string(slov1alpha1.CgroupBaseTypeKubeBurstable)})
			} else {
				a.qos, a.base, a.class = apiext.QoSLS, "", c10NonBE
			}
		}
		in.apps = append(in.apps, a)
	}
	// node usage: the consumers' sum plus a system share; sometimes less than the sum (samples of
	// different instants), sometimes zero
	var sum float64
	for _, p := range in.pods {
		if p.hasUsage {
			sum += p.usage
		}
	}
	for _, a := range in.apps {
		if a.hasUsage {
			sum += a.usage
		}
	}
	switch r.Intn(8) {
	case 0:
		in.nodeUsage = 0
	case 1:
		in.nodeUsage = sum * r.Float()
		if in.exactFloats {
			in.nodeUsage = float64(int64(in.nodeUsage*1024)) / 1024
		}
	case 2:
		in.nodeUsage = sum
	case 3: // far above the capacity (a usage spike over a short collect interval, a wrong sample)
		in.nodeUsage = sum + float64(cpus*kit.Pick(r, []int{1, 2, 10}))
	default:
		in.nodeUsage = sum + c10Usage(r, in.exactFloats, c10Max(1, cpus/4))
	}
	return in
}

type c10BBuilt struct {
	node     *corev1.Node
	metas    []*statesinformer.PodMeta
	pm       map[string]float64
	apps     []slov1alpha1.HostApplicationSpec
	appUsage map[string]float64
}

func c10BuildBudget(in *c10BInput) c10BBuilt {
	node := &corev1.Node{ObjectMeta: metav1.ObjectMeta{Name: "n0"}}
	node.Status.Capacity = corev1.ResourceList{corev1.ResourceCPU: *resource.NewMilliQuantity(in.capMilli, resource.DecimalSI), corev1.ResourceMemory: resource.MustParse("64Gi")}
	node.Status.Allocatable = corev1.ResourceList{corev1.ResourceCPU: *resource.NewMilliQuantity(in.capMilli-in.kubeResMil, resource.DecimalSI), corev1.ResourceMemory: resource.MustParse("60Gi")}
	switch in.annoKind {
	case "resources":
		b, _ := json.Marshal(apiext.NodeReservation{ApplyPolicy: apiext.NodeReservationApplyPolicy(in.applyPolicy), Resources: corev1.ResourceList{corev1.ResourceCPU: *resource.NewMilliQuantity(in.annoResMil, resource.DecimalSI)}})
		node.Annotations = map[string]string{apiext.AnnotationNodeReservation: string(b)}
	case "cpus":
		b, _ := json.Marshal(apiext.NodeReservation{ReservedCPUs: c10Ranges(in.annoCPUs), ApplyPolicy: apiext.NodeReservationApplyPolicy(in.applyPolicy)})
		node.Annotations = map[string]string{apiext.AnnotationNodeReservation: string(b)}
	case "both":
		b, _ := json.Marshal(apiext.NodeReservation{ReservedCPUs: c10Ranges(in.annoCPUs), ApplyPolicy: apiext.NodeReservationApplyPolicy(in.applyPolicy),
			Resources: corev1.ResourceList{corev1.ResourceCPU: *resource.NewMilliQuantity(in.annoResMil, resource.DecimalSI)}})
		node.Annotations = map[string]string{apiext.AnnotationNodeReservation: string(b)}
	}
	out := c10BBuilt{node: node, pm: map[string]float64{}, appUsage: map[string]float64{}}
	for _, p := range in.pods {
		if p.hasMeta {
			out.metas = append(out.metas, &statesinformer.PodMeta{Pod: c10BuildPod(p)})
		}
		if p.hasUsage {
			out.pm[p.uid] = p.usage
		}
	}
	for _, a := range in.apps {
		spec := slov1alpha1.HostApplicationSpec{Name: a.name, QoS: a.qos}
		if a.base != "" {
			spec.CgroupPath = &slov1alpha1.CgroupPath{Base: slov1alpha1.CgroupBaseType(a.base), RelativePath: a.name}
		}
		out.apps = append(out.apps, spec)
		if a.hasUsage {
			out.appUsage[a.name] = a.usage
		}
	}
	return out
}

func c10RunBudget(in *c10BInput) int64 {
	b := c10BuildBudget(in)
	q := (&CPUSuppress{}).calculateBESuppressCPU(b.node, in.nodeUsage, b.pm, b.metas, b.apps, b.appUsage, in.thr, in.min)
	return q.MilliValue()
}

// c10BudgetOracle computes the statement's budget in milli-cores as exact rationals:
//
//	capacity*threshold/100 - nonBE pods - nonBE host apps - max(system usage, node reservation)
//	floored by capacity*min/100 (when a minimum is configured)
//
// with system usage = node usage - all pods - all host apps, node reservation = the larger of the
// kubelet reservation (capacity - allocatable) and the node annotation (explicit amount, or the
// number of reserved CPUs). lo counts the ambiguous consumers as non-BE, hi as BE.
func c10BudgetOracle(in *c10BInput) (lo, hi *big.Rat, facts map[string]bool) {
	rat := func(f float64) *big.Rat { return new(big.Rat).SetFloat64(f) }
	thousand := big.NewRat(1000, 1)
	all, nonBE, ambig := new(big.Rat), new(big.Rat), new(big.Rat)
	for _, p := range in.pods {
		if !p.hasUsage {
			continue
		}
		u := rat(p.usage)
		all.Add(all, u)
		switch p.class {
		case c10NonBE:
			nonBE.Add(nonBE, u)
		case c10Ambig:
			ambig.Add(ambig, u)
		}
	}
	for _, a := range in.apps {
		if !a.hasUsage {
			continue
		}
		u := rat(a.usage)
		all.Add(all, u)
		switch a.class {
		case c10NonBE:
			nonBE.Add(nonBE, u)
		case c10Ambig:
			ambig.Add(ambig, u)
		}
	}
	system := new(big.Rat).Sub(rat(in.nodeUsage), all)
	// the annotation's reservation: an amount, or the number of listed CPUs. Where the statement
	// ("at least the node reservation") does not decide - amount and list given together, or apply
	// policy ReservedCPUsOnly ("does not affect the amount of schedulable resources") - both
	// readings are accepted: annoHi is the largest reservation one can read, annoLo the smallest.
	var annoLo, annoHi int64
	nCPUs := int64(len(in.annoCPUs)) * 1000
	switch in.annoKind {
	case "resources":
		annoLo, annoHi = in.annoResMil, in.annoResMil
	case "cpus":
		annoLo, annoHi = nCPUs, nCPUs
	case "both":
		annoLo, annoHi = in.annoResMil, nCPUs
		if annoLo > annoHi {
			annoLo, annoHi = annoHi, annoLo
		}
	}
	if in.applyPolicy == string(apiext.NodeReservationApplyPolicyReservedCPUsOnly) {
		annoLo = 0
	}
	resLo, resHi := in.kubeResMil, in.kubeResMil
	if annoLo > resLo {
		resLo = annoLo
	}
	if annoHi > resHi {
		resHi = annoHi
	}
	facts = map[string]bool{}
	if resLo != resHi {
		facts["ambiguous_reservation"] = true
	}
	sysOr := func(resMilli int64, note bool) *big.Rat {
		reserved := big.NewRat(resMilli, 1000)
		if system.Cmp(reserved) < 0 {
			if note {
				facts["reservation_dominates"] = true
				if system.Sign() < 0 {
					facts["system_negative"] = true
				}
			}
			return reserved
		}
		if note {
			facts["system_dominates"] = true
		}
		return system
	}
	sysOrResHi, sysOrResLo := sysOr(resHi, true), sysOr(resLo, false)
	target := big.NewRat(in.capMilli*in.thr, 100)
	mk := func(withAmbig bool) *big.Rat {
		used := new(big.Rat).Add(nonBE, sysOrResLo)
		if withAmbig {
			used = new(big.Rat).Add(nonBE, sysOrResHi)
			used.Add(used, ambig)
		}
		used.Mul(used, thousand)
		b := new(big.Rat).Sub(target, used)
		if in.min != nil {
			floor := big.NewRat(in.capMilli**in.min, 100)
			if b.Cmp(floor) < 0 {
				b = floor
				if withAmbig {
					facts["floor_active"] = true
				}
			}
		}
		return b
	}
	lo, hi = mk(true), mk(false)
	if ambig.Sign() > 0 {
		facts["ambiguous"] = true
	}
	if lo.Sign() < 0 {
		facts["negative_budget"] = true
	}
	return lo, hi, facts
}

func c10CloneBudget(in *c10BInput) *c10BInput {
	cp := *in
	cp.pods = append([]c10BPod(nil), in.pods...)
	cp.apps = append([]c10BApp(nil), in.apps...)
	cp.annoCPUs = append([]int(nil), in.annoCPUs...)
	if in.min != nil {
		m := *in.min
		cp.min = &m
	}
	return &cp
}

// Tolerances (milli-cores), all derived from the code's arithmetic and nothing else:
//
//	equality: the code truncates three non-negative float amounts (pods, host apps, system) to whole
//	  milli-cores separately - each truncation raises the result by < 1 - and divides
//	  capacity*percent/100 in integers - which lowers it by < 1. Hence result - exact is in (-1, +3).
//	  (+1e-6 for float summation error when the usages are arbitrary floats.)
//	monotonicity: a raise that moves usage between the separately truncated terms (pod up, system
//	  down, node usage unchanged) can lower floor(a)+floor(b) by 1: tolerance 1. With arbitrary
//	  floats the map-ordered float sums may flip a truncation in each of the three terms: tolerance 2.
//	  Raises that touch one term only, on exact (dyadic) usages: tolerance 0.
func TestVerifC10Budget(t *testing.T) {
	kit.Run(t, kit.Config{Property: "C10", Unit: "budget", Quick: 30000, Thorough: 1200000,
		Rule: "random node (1-128 CPUs, 7%: 192-1024; kubelet and annotation reservation as amount, CPU list or both, apply policy unset/Default/ReservedCPUsOnly), 0-100 pods over all koordinator QoS labels (also unknown values) x Kubernetes QoS classes with/without usage sample, 0-8 host applications, node usage above/at/below the consumers' sum or far above the capacity, threshold and min percent boundary-biased, usages exact dyadic or arbitrary floats; the real calculateBESuppressCPU is compared with the statement's formula in exact rationals (tolerance -1/+3 milli, see source) and re-run after raising one non-BE input (pod usage with/without node usage, host-app usage, node usage, reservation, an extra non-BE pod); distinct = (size class, threshold class, min class, dominating term, floor active, sign, #pods class, raise kind); non-trivial = neither the floor nor a zero threshold decides the result",
	}, func(c *kit.Case) {
		r := c.R
		in := c10GenBudgetInput(r)
		c.Op("input %s", in)
		got := c10RunBudget(in)
		lo, hi, facts := c10BudgetOracle(in)
		c.Op("budget=%dm oracle=[%s, %s]", got, lo.FloatString(4), hi.FloatString(4))
		g := big.NewRat(got, 1)
		eps := big.NewRat(1, 1000000)
		lower := new(big.Rat).Sub(lo, big.NewRat(1, 1))
		lower.Sub(lower, eps)
		upper := new(big.Rat).Add(hi, big.NewRat(3, 1))
		upper.Add(upper, eps)
		if g.Cmp(lower) <= 0 || g.Cmp(upper) >= 0 {
			sig := "C10/budget/formula"
			if facts["floor_active"] && g.Cmp(lower) <= 0 {
				sig = "C10/budget/below-floor"
			}
			c.Fail(sig, "calculateBESuppressCPU returned %dm, the statement's formula gives %s..%s m (tolerance -1/+3)\ninput: %s", got, lo.FloatString(4), hi.FloatString(4), in)
		}
		c.Count("budget_compared", 1)
		for k, v := range map[string]bool{"floor_active": facts["floor_active"], "reservation_dominates": facts["reservation_dominates"], "system_dominates": facts["system_dominates"], "system_negative": facts["system_negative"], "ambiguous_consumers": facts["ambiguous"], "ambiguous_reservation": facts["ambiguous_reservation"], "negative_budget": facts["negative_budget"], "no_min_configured": in.min == nil} {
			if v {
				c.Count(k, 1)
			}
		}
		if !facts["floor_active"] && in.thr > 0 {
			c.NonTrivial()
		}

		// metamorphic: raise one non-BE consumption input
		var nonBEPods, nonBEApps []int
		for i, p := range in.pods {
			if p.class == c10NonBE && p.hasUsage {
				nonBEPods = append(nonBEPods, i)
			}
		}
		for i, a := range in.apps {
			if a.class == c10NonBE && a.hasUsage {
				nonBEApps = append(nonBEApps, i)
			}
		}
		delta := func() float64 {
			if in.exactFloats {
				return float64(kit.Pick(r, []int{1, 2, 512, 1024, 1025, r.Range(1, 8192)})) / 1024
			}
			return kit.Pick(r, []float64{1e-6, 0.0005, 0.001, 0.0015, 0.5, 1, r.Float() * 8})
		}
		baseTol := int64(0)
		if !in.exactFloats {
			baseTol = 2
		}
		nRaise := 0
		for _, kind := range []string{"pod+node", "pod", "app+node", "app", "node", "reservation", "newpod+node"} {
			m := c10CloneBudget(in)
			d := delta()
			tol := baseTol
			switch kind {
			case "pod+node", "pod":
				if len(nonBEPods) == 0 {
					continue
				}
				i := kit.Pick(r, nonBEPods)
				m.pods[i].usage += d
				if kind == "pod+node" {
					m.nodeUsage += d
				} else if tol < 1 {
					tol = 1
				}
			case "app+node", "app":
				if len(nonBEApps) == 0 {
					continue
				}
				i := kit.Pick(r, nonBEApps)
				m.apps[i].usage += d
				if kind == "app+node" {
					m.nodeUsage += d
				} else if tol < 1 {
					tol = 1
				}
			case "node":
				m.nodeUsage += d
			case "reservation":
				add := int64(kit.Pick(r, []int{1, 500, 1000, 1001, r.Range(1, 8000)}))
				switch r.Intn(2) {
				case 0:
					if m.kubeResMil+add > m.capMilli {
						continue
					}
					m.kubeResMil += add
				default:
					switch m.annoKind {
					case "none":
						m.annoKind, m.annoResMil = "resources", add
					case "resources":
						m.annoResMil += add
					default: // one more reserved CPU
						next := 0
						for c10ToSet(m.annoCPUs)[next] {
							next++
						}
						m.annoCPUs = append(m.annoCPUs, next)
					}
				}
			case "newpod+node":
				m.pods = append(m.pods, c10BPod{uid: "pod-new", label: kit.Pick(r, []apiext.QoSClass{apiext.QoSLS, apiext.QoSLSR, apiext.QoSLSE}), kube: corev1.PodQOSGuaranteed, statusQ: true, class: c10NonBE, hasMeta: true, hasUsage: true, usage: d})
				m.nodeUsage += d
			}
			got2 := c10RunBudget(m)
			nRaise++
			c.Op("raise %s by %v -> budget=%dm (tolerance %d)", kind, d, got2, tol)
			c.Count("raise_"+kind, 1)
			if got2 < got {
				c.Count("raise_lowered_budget", 1)
			}
			if got2 > got+tol {
				c.Fail("C10/budget/not-monotone", "raising %s by %v raised the BE budget from %dm to %dm (tolerance %dm)\nbase input: %s\nraised input: %s", kind, d, got, got2, tol, in, m)
			}
			c.Seen("raise", kind, got2 < got, facts["floor_active"], facts["reservation_dominates"])
		}
		c.Evals(nRaise)
		thrC := "mid"
		switch {
		case in.thr == 0:
			thrC = "0"
		case in.thr == 100:
			thrC = "100"
		}
		minC := "nil"
		if in.min != nil {
			minC = "set"
			if *in.min > in.thr {
				minC = "above-threshold"
			}
		}
		c.Seen(c10SizeClass(int(in.capMilli/1000)), thrC, minC, facts["reservation_dominates"], facts["system_negative"], facts["floor_active"], facts["negative_budget"], c10SizeClass(len(in.pods)), len(in.apps), in.annoKind, in.applyPolicy, in.exactFloats, facts["ambiguous"])
		if c.K < 2 {
			c.Sample(map[string]any{"input": in.String(), "budget_milli": got, "oracle_lo": lo.FloatString(3), "oracle_hi": hi.FloatString(3)})
		}
	})
}
