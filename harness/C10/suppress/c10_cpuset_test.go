//go:build verif

package cpusuppress

// C10 units "cpuset-policy" (calculateBESuppressCPUSetPolicy on generated processor lists) and
// "end2end" (adjustByCPUSet over a temp cgroup root).

import (
	"encoding/json"
	"fmt"
	"os"
	"path/filepath"
	"sort"
	"strings"
	"testing"

	topov1alpha1 "github.com/k8stopologyawareschedwg/noderesourcetopology-api/pkg/apis/topology/v1alpha1"
	"go.uber.org/mock/gomock"
	corev1 "k8s.io/api/core/v1"
	"k8s.io/apimachinery/pkg/api/resource"
	metav1 "k8s.io/apimachinery/pkg/apis/meta/v1"
	"k8s.io/apimachinery/pkg/types"

	apiext "github.com/koordinator-sh/koordinator/apis/extension"
	"github.com/koordinator-sh/koordinator/pkg/koordlet/metriccache"
	mockmetriccache "github.com/koordinator-sh/koordinator/pkg/koordlet/metriccache/mockmetriccache"
	"github.com/koordinator-sh/koordinator/pkg/koordlet/resourceexecutor"
	"github.com/koordinator-sh/koordinator/pkg/koordlet/statesinformer"
	mockstatesinformer "github.com/koordinator-sh/koordinator/pkg/koordlet/statesinformer/mockstatesinformer"
	koordletutil "github.com/koordinator-sh/koordinator/pkg/koordlet/util"
	"github.com/koordinator-sh/koordinator/pkg/koordlet/util/system"
	"github.com/koordinator-sh/koordinator/pkg/util/cache"
	kit "github.com/koordinator-sh/koordinator/pkg/verifkit"
)

// ---------------------------------------------------------------------------------------------
// (2) calculateBESuppressCPUSetPolicy

func TestVerifC10CPUSetPolicy(t *testing.T) {
	kit.Run(t, kit.Config{Property: "C10", Unit: "cpuset-policy", Quick: 30000, Thorough: 1000000,
		Rule: "processor list of 1-128 CPUs (5%: up to 512; SMT 1/2/4/8; 1/2/4/8 sockets; NUMA nodes nested in sockets, spanning sockets, interleaved over cores, sparse node/socket id spaces, and the (0,1)/(N,0) pair that collides in the selection's bucket index; dense / sibling-sparse / offset ids, offline CPUs), either complete or an order-preserving sub-list (as adjustByCPUSet passes its pools), request in {1,2,n-1,n,n+1,random<=n,random>n}; result must be distinct, inside the list, not larger than the request and exactly the request whenever the list is long enough; distinct = (topology shape class, sub-list?, request class, outcome); non-trivial = sub-list with a broken core (a core that lost some but not all threads) or more than one NUMA node",
	}, func(c *kit.Case) {
		r := c.R
		tp := c10GenTopo(r)
		list := append([]koordletutil.ProcessorInfo(nil), tp.procs...)
		sub := r.Pct(50) && len(list) > 1
		if sub {
			keep := r.Range(0, 100)
			var l2 []koordletutil.ProcessorInfo
			for _, p := range list {
				if r.Pct(keep) {
					l2 = append(l2, p)
				}
			}
			list = l2
		}
		n := len(list)
		var req int
		cls := r.Intn(8)
		switch cls {
		case 0:
			req = 1
		case 1:
			req = 2
		case 2:
			req = c10Max(1, n-1)
		case 3:
			req = c10Max(1, n)
		case 4:
			req = n + 1
		case 5:
			req = n + r.Range(1, 64)
		default:
			req = r.Range(1, c10Max(1, n))
		}
		c.Op("topology %s list(%d)=%s request=%d", tp.shape(), n, c10ProcsStr(list), req)
		in := append([]koordletutil.ProcessorInfo(nil), list...)
		got := calculateBESuppressCPUSetPolicy(int32(req), in)
		c.Op("result=%v", got)
		have := c10ToSet(c10IDs(list))
		seen := map[int32]bool{}
		for _, id := range got {
			if seen[id] {
				c.Fail("C10/cpuset-policy/duplicate", "cpu %d appears twice in %v (request %d over %s)", id, got, req, c10ProcsStr(list))
			}
			seen[id] = true
			if !have[int(id)] {
				c.Fail("C10/cpuset-policy/unknown-cpu", "cpu %d is not in the processor list (result %v, list %s)", id, got, c10ProcsStr(list))
			}
		}
		if len(got) > req {
			c.Fail("C10/cpuset-policy/too-many", "%d CPUs returned for a request of %d: %v", len(got), req, got)
		}
		if n >= req {
			c.Count("policy_enough", 1)
			if len(got) != req {
				c.Fail("C10/cpuset-policy/not-exact", "the list has %d CPUs, %d were requested, %d returned: %v\nlist: %s", n, req, len(got), got, c10ProcsStr(list))
			}
		} else {
			c.Count("policy_not_enough", 1)
			if len(got) > 0 {
				c.Count("policy_partial_result", 1)
			}
		}
		// evidence: broken cores, NUMA spread
		perCore := map[int32]int{}
		fullCore := map[int32]int{}
		nodes := map[int32]bool{}
		for _, p := range list {
			perCore[p.CoreID]++
			nodes[p.NodeID] = true
		}
		for _, p := range tp.procs {
			fullCore[p.CoreID]++
		}
		broken := false
		for core, k := range perCore {
			if k < fullCore[core] {
				broken = true
			}
		}
		if broken || len(nodes) > 1 {
			c.NonTrivial()
		}
		if broken {
			c.Count("policy_broken_core_lists", 1)
		}
		coll := c10BucketCollisions(list)
		if coll > 0 {
			c.Count("policy_bucket_index_collisions", 1)
			if n >= req && req > 2 {
				c.Count("policy_bucket_index_collisions_served", 1)
			}
		}
		if tp.sockets > 2 {
			c.Count("policy_more_than_two_sockets", 1)
		}
		c.Seen(tp.sockets, tp.nodes, tp.arrange, tp.smt, tp.layout, tp.offline > 0, c10SizeClass(n), sub, cls, len(got) == req, broken, coll > 0)
		if c.K < 2 {
			c.Sample(map[string]any{"topology": tp.shape(), "list": c10Ranges(c10IDs(list)), "request": req, "result": got})
		}
	})
}

// ---------------------------------------------------------------------------------------------
// (3) adjustByCPUSet end to end

// c10RecExec records every update the code asks the executor for (path, value) and forwards it to
// the real executor, which writes the temp cgroup files. "Written in this round" is decided from
// this record: the real executor does not touch a cpuset file whose set is already the wanted one.
type c10RecExec struct {
	inner   resourceexecutor.ResourceUpdateExecutor
	intents []c10Intent
}

type c10Intent struct{ path, value string }

func (e *c10RecExec) rec(u resourceexecutor.ResourceUpdater) {
	e.intents = append(e.intents, c10Intent{path: u.Path(), value: u.Value()})
}

func (e *c10RecExec) Update(cacheable bool, u resourceexecutor.ResourceUpdater) (bool, error) {
	e.rec(u)
	return e.inner.Update(cacheable, u)
}

func (e *c10RecExec) UpdateBatch(cacheable bool, us ...resourceexecutor.ResourceUpdater) {
	for _, u := range us {
		e.rec(u)
	}
	e.inner.UpdateBatch(cacheable, us...)
}

func (e *c10RecExec) LeveledUpdateBatch(us [][]resourceexecutor.ResourceUpdater) {
	for _, l := range us {
		for _, u := range l {
			e.rec(u)
		}
	}
	e.inner.LeveledUpdateBatch(us)
}

func (e *c10RecExec) Run(stop <-chan struct{}) { e.inner.Run(stop) }

type c10EPod struct {
	name string
	qos  apiext.QoSClass
	cpus []int // cpuset annotation ("" when empty)
	str  string
	// hostile-but-legal object shapes that must not matter
	rawLabel string // a QoS label value koordinator does not know (treated as no label)
	numaOnly bool   // resource status carries NUMA resources but no cpuset (BE pods under the BE CPU manager)
	nilAnno  bool   // no annotations map at all
}

func c10EPodObj(p c10EPod) *corev1.Pod {
	pod := &corev1.Pod{ObjectMeta: metav1.ObjectMeta{Name: p.name, Namespace: "ns", UID: types.UID(p.name), Labels: map[string]string{}, Annotations: map[string]string{}}}
	if p.qos != apiext.QoSNone {
		pod.Labels[apiext.LabelPodQoS] = string(p.qos)
	} else if p.rawLabel != "" {
		pod.Labels[apiext.LabelPodQoS] = p.rawLabel
	}
	if p.str != "" {
		b, _ := json.Marshal(apiext.ResourceStatus{CPUSet: p.str})
		pod.Annotations[apiext.AnnotationResourceStatus] = string(b)
	} else if p.numaOnly {
		b, _ := json.Marshal(apiext.ResourceStatus{NUMANodeResources: []apiext.NUMANodeResource{{Node: 0, Resources: corev1.ResourceList{apiext.BatchCPU: resource.MustParse("1000")}}}})
		pod.Annotations[apiext.AnnotationResourceStatus] = string(b)
	} else if p.nilAnno {
		pod.Annotations = nil
	}
	rl := corev1.ResourceList{corev1.ResourceCPU: *resource.NewQuantity(int64(c10Max(1, len(p.cpus))), resource.DecimalSI)}
	pod.Spec.Containers = []corev1.Container{{Name: "c", Resources: corev1.ResourceRequirements{Requests: rl, Limits: rl}}}
	return pod
}

// c10GenPods hands CPUs of the processor list to pods. Causal rules (what the scheduler can
// produce): a CPU owned by an LSE pod is owned by nobody else; LSR pods own disjoint CPUs; pods of
// the other classes normally carry no cpuset, a few carry one over non-LSE CPUs (it must not
// matter). lseShare / lsrShare are the percentages of CPUs given to the two classes.
func c10GenPods(r *kit.Rand, ids []int, lseShare, lsrShare int) (pods []c10EPod, lseOwned map[int]bool) {
	lseOwned = map[int]bool{}
	perm := append([]int(nil), ids...)
	kit.Shuffle(r, perm)
	var lse, lsr, rest []int
	for _, id := range perm {
		switch x := r.Intn(100); {
		case x < lseShare:
			lse = append(lse, id)
		case x < lseShare+lsrShare:
			lsr = append(lsr, id)
		default:
			rest = append(rest, id)
		}
	}
	chop := func(pool []int, qos apiext.QoSClass, prefix string) {
		for i := 0; len(pool) > 0; i++ {
			k := c10Min(len(pool), kit.Pick(r, []int{1, 1, 2, 2, 4, 8, 16, 64}))
			own := append([]int(nil), pool[:k]...)
			pool = pool[k:]
			sort.Ints(own)
			pods = append(pods, c10EPod{name: fmt.Sprintf("%s-%d", prefix, i), qos: qos, cpus: own, str: c10Format(r, own)})
			if qos == apiext.QoSLSE {
				for _, id := range own {
					lseOwned[id] = true
				}
			}
		}
	}
	chop(lse, apiext.QoSLSE, "lse")
	chop(lsr, apiext.QoSLSR, "lsr")
	nOther := kit.Pick(r, []int{0, 1, 2, 3, 4, 4, 16})
	notLSE := append(append([]int(nil), lsr...), rest...)
	for i := 0; i < nOther; i++ {
		p := c10EPod{name: fmt.Sprintf("other-%d", i), qos: kit.Pick(r, []apiext.QoSClass{apiext.QoSLS, apiext.QoSLS, apiext.QoSBE, apiext.QoSBE, apiext.QoSSystem, apiext.QoSNone})}
		if r.Pct(25) && len(notLSE) > 0 {
			k := r.Range(1, c10Min(4, len(notLSE)))
			pp := r.Perm(len(notLSE))
			for _, j := range pp[:k] {
				p.cpus = append(p.cpus, notLSE[j])
			}
			sort.Ints(p.cpus)
			p.str = c10Format(r, p.cpus)
		} else {
			switch r.Intn(6) {
			case 0:
				p.numaOnly = true
			case 1:
				p.nilAnno = true
			}
		}
		if p.qos == apiext.QoSNone && r.Pct(30) {
			p.rawLabel = kit.Pick(r, []string{"lse", "Lsr", "best-effort", "x"})
		}
		pods = append(pods, p)
	}
	if r.Pct(5) { // an LSE pod that has not been given CPUs yet
		pods = append(pods, c10EPod{name: "lse-pending", qos: apiext.QoSLSE})
	}
	kit.Shuffle(r, pods)
	return pods, lseOwned
}

func c10Subset(r *kit.Rand, ids []int, mode int) []int {
	switch mode {
	case 0:
		return nil
	case 1: // a few
		k := r.Range(1, c10Max(1, len(ids)/8))
		pp := r.Perm(len(ids))
		var out []int
		for _, j := range pp[:c10Min(k, len(ids))] {
			out = append(out, ids[j])
		}
		sort.Ints(out)
		return out
	case 2: // a percentage
		pct := r.Range(10, 95)
		var out []int
		for _, id := range ids {
			if r.Pct(pct) {
				out = append(out, id)
			}
		}
		return out
	default: // everything
		return append([]int(nil), ids...)
	}
}

type c10Round struct {
	pods       []c10EPod
	lseOwned   map[int]bool
	reserved   []int
	sysCPUs    []int
	sysExcl    *bool // nil = default (exclusive)
	static     bool
	policyAnno bool
	budget     int64 // milli
}

func (rd *c10Round) protected() (all map[int]bool, why map[int]string) {
	all, why = map[int]bool{}, map[int]string{}
	for id := range rd.lseOwned {
		all[id], why[id] = true, "lse"
	}
	for _, id := range rd.reserved {
		all[id], why[id] = true, "reserved"
	}
	if rd.sysExcl == nil || *rd.sysExcl {
		for _, id := range rd.sysCPUs {
			all[id], why[id] = true, "system-exclusive"
		}
	}
	return
}

func c10WriteFile(c *kit.Case, path, content string) {
	if err := os.MkdirAll(filepath.Dir(path), 0o777); err != nil {
		c.Harness("mkdir %s: %v", path, err)
	}
	if err := os.WriteFile(path, []byte(content), 0o644); err != nil {
		c.Harness("write %s: %v", path, err)
	}
}

func c10ReadFile(c *kit.Case, path string) string {
	b, err := os.ReadFile(path)
	if err != nil {
		c.Harness("read %s: %v", path, err)
	}
	return strings.Trim(string(b), "\n")
}

func TestVerifC10End2End(t *testing.T) {
	base := c10CgroupBase(t)
	ctrl := gomock.NewController(t)
	var curPods []*statesinformer.PodMeta
	var curTopo *topov1alpha1.NodeResourceTopology
	var curInfo *metriccache.NodeCPUInfo
	si := mockstatesinformer.NewMockStatesInformer(ctrl)
	si.EXPECT().GetAllPods().DoAndReturn(func() []*statesinformer.PodMeta { return curPods }).AnyTimes()
	si.EXPECT().GetNodeTopo().DoAndReturn(func() *topov1alpha1.NodeResourceTopology { return curTopo }).AnyTimes()
	mc := mockmetriccache.NewMockMetricCache(ctrl)
	mc.EXPECT().Get(gomock.Any()).DoAndReturn(func(key any) (any, bool) {
		if key == metriccache.NodeCPUInfoKey && curInfo != nil {
			return curInfo, true
		}
		return nil, false
	}).AnyTimes()

	kit.Run(t, kit.Config{Property: "C10", Unit: "end2end", Quick: 4000, Thorough: 100000,
		Rule: "2-8 suppression rounds of the real adjustByCPUSet on one node: processor list of 1-128 CPUs (5%: up to 512; 1-8 sockets, NUMA nested/spanning/interleaved/sparse ids/bucket-index collision), BE cgroup tree (root, 0-8 pods, 0-4 containers each, children equal to / narrower than the root, on v2 also empty) under a temp cgroup root (v1 75%, v2 25% with the harness deriving cpuset.cpus.effective between rounds) holding the previous BE cpuset, pods of all QoS classes with cpuset annotations (LSE exclusive, LSR disjoint; unknown label values, NUMA-only resource status, nil annotations), reservation apply policies, 2% rounds without topology object, node-reserved CPUs and system-QoS CPUs (exclusive / not) from none to everything, kubelet policy none/static, budget boundary-biased (<0, 0, <2, 2, around the eligible count, above it, above the machine); 6 of every 32 cases force a degenerate family (all reserved / all system-exclusive / all LSE / jointly everything / budget<2 / budget>free); distinct = (size class, SMT, policy, which protections present, eligible class, budget vs eligible, pools, outcome); non-trivial = a round in which some but not all CPUs were protected and a set was written",
	}, func(c *kit.Case) {
		r := c.R
		tp := c10GenTopo(r)
		ids := c10IDs(tp.procs)
		n := len(ids)
		exists := c10ToSet(ids)
		step := (n + 9) / 10 // "scale up slow": at most 10% of the node's CPUs (rounded up) per round
		root := filepath.Join(base, fmt.Sprintf("e2e-%d", c.K))
		system.Conf.CgroupRootDir = root
		defer os.RemoveAll(root)
		beDir := koordletutil.GetPodQoSRelativePath(corev1.PodQOSBestEffort)
		// cgroup version: v1 mostly; on v2 the code writes cpuset.cpus and reads cpuset.cpus.effective,
		// which the kernel derives - the harness plays the kernel between rounds (syncEffective)
		v2 := r.Pct(25)
		system.UseCgroupsV2.Store(v2)
		defer system.UseCgroupsV2.Store(false)
		cpusetRes, err := system.GetCgroupResource(system.CPUSetCPUSName)
		if err != nil {
			c.Harness("cpuset resource: %v", err)
		}
		cpusetFile := func(dir string) string { return cpusetRes.Path(dir) }

		// previous BE cpuset: everything (kubelet's default), or what an earlier round left
		var old []int
		switch r.Intn(4) {
		case 0, 1:
			old = append(old, ids...)
		case 2:
			old = c10Subset(r, ids, 2)
		default:
			old = c10Subset(r, ids, 1)
		}
		if len(old) == 0 { // a populated cgroup-v1 cpuset is never empty
			old = []int{ids[r.Intn(n)]}
		}
		static := r.Pct(20)
		var dirs, podDirs, ctrDirs []string
		dirs = append(dirs, beDir)
		npods := kit.Pick(r, []int{0, 1, 1, 2, 2, 3, 3, 8})
		if static && npods == 0 {
			npods = 1
		}
		for i := 0; i < npods; i++ {
			pd := filepath.Join(beDir, fmt.Sprintf("kubepods-besteffort-pod%d.slice", i))
			podDirs = append(podDirs, pd)
			nc := kit.Pick(r, []int{0, 1, 1, 2, 2, 4})
			if static && i == 0 && nc == 0 {
				nc = 1
			}
			for j := 0; j < nc; j++ {
				ctrDirs = append(ctrDirs, filepath.Join(pd, fmt.Sprintf("cri-containerd-%d%d.scope", i, j)))
			}
		}
		dirs = append(append(dirs, podDirs...), ctrDirs...)
		oldStr := c10Format(r, old)
		for _, d := range dirs {
			c10WriteFile(c, cpusetFile(d), oldStr)
		}
		if !static {
			// a child cgroup may hold less than its parent (a rewrite interrupted by a restart, a
			// container pinned by its runtime); on v2 it may hold nothing (= inherit)
			for _, d := range append(append([]string(nil), podDirs...), ctrDirs...) {
				switch x := r.Intn(100); {
				case x < 15:
					sub := c10Subset(r, old, 2)
					if len(sub) == 0 {
						sub = old[:1]
					}
					c10WriteFile(c, cpusetFile(d), c10Format(r, sub))
					c.Count("child_cgroups_narrower_than_root", 1)
				case x < 30 && v2:
					c10WriteFile(c, cpusetFile(d), "")
				}
			}
		}
		if static {
			// under the static policy the suppressed set lives in the containers; root and pod
			// directories hold the whole machine
			for _, d := range append([]string{beDir}, podDirs...) {
				c10WriteFile(c, cpusetFile(d), c10Ranges(ids))
			}
		}
		syncEffective := func() {
			if !v2 {
				return
			}
			effRes, err := system.GetCgroupResource(system.CPUSetCPUSEffectiveName)
			if err != nil {
				c.Harness("cpuset.cpus.effective resource: %v", err)
			}
			eff := map[string]string{}
			for _, d := range dirs { // parents come before children
				v := c10ReadFile(c, cpusetFile(d))
				if v == "" {
					v = eff[filepath.Dir(d)]
				}
				eff[d] = v
				c10WriteFile(c, effRes.Path(d), v)
			}
		}
		syncEffective()
		c.Op("topology %s n=%d procs=%s", tp.shape(), n, c10ProcsStr(tp.procs))
		c.Op("be tree: cgroup-v2=%v pods=%d containers=%d previous cpuset=%q static=%v", v2, len(podDirs), len(ctrDirs), oldStr, static)
		if v2 {
			c.Count("cases_cgroup_v2", 1)
		}
		if c10BucketCollisions(tp.procs) > 0 {
			c.Count("cases_bucket_index_collision", 1)
		}
		if tp.sockets > 2 {
			c.Count("cases_more_than_two_sockets", 1)
		}

		rec := &c10RecExec{inner: &resourceexecutor.ResourceUpdateExecutorImpl{Config: resourceexecutor.NewDefaultConfig(), ResourceCache: cache.NewCacheDefault()}}
		cs := &CPUSuppress{statesInformer: si, metricCache: mc, executor: rec, cgroupReader: resourceexecutor.NewCgroupReader(), suppressPolicyStatuses: map[string]suppressPolicyStatus{}}
		stop := make(chan struct{})
		defer close(stop)
		cs.init(stop)
		curInfo = &metriccache.NodeCPUInfo{ProcessorInfos: tp.procs}

		family := -1
		if c.K%32 < 6 {
			family = c.K % 32
		}
		lseShare, lsrShare := kit.Pick(r, []int{0, 0, 10, 30, 60, 90}), kit.Pick(r, []int{0, 0, 5, 10, 30, 60})
		resMode, sysMode := kit.Pick(r, []int{0, 0, 0, 1, 1, 2}), kit.Pick(r, []int{0, 0, 0, 1, 1, 2})
		switch family {
		case 0:
			resMode = 3
		case 1:
			sysMode = 3
		case 2:
			lseShare, lsrShare = 100, 0
		case 3:
			lseShare, lsrShare, resMode, sysMode = 40, 0, 2, 2
		}
		rd := &c10Round{static: static, policyAnno: static || r.Pct(30)}
		rd.pods, rd.lseOwned = c10GenPods(r, ids, lseShare, lsrShare)
		rd.reserved = c10Subset(r, ids, resMode)
		rd.sysCPUs = c10Subset(r, ids, sysMode)
		if family == 3 { // LSE + reserved + system-exclusive together cover the machine
			prot, _ := rd.protected()
			for _, id := range ids {
				if !prot[id] {
					rd.reserved = append(rd.reserved, id)
				}
			}
			sort.Ints(rd.reserved)
		}
		if family != 1 && family != 3 && len(rd.sysCPUs) > 0 {
			switch r.Intn(4) {
			case 0:
				f := false
				rd.sysExcl = &f
			case 1:
				tr := true
				rd.sysExcl = &tr
			}
		}
		if r.Pct(10) && resMode != 0 { // a reserved id the machine does not have (must not matter)
			maxID := 0
			for _, id := range ids {
				maxID = c10Max(maxID, id)
			}
			rd.reserved = append(rd.reserved, maxID+r.Range(1, 9))
		}

		rounds := kit.Pick(r, []int{2, 2, 3, 3, 4, 4, 5, 5, 5, 8})
		wrote, partialProtection := false, false
		for k := 0; k < rounds; k++ {
			if k > 0 { // the node changes between rounds: pods come and go, rarely the node settings
				if r.Pct(60) {
					rd.pods, rd.lseOwned = c10GenPods(r, ids, kit.Pick(r, []int{lseShare, lseShare, 0, 50}), lsrShare)
					if family == 2 {
						rd.pods, rd.lseOwned = c10GenPods(r, ids, 100, 0)
					}
				}
				if r.Pct(15) && family < 0 {
					rd.reserved = c10Subset(r, ids, kit.Pick(r, []int{0, 1, 2}))
				}
				if family == 3 {
					prot, _ := rd.protected()
					for _, id := range ids {
						if !prot[id] {
							rd.reserved = append(rd.reserved, id)
						}
					}
				}
			}
			prot, why := rd.protected()
			var eligible []int
			for _, id := range ids {
				if !prot[id] {
					eligible = append(eligible, id)
				}
			}
			e := len(eligible)
			if e > 0 && e < n {
				partialProtection = true
			}
			// budget
			var bud int64
			bcls := r.Intn(10)
			if family == 4 {
				bcls = r.Intn(3)
			} else if family == 5 {
				bcls = 6 + r.Intn(2)
			}
			switch bcls {
			case 0:
				bud = -int64(r.Range(1, 64000))
			case 1:
				bud = int64(kit.Pick(r, []int{0, 1, 999, 1000, 1001}))
			case 2:
				bud = int64(kit.Pick(r, []int{1999, 2000, 2001}))
			case 3:
				bud = int64(e)*1000 + int64(kit.Pick(r, []int{-1001, -1000, -999, -1, 0}))
			case 4:
				bud = int64(r.Range(0, c10Max(1, e))) * 1000
			case 5:
				bud = int64(r.Range(0, c10Max(1, e)*1000))
			case 6:
				bud = int64(e)*1000 + int64(kit.Pick(r, []int{1, 1000, 1001, 2000, r.Range(1, 64000)}))
			case 7:
				bud = int64(r.Range(e, n+4)) * 1000
			default:
				bud = int64(r.Range(0, n*1000))
			}
			rd.budget = bud

			// publish the round to the mocks
			curPods = curPods[:0:0]
			for _, p := range rd.pods {
				curPods = append(curPods, &statesinformer.PodMeta{Pod: c10EPodObj(p)})
			}
			anno := map[string]string{}
			if len(rd.reserved) > 0 {
				nr := apiext.NodeReservation{ReservedCPUs: c10Format(r, rd.reserved), ApplyPolicy: kit.Pick(r, []apiext.NodeReservationApplyPolicy{"", "", apiext.NodeReservationApplyPolicyDefault, apiext.NodeReservationApplyPolicyReservedCPUsOnly})}
				if r.Pct(15) { // an amount next to the CPU list (the list names the CPUs)
					nr.Resources = corev1.ResourceList{corev1.ResourceCPU: resource.MustParse("1500m")}
				}
				b, _ := json.Marshal(nr)
				anno[apiext.AnnotationNodeReservation] = string(b)
			} else if r.Pct(20) { // reservation as an amount: names no CPU
				b, _ := json.Marshal(apiext.NodeReservation{Resources: corev1.ResourceList{corev1.ResourceCPU: resource.MustParse("2")}})
				anno[apiext.AnnotationNodeReservation] = string(b)
			}
			if len(rd.sysCPUs) > 0 {
				b, _ := json.Marshal(apiext.SystemQOSResource{CPUSet: c10Format(r, rd.sysCPUs), CPUSetExclusive: rd.sysExcl})
				anno[apiext.AnnotationNodeSystemQOSResource] = string(b)
			}
			if rd.policyAnno {
				pol := apiext.KubeletCPUManagerPolicy{Policy: apiext.KubeletCPUManagerPolicyNone}
				if rd.static {
					pol.Policy = apiext.KubeletCPUManagerPolicyStatic
					if r.Pct(30) {
						pol.Options = map[string]string{apiext.KubeletCPUManagerPolicyFullPCPUsOnlyOption: "true"}
					}
				}
				b, _ := json.Marshal(pol)
				anno[apiext.AnnotationKubeletCPUManagerPolicy] = string(b)
			}
			curTopo = &topov1alpha1.NodeResourceTopology{ObjectMeta: metav1.ObjectMeta{Name: "n0", Annotations: anno}}
			noTopo := family < 0 && r.Pct(2) // the node's topology object has not been reported (yet)
			if noTopo {
				curTopo = nil
			}

			// pre-state
			rootBefore, err := c10ParseList(c10ReadFile(c, cpusetFile(beDir)))
			if err != nil {
				c.Harness("BE root cpuset unparsable before the round: %v", err)
			}
			oldRoot := len(c10ToSet(rootBefore))
			oldTarget := oldRoot // size of the set BE containers are confined to before the round
			if static && len(ctrDirs) > 0 {
				l, err := c10ParseList(c10ReadFile(c, cpusetFile(ctrDirs[0])))
				if err != nil {
					c.Harness("container cpuset unparsable before the round: %v", err)
				}
				oldTarget = len(c10ToSet(l))
			}
			want := c10Max(2, int(c10CeilDiv(bud, 1000))) // budgeted CPU count, at least two
			reqFor := func(oldSize int) int { return c10Min(want, oldSize+step) }
			podsStr := ""
			for _, p := range rd.pods {
				podsStr += fmt.Sprintf("%s:%s[%s] ", p.name, p.qos, p.str)
			}
			c.Op("round %d: budget=%dm want=%d step=%d old(root)=%d old(target)=%d eligible=%d/%d annotations=%v pods=%s", k, bud, want, step, oldRoot, oldTarget, e, n, anno, podsStr)

			// input facts are counted before the call: a crash must not hide what was attempted
			c.Count("rounds", 1)
			if e == 0 {
				c.Count("rounds_every_cpu_protected", 1)
			}
			if bud < 2000 {
				c.Count("rounds_budget_below_two", 1)
			}
			if want > e {
				c.Count("rounds_budget_above_eligible", 1)
			}
			rec.intents = rec.intents[:0]
			cs.adjustByCPUSet(resource.NewMilliQuantity(bud, resource.DecimalSI), curInfo)
			syncEffective()
			if noTopo {
				// reservation and system-QoS settings are unknown to the agent: the statement does
				// not say what is due; only "does not crash" is claimed
				c.Count("rounds_no_topology", 1)
				if len(rec.intents) > 0 {
					c.Count("rounds_no_topology_written", 1)
				}
				c.Op("round %d -> no topology object, %d write requests", k, len(rec.intents))
				continue
			}

			intended := map[string]string{}
			for _, it := range rec.intents {
				intended[it.path] = it.value // last value asked for per file
			}
			// set invariants on every BE cgroup the code (re)wrote in this round
			check := func(dir string, budgeted bool) (size int, written bool) {
				f := cpusetFile(dir)
				wantStr, ok := intended[f]
				if !ok {
					return 0, false
				}
				content := c10ReadFile(c, f)
				lst, err := c10ParseList(content)
				if err != nil {
					c.Fail("C10/end2end/unparsable", "round %d: %s holds %q after the round: %v", k, f, content, err)
				}
				set := c10ToSet(lst)
				if len(set) != len(lst) {
					c.Fail("C10/end2end/duplicate", "round %d: %s holds %q: a CPU is listed twice", k, f, content)
				}
				if il, err := c10ParseList(wantStr); err != nil || c10Ranges(il) != c10Ranges(lst) {
					// the executor did not apply the value (rejected / failed): nothing was written
					// to this file in this round - no write, no claim (the write path is C12's)
					c.Count("file_differs_from_requested_value", 1)
					return 0, false
				}
				for _, id := range c10Sorted(set) {
					if !exists[id] {
						c.Fail("C10/end2end/unknown-cpu", "round %d: BE cpuset %q (%s) names cpu %d, which the node does not have", k, content, f, id)
					}
					if prot[id] {
						c.Fail("C10/end2end/protected-cpu-"+why[id], "round %d: BE cpuset %q (%s) contains cpu %d, which is %s", k, content, f, id, why[id])
					}
				}
				if budgeted {
					if len(set) > want {
						c.Fail("C10/end2end/over-budget", "round %d: BE cpuset %q has %d CPUs, budget %dm allows max(2, ceil)=%d", k, content, len(set), bud, want)
					}
					if e >= 2 && len(set) < 2 {
						c.Fail("C10/end2end/below-two", "round %d: BE cpuset %q (%s) has %d CPU(s) although %d eligible CPUs exist (budget %dm)", k, content, f, len(set), e, bud)
					}
				}
				return len(set), true
			}
			outcome := "no-write"
			if !static {
				size, written := check(beDir, true)
				for _, d := range append(append([]string(nil), podDirs...), ctrDirs...) {
					check(d, true)
				}
				req := reqFor(oldRoot)
				if written {
					wrote = true
					outcome = "written"
					c.Count("rounds_written", 1)
					if size > oldRoot+step {
						c.Fail("C10/end2end/over-step", "round %d: BE cpuset grew from %d to %d CPUs, the step limit on %d CPUs is %d", k, oldRoot, size, n, step)
					}
					if e >= req {
						if size != req {
							c.Fail("C10/end2end/not-exact", "round %d: %d eligible CPUs exist, min(max(2,ceil(budget)), previous+step)=%d CPUs were due, the BE cpuset has %d", k, e, req, size)
						}
						c.Count("rounds_exact", 1)
					if v2 {
						c.Count("rounds_exact_cgroup_v2", 1)
					}
					if n > 128 {
						c.Count("rounds_exact_more_than_128_cpus", 1)
					}
					if c10BucketCollisions(tp.procs) > 0 {
						c.Count("rounds_exact_bucket_index_collision", 1)
					}
					} else {
						outcome = "written-partial"
						c.Count("rounds_written_with_too_few_eligible", 1)
					}
					if size > oldRoot {
						c.Count("rounds_grown", 1)
						if want > oldRoot+step {
							c.Count("rounds_step_limited", 1)
						}
					} else if size < oldRoot {
						c.Count("rounds_shrunk", 1)
					}
				} else {
					c.Count("rounds_not_written", 1)
					if e >= req {
						c.Fail("C10/end2end/not-exact", "round %d: %d eligible CPUs exist and %d were due, but no BE cpuset was derived (nothing written)", k, e, req)
					}
					if e == 0 {
						c.Count("rounds_no_eligible_cpu", 1)
					} else {
						c.Count("converse_misses_fewer_eligible_than_budget_nothing_written", 1)
					}
				}
			} else {
				// static policy: root and pod directories are reset to "everything BE may use"
				// (not budgeted), the budgeted set goes to the containers
				for _, d := range append([]string{beDir}, podDirs...) {
					check(d, false)
				}
				size, written := 0, false
				for _, d := range ctrDirs {
					s, w := check(d, true)
					if w {
						size, written = s, true
					}
				}
				lo, hi := reqFor(c10Min(oldRoot, oldTarget)), reqFor(c10Max(oldRoot, oldTarget))
				if written {
					wrote = true
					outcome = "written-static"
					c.Count("rounds_written_static", 1)
					// which previous size the step limit refers to under the static policy is not
					// said by the statement (root directory or containers): exactness is asserted
					// only where both readings agree; growth beyond the step over the containers'
					// previous set is counted, not judged
					if e >= hi && lo == hi && size != lo {
						c.Fail("C10/end2end/not-exact", "round %d (static policy): %d eligible CPUs exist, %d were due, the BE containers got %d", k, e, lo, size)
					}
					if size > oldTarget+step {
						c.Count("static_policy_growth_beyond_step_over_container_set", 1)
					}
				} else {
					c.Count("rounds_not_written", 1)
					if e >= hi {
						c.Fail("C10/end2end/not-exact", "round %d (static policy): %d eligible CPUs exist and at most %d were due, but no BE container cpuset was derived", k, e, hi)
					}
				}
			}
			c.Op("round %d -> %s root=%q", k, outcome, c10ReadFile(c, cpusetFile(beDir)))
			lsrN := 0
			for _, p := range rd.pods {
				if p.qos == apiext.QoSLSR {
					lsrN += len(p.cpus)
				}
			}
			eC := "some"
			switch {
			case e == 0:
				eC = "none"
			case e == 1:
				eC = "one"
			case e == n:
				eC = "all"
			}
			bC := "<=eligible"
			if want > e {
				bC = ">eligible"
			}
			if bud < 2000 {
				bC = "<2"
			}
			c.Seen(c10SizeClass(n), tp.smt, static, len(rd.lseOwned) > 0, len(rd.reserved) > 0, len(rd.sysCPUs) > 0, rd.sysExcl == nil || *rd.sysExcl, eC, bC, lsrN > 0, outcome, want > oldRoot+step)
		}
		c.Evals(rounds - 1)
		if wrote && partialProtection {
			c.NonTrivial()
		}
		if c.K == 6 || c.K == 7 {
			var ops []string
			for _, o := range c.Ops()[1:] {
				if len(o) > 360 {
					o = o[:360] + "..."
				}
				ops = append(ops, o)
			}
			c.Sample(map[string]any{"topology": tp.shape(), "cpus": c10Ranges(ids), "ops": ops})
		}
	})
}
