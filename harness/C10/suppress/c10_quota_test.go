//go:build verif

package cpusuppress

// C10 unit "quota": adjustByCfsQuota over a temp cgroup root.
//
// Statement: "in quota mode the quota equals the budget times the CFS period, floored by the
// minimum quota". Documented rules of the code (constants and their comments in cpu_suppress.go):
//
//	target  = max(budget[milli] * period / 1000, beMinQuota=2000)           period = 100000us
//	bypass  : if |target - current| < 1% of (capacity * period) and target != beMinQuota, the
//	          write may be skipped ("quota delta is too small")
//	step    : if target - current > 10% of (capacity * period) and a quota is already set
//	          (current != -1), the quota grows by exactly that 10% ("scale up slow")
//
// Oracle: the file afterwards holds target, or - only under the bypass condition - the unchanged
// previous value, or - only under the step condition, where it is mandatory - current + 10%.
// 1% and 10% of capacity*period are whole numbers of microseconds (capacity is a whole number of
// CPUs), and the code's float products are exact for every capacity up to 4096 CPUs (checked
// separately), so the comparison is exact.

import (
	"fmt"
	"os"
	"path/filepath"
	"strconv"
	"strings"
	"testing"

	corev1 "k8s.io/api/core/v1"
	"k8s.io/apimachinery/pkg/api/resource"
	metav1 "k8s.io/apimachinery/pkg/apis/meta/v1"

	"github.com/koordinator-sh/koordinator/pkg/koordlet/resourceexecutor"
	koordletutil "github.com/koordinator-sh/koordinator/pkg/koordlet/util"
	"github.com/koordinator-sh/koordinator/pkg/koordlet/util/system"
	"github.com/koordinator-sh/koordinator/pkg/util/cache"
	kit "github.com/koordinator-sh/koordinator/pkg/verifkit"
)

func TestVerifC10Quota(t *testing.T) {
	base := c10CgroupBase(t)
	const period, minQuota = int64(100000), int64(2000)
	kit.Run(t, kit.Config{Property: "C10", Unit: "quota", Quick: 12000, Thorough: 300000,
		Rule: "1-4 rounds of the real adjustByCfsQuota on one BE cgroup (temp cgroup-v1 root): node capacity 1-256 whole CPUs (7%: 384-1024), cgroup v1 75% / v2 25% (cpu.max, harness restores the period field after each write), previous quota unset (-1) or a value placed at/around target, target-1%, target+1%, target-10% (each -1/0/+1us) or random, budget boundary-biased (<0, 0, 19/20/21 milli = around the minimum quota, up to and above the capacity); oracle = statement's target with the documented bypass and step rules in integer arithmetic; distinct = (capacity class, previous-quota class, rule that applied, budget class); non-trivial = a case that saw at least two different rules apply",
	}, func(c *kit.Case) {
		r := c.R
		root := filepath.Join(base, fmt.Sprintf("quota-%d", c.K))
		system.Conf.CgroupRootDir = root
		defer os.RemoveAll(root)
		beDir := koordletutil.GetPodQoSRelativePath(corev1.PodQOSBestEffort)
		// cgroup version: on v2 the quota lives in cpu.max ("<quota|max> <period>"); the code writes
		// the quota alone and the kernel keeps the period - the harness plays the kernel after each
		// write (normalise)
		v2 := r.Pct(25)
		system.UseCgroupsV2.Store(v2)
		defer system.UseCgroupsV2.Store(false)
		quotaRes, err := system.GetCgroupResource(system.CPUCFSQuotaName)
		if err != nil {
			c.Harness("cfs quota resource: %v", err)
		}
		file := quotaRes.Path(beDir)
		render := func(q int64) string {
			if !v2 {
				return strconv.FormatInt(q, 10)
			}
			if q == -1 {
				return "max 100000"
			}
			return strconv.FormatInt(q, 10) + " 100000"
		}
		parse := func(s string) (int64, bool) { // what the file means; ok=false if it is no quota at all
			f := strings.Fields(s)
			if len(f) == 0 || len(f) > 2 || (!v2 && len(f) != 1) {
				return 0, false
			}
			if v2 && f[0] == "max" {
				return -1, true
			}
			q, err := strconv.ParseInt(f[0], 10, 64)
			return q, err == nil
		}
		if v2 {
			c.Count("quota_cases_cgroup_v2", 1)
		}
		capCPUs := int64(kit.Pick(r, []int{1, 2, 4, 8, 16, 32, 64, 80, 96, 128, 256, r.Range(1, 256), r.Range(1, 256), r.Range(1, 256), kit.Pick(r, []int{384, 512, 1024})}))
		node := &corev1.Node{ObjectMeta: metav1.ObjectMeta{Name: "n0"}, Status: corev1.NodeStatus{Capacity: corev1.ResourceList{corev1.ResourceCPU: *resource.NewQuantity(capCPUs, resource.DecimalSI)}}}
		bypassDelta, stepMax := capCPUs*period/100, capCPUs*period/10
		cs := &CPUSuppress{
			executor:               &resourceexecutor.ResourceUpdateExecutorImpl{Config: resourceexecutor.NewDefaultConfig(), ResourceCache: cache.NewCacheDefault()},
			cgroupReader:           resourceexecutor.NewCgroupReader(),
			suppressPolicyStatuses: map[string]suppressPolicyStatus{},
		}
		genBudget := func() int64 {
			switch r.Intn(8) {
			case 0:
				return -int64(r.Range(1, 100000))
			case 1:
				return int64(kit.Pick(r, []int{0, 1, 19, 20, 21, 100}))
			case 2:
				return capCPUs*1000 + int64(kit.Pick(r, []int{-1, 0, 1, 1000, 50000}))
			case 3:
				return int64(r.Range(0, int(capCPUs))) * 1000
			default:
				return int64(r.Range(0, int(capCPUs)*1000))
			}
		}
		target := func(b int64) int64 {
			q := b * period / 1000
			if q < minQuota {
				q = minQuota
			}
			return q
		}
		bud := genBudget()
		// previous quota
		var cur int64
		curCls := r.Intn(8)
		tg := target(bud)
		off := int64(kit.Pick(r, []int{-1, 0, 1}))
		switch curCls {
		case 0:
			cur = -1 // never set (unlimited)
		case 1:
			cur = tg + off
		case 2:
			cur = tg - bypassDelta + off
		case 3:
			cur = tg + bypassDelta + off
		case 4:
			cur = tg - stepMax + off
		case 5:
			cur = minQuota
		case 6: // set by somebody else to something huge
			cur = kit.Pick(r, []int64{capCPUs * period * 100, 1 << 40})
		default:
			cur = int64(r.Range(1000, int(capCPUs*period*12/10)))
		}
		if cur != -1 && cur < 1000 { // the kernel accepts no quota below 1ms
			cur = 1000
		}
		if err := os.MkdirAll(filepath.Dir(file), 0o777); err != nil {
			c.Harness("mkdir: %v", err)
		}
		if err := os.WriteFile(file, []byte(render(cur)), 0o644); err != nil {
			c.Harness("write: %v", err)
		}
		c.Op("cgroup-v2=%v capacity=%d CPUs (1%%=%dus 10%%=%dus) previous quota=%d", v2, capCPUs, bypassDelta, stepMax, cur)
		rounds := r.Range(1, 4)
		rules := map[string]bool{}
		for k := 0; k < rounds; k++ {
			if k > 0 {
				bud = genBudget()
				if r.Pct(40) { // a small move: exercises the bypass on the value the code wrote itself
					bud = (cur*1000/period + int64(r.Range(-int(capCPUs*12), int(capCPUs*12))))
				}
			}
			tg = target(bud)
			c.Op("round %d: budget=%dm target=%d current=%d", k, bud, tg, cur)
			cs.adjustByCfsQuota(resource.NewMilliQuantity(bud, resource.DecimalSI), node)
			b, err := os.ReadFile(file)
			if err != nil {
				c.Harness("read: %v", err)
			}
			got, ok := parse(string(b))
			if !ok {
				c.Fail("C10/quota/unparsable", "round %d: the quota file holds %q", k, string(b))
			}
			if v2 { // the kernel reports "<quota> <period>" whatever form was written
				if err := os.WriteFile(file, []byte(render(got)), 0o644); err != nil {
					c.Harness("write: %v", err)
				}
			}
			c.Op("round %d -> quota=%d", k, got)
			diff := tg - cur
			abs := diff
			if abs < 0 {
				abs = -abs
			}
			bypassOK := abs < bypassDelta && tg != minQuota
			stepDue := diff > stepMax && cur != -1
			rule := "target"
			switch {
			case stepDue:
				rule = "step"
				if got != cur+stepMax {
					sig := "C10/quota/wrong-value"
					if got > cur+stepMax {
						sig = "C10/quota/step-exceeded"
					}
					c.Fail(sig, "round %d: previous quota %d, target %d (budget %dm) is more than 10%% of %d CPUs (%dus) above it: %d was due, cpu.cfs_quota_us holds %d", k, cur, tg, bud, capCPUs, stepMax, cur+stepMax, got)
				}
			case got == tg:
				if bypassOK && got != cur {
					c.Count("quota_bypass_not_taken", 1)
				}
			case bypassOK && got == cur:
				rule = "bypass"
				if cur == -1 {
					c.Count("quota_bypass_left_quota_unset", 1)
				}
			default:
				sig := "C10/quota/wrong-value"
				if got < minQuota && got != cur {
					sig = "C10/quota/below-min"
				}
				c.Fail(sig, "round %d: capacity %d CPUs, previous quota %d, budget %dm: budget x period = max(%d, %d) = %d was due (bypass allowed: %v), cpu.cfs_quota_us holds %d", k, capCPUs, cur, bud, bud*period/1000, minQuota, tg, bypassOK, got)
			}
			if got != -1 && got < minQuota && got != cur {
				c.Fail("C10/quota/below-min", "round %d: quota %d written, the minimum quota is %d", k, got, minQuota)
			}
			if tg == minQuota {
				c.Count("quota_floor_active", 1)
			}
			c.Count("quota_rule_"+rule, 1)
			c.Count("quota_rounds", 1)
			rules[rule] = true
			bC := "mid"
			switch {
			case bud < 20:
				bC = "below-min"
			case bud >= capCPUs*1000:
				bC = ">=capacity"
			}
			c.Seen(c10SizeClass(int(capCPUs)), curCls, k > 0, rule, bC, cur == -1, got > cur, abs == bypassDelta, diff == stepMax)
			cur = got
		}
		c.Evals(rounds - 1)
		if len(rules) >= 2 {
			c.NonTrivial()
		}
		if c.K < 2 {
			c.Sample(c.Ops())
		}
	})
}
