//go:build verif

package cpusuppress

// C10 monitors, shared helpers: topology generation, an independent CPU-list parser/formatter,
// small integer helpers. See /verif/DESIGN.md section 4, C10.

import (
	"fmt"
	"os"
	"sort"
	"strconv"
	"strings"
	"testing"

	"k8s.io/klog/v2"

	koordletutil "github.com/koordinator-sh/koordinator/pkg/koordlet/util"
	"github.com/koordinator-sh/koordinator/pkg/koordlet/util/system"
	kit "github.com/koordinator-sh/koordinator/pkg/verifkit"
)

// c10CgroupBase prepares the koordlet's system configuration for a fake cgroup-v1 file system the
// way the package's own tests do (system.NewFileTestUtil) and returns the directory under which
// every case creates its own cgroup root. A memory file system is preferred: the units are
// dominated by small file operations.
func c10CgroupBase(t *testing.T) string {
	helper := system.NewFileTestUtil(t)
	helper.SetCgroupsV2(false)
	if d, err := os.MkdirTemp("/dev/shm", "verif-c10-"); err == nil {
		t.Cleanup(func() { _ = os.RemoveAll(d) })
		return d
	}
	return helper.TempDir
}

func init() {
	klog.SetOutput(c10Discard{})
	klog.LogToStderr(false)
}

type c10Discard struct{}

func (c10Discard) Write(p []byte) (int, error) { return len(p), nil }

// ---------------------------------------------------------------------------------------------
// topology generation

type c10Topo struct {
	sockets, nodes, coresPerSocket, smt int
	arrange                             string // nested | spanning | interleaved | sparse-ids | collide
	layout                              string // dense | sibling | offset
	offline                             int    // CPUs removed from the list (offline / not reported)
	procs                               []koordletutil.ProcessorInfo
}

func (t c10Topo) shape() string {
	return fmt.Sprintf("%ds x %dn(%s) x %dc/s x %dt %s off=%d", t.sockets, t.nodes, t.arrange, t.coresPerSocket, t.smt, t.layout, t.offline)
}

// c10SizeClass abstracts the CPU count for the distinct-state evidence.
func c10SizeClass(n int) string {
	switch {
	case n <= 2:
		return strconv.Itoa(n)
	case n <= 4:
		return "3-4"
	case n <= 8:
		return "5-8"
	case n <= 16:
		return "9-16"
	case n <= 32:
		return "17-32"
	case n <= 64:
		return "33-64"
	case n <= 128:
		return "65-128"
	}
	return ">128"
}

// c10BucketCollisions counts pairs of distinct (node, socket) combinations of the list that
// calculateBESuppressCPUSetPolicy's arithmetic bucket index (node+len)*(socket+1) maps to one
// bucket. Evidence only (no oracle depends on it): it shows that the generated topologies reach
// the merged-bucket path.
func c10BucketCollisions(list []koordletutil.ProcessorInfo) int {
	n := int32(len(list))
	type ns struct{ node, socket int32 }
	byIdx := map[int32]map[ns]bool{}
	for _, p := range list {
		idx := (p.NodeID + n) * (p.SocketID + 1)
		if byIdx[idx] == nil {
			byIdx[idx] = map[ns]bool{}
		}
		byIdx[idx][ns{p.NodeID, p.SocketID}] = true
	}
	c := 0
	for _, m := range byIdx {
		c += len(m) - 1
	}
	return c
}

// c10GenTopo builds a processor list as the koordlet's lscpu reader does: one entry per online
// logical CPU, system-wide unique logical core numbers, sorted by (node, socket, core, cpu).
// Mostly 1..128 CPUs (5%: up to 512), SMT 1/2/4 (rarely 8), 1/2/4/8 sockets. NUMA arrangement:
//
//	nested       1, 2 or 4 NUMA nodes inside each socket, ids 0..k-1 (the usual x86 layout)
//	spanning     one NUMA node spans 2 or 4 sockets (as in the package's own 16-CPU fixture)
//	interleaved  consecutive cores alternate between the NUMA nodes (node ids not nested in sockets)
//	sparse-ids   nested, but node ids and socket ids come from sparse id spaces that do not start
//	             at 0 (POWER reports nodes like 0, 8, 252-255; package ids need not be contiguous)
//	collide      two sockets whose (node, socket) pairs are (0, 1) and (N, 0), N = number of CPUs:
//	             the pair the arithmetic bucket index of the selection maps to one bucket
//
// Logical ids are dense (siblings adjacent), sibling-sparse (siblings N/smt apart, the usual Linux
// numbering) or offset (ids start above 0 with gaps); optionally some CPUs are missing (offline),
// which leaves cores with an odd number of threads.
func c10GenTopo(r *kit.Rand) c10Topo {
	t := c10Topo{
		sockets: kit.Pick(r, []int{1, 1, 1, 2, 2, 2, 4, 8}),
		smt:     kit.Pick(r, []int{1, 2, 2, 2, 2, 4, 4, 8}),
		layout:  kit.Pick(r, []string{"dense", "dense", "sibling", "sibling", "offset"}),
		arrange: kit.Pick(r, []string{"nested", "nested", "nested", "spanning", "interleaved", "sparse-ids", "collide"}),
	}
	if t.smt == 8 && !r.Pct(25) {
		t.smt = 2
	}
	maxCPUs := 128
	if r.Pct(5) {
		maxCPUs = 512
	}
	numaPerSocket := 1
	switch t.arrange {
	case "nested", "sparse-ids":
		numaPerSocket = kit.Pick(r, []int{1, 1, 2, 2, 4})
		for t.sockets*numaPerSocket*t.smt > maxCPUs {
			numaPerSocket /= 2
		}
		t.nodes = t.sockets * numaPerSocket
	case "spanning":
		if t.sockets == 1 {
			t.sockets = 2
		}
		t.nodes = c10Max(1, t.sockets/kit.Pick(r, []int{2, 4}))
	case "interleaved":
		t.nodes = kit.Pick(r, []int{2, 2, 3, 4, 8})
	case "collide":
		t.sockets, t.nodes = 2, 2
	}
	maxCores := c10Max(1, maxCPUs/(t.sockets*t.smt))
	minCores := 1
	if t.arrange == "nested" || t.arrange == "sparse-ids" {
		minCores = numaPerSocket // at least one core per NUMA node
	}
	switch r.Intn(5) {
	case 0:
		t.coresPerSocket = minCores
	case 1:
		t.coresPerSocket = r.Range(minCores, c10Max(minCores, c10Min(4*minCores, maxCores)))
	case 2:
		t.coresPerSocket = maxCores
	default:
		t.coresPerSocket = r.Range(minCores, c10Max(minCores, maxCores))
	}
	if r.Pct(6) { // the smallest machines explicitly
		t.sockets, t.nodes, t.coresPerSocket, t.arrange = 1, 1, 1, "nested"
		numaPerSocket, t.smt = 1, kit.Pick(r, []int{1, 2, 4})
	}
	totalCores := t.sockets * t.coresPerSocket
	// id tables
	nodeID := make([]int, t.nodes)
	for i := range nodeID {
		nodeID[i] = i
	}
	socketID := make([]int, t.sockets)
	for i := range socketID {
		socketID[i] = i
	}
	switch t.arrange {
	case "sparse-ids":
		pool := []int{0, 1, 2, 3, 5, 8, 9, 16, 17, 31, 64, 252, 253, 254, 255}
		picks := r.Perm(len(pool))[:c10Min(t.nodes, len(pool))]
		sort.Ints(picks)
		for i := range nodeID {
			nodeID[i] = pool[picks[i%len(picks)]] + 256*(i/len(picks))
		}
		base, stride := kit.Pick(r, []int{0, 0, 1, 2}), kit.Pick(r, []int{1, 2, 3})
		for i := range socketID {
			socketID[i] = base + i*stride
		}
	case "collide":
		n := totalCores * t.smt
		socketID[0], socketID[1] = 1, 0
		nodeID[0], nodeID[1] = 0, n
	}
	stride, base := 1, 0
	if t.layout == "offset" {
		stride, base = r.Range(1, 3), r.Range(1, 64)
	}
	core := 0
	for s := 0; s < t.sockets; s++ {
		for c := 0; c < t.coresPerSocket; c++ {
			var node int
			switch t.arrange {
			case "nested", "sparse-ids":
				node = s*numaPerSocket + c*numaPerSocket/t.coresPerSocket
			case "spanning":
				node = s * t.nodes / t.sockets
			case "interleaved":
				node = core % t.nodes
			case "collide":
				node = s
			}
			for p := 0; p < t.smt; p++ {
				id := core*t.smt + p
				if t.layout == "sibling" {
					id = p*totalCores + core
				}
				id = base + id*stride
				t.procs = append(t.procs, koordletutil.ProcessorInfo{CPUID: int32(id), CoreID: int32(core), SocketID: int32(socketID[s]), NodeID: int32(nodeID[node]), Online: "yes"})
			}
			core++
		}
	}
	if r.Pct(20) && len(t.procs) > 1 {
		drop := r.Range(1, c10Max(1, len(t.procs)/5))
		for i := 0; i < drop && len(t.procs) > 1; i++ {
			j := r.Intn(len(t.procs))
			t.procs = append(t.procs[:j], t.procs[j+1:]...)
			t.offline++
		}
	}
	c10SortProcs(t.procs)
	return t
}

func c10SortProcs(p []koordletutil.ProcessorInfo) {
	sort.Slice(p, func(i, j int) bool {
		a, b := p[i], p[j]
		if a.NodeID != b.NodeID {
			return a.NodeID < b.NodeID
		}
		if a.SocketID != b.SocketID {
			return a.SocketID < b.SocketID
		}
		if a.CoreID != b.CoreID {
			return a.CoreID < b.CoreID
		}
		return a.CPUID < b.CPUID
	})
}

func c10ProcsStr(p []koordletutil.ProcessorInfo) string {
	var b strings.Builder
	for _, x := range p {
		fmt.Fprintf(&b, "%d/n%d/s%d/c%d ", x.CPUID, x.NodeID, x.SocketID, x.CoreID)
	}
	return b.String()
}

func c10IDs(p []koordletutil.ProcessorInfo) []int {
	out := make([]int, len(p))
	for i, x := range p {
		out[i] = int(x.CPUID)
	}
	return out
}

// ---------------------------------------------------------------------------------------------
// CPU lists: a parser and a formatter that do not share code with pkg/util/cpuset (an anchor of
// the property)

// c10ParseList parses a Linux CPU list ("0-3,7,9-10") into the literal id sequence (duplicates
// kept, so that the distinctness clause can be observed).
func c10ParseList(s string) ([]int, error) {
	s = strings.TrimSpace(s)
	if s == "" {
		return nil, nil
	}
	var out []int
	for _, part := range strings.Split(s, ",") {
		part = strings.TrimSpace(part)
		if i := strings.IndexByte(part, '-'); i > 0 {
			a, err := strconv.Atoi(part[:i])
			if err != nil {
				return nil, err
			}
			b, err := strconv.Atoi(part[i+1:])
			if err != nil {
				return nil, err
			}
			if b < a || b-a > 4096 {
				return nil, fmt.Errorf("bad range %q", part)
			}
			for x := a; x <= b; x++ {
				out = append(out, x)
			}
		} else {
			v, err := strconv.Atoi(part)
			if err != nil {
				return nil, err
			}
			out = append(out, v)
		}
	}
	return out, nil
}

func c10ToSet(ids []int) map[int]bool {
	m := make(map[int]bool, len(ids))
	for _, id := range ids {
		m[id] = true
	}
	return m
}

func c10Sorted(m map[int]bool) []int {
	out := make([]int, 0, len(m))
	for id := range m {
		out = append(out, id)
	}
	sort.Ints(out)
	return out
}

// c10Ranges formats ids as a canonical Linux CPU list.
func c10Ranges(ids []int) string {
	ids = c10Sorted(c10ToSet(ids))
	var parts []string
	for i := 0; i < len(ids); {
		j := i
		for j+1 < len(ids) && ids[j+1] == ids[j]+1 {
			j++
		}
		if j == i {
			parts = append(parts, strconv.Itoa(ids[i]))
		} else {
			parts = append(parts, fmt.Sprintf("%d-%d", ids[i], ids[j]))
		}
		i = j + 1
	}
	return strings.Join(parts, ",")
}

// c10Format writes a CPU list either canonically or as a plain (possibly unsorted) comma list -
// both forms occur in annotations and cgroup files.
func c10Format(r *kit.Rand, ids []int) string {
	if len(ids) == 0 {
		return ""
	}
	if r.Pct(70) {
		return c10Ranges(ids)
	}
	cp := append([]int(nil), ids...)
	if r.Bool() {
		kit.Shuffle(r, cp)
	}
	parts := make([]string, len(cp))
	for i, v := range cp {
		parts[i] = strconv.Itoa(v)
	}
	return strings.Join(parts, ",")
}

func c10Min(a, b int) int {
	if a < b {
		return a
	}
	return b
}

func c10Max(a, b int) int {
	if a > b {
		return a
	}
	return b
}

func c10CeilDiv(a, b int64) int64 { // b > 0, mathematical ceiling also for negative a
	q := a / b
	if a%b != 0 && a > 0 {
		q++
	}
	return q
}
