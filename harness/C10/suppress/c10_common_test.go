//go:build verif

package cpusuppress

// C10 monitors, shared helpers: topology generation, an independent CPU-list parser/formatter,
// small integer helpers. See /verif/DESIGN.md section 4, C10.

import (
	"fmt"
	"os"
	"sort"
	"strconv"
	"strings"
	"testing"

	"k8s.io/klog/v2"

	koordletutil "github.com/koordinator-sh/koordinator/pkg/koordlet/util"
	"github.com/koordinator-sh/koordinator/pkg/koordlet/util/system"
	kit "github.com/koordinator-sh/koordinator/pkg/verifkit"
)

// c10CgroupBase prepares the koordlet's system configuration for a fake cgroup-v1 file system the
// way the package's own tests do (system.NewFileTestUtil) and returns the directory under which
// every case creates its own cgroup root. A memory file system is preferred: the units are
// dominated by small file operations.
func c10CgroupBase(t *testing.T) string {
	helper := system.NewFileTestUtil(t)
	helper.SetCgroupsV2(false)
	if d, err := os.MkdirTemp("/dev/shm", "verif-c10-"); err == nil {
		t.Cleanup(func() { _ = os.RemoveAll(d) })
		return d
	}
	return helper.TempDir
}

func init() {
	klog.SetOutput(c10Discard{})
	klog.LogToStderr(false)
}

type c10Discard struct{}

func (c10Discard) Write(p []byte) (int, error) { return len(p), nil }

// ---------------------------------------------------------------------------------------------
// topology generation

type c10Topo struct {
	sockets, numaPerSocket, coresPerNuma, smt int
	layout                                    string // dense | sibling | offset
	offline                                   int    // CPUs removed from the list (offline / not reported)
	procs                                     []koordletutil.ProcessorInfo
}

func (t c10Topo) shape() string {
	return fmt.Sprintf("%ds x %dn x %dc x %dt %s off=%d", t.sockets, t.numaPerSocket, t.coresPerNuma, t.smt, t.layout, t.offline)
}

// c10SizeClass abstracts the CPU count for the distinct-state evidence.
func c10SizeClass(n int) string {
	switch {
	case n <= 2:
		return strconv.Itoa(n)
	case n <= 4:
		return "3-4"
	case n <= 8:
		return "5-8"
	case n <= 16:
		return "9-16"
	case n <= 32:
		return "17-32"
	case n <= 64:
		return "33-64"
	}
	return "65-128"
}

// c10GenTopo builds a processor list as the koordlet's lscpu reader does: one entry per online
// logical CPU, system-wide unique logical core numbers, global NUMA node ids, sorted by
// (node, socket, core, cpu). 1..128 CPUs, SMT 1/2/4, 1-4 NUMA nodes, 1-2 sockets. Logical ids are
// dense (siblings adjacent), sibling-sparse (siblings N/smt apart, the usual Linux numbering) or
// offset (ids start above 0 with gaps); optionally some CPUs are missing (offline), which leaves
// cores with an odd number of threads.
func c10GenTopo(r *kit.Rand) c10Topo {
	t := c10Topo{
		sockets:       kit.Pick(r, []int{1, 1, 2}),
		numaPerSocket: kit.Pick(r, []int{1, 1, 2}),
		smt:           kit.Pick(r, []int{1, 2, 2, 2, 4}),
		layout:        kit.Pick(r, []string{"dense", "dense", "sibling", "sibling", "offset"}),
	}
	maxCores := 128 / (t.sockets * t.numaPerSocket * t.smt)
	switch r.Intn(5) {
	case 0:
		t.coresPerNuma = 1
	case 1:
		t.coresPerNuma = r.Range(1, c10Min(4, maxCores))
	case 2:
		t.coresPerNuma = maxCores
	default:
		t.coresPerNuma = r.Range(1, maxCores)
	}
	if r.Pct(6) { // the smallest machines explicitly
		t.sockets, t.numaPerSocket, t.coresPerNuma = 1, 1, 1
		t.smt = kit.Pick(r, []int{1, 2, 4})
	}
	totalCores := t.sockets * t.numaPerSocket * t.coresPerNuma
	stride, base := 1, 0
	if t.layout == "offset" {
		stride, base = r.Range(1, 3), r.Range(1, 64)
	}
	core := 0
	for s := 0; s < t.sockets; s++ {
		for n := 0; n < t.numaPerSocket; n++ {
			node := s*t.numaPerSocket + n
			for c := 0; c < t.coresPerNuma; c++ {
				for p := 0; p < t.smt; p++ {
					id := core*t.smt + p
					if t.layout == "sibling" {
						id = p*totalCores + core
					}
					id = base + id*stride
					t.procs = append(t.procs, koordletutil.ProcessorInfo{CPUID: int32(id), CoreID: int32(core), SocketID: int32(s), NodeID: int32(node), Online: "yes"})
				}
				core++
			}
		}
	}
	if r.Pct(20) && len(t.procs) > 1 {
		drop := r.Range(1, c10Max(1, len(t.procs)/5))
		for i := 0; i < drop && len(t.procs) > 1; i++ {
			j := r.Intn(len(t.procs))
			t.procs = append(t.procs[:j], t.procs[j+1:]...)
			t.offline++
		}
	}
	c10SortProcs(t.procs)
	return t
}

func c10SortProcs(p []koordletutil.ProcessorInfo) {
	sort.Slice(p, func(i, j int) bool {
		a, b := p[i], p[j]
		if a.NodeID != b.NodeID {
			return a.NodeID < b.NodeID
		}
		if a.SocketID != b.SocketID {
			return a.SocketID < b.SocketID
		}
		if a.CoreID != b.CoreID {
			return a.CoreID < b.CoreID
		}
		return a.CPUID < b.CPUID
	})
}

func c10ProcsStr(p []koordletutil.ProcessorInfo) string {
	var b strings.Builder
	for _, x := range p {
		fmt.Fprintf(&b, "%d/n%d/s%d/c%d ", x.CPUID, x.NodeID, x.SocketID, x.CoreID)
	}
	return b.String()
}

func c10IDs(p []koordletutil.ProcessorInfo) []int {
	out := make([]int, len(p))
	for i, x := range p {
		out[i] = int(x.CPUID)
	}
	return out
}

// ---------------------------------------------------------------------------------------------
// CPU lists: a parser and a formatter that do not share code with pkg/util/cpuset (an anchor of
// the property)

// c10ParseList parses a Linux CPU list ("0-3,7,9-10") into the literal id sequence (duplicates
// kept, so that the distinctness clause can be observed).
func c10ParseList(s string) ([]int, error) {
	s = strings.TrimSpace(s)
	if s == "" {
		return nil, nil
	}
	var out []int
	for _, part := range strings.Split(s, ",") {
		part = strings.TrimSpace(part)
		if i := strings.IndexByte(part, '-'); i > 0 {
			a, err := strconv.Atoi(part[:i])
			if err != nil {
				return nil, err
			}
			b, err := strconv.Atoi(part[i+1:])
			if err != nil {
				return nil, err
			}
			if b < a || b-a > 4096 {
				return nil, fmt.Errorf("bad range %q", part)
			}
			for x := a; x <= b; x++ {
				out = append(out, x)
			}
		} else {
			v, err := strconv.Atoi(part)
			if err != nil {
				return nil, err
			}
			out = append(out, v)
		}
	}
	return out, nil
}

func c10ToSet(ids []int) map[int]bool {
	m := make(map[int]bool, len(ids))
	for _, id := range ids {
		m[id] = true
	}
	return m
}

func c10Sorted(m map[int]bool) []int {
	out := make([]int, 0, len(m))
	for id := range m {
		out = append(out, id)
	}
	sort.Ints(out)
	return out
}

// c10Ranges formats ids as a canonical Linux CPU list.
func c10Ranges(ids []int) string {
	ids = c10Sorted(c10ToSet(ids))
	var parts []string
	for i := 0; i < len(ids); {
		j := i
		for j+1 < len(ids) && ids[j+1] == ids[j]+1 {
			j++
		}
		if j == i {
			parts = append(parts, strconv.Itoa(ids[i]))
		} else {
			parts = append(parts, fmt.Sprintf("%d-%d", ids[i], ids[j]))
		}
		i = j + 1
	}
	return strings.Join(parts, ",")
}

// c10Format writes a CPU list either canonically or as a plain (possibly unsorted) comma list -
// both forms occur in annotations and cgroup files.
func c10Format(r *kit.Rand, ids []int) string {
	if len(ids) == 0 {
		return ""
	}
	if r.Pct(70) {
		return c10Ranges(ids)
	}
	cp := append([]int(nil), ids...)
	if r.Bool() {
		kit.Shuffle(r, cp)
	}
	parts := make([]string, len(cp))
	for i, v := range cp {
		parts[i] = strconv.Itoa(v)
	}
	return strings.Join(parts, ",")
}

func c10Min(a, b int) int {
	if a < b {
		return a
	}
	return b
}

func c10Max(a, b int) int {
	if a > b {
		return a
	}
	return b
}

func c10CeilDiv(a, b int64) int64 { // b > 0, mathematical ceiling also for negative a
	q := a / b
	if a%b != 0 && a > 0 {
		q++
	}
	return q
}
