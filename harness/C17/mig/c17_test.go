//go:build verif

package migration

// C17 monitor: migration job ordering and terminal phases. See /verif/DESIGN.md section 4, C17.
//
// What runs: the real Reconciler.Reconcile (controller.go) over a controller-runtime fake client
// (the API store) wrapped by an interceptor that can fail exactly one write, a fake clock, and three
// harness-owned environment doubles:
//
//   - c17Interp: the reservation interpreter. It owns the ONLY copy of every reservation as an abstract
//     environment state (pending, pending+unschedulable condition, unschedulable(terminal), scheduled on
//     node X, bound to pod Y, expired, deleted) and renders a fresh Reservation object from that state on
//     every GetReservation, so the controller can never hold anything but a snapshot and the state at the
//     instant of Evict is the truth the ordering clause is judged against.
//   - c17Evictor: the recording evictor. Every Evict call is stamped with the environment's reservation
//     state, the pod handed in, the pod in the store, the stored job phase, and judged at once.
//   - c17Preempt: optional scripted preemption (absent in most cases, as in the shipped interpreter).
//
// Second kit unit "real-interpreter" (TestVerifC17RealInterpreter): the same worlds, histories, fault
// enumeration and oracle, but with the SHIPPED interpreter (reservation.NewInterpreter) over the fault-injecting
// client; Reservation objects live in the API store, the environment writes their status there, the oracle
// reads them back from the store (c17Classify). Jobs use a controller-created reservation or a user-supplied
// one referenced by name only / by name+uid.
//
// Level fault_enumeration: every case generates one fault-free history (adaptively, from the case
// PRNG), records its script and the number n of API writes it made (client Create/Update/Patch/Delete/
// Status().Update, the interpreter's CreateReservation/DeleteReservation, Evict, Preempt - all of them
// API writes in the real system), and then re-executes the same script 2n times in fresh worlds: for
// every write index k once with "write k fails, nothing applied" and once with "write k is applied
// but the caller gets an error" (lost response).
//
// Causal rules of the environment (what the generator may do; everything else is out of domain):
//   - environment events happen only between Reconcile calls (the reconciler is single-threaded per job);
//   - the reservation status is owned by the scheduler: the controller only creates/deletes reservations
//     through the interpreter and reads them; a reservation exists only after CreateReservation;
//   - a reservation's node, once assigned, never changes; pending -> {pending+unschedulable, scheduled,
//     unschedulable, expired, deleted}; scheduled -> {bound, expired, deleted}; bound/expired/
//     unschedulable -> deleted; migration reservations are allocate-once, so "bound" is published together
//     with phase Succeeded and exactly one current owner (scheduler's reservation controller does both in
//     one status update);
//   - a running pod never changes node; it can be deleted, or replaced by a pod of the same name with a new
//     UID (StatefulSet) that is pending or runs on any node; only a pod that was pending can become the
//     owner of the reservation ("bound to this pod": pending-pod mode);
//   - the clock only moves forward; a restart creates a new Reconciler (empty assumed cache) over the same
//     API store;
//   - a failed write leaves no trace (fail) or is fully applied (lost response); reads never fail;
//   - the user may edit spec.paused of a job at any time (a write to the job by somebody else);
//   - bounded cache lag (step reconcile-stale): the controller reads jobs through an informer cache, so the job
//     handed to Reconcile may be the version BEFORE the controller's own last write of that job - never anything
//     older, only until the next reconcile of the job / clock step / restart (a restarted controller starts from a
//     freshly synced cache) / write by somebody else, only in histories without an injected fault or before it.
//     Pods and reservations are always read fresh. This is not an API error: at-most-once still applies;
//   - resourceVersions are revision numbers of any magnitude: jobs enter the store at 1 (20%) or 1..10 writes below
//     10 / 100 / 1000 / 10^6 / 10^10, so that the version gains a digit inside the history;
//   - with graceful pods an evicted pod stays in the store as a terminating object (deletionTimestamp set) until
//     the environment finishes its termination;
//   - jobs: 1-3, possibly two jobs for the same pod (user-created jobs), podRef.uid empty / correct / stale, podRef
//     without a name, TTL unset / explicit 0 / 1s / 15s / 1h, creationTimestamp at, before (incl. already past the
//     TTL) or ahead of the controller's clock, initial phase "" or Pending, paused or not, reservation template
//     with a user-chosen name; pods with or without a controller owner, with or without a PVC volume (feature gate
//     DisablePVCReservation on/off); args.DefaultJobMode and args.DefaultDeleteOptions varied.
// Besides every single-fault variant, six multi-fault variants per case are sampled (pairs of nearby faults, and
// outages of three consecutive failing writes); injected errors are 500 / timeout / 409 (updates) / 429.
//
// Oracle (directions exactly as in the statement):
//   - at EVERY Evict call: the job's reservation exists, is scheduled (or Preempt reported completion for
//     this job), its node differs from the node of the pod being evicted, and it is not pending /
//     unschedulable / expired / bound to another pod;
//   - once the STORED phase of a job is Succeeded or Failed it never changes (checked after every job
//     write and after every step) and no Evict / CreateReservation / Preempt call is made for it;
//   - when the stored phase is Failed with reason Timeout the reservation created for the job is gone
//     (checked at the end of the reconcile that stored it, and at the end of the history);
//   - only in the fault-free run: at most one Evict call per job.

import (
	"context"
	"fmt"
	"sort"
	"strings"
	"sync"
	"testing"
	"time"

	corev1 "k8s.io/api/core/v1"
	apierrors "k8s.io/apimachinery/pkg/api/errors"
	metav1 "k8s.io/apimachinery/pkg/apis/meta/v1"
	"k8s.io/apimachinery/pkg/runtime"
	"k8s.io/apimachinery/pkg/runtime/schema"
	"k8s.io/apimachinery/pkg/runtime/serializer"
	"k8s.io/apimachinery/pkg/types"
	k8stesting "k8s.io/client-go/testing"
	"k8s.io/client-go/tools/events"
	"k8s.io/klog/v2"
	fakeclock "k8s.io/utils/clock/testing"
	"k8s.io/utils/ptr"
	ctrl "sigs.k8s.io/controller-runtime"
	"sigs.k8s.io/controller-runtime/pkg/client"
	"sigs.k8s.io/controller-runtime/pkg/client/fake"
	"sigs.k8s.io/controller-runtime/pkg/client/interceptor"
	"sigs.k8s.io/controller-runtime/pkg/reconcile"

	"github.com/koordinator-sh/koordinator/apis/extension"
	sev1alpha1 "github.com/koordinator-sh/koordinator/apis/scheduling/v1alpha1"
	deschedulerconfig "github.com/koordinator-sh/koordinator/pkg/descheduler/apis/config"
	"github.com/koordinator-sh/koordinator/pkg/descheduler/apis/config/v1alpha2"
	"github.com/koordinator-sh/koordinator/pkg/descheduler/controllers/migration/evictor"
	"github.com/koordinator-sh/koordinator/pkg/descheduler/controllers/migration/reservation"
	"github.com/koordinator-sh/koordinator/pkg/features"
	utilfeature "github.com/koordinator-sh/koordinator/pkg/util/feature"
	kit "github.com/koordinator-sh/koordinator/pkg/verifkit"
)

func init() {
	klog.SetOutput(c17Discard{})
	klog.LogToStderr(false)
}

type c17Discard struct{}

func (c17Discard) Write(p []byte) (int, error) { return len(p), nil }

// ---------------------------------------------------------------------------------------------
// static set-up shared by all worlds (read-only after construction)

var (
	c17Once   sync.Once
	c17Scheme *runtime.Scheme
	c17Codecs serializer.CodecFactory
	c17Args   *deschedulerconfig.MigrationControllerArgs
	c17T0     = time.Date(2024, 1, 1, 0, 0, 0, 0, time.UTC)
)

const (
	c17TTLShort = 15 * time.Second
	c17TTLLong  = time.Hour
	c17Tick     = 5 * time.Second
)

var c17Nodes = []string{"n1", "n2", "n3"}

func c17Setup() {
	c17Once.Do(func() {
		c17Scheme = runtime.NewScheme()
		// a small scheme (core/v1 + scheduling.koordinator.sh/v1alpha1) and a plain object tracker: the
		// default field-managed tracker rebuilds a REST mapper from the whole scheme on every write
		_ = sev1alpha1.AddToScheme(c17Scheme)
		_ = corev1.AddToScheme(c17Scheme)
		c17Codecs = serializer.NewCodecFactory(c17Scheme)
		var v1beta2args v1alpha2.MigrationControllerArgs
		v1alpha2.SetDefaults_MigrationControllerArgs(&v1beta2args)
		args := &deschedulerconfig.MigrationControllerArgs{}
		if err := v1alpha2.Convert_v1alpha2_MigrationControllerArgs_To_config_MigrationControllerArgs(&v1beta2args, args, nil); err != nil {
			panic(err)
		}
		// the per-workload / per-namespace rate limiters read the wall clock (rate.Limiter.Tokens) and are
		// not part of C17
		args.ObjectLimiters = nil
		c17Args = args
	})
}

// ---------------------------------------------------------------------------------------------
// case configuration

type c17JobCfg struct {
	Name           string        `json:"name"`
	PodName        string        `json:"pod"`
	PodNode        string        `json:"pod_node"`
	SharedPod      bool          `json:"shares_pod_of_job0"` // this job targets the same pod as job-0 (legal for user-created jobs)
	BarePod        bool          `json:"bare_pod"`           // the pod has no controller owner reference
	TTLSet         bool          `json:"ttl_set"`
	TTL            time.Duration `json:"ttl"`               // with TTLSet: 0 (explicit zero = no timeout), 1s, 15s, 1h
	CreatedAt      time.Duration `json:"created_at_offset"` // creationTimestamp relative to the clock's start: 0, in the past, or ahead (skew)
	Mode           string        `json:"spec_mode"`         // spec.mode as the user wrote it: "" / ReservationFirst / EvictDirectly
	DeleteOpts     bool          `json:"spec_delete_options"`
	PodRefUID      string        `json:"pod_ref_uid"`     // "" (user job) / "correct" (as the descheduler creates them) / "stale"
	InvalidRef     bool          `json:"invalid_pod_ref"` // podRef without a name
	Paused         bool          `json:"paused_at_start"`
	InitPending    bool          `json:"initial_phase_pending"`
	EvictAnnot     bool          `json:"evict_reason_annotations"`
	SelectorOwners bool          `json:"reservation_owners_by_label_selector"` // user template / user reservation selects its owners by labels, in any namespace
	StartRV        int64         `json:"start_resource_version"`               // resourceVersion of the job when the history starts
	TemplateName   string        `json:"reservation_template_name,omitempty"`  // user-supplied reservationOptions.template with its own name
	PendingPod     bool          `json:"pending_pod"`                          // the target pod is an unscheduled pod: reservation owner is the pod itself
	NeedPreempt    bool          `json:"need_preemption"`                      // the reservation object answers NeedPreemption()==true
	PreemptCalls   int           `json:"preempt_calls"`                        // Preempt reports completion on this call
	CreatedBy      bool          `json:"created_by_annot"`                     // carries AnnotationJobCreatedBy of the first reconciler
	// real-interpreter unit only: "" = the controller creates the reservation; "name-only" / "name-uid" = the job
	// points at a Reservation that already exists (created by the user = the environment), by name without /
	// with its uid. UserResInit is the state that Reservation is in when the history starts ("missing" = the
	// reference points at nothing); UserResLabel = it already carries the reservation-order label.
	UserRes      string `json:"user_supplied_ref,omitempty"`
	UserResInit  string `json:"user_reservation_init,omitempty"`
	UserResLabel bool   `json:"user_reservation_has_order_label,omitempty"`
}

type c17Cfg struct {
	Jobs       []c17JobCfg `json:"jobs"`
	Preemption bool        `json:"preemption_interpreter"`
	Real       bool        `json:"real_interpreter"`
	// controller-wide arguments that Reconcile reads (the object limiters stay off: they read the wall clock)
	DefaultJobMode    string `json:"args_default_job_mode"` // "" / ReservationFirst / EvictDirectly, independent of spec.mode
	DefaultDeleteOpts bool   `json:"args_default_delete_options"`
	GracefulPods      bool   `json:"graceful_pods"`        // an evicted/deleted pod stays as a terminating object until the environment removes it
	PVCPods           bool   `json:"pods_with_pvc_volume"` // pods carry a PVC volume (read by CreateOrUpdateReservationOptions)
	DisablePVCGate    bool   `json:"gate_DisablePVCReservation"`
	LongHistory       bool   `json:"long_history"`
}

func c17PickMode(r *kit.Rand, empty, rf, direct int) string {
	return []string{"", string(sev1alpha1.PodMigrationJobModeReservationFirst), string(sev1alpha1.PodMigrationJobModeEvictionDirectly)}[r.Weighted(empty, rf, direct)]
}

// c17ReservationFirst is the documented rule for a job's operating mode (pod_migration_job_types.go:
// "Mode represents the operating mode of the Job. Default is PodMigrationJobModeReservationFirst";
// MigrationControllerArgs.DefaultJobMode: "the default operating mode of the PodMigrationJob"): an explicit
// spec.mode wins; an empty spec.mode falls back to the controller's default; an empty default is ReservationFirst.
func c17ReservationFirst(specMode, defaultMode string) bool {
	m := specMode
	if m == "" {
		m = defaultMode
	}
	return m != string(sev1alpha1.PodMigrationJobModeEvictionDirectly)
}

// c17GenCfgReal: configuration of a case of the real-interpreter unit (no preemption: the shipped
// interpreter has none; TTLs are common because TTL clean-up through the real DeleteReservation is the point).
func c17GenCfgReal(r *kit.Rand) *c17Cfg { return c17GenCfgFor(r, true) }

func c17GenCfg(r *kit.Rand) *c17Cfg { return c17GenCfgFor(r, false) }

func c17GenCfgFor(r *kit.Rand, real bool) *c17Cfg {
	cfg := &c17Cfg{Real: real, Preemption: !real && r.Pct(25), DefaultJobMode: c17PickMode(r, 20, 50, 30), DefaultDeleteOpts: r.Pct(30),
		GracefulPods: r.Pct(50), PVCPods: r.Pct(20), DisablePVCGate: r.Pct(20), LongHistory: r.Pct(5)}
	n := 1 + r.Weighted(55, 35, 10)
	for i := 0; i < n; i++ {
		j := c17JobCfg{
			Name:        fmt.Sprintf("job-%d", i),
			PodName:     fmt.Sprintf("pod-%d", i),
			PodNode:     kit.Pick(r, c17Nodes),
			BarePod:     r.Pct(10),
			Mode:        c17PickMode(r, 38, 50, 12),
			DeleteOpts:  r.Pct(20),
			PendingPod:  r.Pct(10),
			CreatedBy:   r.Pct(8),
			InvalidRef:  r.Pct(3),
			Paused:      r.Pct(8),
			InitPending: r.Pct(15),
			EvictAnnot:  r.Pct(20),
			PodRefUID:   []string{"", "correct", "stale"}[r.Weighted(60, 30, 10)],
			CreatedAt:   []time.Duration{0, -10 * time.Second, -2 * time.Hour, 30 * time.Second}[r.Weighted(80, 7, 5, 8)],
		}
		// resourceVersions are opaque revision numbers of any magnitude: most jobs start a few writes below a
		// power of ten, so that the version gains a digit somewhere inside the history
		j.StartRV = 1
		if r.Pct(80) {
			j.StartRV = kit.Pick(r, []int64{10, 100, 1000, 1000000, 10000000000}) - int64(r.Range(1, 10))
		}
		if i > 0 && r.Pct(15) {
			j0 := cfg.Jobs[0]
			j.SharedPod, j.PodName, j.PodNode, j.PendingPod, j.BarePod = true, j0.PodName, j0.PodNode, j0.PendingPod, j0.BarePod
		}
		ttlW := []int{35, 5, 5, 32, 23} // unset, explicit 0, 1s, 15s, 1h
		if real {
			ttlW = []int{12, 4, 6, 50, 28}
		}
		switch r.Weighted(ttlW...) {
		case 1:
			j.TTLSet = true
		case 2:
			j.TTLSet, j.TTL = true, time.Second
		case 3:
			j.TTLSet, j.TTL = true, c17TTLShort
		case 4:
			j.TTLSet, j.TTL = true, c17TTLLong
		}
		if cfg.Preemption && r.Pct(70) {
			j.NeedPreempt = true
			j.PreemptCalls = r.Range(1, 3)
		}
		if real {
			switch r.Weighted(35, 40, 25) {
			case 1:
				j.UserRes = "name-only"
			case 2:
				j.UserRes = "name-uid"
			}
			if j.UserRes != "" {
				j.UserResInit = []string{"pending", "scheduled-other", "scheduled-same", "bound-other", "expired", "missing"}[r.Weighted(50, 22, 10, 6, 6, 6)]
				j.UserResLabel = r.Pct(30)
			}
		}
		if j.UserRes == "" && r.Pct(20) {
			j.TemplateName = "custom-res-" + j.Name
		}
		// a user-written template / user-supplied reservation may select its owners by labels instead of by the
		// pod's controller; then pods of any namespace can consume it (e.g. web-0 of an equally named StatefulSet)
		j.SelectorOwners = j.TemplateName != "" || (j.UserRes != "" && r.Pct(50))
		cfg.Jobs = append(cfg.Jobs, j)
	}
	return cfg
}

// ---------------------------------------------------------------------------------------------
// the environment's reservation (single source of truth)

type c17ResState int

const (
	c17ResPending c17ResState = iota
	c17ResPendingUnsched
	c17ResUnsched
	c17ResScheduled
	c17ResBound
	c17ResExpired
	c17ResDeleted
)

func (s c17ResState) String() string {
	return [...]string{"pending", "pending-unschedulable", "unschedulable", "scheduled", "bound", "expired", "deleted"}[s]
}

type c17Res struct {
	name     string
	uid      types.UID
	meta     metav1.ObjectMeta
	spec     sev1alpha1.ReservationSpec
	state    c17ResState
	touched  bool // the scheduler wrote a status at least once (phase "" before that)
	node     string
	bound    *corev1.ObjectReference
	msg      string
	attempts int
	need     bool
	nocond   bool // scheduled (node assigned, phase Available) but the Scheduled condition is not published
}

func (e *c17Res) live() bool { return e != nil && e.state != c17ResDeleted }

func (e *c17Res) String() string {
	if e == nil {
		return "absent"
	}
	s := e.state.String()
	if e.node != "" {
		s += "@" + e.node
	}
	if e.bound != nil {
		s += fmt.Sprintf(" owner=%s/%s", e.bound.Name, e.bound.UID)
	}
	return s
}

// render builds the API object the scheduler would have published for this state (cf.
// pkg/util/reservation SetReservationAvailable / SetReservationSucceeded / SetReservationExpired /
// SetReservationUnschedulable; the terminal "unschedulable" shape is the one the package's own tests use).
func (e *c17Res) render() *sev1alpha1.Reservation {
	r := &sev1alpha1.Reservation{
		TypeMeta:   metav1.TypeMeta{Kind: "Reservation", APIVersion: sev1alpha1.GroupVersion.String()},
		ObjectMeta: *e.meta.DeepCopy(),
		Spec:       *e.spec.DeepCopy(),
	}
	r.Name, r.UID = e.name, e.uid
	r.CreationTimestamp = metav1.NewTime(c17T0)
	schedTrue := sev1alpha1.ReservationCondition{Type: sev1alpha1.ReservationConditionScheduled, Status: sev1alpha1.ConditionStatusTrue, Reason: sev1alpha1.ReasonReservationScheduled}
	schedFalse := sev1alpha1.ReservationCondition{Type: sev1alpha1.ReservationConditionScheduled, Status: sev1alpha1.ConditionStatusFalse, Reason: sev1alpha1.ReasonReservationUnschedulable, Message: e.msg}
	switch e.state {
	case c17ResPending:
		if e.touched {
			r.Status.Phase = sev1alpha1.ReservationPending
		}
	case c17ResPendingUnsched:
		r.Status.Phase = sev1alpha1.ReservationPending
		r.Status.Conditions = []sev1alpha1.ReservationCondition{schedFalse}
	case c17ResUnsched:
		r.Status.Phase = sev1alpha1.ReservationFailed
		r.Status.Conditions = []sev1alpha1.ReservationCondition{schedFalse}
	case c17ResScheduled:
		r.Status.Phase = sev1alpha1.ReservationAvailable
		r.Status.NodeName = e.node
		r.Status.Conditions = []sev1alpha1.ReservationCondition{schedTrue,
			{Type: sev1alpha1.ReservationConditionReady, Status: sev1alpha1.ConditionStatusTrue, Reason: sev1alpha1.ReasonReservationAvailable}}
		if e.nocond {
			r.Status.Conditions = r.Status.Conditions[1:]
		}
	case c17ResBound:
		r.Status.Phase = sev1alpha1.ReservationSucceeded
		r.Status.NodeName = e.node
		r.Status.Conditions = []sev1alpha1.ReservationCondition{schedTrue,
			{Type: sev1alpha1.ReservationConditionReady, Status: sev1alpha1.ConditionStatusFalse, Reason: sev1alpha1.ReasonReservationSucceeded}}
		if e.bound != nil {
			r.Status.CurrentOwners = []corev1.ObjectReference{*e.bound}
		}
	case c17ResExpired:
		r.Status.Phase = sev1alpha1.ReservationFailed
		r.Status.NodeName = e.node
		if e.node != "" {
			r.Status.Conditions = append(r.Status.Conditions, schedTrue)
		} else if e.msg != "" {
			r.Status.Conditions = append(r.Status.Conditions, schedFalse)
		}
		r.Status.Conditions = append(r.Status.Conditions, sev1alpha1.ReservationCondition{
			Type: sev1alpha1.ReservationConditionReady, Status: sev1alpha1.ConditionStatusFalse, Reason: sev1alpha1.ReasonReservationExpired})
	}
	return r
}

// c17Classify reads the environment state back from a Reservation object of the API store (real-interpreter
// unit: the store IS the reservation). Written from the API type's documentation, not with the controller's
// predicates.
func c17Classify(o *sev1alpha1.Reservation) *c17Res {
	e := &c17Res{name: o.Name, uid: o.UID, meta: *o.ObjectMeta.DeepCopy(), spec: *o.Spec.DeepCopy(), node: o.Status.NodeName, touched: o.Status.Phase != ""}
	unsched, expired := false, false
	for _, c := range o.Status.Conditions {
		if c.Type == sev1alpha1.ReservationConditionScheduled && c.Status == sev1alpha1.ConditionStatusFalse && c.Reason == sev1alpha1.ReasonReservationUnschedulable {
			unsched, e.msg = true, c.Message
		}
		if c.Type == sev1alpha1.ReservationConditionReady && c.Reason == sev1alpha1.ReasonReservationExpired {
			expired = true
		}
	}
	switch o.Status.Phase {
	case "", sev1alpha1.ReservationPending:
		e.state = c17ResPending
		if unsched {
			e.state = c17ResPendingUnsched
		}
	case sev1alpha1.ReservationAvailable:
		e.state = c17ResScheduled
	case sev1alpha1.ReservationSucceeded:
		e.state = c17ResBound
		if len(o.Status.CurrentOwners) > 0 {
			e.bound = o.Status.CurrentOwners[0].DeepCopy()
		}
	default:
		e.state = c17ResUnsched
		if expired {
			e.state = c17ResExpired
		}
	}
	return e
}

// c17Mgr is the part of ctrl.Manager the shipped reservation interpreter uses (GetClient, GetAPIReader).
type c17Mgr struct {
	ctrl.Manager
	cl client.Client
}

func (m *c17Mgr) GetClient() client.Client    { return m.cl }
func (m *c17Mgr) GetAPIReader() client.Reader { return m.cl }

type c17ResObj struct {
	reservation.Object
	need bool
}

func (o *c17ResObj) NeedPreemption() bool { return o.need }

// ---------------------------------------------------------------------------------------------
// world

type c17Fault int

const (
	c17NoFault   c17Fault = iota
	c17FaultFail          // the write fails, nothing is applied
	c17FaultLost          // the write is applied, the caller gets an error
)

func (f c17Fault) String() string { return [...]string{"none", "fail", "lost-response"}[f] }

type c17Stamp struct {
	Job         string `json:"job"`
	Res         string `json:"reservation"`
	PodUID      string `json:"pod_uid"`
	PodNode     string `json:"pod_node"`
	StoredPod   string `json:"stored_pod"`
	Phase       string `json:"stored_job_phase"`
	PreemptDone bool   `json:"preempt_done"`
	Fault       string `json:"fault"`
}

type c17Job struct {
	cfg    *c17JobCfg
	idx    int
	key    types.NamespacedName
	uid    types.UID
	podUID types.UID // UID of the pod the job was created for
	res    *c17Res   // latest incarnation of the reservation created for this job (may be deleted)

	lastPhase  sev1alpha1.PodMigrationJobPhase
	lastReason string

	evictCalls      int
	evictDone       int
	preemptProgress int
	preemptDone     bool
	afterTerminal   int
	attempts        int
	created         time.Time
	// bounded cache lag: prev is the stored job as it was before the controller's own last write; while lagOpen
	// the controller's cache may still hand out prev (never anything older)
	prev    *sev1alpha1.PodMigrationJob
	lagOpen bool
	rf      bool // reservation-first by the documented rule (c17ReservationFirst), not by the controller's code
}

type c17Step struct {
	Kind string `json:"k"`
	Job  int    `json:"j"`
	Arg  string `json:"a,omitempty"`
}

func (s c17Step) String() string {
	if s.Arg != "" {
		return fmt.Sprintf("%s(job-%d,%s)", s.Kind, s.Job, s.Arg)
	}
	return fmt.Sprintf("%s(job-%d)", s.Kind, s.Job)
}

type c17World struct {
	c       *kit.Case
	cfg     *c17Cfg
	ctx     context.Context
	store   client.WithWatch // the API store, without faults (environment + oracle access)
	tracker k8stesting.ObjectTracker
	faulty  client.WithWatch // what the controller gets: store behind the write-failing interceptor
	clk     *fakeclock.FakeClock
	rec     *Reconciler
	recGen  int
	jobs    []*c17Job
	podGen  map[string]int

	faultAt         int // index of the first injected fault (0 = fault-free history)
	faultKind       c17Fault
	faults          map[int]c17Fault // every injected fault by write index (single-fault variants: one entry)
	faultHit        bool
	faultDesc       string
	faultAfterEvict bool

	writes     int
	writeLog   []string
	stepWrites []string

	staleFor *c17Job // the next Get of this job by the controller is served from the lagging cache
	real     bool    // real-interpreter unit: reservation.NewInterpreter over the faulty client; the store is the reservation
	uidGen   int
	direct   bool
	label    string
	log      []string
	stamps   []c17Stamp
}

func (w *c17World) op(format string, a ...any) {
	if w.direct {
		w.c.Op(format, a...)
		return
	}
	w.log = append(w.log, fmt.Sprintf(format, a...))
}

// c17Abort unwinds a faulty variant after its violation has been recorded with c.Report, so that the
// remaining variants of the case are still executed (a known finding must not hide another violation).
type c17Abort struct{}

func (w *c17World) fail(sig, format string, a ...any) {
	if !w.direct {
		w.c.Op("---- failing variant: %s ----", w.label)
		for _, l := range w.log {
			w.c.Op("%s", l)
		}
	}
	w.c.Op("VIOLATION %s in %s, writes so far in this step: [%s]", sig, w.label, strings.Join(w.stepWrites, "; "))
	w.c.Count("violations_by_fault:"+sig+":"+w.faultKind.String()+":"+c17WriteClass(w.faultDesc), 1)
	if w.direct {
		w.c.Fail(sig, "[%s] "+format, append([]any{w.label}, a...)...)
	}
	w.c.Report(sig, "[%s] "+format, append([]any{w.label}, a...)...)
	panic(c17Abort{})
}

// c17Variant runs f and swallows only c17Abort; any other panic (koordinator code) keeps unwinding to the
// kit, with the original frames still on the stack.
func c17Variant(f func()) (aborted bool) {
	defer func() {
		if e := recover(); e != nil {
			if _, ok := e.(c17Abort); ok {
				aborted = true
				return
			}
			panic(e)
		}
	}()
	f()
	return false
}

func c17NewWorld(c *kit.Case, cfg *c17Cfg, faultAt int, kind c17Fault) *c17World {
	if faultAt == 0 {
		return c17NewWorldFaults(c, cfg, nil)
	}
	return c17NewWorldFaults(c, cfg, map[int]c17Fault{faultAt: kind})
}

func c17NewWorldFaults(c *kit.Case, cfg *c17Cfg, faults map[int]c17Fault) *c17World {
	c17Setup()
	w := &c17World{c: c, cfg: cfg, ctx: context.Background(), faults: faults, podGen: map[string]int{}, real: cfg.Real}
	if len(faults) == 0 {
		w.label = "fault-free"
	} else {
		var ks []int
		for k := range faults {
			ks = append(ks, k)
		}
		sort.Ints(ks)
		w.faultAt, w.faultKind = ks[0], faults[ks[0]]
		var parts []string
		for _, k := range ks {
			parts = append(parts, fmt.Sprintf("%s at write #%d", faults[k], k))
		}
		w.label = "fault " + strings.Join(parts, " + ")
	}
	// process-global feature gate read by reservation.CreateOrUpdateReservationOptions: set explicitly per world
	if err := utilfeature.DefaultMutableFeatureGate.SetFromMap(map[string]bool{string(features.DisablePVCReservation): cfg.DisablePVCGate}); err != nil {
		c.Harness("feature gate: %v", err)
	}
	w.tracker = k8stesting.NewObjectTracker(c17Scheme, c17Codecs.UniversalDecoder())
	w.store = fake.NewClientBuilder().WithStatusSubresource(&sev1alpha1.PodMigrationJob{}).WithScheme(c17Scheme).WithObjectTracker(w.tracker).Build()
	w.faulty = w.newFaultyClient()
	w.clk = fakeclock.NewFakeClock(c17T0)
	for i := range cfg.Jobs {
		jc := &cfg.Jobs[i]
		j := &c17Job{cfg: jc, idx: i, key: types.NamespacedName{Name: jc.Name}, uid: types.UID(jc.Name + "-uid")}
		j.created = c17T0.Add(jc.CreatedAt)
		pod := w.storedPod(j)
		if pod == nil { // (a job sharing job-0's pod finds it there)
			pod = w.makePod(jc, jc.PodNode, jc.PendingPod)
			if err := w.store.Create(w.ctx, pod); err != nil {
				c.Harness("create pod: %v", err)
			}
		}
		j.podUID = pod.UID
		job := &sev1alpha1.PodMigrationJob{
			ObjectMeta: metav1.ObjectMeta{Name: jc.Name, UID: j.uid, CreationTimestamp: metav1.NewTime(j.created)},
			Spec: sev1alpha1.PodMigrationJobSpec{
				Paused: jc.Paused,
				PodRef: &corev1.ObjectReference{Namespace: "default", Name: jc.PodName},
			},
		}
		switch jc.PodRefUID {
		case "correct":
			job.Spec.PodRef.UID = pod.UID
		case "stale":
			job.Spec.PodRef.UID = types.UID(jc.PodName + "-u0") // a pod of that name that is long gone
		}
		if jc.InvalidRef {
			job.Spec.PodRef.Name = ""
		}
		job.Spec.Mode = sev1alpha1.PodMigrationJobMode(jc.Mode)
		j.rf = c17ReservationFirst(jc.Mode, cfg.DefaultJobMode)
		if jc.DeleteOpts {
			job.Spec.DeleteOptions = &metav1.DeleteOptions{GracePeriodSeconds: ptr.To[int64](7)}
		}
		if jc.TTLSet {
			job.Spec.TTL = &metav1.Duration{Duration: jc.TTL}
		}
		job.Annotations = map[string]string{}
		if jc.CreatedBy {
			job.Annotations[AnnotationJobCreatedBy] = "reconciler-1"
		}
		if jc.EvictAnnot {
			job.Annotations[evictor.AnnotationEvictReason] = "node n1 is overutilized"
			job.Annotations[evictor.AnnotationEvictTrigger] = "LowNodeLoad"
		}
		if jc.TemplateName != "" {
			job.Spec.ReservationOptions = &sev1alpha1.PodMigrateReservationOptions{Template: &sev1alpha1.ReservationTemplateSpec{
				ObjectMeta: metav1.ObjectMeta{Name: jc.TemplateName, Labels: map[string]string{"team": "a"}},
				Spec:       sev1alpha1.ReservationSpec{Owners: []sev1alpha1.ReservationOwner{{LabelSelector: &metav1.LabelSelector{MatchLabels: map[string]string{"app": jc.PodName}}}}}}}
		}
		if jc.UserRes != "" {
			// the user's Reservation exists before the job; it is built the way the controller would build one
			// (owners of the pod, allocate-once) but carries no reservation-order label and its own uid
			ur := &c17Res{name: w.resName(j), uid: types.UID(w.resName(j) + "-uid"), state: c17ResPending,
				meta: metav1.ObjectMeta{Name: w.resName(j), Labels: map[string]string{"app": "user"}},
				msg:  "0/3 nodes are available",
				spec: sev1alpha1.ReservationSpec{AllocateOnce: ptr.To(true), Owners: reservation.GenerateReserveResourceOwners(pod),
					Template: &corev1.PodTemplateSpec{ObjectMeta: metav1.ObjectMeta{Labels: map[string]string{"app": jc.PodName}}, Spec: *pod.Spec.DeepCopy()}}}
			ur.spec.Template.Spec.NodeName = ""
			if jc.SelectorOwners {
				ur.spec.Owners = []sev1alpha1.ReservationOwner{{LabelSelector: &metav1.LabelSelector{MatchLabels: map[string]string{"app": jc.PodName}}}}
			}
			switch jc.UserResInit {
			case "scheduled-other":
				ur.state, ur.touched, ur.node = c17ResScheduled, true, w.ring(jc.PodNode, 1)
			case "scheduled-same":
				if !jc.PendingPod {
					ur.state, ur.touched, ur.node = c17ResScheduled, true, jc.PodNode
				}
			case "bound-other":
				ur.state, ur.touched, ur.node = c17ResBound, true, w.ring(jc.PodNode, 1)
				ur.bound = &corev1.ObjectReference{Namespace: "default", Name: jc.PodName + "-y", UID: types.UID(jc.PodName + "-y1")}
			case "expired":
				ur.state, ur.touched = c17ResExpired, true
			}
			if jc.UserResLabel {
				ur.meta.Labels[extension.LabelReservationOrder] = "1700000000000"
			}
			if jc.UserResInit != "missing" { // "missing": the reference points at a Reservation that does not exist
				if err := w.store.Create(w.ctx, ur.render()); err != nil {
					c.Harness("create user reservation: %v", err)
				}
			}
			ref := &corev1.ObjectReference{Kind: "Reservation", APIVersion: sev1alpha1.GroupVersion.String(), Name: ur.name}
			if jc.UserRes == "name-uid" {
				ref.UID = ur.uid
			}
			job.Spec.ReservationOptions = &sev1alpha1.PodMigrateReservationOptions{ReservationRef: ref}
		}
		if jc.InitPending { // somebody (the creator) has already set status.phase=Pending
			job.Status.Phase = sev1alpha1.PodMigrationJobPending
		}
		// the job enters the store with the resourceVersion the API server happens to be at
		job.ResourceVersion = fmt.Sprintf("%d", jc.StartRV)
		job.TypeMeta = metav1.TypeMeta{Kind: "PodMigrationJob", APIVersion: sev1alpha1.GroupVersion.String()}
		if err := w.tracker.Add(job); err != nil {
			c.Harness("create job: %v", err)
		}
		got := w.storedJob(j)
		if !got.CreationTimestamp.Time.Equal(j.created) || got.UID != j.uid || got.ResourceVersion != job.ResourceVersion {
			c.Harness("store did not keep creationTimestamp/uid/resourceVersion: %v %v %v", got.CreationTimestamp, got.UID, got.ResourceVersion)
		}
		j.lastPhase = got.Status.Phase
		w.jobs = append(w.jobs, j)
	}
	w.restart()
	return w
}

func (w *c17World) makePod(jc *c17JobCfg, node string, pending bool) *corev1.Pod {
	w.podGen[jc.PodName]++
	pod := &corev1.Pod{
		ObjectMeta: metav1.ObjectMeta{
			Namespace: "default", Name: jc.PodName,
			UID: types.UID(fmt.Sprintf("%s-u%d", jc.PodName, w.podGen[jc.PodName])),
			OwnerReferences: []metav1.OwnerReference{{APIVersion: "apps/v1", Kind: "StatefulSet", Name: "sts-" + jc.PodName,
				UID: types.UID("sts-" + jc.PodName + "-uid"), Controller: ptr.To(true)}},
		},
		Spec: corev1.PodSpec{SchedulerName: "koord-scheduler", NodeName: node,
			Containers: []corev1.Container{{Name: "main", Image: "img"}}},
		Status: corev1.PodStatus{Phase: corev1.PodRunning},
	}
	if jc.BarePod {
		pod.OwnerReferences = nil
	}
	if w.cfg.GracefulPods {
		pod.Finalizers = []string{"verif.io/graceful-termination"} // stands for the kubelet's graceful termination
	}
	if w.cfg.PVCPods {
		pod.Spec.Volumes = []corev1.Volume{{Name: "data", VolumeSource: corev1.VolumeSource{PersistentVolumeClaim: &corev1.PersistentVolumeClaimVolumeSource{ClaimName: "data-" + jc.PodName}}},
			{Name: "tmp", VolumeSource: corev1.VolumeSource{EmptyDir: &corev1.EmptyDirVolumeSource{}}}}
	}
	switch {
	case pending:
		pod.Spec.NodeName = ""
		pod.Status.Phase = corev1.PodPending
		pod.Status.Conditions = []corev1.PodCondition{{Type: corev1.PodScheduled, Status: corev1.ConditionFalse, Reason: corev1.PodReasonUnschedulable, Message: "0/3 nodes are available"}}
	case node == "":
		pod.Status.Phase = corev1.PodPending // just created, not yet looked at by the scheduler
	default:
		pod.Status.Conditions = []corev1.PodCondition{{Type: corev1.PodScheduled, Status: corev1.ConditionTrue}, {Type: corev1.PodReady, Status: corev1.ConditionTrue}}
	}
	return pod
}

func (w *c17World) restart() {
	w.recGen++
	w.rec = &Reconciler{
		Client:                 w.faulty,
		args:                   w.args(),
		eventRecorder:          &events.FakeRecorder{},
		reservationInterpreter: w.interpreter(),
		evictorInterpreter:     &c17Evictor{w: w},
		controllerFinder:       &fakeControllerFinder{replicas: 3},
		assumedCache:           newAssumedCache(),
		clock:                  w.clk,
		arbitrator:             &fakeArbitrator{filter: func(*corev1.Pod) bool { return true }, preEvictionFilter: func(*corev1.Pod) bool { return true }},
		reconcilerUID:          types.UID(fmt.Sprintf("reconciler-%d", w.recGen)),
	}
	w.rec.initObjectLimiters()
}

var (
	c17JobGVR = sev1alpha1.GroupVersion.WithResource("podmigrationjobs")
	c17PodGVR = corev1.SchemeGroupVersion.WithResource("pods")
	c17ResGVR = sev1alpha1.GroupVersion.WithResource("reservations")
)

// args: the defaulted controller arguments with this case's DefaultJobMode / DefaultDeleteOptions.
func (w *c17World) args() *deschedulerconfig.MigrationControllerArgs {
	a := *c17Args
	a.DefaultJobMode = w.cfg.DefaultJobMode
	a.DefaultDeleteOptions = nil
	if w.cfg.DefaultDeleteOpts {
		a.DefaultDeleteOptions = &metav1.DeleteOptions{GracePeriodSeconds: ptr.To[int64](30)}
	}
	return &a
}

func (w *c17World) interpreter() reservation.Interpreter {
	if w.real {
		// exactly what newReconciler does, over the client the controller itself uses (so the interpreter's
		// Create / Delete of Reservation objects are API writes that can fail)
		return reservation.NewInterpreter(&c17Mgr{cl: w.faulty})
	}
	return &c17Interp{w: w}
}

// resName is the name of "the job's reservation": the user's object, or the name the controller always
// creates it with (the template default, the job UID).
func (w *c17World) resName(j *c17Job) string {
	if j.cfg.UserRes != "" {
		return "ures-" + j.cfg.Name
	}
	if j.cfg.TemplateName != "" {
		return j.cfg.TemplateName
	}
	return string(j.uid)
}

// res returns the environment's truth about the job's reservation at this instant: the scripted
// interpreter's state, or (real-interpreter unit) the object in the API store, classified. nil = absent.
func (w *c17World) res(j *c17Job) *c17Res {
	if !w.real {
		return j.res
	}
	obj, err := w.tracker.Get(c17ResGVR, "", w.resName(j))
	if apierrors.IsNotFound(err) {
		return nil
	}
	if err != nil {
		w.c.Harness("get reservation: %v", err)
	}
	return c17Classify(obj.(*sev1alpha1.Reservation))
}

// commit publishes an environment change of the reservation (real-interpreter unit: the scheduler / the
// user writes the object in the API store, not through the controller's client).
func (w *c17World) commit(r *c17Res) {
	if !w.real {
		return
	}
	obj := r.render()
	if r.state == c17ResDeleted {
		if err := w.store.Delete(w.ctx, obj); err != nil {
			w.c.Harness("delete reservation: %v", err)
		}
		return
	}
	if err := w.store.Update(w.ctx, obj); err != nil {
		w.c.Harness("update reservation status: %v", err)
	}
}

// storedJob / storedPod read the API store directly from the object tracker (a deep copy, without the
// fake client's JSON round trip).
func (w *c17World) storedJob(j *c17Job) *sev1alpha1.PodMigrationJob {
	obj, err := w.tracker.Get(c17JobGVR, "", j.key.Name)
	if err != nil {
		w.c.Harness("job %s vanished from the store: %v", j.key.Name, err)
	}
	return obj.(*sev1alpha1.PodMigrationJob)
}

func (w *c17World) storedPod(j *c17Job) *corev1.Pod {
	obj, err := w.tracker.Get(c17PodGVR, "default", j.cfg.PodName)
	if apierrors.IsNotFound(err) {
		return nil
	}
	if err != nil {
		w.c.Harness("get pod: %v", err)
	}
	return obj.(*corev1.Pod)
}

func (w *c17World) jobByName(name string) *c17Job {
	for _, j := range w.jobs {
		if j.cfg.Name == name {
			return j
		}
	}
	w.c.Harness("call for unknown job %q", name)
	return nil
}

func c17Terminal(p sev1alpha1.PodMigrationJobPhase) bool {
	return p == sev1alpha1.PodMigrationJobSucceeded || p == sev1alpha1.PodMigrationJobFailed
}

func c17PodBrief(p *corev1.Pod) string {
	if p == nil {
		return "absent"
	}
	return fmt.Sprintf("%s@%q", p.UID, p.Spec.NodeName)
}

func c17JobBrief(job *sev1alpha1.PodMigrationJob) string {
	var conds []string
	for _, c := range job.Status.Conditions {
		conds = append(conds, fmt.Sprintf("%s=%s/%s", c.Type, c.Status, c.Reason))
	}
	ref := "-"
	if job.Spec.ReservationOptions != nil && job.Spec.ReservationOptions.ReservationRef != nil {
		ref = job.Spec.ReservationOptions.ReservationRef.Name
	}
	return fmt.Sprintf("rv=%s phase=%q reason=%q status=%q node=%q resRef=%s podRefUID=%q conds=[%s]", job.ResourceVersion, job.Status.Phase,
		job.Status.Reason, job.Status.Status, job.Status.NodeName, ref, job.Spec.PodRef.UID, strings.Join(conds, " "))
}

// write registers one API write of the controller and decides whether it is the one that fails.
func (w *c17World) write(desc string) c17Fault {
	w.writes++
	w.writeLog = append(w.writeLog, desc)
	prevEvict := len(w.stepWrites) > 0 && strings.HasPrefix(w.stepWrites[len(w.stepWrites)-1], "Evict ") && strings.HasSuffix(w.stepWrites[len(w.stepWrites)-1], "ok")
	if kind, ok := w.faults[w.writes]; ok {
		if w.writes == w.faultAt {
			w.faultHit = true
			w.faultDesc = desc
			w.faultAfterEvict = prevEvict
		}
		w.stepWrites = append(w.stepWrites, desc+" -> INJECTED "+kind.String())
		return kind
	}
	w.stepWrites = append(w.stepWrites, desc)
	return c17NoFault
}

// c17Injected: the error of an injected failure. The kinds an API server answers a write with when it is in
// trouble (500, 504/timeout, 409 for updates, 429); never NotFound / AlreadyExists, which would be lies about
// the state of the store.
func c17Injected(desc string) error {
	h := 0
	for _, ch := range desc {
		h = h*31 + int(ch)
	}
	if h < 0 {
		h = -h
	}
	msg := fmt.Sprintf("verif: injected API failure at %s", desc)
	switch h % 4 {
	case 1:
		return apierrors.NewServerTimeout(schema.GroupResource{Resource: "verif"}, msg, 1)
	case 2:
		if strings.HasPrefix(desc, "Update") {
			return apierrors.NewConflict(schema.GroupResource{Resource: "verif"}, desc, fmt.Errorf("%s", msg))
		}
		return apierrors.NewTooManyRequests(msg, 1)
	case 3:
		return apierrors.NewTooManyRequests(msg, 1)
	}
	return apierrors.NewInternalError(fmt.Errorf("%s", msg))
}

// checkJobs enforces terminal stability on the STORED jobs; at step end it also checks TTL clean-up.
func (w *c17World) checkJobs(stepEnd bool) {
	for _, j := range w.jobs {
		cur := w.storedJob(j)
		if c17Terminal(j.lastPhase) && cur.Status.Phase != j.lastPhase {
			w.fail("C17/terminal/phase-changed", "job %s: stored phase was %s/%s and is now %q (reason %q)", j.cfg.Name, j.lastPhase, j.lastReason, cur.Status.Phase, cur.Status.Reason)
		}
		if !c17Terminal(j.lastPhase) && c17Terminal(cur.Status.Phase) {
			reason := cur.Status.Reason
			if reason == "" {
				reason = "none"
			}
			w.c.Count("terminal_"+string(cur.Status.Phase)+"_"+reason, 1)
			if w.faultAt > 0 {
				w.c.Count("terminal_under_fault", 1)
			}
		}
		j.lastPhase, j.lastReason = cur.Status.Phase, cur.Status.Reason
		if stepEnd && cur.Status.Phase == sev1alpha1.PodMigrationJobFailed && cur.Status.Reason == sev1alpha1.PodMigrationJobReasonTimeout {
			w.c.Count("ttl_cleanup_checks", 1)
			if w.real {
				w.c.Count("ttl_cleanup_checks_real_interpreter", 1)
				if j.cfg.UserRes == "name-only" {
					w.c.Count("ttl_cleanup_checks_user_ref_without_uid", 1)
				}
			}
			if r := w.res(j); r.live() {
				sig := "C17/ttl/reservation-not-deleted"
				if cur.Spec.ReservationOptions == nil || cur.Spec.ReservationOptions.ReservationRef == nil {
					sig = "C17/ttl/reservation-not-deleted/ref-not-persisted"
				}
				w.fail(sig, "job %s is stored as Failed/Timeout but its reservation %q (uid %q) still exists in state %s (stored job: %s)",
					j.cfg.Name, r.name, r.uid, r, c17JobBrief(cur))
			}
			if j.res != nil {
				w.c.Count("ttl_failed_with_reservation_deleted", 1)
			}
		}
	}
}

// callGuard: no Evict / CreateReservation / Preempt for a job whose stored phase is terminal.
func (w *c17World) callGuard(j *c17Job, what string) sev1alpha1.PodMigrationJobPhase {
	cur := w.storedJob(j)
	if c17Terminal(cur.Status.Phase) {
		w.fail("C17/terminal/"+what+"-after-terminal", "%s called for job %s whose stored phase is %s/%s", what, j.cfg.Name, cur.Status.Phase, cur.Status.Reason)
	}
	return cur.Status.Phase
}

// ---------------------------------------------------------------------------------------------
// API store with one failing write

func c17ObjDesc(obj client.Object) string {
	t := fmt.Sprintf("%T", obj)
	if i := strings.LastIndexByte(t, '.'); i >= 0 {
		t = t[i+1:]
	}
	return t + " " + obj.GetName()
}

func (w *c17World) newFaultyClient() client.WithWatch {
	inject := func(kind string, obj client.Object, do func(o client.Object) error) error {
		desc := kind + " " + c17ObjDesc(obj)
		_, isJob := obj.(*sev1alpha1.PodMigrationJob)
		if _, isRes := obj.(*sev1alpha1.Reservation); isRes && kind == "Create" {
			// real-interpreter unit: this is the interpreter's CreateReservation
			for _, j := range w.jobs {
				if j.cfg.UserRes == "" && w.resName(j) == obj.GetName() {
					w.callGuard(j, "CreateReservation")
					w.c.Count("create_reservation_calls", 1)
				}
			}
		}
		var lagJob *c17Job
		var snap *sev1alpha1.PodMigrationJob
		if isJob {
			for _, j := range w.jobs {
				if j.cfg.Name == obj.GetName() {
					lagJob, snap = j, w.storedJob(j)
				}
			}
		}
		applied := func() {
			if lagJob != nil { // the controller's cache may now lag by exactly this write
				lagJob.prev, lagJob.lagOpen = snap, true
			}
			if isJob {
				w.checkJobs(false)
			}
		}
		switch w.write(desc) {
		case c17FaultFail:
			return c17Injected(desc)
		case c17FaultLost:
			cp := obj.DeepCopyObject().(client.Object)
			if err := do(cp); err != nil {
				return err
			}
			applied()
			return c17Injected(desc)
		}
		err := do(obj)
		if err == nil {
			applied()
		} else if isJob {
			w.checkJobs(false)
		}
		return err
	}
	return interceptor.NewClient(w.store, interceptor.Funcs{
		Get: func(ctx context.Context, cl client.WithWatch, key client.ObjectKey, obj client.Object, opts ...client.GetOption) error {
			if job, ok := obj.(*sev1alpha1.PodMigrationJob); ok && w.staleFor != nil && w.staleFor.cfg.Name == key.Name {
				w.staleFor.prev.DeepCopyInto(job) // the lagging cache: the version before the controller's own last write
				w.staleFor = nil
				return nil
			}
			return cl.Get(ctx, key, obj, opts...)
		},
		Create: func(ctx context.Context, cl client.WithWatch, obj client.Object, opts ...client.CreateOption) error {
			return inject("Create", obj, func(o client.Object) error {
				if o.GetUID() == "" { // the API server assigns the uid (the fake client does not)
					w.uidGen++
					o.SetUID(types.UID(fmt.Sprintf("%s-apiuid%d", o.GetName(), w.uidGen)))
				}
				return cl.Create(ctx, o, opts...)
			})
		},
		Update: func(ctx context.Context, cl client.WithWatch, obj client.Object, opts ...client.UpdateOption) error {
			return inject("Update", obj, func(o client.Object) error { return cl.Update(ctx, o, opts...) })
		},
		Patch: func(ctx context.Context, cl client.WithWatch, obj client.Object, patch client.Patch, opts ...client.PatchOption) error {
			return inject("Patch", obj, func(o client.Object) error { return cl.Patch(ctx, o, patch, opts...) })
		},
		Delete: func(ctx context.Context, cl client.WithWatch, obj client.Object, opts ...client.DeleteOption) error {
			return inject("Delete", obj, func(o client.Object) error { return cl.Delete(ctx, o, opts...) })
		},
		DeleteAllOf: func(ctx context.Context, cl client.WithWatch, obj client.Object, opts ...client.DeleteAllOfOption) error {
			return inject("DeleteAllOf", obj, func(o client.Object) error { return cl.DeleteAllOf(ctx, o, opts...) })
		},
		SubResourceUpdate: func(ctx context.Context, cl client.Client, sub string, obj client.Object, opts ...client.SubResourceUpdateOption) error {
			return inject("Update/"+sub, obj, func(o client.Object) error { return cl.SubResource(sub).Update(ctx, o, opts...) })
		},
		SubResourcePatch: func(ctx context.Context, cl client.Client, sub string, obj client.Object, patch client.Patch, opts ...client.SubResourcePatchOption) error {
			return inject("Patch/"+sub, obj, func(o client.Object) error { return cl.SubResource(sub).Patch(ctx, o, patch, opts...) })
		},
		SubResourceCreate: func(ctx context.Context, cl client.Client, sub string, obj client.Object, subObj client.Object, opts ...client.SubResourceCreateOption) error {
			return inject("Create/"+sub, obj, func(o client.Object) error { return cl.SubResource(sub).Create(ctx, o, subObj, opts...) })
		},
	})
}

// ---------------------------------------------------------------------------------------------
// reservation interpreter (environment), preemption, evictor

type c17Interp struct{ w *c17World }

var _ reservation.Interpreter = &c17Interp{}

func (p *c17Interp) GetReservationType() client.Object { return &sev1alpha1.Reservation{} }

func (p *c17Interp) Preemption() reservation.Preemption {
	if p.w.cfg.Preemption {
		return &c17Preempt{w: p.w}
	}
	return nil
}

func (p *c17Interp) find(name string) *c17Res {
	for _, j := range p.w.jobs {
		if j.res.live() && j.res.name == name {
			return j.res
		}
	}
	return nil
}

func c17ResNotFound(name string) error {
	return apierrors.NewNotFound(schema.GroupResource{Group: sev1alpha1.GroupVersion.Group, Resource: "reservations"}, name)
}

func (p *c17Interp) CreateReservation(ctx context.Context, job *sev1alpha1.PodMigrationJob) (reservation.Object, error) {
	w := p.w
	j := w.jobByName(job.Name)
	w.callGuard(j, "CreateReservation")
	w.c.Count("create_reservation_calls", 1)
	opts := job.Spec.ReservationOptions
	if opts == nil || opts.Template == nil || opts.Template.Name == "" {
		return nil, fmt.Errorf("invalid reservationOptions")
	}
	name := opts.Template.Name
	desc := "CreateReservation " + name
	f := w.write(desc)
	if f == c17FaultFail {
		return nil, c17Injected(desc)
	}
	e := p.find(name)
	if e == nil {
		// like the real interpreter: Create; on AlreadyExists the existing object is returned
		e = &c17Res{name: name, uid: types.UID(fmt.Sprintf("%s-r%d", name, w.podGen["res/"+name]+1)), meta: *opts.Template.ObjectMeta.DeepCopy(),
			spec: *opts.Template.Spec.DeepCopy(), state: c17ResPending, need: j.cfg.NeedPreempt}
		w.podGen["res/"+name]++
		j.res = e
		w.c.Count("reservations_created", 1)
	} else {
		w.c.Count("create_reservation_already_exists", 1)
	}
	if f == c17FaultLost {
		return nil, c17Injected(desc)
	}
	return &c17ResObj{Object: reservation.NewReservation(e.render()), need: e.need}, nil
}

func (p *c17Interp) GetReservation(ctx context.Context, ref *corev1.ObjectReference) (reservation.Object, error) {
	e := p.find(ref.Name)
	if e == nil {
		return &c17ResObj{Object: reservation.NewReservation(&sev1alpha1.Reservation{})}, c17ResNotFound(ref.Name)
	}
	return &c17ResObj{Object: reservation.NewReservation(e.render()), need: e.need}, nil
}

func (p *c17Interp) DeleteReservation(ctx context.Context, ref *corev1.ObjectReference) error {
	if ref == nil {
		return nil
	}
	w := p.w
	e := p.find(ref.Name)
	if e == nil {
		return c17ResNotFound(ref.Name)
	}
	desc := "DeleteReservation " + ref.Name
	f := w.write(desc)
	if f == c17FaultFail {
		return c17Injected(desc)
	}
	e.state = c17ResDeleted
	w.c.Count("reservations_deleted_by_controller", 1)
	if f == c17FaultLost {
		return c17Injected(desc)
	}
	return nil
}

type c17Preempt struct{ w *c17World }

func (p *c17Preempt) Preempt(ctx context.Context, job *sev1alpha1.PodMigrationJob, obj reservation.Object) (bool, reconcile.Result, error) {
	w := p.w
	j := w.jobByName(job.Name)
	w.callGuard(j, "Preempt")
	w.c.Count("preempt_calls", 1)
	desc := "Preempt " + job.Name
	f := w.write(desc)
	if f == c17FaultFail {
		return false, reconcile.Result{}, c17Injected(desc)
	}
	j.preemptProgress++
	if f == c17FaultLost {
		return false, reconcile.Result{}, c17Injected(desc)
	}
	if j.preemptProgress >= j.cfg.PreemptCalls {
		j.preemptDone = true // completion REPORTED to the controller
		w.c.Count("preempt_complete_reported", 1)
		return true, reconcile.Result{}, nil
	}
	return false, reconcile.Result{RequeueAfter: defaultRequeueAfter}, nil
}

type c17Evictor struct{ w *c17World }

func (e *c17Evictor) Evict(ctx context.Context, job *sev1alpha1.PodMigrationJob, pod *corev1.Pod) error {
	w := e.w
	j := w.jobByName(job.Name)
	stored := w.storedPod(j)
	r := w.res(j)
	st := c17Stamp{Job: j.cfg.Name, Res: r.String(), PodUID: string(pod.UID), PodNode: pod.Spec.NodeName, StoredPod: c17PodBrief(stored),
		PreemptDone: j.preemptDone, Fault: w.label}
	st.Phase = string(w.callGuard(j, "Evict"))
	w.stamps = append(w.stamps, st)
	w.c.Count("evict_calls", 1)
	w.op("      Evict(%s, pod %s@%q): reservation=%s preemptDone=%v storedPod=%s", j.cfg.Name, pod.UID, pod.Spec.NodeName, r, j.preemptDone, c17PodBrief(stored))
	if stored == nil || stored.UID != pod.UID || stored.Spec.NodeName != pod.Spec.NodeName {
		// not a clause of C17 (and impossible while environment events stay between reconciles)
		w.c.Count("evict_pod_differs_from_store", 1)
	}
	if pod.UID != j.podUID {
		w.c.Count("evict_of_replacement_pod", 1) // not forbidden by the statement; counted
	}

	if !j.rf {
		// an evict-directly job (explicitly, or empty spec.mode under DefaultJobMode=EvictDirectly) is outside the
		// ordering clause; terminal stability and at-most-once still apply to it
		w.c.Count("evict_of_evict_directly_job", 1)
		return e.issue(j, pod, st)
	}
	// ---- ordering clause (reservation-first jobs), judged against the environment's own state at this instant
	if !r.live() {
		sig := "C17/evict/reservation-missing"
		w.fail(sig, "Evict(%s) while the job's reservation is %s (spec.mode=%q, args.DefaultJobMode=%q: reservation-first); stamp %+v", j.cfg.Name, r, j.cfg.Mode, w.cfg.DefaultJobMode, st)
	}
	switch r.state {
	case c17ResPending, c17ResPendingUnsched:
		w.fail("C17/evict/reservation-pending", "Evict(%s) while the reservation is %s; stamp %+v", j.cfg.Name, r, st)
	case c17ResUnsched:
		if !j.preemptDone {
			w.fail("C17/evict/reservation-unschedulable", "Evict(%s) while the reservation is %s and no preemption completed; stamp %+v", j.cfg.Name, r, st)
		}
		w.c.Count("evict_after_preempt_complete", 1)
	case c17ResExpired:
		w.fail("C17/evict/reservation-expired", "Evict(%s) while the reservation is %s; stamp %+v", j.cfg.Name, r, st)
	case c17ResBound:
		if r.bound == nil || r.bound.UID != pod.UID {
			w.fail("C17/evict/reservation-bound-other-pod", "Evict(%s) of pod %s while the reservation is %s; stamp %+v", j.cfg.Name, pod.UID, r, st)
		}
		w.c.Count("evict_while_bound_to_this_pod", 1)
	case c17ResScheduled:
		w.c.Count("evict_with_reservation_scheduled", 1)
	}
	if r.node != "" && r.node == pod.Spec.NodeName {
		sig := "C17/evict/same-node"
		if pod.UID != j.podUID {
			sig = "C17/evict/same-node-replacement-pod"
		}
		w.fail(sig, "Evict(%s) of pod %s on node %q while the reservation is %s (same node); stamp %+v", j.cfg.Name, pod.UID, pod.Spec.NodeName, r, st)
	}
	w.c.Count("evict_ordering_checks", 1)
	if w.real {
		w.c.Count("evictions_checked_real_interpreter", 1)
	}
	if j.cfg.Mode != "" && w.cfg.DefaultJobMode == string(sev1alpha1.PodMigrationJobModeEvictionDirectly) {
		w.c.Count("evict_ordering_checks_explicit_rf_under_default_direct", 1)
	}
	return e.issue(j, pod, st)
}

// issue: the at-most-once clause and the API call itself.
func (e *c17Evictor) issue(j *c17Job, pod *corev1.Pod, st c17Stamp) error {
	w := e.w
	// ---- at most once, fault-free only
	j.evictCalls++
	if len(w.faults) == 0 && j.evictCalls > 1 {
		w.fail("C17/evict/twice-fault-free", "job %s: Evict call #%d in a fault-free history; stamp %+v", j.cfg.Name, j.evictCalls, st)
	}
	if w.faultAt > 0 && j.evictCalls > 1 {
		w.c.Count("evict_repeated_under_fault", 1) // allowed by the statement
	}

	desc := "Evict " + string(pod.UID)
	f := w.write(desc)
	if f == c17FaultFail {
		return c17Injected(desc)
	}
	j.evictDone++
	if w.cfg.GracefulPods {
		// the eviction is a delete: the pod becomes a terminating object (deletionTimestamp set) that stays in
		// the store until the environment finishes its termination (step pod-deleted / pod-replaced)
		if cur := w.storedPod(j); cur != nil && cur.UID == pod.UID && cur.DeletionTimestamp == nil {
			if err := w.store.Delete(w.ctx, cur); err != nil {
				w.c.Harness("evict pod: %v", err)
			}
			w.c.Count("pods_left_terminating_by_evict", 1)
		}
	}
	if f == c17FaultLost {
		return c17Injected(desc)
	}
	w.stepWrites[len(w.stepWrites)-1] += " ok"
	return nil
}

// ---------------------------------------------------------------------------------------------
// steps

func (w *c17World) ring(node string, by int) string {
	for i, n := range c17Nodes {
		if n == node {
			return c17Nodes[(i+by)%len(c17Nodes)]
		}
	}
	return c17Nodes[by%len(c17Nodes)]
}

// apply executes one step; env steps that are not applicable in the current state (causal rules)
// are skipped.
func (w *c17World) apply(i int, s c17Step) bool {
	j := w.jobs[s.Job]
	w.stepWrites = w.stepWrites[:0]
	r := w.res(j)
	pod := w.storedPod(j)
	applied := true
	resChanged := false
	note := ""
	switch s.Kind {
	case "reconcile", "reconcile-stale":
		before := w.storedJob(j)
		if c17Terminal(before.Status.Phase) {
			j.afterTerminal++
			w.c.Count("reconciles_after_terminal", 1)
		}
		stale := ""
		// bounded lag: only while the cache can still be one controller write behind, and (faulty variants) only up
		// to the injected fault - a lost response combined with a lagging cache leaves no controller a way to know
		// what it has done, the statement cannot be meant for that
		if s.Kind == "reconcile-stale" && j.lagOpen && j.prev != nil && (len(w.faults) == 0 || !w.faultHit) {
			w.staleFor = j
			stale = fmt.Sprintf(" FROM LAGGING CACHE rv=%s (store rv=%s)", j.prev.ResourceVersion, before.ResourceVersion)
			w.c.Count("stale_reconciles", 1)
			if len(j.prev.ResourceVersion) < len(before.ResourceVersion) {
				w.c.Count("stale_reconciles_across_digit_boundary", 1)
			}
		}
		j.lagOpen = false // after this reconcile the cache has caught up (a write made by it opens a new lag)
		evictsBefore := j.evictCalls
		w.op("%02d %s(%s)%s t=+%v reservation=%s pod=%s", i, s.Kind, j.cfg.Name, stale, w.clk.Now().Sub(c17T0), r, c17PodBrief(pod))
		res, err := w.rec.Reconcile(w.ctx, reconcile.Request{NamespacedName: j.key})
		w.staleFor = nil
		if stale != "" && len(w.stepWrites) == 0 && j.evictCalls == evictsBefore {
			w.c.Count("stale_reconciles_without_effect", 1)
		}
		w.c.Count("reconciles", 1)
		if err != nil {
			w.c.Count("reconcile_errors", 1)
		}
		w.op("      -> requeueAfter=%v err=%v writes=[%s]", res.RequeueAfter, err, strings.Join(w.stepWrites, "; "))
		w.op("      stored %s: %s | reservation=%s", j.cfg.Name, c17JobBrief(w.storedJob(j)), w.res(j))
		w.checkJobs(true)
		return true
	case "res-unsched-retry":
		if !r.live() || (r.state != c17ResPending && r.state != c17ResPendingUnsched) {
			applied = false
			break
		}
		j.attempts++
		r.state, r.touched, r.msg = c17ResPendingUnsched, true, fmt.Sprintf("0/3 nodes are available (attempt %d)", j.attempts)
		resChanged = true
	case "res-scheduled":
		ok := r.live() && (r.state == c17ResPending || r.state == c17ResPendingUnsched || (r.state == c17ResUnsched && r.need && j.preemptDone))
		if !ok {
			applied = false
			break
		}
		node := ""
		switch strings.TrimSuffix(s.Arg, "-nocond") {
		case "same":
			if pod == nil || pod.Spec.NodeName == "" {
				applied = false
			} else {
				node = pod.Spec.NodeName
			}
		default:
			base := j.cfg.PodNode
			if pod != nil && pod.Spec.NodeName != "" {
				base = pod.Spec.NodeName
			}
			node = w.ring(base, 1)
		}
		if !applied {
			break
		}
		r.state, r.touched, r.node = c17ResScheduled, true, node
		r.nocond = strings.HasSuffix(s.Arg, "-nocond") && !w.real
		resChanged = true
	case "res-unsched":
		if !r.live() || (r.state != c17ResPending && r.state != c17ResPendingUnsched) {
			applied = false
			break
		}
		j.attempts++
		r.state, r.touched, r.msg = c17ResUnsched, true, fmt.Sprintf("0/3 nodes are available (gave up after %d)", j.attempts)
		resChanged = true
	case "res-expired":
		if !r.live() || (r.state != c17ResPending && r.state != c17ResPendingUnsched && r.state != c17ResScheduled) {
			applied = false
			break
		}
		r.state, r.touched = c17ResExpired, true
		resChanged = true
	case "res-deleted":
		if !r.live() {
			applied = false
			break
		}
		r.state = c17ResDeleted
		resChanged = true
	case "res-bound":
		if !r.live() || r.state != c17ResScheduled {
			applied = false
			break
		}
		switch s.Arg {
		case "this":
			// only a pod that is still unscheduled can be placed on the reservation
			if pod == nil || pod.Spec.NodeName != "" {
				applied = false
				break
			}
			w.schedulePod(pod, r.node)
			r.bound = &corev1.ObjectReference{Namespace: pod.Namespace, Name: pod.Name, UID: pod.UID}
		case "other-ns":
			// a pod of the SAME NAME in another namespace (selected by labels) consumes the reservation
			if !j.cfg.SelectorOwners {
				applied = false
				break
			}
			w.podGen["otherns/"+j.cfg.PodName]++
			r.bound = &corev1.ObjectReference{Namespace: "other-ns", Name: j.cfg.PodName,
				UID: types.UID(fmt.Sprintf("other-ns-%s-u%d", j.cfg.PodName, w.podGen["otherns/"+j.cfg.PodName]))}
		default:
			if pod != nil && pod.UID != j.podUID && (pod.Spec.NodeName == r.node || pod.Spec.NodeName == "") {
				// the same-name replacement consumes the reservation
				if pod.Spec.NodeName == "" {
					w.schedulePod(pod, r.node)
				}
				r.bound = &corev1.ObjectReference{Namespace: pod.Namespace, Name: pod.Name, UID: pod.UID}
			} else {
				w.podGen["other/"+j.cfg.PodName]++
				r.bound = &corev1.ObjectReference{Namespace: "default", Name: j.cfg.PodName + "-x",
					UID: types.UID(fmt.Sprintf("%s-x%d", j.cfg.PodName, w.podGen["other/"+j.cfg.PodName]))}
			}
		}
		if applied {
			r.state = c17ResBound
			resChanged = true
		}
	case "pod-scheduled":
		if pod == nil || pod.Spec.NodeName != "" {
			applied = false
			break
		}
		node := w.ring(j.cfg.PodNode, 2)
		if s.Arg == "res" {
			if !r.live() || r.node == "" {
				applied = false
				break
			}
			node = r.node
		}
		w.schedulePod(pod, node)
	case "pod-deleted":
		if pod == nil {
			applied = false
			break
		}
		w.removePod(pod)
	case "pod-replaced":
		old := j.cfg.PodNode
		if pod != nil {
			if pod.Spec.NodeName != "" {
				old = pod.Spec.NodeName
			}
			w.removePod(pod)
		}
		node := ""
		switch s.Arg {
		case "old":
			node = old
		case "res":
			if r.live() && r.node != "" {
				node = r.node
			} else {
				node = w.ring(old, 2)
			}
		case "third":
			node = w.ring(old, 2)
		}
		np := w.makePod(j.cfg, node, false)
		if err := w.store.Create(w.ctx, np); err != nil {
			w.c.Harness("re-create pod: %v", err)
		}
		note = " new=" + c17PodBrief(np)
	case "clock":
		d := c17Tick
		if s.Arg == "past-ttl" {
			if j.cfg.TTL == 0 {
				applied = false
				break
			}
			if target := j.created.Add(j.cfg.TTL + time.Second); w.clk.Now().Before(target) {
				d = target.Sub(w.clk.Now())
			}
		}
		if s.Arg == "far" {
			d = 49 * time.Hour
		}
		w.clk.Step(d)
		for _, x := range w.jobs {
			x.lagOpen = false // time passes: the cache catches up
		}
		note = fmt.Sprintf(" now=+%v", w.clk.Now().Sub(c17T0))
	case "restart":
		w.restart()
		for _, x := range w.jobs {
			x.lagOpen = false // a restarted controller starts from a freshly synced cache
		}
	case "job-pause", "job-unpause":
		// the user edits spec.paused: a write to the job by somebody else than the controller
		cur := w.storedJob(j)
		want := s.Kind == "job-pause"
		if cur.Spec.Paused == want {
			applied = false
			break
		}
		cur.Spec.Paused = want
		if err := w.store.Update(w.ctx, cur); err != nil {
			w.c.Harness("pause/unpause: %v", err)
		}
		j.lagOpen = false // (the lag is bounded by the controller's own last write only)
	default:
		w.c.Harness("unknown step %v", s)
	}
	if applied && resChanged {
		w.commit(r)
	}
	if applied {
		w.c.Count("env_"+s.Kind, 1)
		w.op("%02d %s%s | reservation(%s)=%s", i, s, note, j.cfg.Name, w.res(j))
	} else {
		w.c.Count("env_steps_skipped_inapplicable", 1)
		w.op("%02d %s skipped (not applicable: reservation=%s pod=%s)", i, s, r, c17PodBrief(pod))
	}
	w.checkJobs(false)
	return applied
}

// removePod takes the pod object out of the store (a terminating pod with the grace finalizer included).
func (w *c17World) removePod(pod *corev1.Pod) {
	if pod.DeletionTimestamp == nil {
		if err := w.store.Delete(w.ctx, pod); err != nil {
			w.c.Harness("delete pod: %v", err)
		}
	}
	cur := &corev1.Pod{}
	if err := w.store.Get(w.ctx, client.ObjectKeyFromObject(pod), cur); err != nil {
		if apierrors.IsNotFound(err) {
			return
		}
		w.c.Harness("get pod: %v", err)
	}
	cur.Finalizers = nil
	if err := w.store.Update(w.ctx, cur); err != nil {
		w.c.Harness("finish pod termination: %v", err)
	}
	if err := w.store.Get(w.ctx, client.ObjectKeyFromObject(pod), cur); !apierrors.IsNotFound(err) {
		w.c.Harness("pod still there after its finalizer was removed: %v", err)
	}
}

func (w *c17World) schedulePod(pod *corev1.Pod, node string) {
	pod = pod.DeepCopy()
	pod.Spec.NodeName = node
	pod.Status.Phase = corev1.PodRunning
	pod.Status.Conditions = []corev1.PodCondition{{Type: corev1.PodScheduled, Status: corev1.ConditionTrue}, {Type: corev1.PodReady, Status: corev1.ConditionTrue}}
	if err := w.store.Update(w.ctx, pod); err != nil {
		w.c.Harness("schedule pod: %v", err)
	}
}

// gen picks the next step of the fault-free history from the steps that make sense now. Weights
// favour progress (schedule on another node, delete the pod after the eviction, bind) so that complete
// migrations are common, and keep every hostile event possible at every point.
func (w *c17World) gen(r *kit.Rand) c17Step {
	ji := r.Intn(len(w.jobs))
	j := w.jobs[ji]
	type cand struct {
		s c17Step
		w int
	}
	var cs []cand
	add := func(weight int, kind, arg string) {
		cs = append(cs, cand{c17Step{Kind: kind, Job: ji, Arg: arg}, weight})
	}
	add(60, "reconcile", "")
	if j.lagOpen && j.prev != nil {
		add(30, "reconcile-stale", "") // the watch event of the controller's own write has not arrived yet
	}
	res := w.res(j)
	pod := w.storedPod(j)
	evicted := j.evictDone > 0
	if res.live() {
		switch res.state {
		case c17ResPending, c17ResPendingUnsched:
			add(40, "res-scheduled", "other")
			if pod != nil && pod.Spec.NodeName != "" {
				add(7, "res-scheduled", "same")
			}
			if !w.real {
				add(4, "res-scheduled", kit.Pick(r, []string{"other-nocond", "other-nocond", "same-nocond"}))
			}
			add(6, "res-unsched-retry", "")
			if res.need {
				add(22, "res-unsched", "")
			} else {
				add(5, "res-unsched", "")
			}
			add(4, "res-expired", "")
			add(3, "res-deleted", "")
		case c17ResUnsched:
			add(3, "res-deleted", "")
			if res.need && j.preemptDone {
				add(25, "res-scheduled", "other")
				add(4, "res-scheduled", "same")
			}
		case c17ResScheduled:
			if evicted {
				add(30, "res-bound", "other")
				if j.cfg.SelectorOwners {
					add(10, "res-bound", "other-ns")
				}
			} else {
				add(5, "res-bound", "other")
				if j.cfg.SelectorOwners {
					add(8, "res-bound", "other-ns")
				}
			}
			if pod != nil && pod.Spec.NodeName == "" {
				add(25, "res-bound", "this")
			}
			add(4, "res-expired", "")
			add(3, "res-deleted", "")
		default:
			add(3, "res-deleted", "")
		}
	}
	if pod != nil {
		if evicted {
			// the usual aftermath of an eviction: the pod goes away; a StatefulSet re-creates it under the same
			// name and the scheduler places it, most likely on the reservation
			add(22, "pod-deleted", "")
			add(18, "pod-replaced", kit.Pick(r, []string{"res", "res", "res", "none", "none", "old", "third"}))
		} else {
			add(3, "pod-deleted", "")
			add(5, "pod-replaced", kit.Pick(r, []string{"none", "old", "res", "third"}))
		}
		if pod.Spec.NodeName == "" {
			add(8, "pod-scheduled", kit.Pick(r, []string{"res", "third"}))
		}
	} else {
		add(6, "pod-replaced", kit.Pick(r, []string{"none", "old", "res", "third"}))
	}
	add(5, "clock", "tick")
	if j.cfg.TTL > 0 {
		add(4, "clock", "past-ttl")
	}
	add(1, "clock", "far")
	add(4, "restart", "")
	if w.storedJob(j).Spec.Paused {
		add(25, "job-unpause", "")
	} else {
		add(1, "job-pause", "")
	}
	ws := make([]int, len(cs))
	for i := range cs {
		ws[i] = cs[i].w
	}
	return cs[r.Weighted(ws...)].s
}

func (w *c17World) allSettled() bool {
	for _, j := range w.jobs {
		if !c17Terminal(j.lastPhase) || j.afterTerminal < 2 {
			return false
		}
	}
	return true
}

func (w *c17World) finish() {
	w.checkJobs(true)
	for _, j := range w.jobs {
		final := w.storedJob(j)
		reason := final.Status.Reason
		st := "none"
		if len(w.stamps) > 0 {
			st = "evicted"
		}
		w.c.Seen(len(w.jobs), j.cfg.TTL, j.cfg.PendingPod, j.cfg.NeedPreempt, w.cfg.Preemption, final.Status.Phase, reason, final.Status.Status, j.evictCalls, st,
			w.res(j).String(), w.real, j.cfg.UserRes, j.cfg.Mode, w.cfg.DefaultJobMode, w.faultKind, c17WriteClass(w.faultDesc), w.faultAfterEvict, j.afterTerminal > 0)
	}
}

func c17WriteClass(desc string) string {
	f := strings.Fields(desc)
	if len(f) >= 2 && (strings.HasPrefix(f[0], "Update") || f[0] == "Create" || f[0] == "Delete" || strings.HasPrefix(f[0], "Patch")) {
		return f[0] + " " + f[1]
	}
	if len(f) >= 1 {
		return f[0]
	}
	return ""
}

// ---------------------------------------------------------------------------------------------

// c17RunCase: one fault-free history generated adaptively, then every single-fault variant of it.
func c17RunCase(c *kit.Case, cfg *c17Cfg) {
	r := c.R
	c.Op("cfg: %+v", *cfg)

	// ---- fault-free history, generated adaptively
	base := c17NewWorld(c, cfg, 0, c17NoFault)
	base.direct = true
	var script []c17Step
	n := r.Range(6, 26-2*len(cfg.Jobs))
	if cfg.LongHistory {
		n = r.Range(30, 56)
	}
	for i := 0; i < n; i++ {
		if i >= 6 && base.allSettled() && !cfg.LongHistory {
			break // every job is terminal and has been reconciled after that: nothing more can happen
		}
		s := base.gen(r)
		base.apply(len(script), s)
		script = append(script, s)
	}
	for k := 0; k < 2; k++ {
		for ji := range cfg.Jobs {
			s := c17Step{Kind: "reconcile", Job: ji}
			base.apply(len(script), s)
			script = append(script, s)
		}
	}
	base.finish()
	c.Count("histories_fault_free", 1)
	c.Count(fmt.Sprintf("cases_with_%d_jobs", len(cfg.Jobs)), 1)
	for _, on := range []struct {
		name string
		v    bool
	}{{"graceful_pods", cfg.GracefulPods}, {"pvc_pods", cfg.PVCPods}, {"gate_DisablePVCReservation", cfg.DisablePVCGate}, {"long_history", cfg.LongHistory}} {
		if on.v {
			c.Count("cases_"+on.name, 1)
		}
	}
	for _, j := range cfg.Jobs {
		for _, on := range []struct {
			name string
			v    bool
		}{{"shared_pod", j.SharedPod}, {"bare_pod", j.BarePod}, {"ttl_explicit_zero", j.TTLSet && j.TTL == 0}, {"ttl_1s", j.TTL == time.Second},
			{"created_in_past", j.CreatedAt < 0}, {"created_ahead_of_clock", j.CreatedAt > 0}, {"podref_uid_correct", j.PodRefUID == "correct"},
			{"podref_uid_stale", j.PodRefUID == "stale"}, {"invalid_podref", j.InvalidRef}, {"paused_at_start", j.Paused},
			{"initial_phase_pending", j.InitPending}, {"custom_template_name", j.TemplateName != ""}, {"selector_owners", j.SelectorOwners}, {"user_reservation_missing", j.UserResInit == "missing"},
			{"user_reservation_with_order_label", j.UserResLabel}} {
			if on.v {
				c.Count("jobs_"+on.name, 1)
			}
		}
	}
	c.Count("cases_default_job_mode_"+map[string]string{"": "empty"}[cfg.DefaultJobMode]+cfg.DefaultJobMode, 1)
	for _, j := range base.jobs {
		switch {
		case !j.rf:
			c.Count("jobs_evict_directly", 1)
			if j.res != nil {
				c.Count("converse_misses_evict_directly_job_created_reservation", 1)
			}
		case j.cfg.Mode != "" && cfg.DefaultJobMode == string(sev1alpha1.PodMigrationJobModeEvictionDirectly):
			c.Count("jobs_explicit_reservation_first_under_default_evict_directly", 1)
			c.Count("jobs_reservation_first", 1)
		default:
			c.Count("jobs_reservation_first", 1)
		}
	}
	if cfg.Real {
		c.Count("real_interpreter_histories", 1)
		for _, j := range cfg.Jobs {
			c.Count("jobs_with_reservation_"+map[string]string{"": "created_by_controller", "name-only": "user_supplied_ref_without_uid", "name-uid": "user_supplied_ref_with_uid"}[j.UserRes], 1)
			if j.UserRes == "name-only" {
				c.Count("jobs_with_user_supplied_ref_without_uid", 1)
			}
		}
	}
	c.Count("steps_fault_free", len(script))
	c.Count("api_writes_fault_free", base.writes)
	evicted, terminal, after := len(base.stamps) > 0, false, false
	for _, j := range base.jobs {
		terminal = terminal || c17Terminal(j.lastPhase)
		after = after || j.afterTerminal > 0
	}
	if evicted {
		c.Count("fault_free_histories_with_eviction", 1)
	}
	if evicted && terminal && after {
		c.NonTrivial()
	}
	if c.K < 3 {
		var ss []string
		for _, s := range script {
			ss = append(ss, s.String())
		}
		c.Sample(map[string]any{"cfg": cfg, "script": ss, "api_writes": base.writeLog, "evict_stamps": base.stamps})
	}

	// ---- every single-fault variant of that history
	for k := 1; k <= base.writes; k++ {
		for _, kind := range []c17Fault{c17FaultFail, c17FaultLost} {
			v := c17NewWorld(c, cfg, k, kind)
			aborted := c17Variant(func() {
				for i, s := range script {
					v.apply(i, s)
				}
				v.finish()
			})
			if aborted {
				c.Count("faulty_histories_with_violation", 1)
			}
			if !v.faultHit || v.faultDesc != base.writeLog[k-1] {
				c.Harness("variant %q did not reproduce the fault-free prefix: hit=%v at %q, expected %q", v.label, v.faultHit, v.faultDesc, base.writeLog[k-1])
			}
			c.Evals(1)
			if cfg.Real {
				c.Count("real_interpreter_histories", 1)
			}
			c.Count("fault_positions_enumerated", 1)
			c.Count("fault_at_"+strings.NewReplacer(" ", "_", "/", "_").Replace(c17WriteClass(v.faultDesc))+"_"+kind.String(), 1)
			if v.faultAfterEvict {
				c.Count("fault_hit_write_right_after_eviction", 1)
			}
			if len(v.stamps) > 0 {
				c.Count("faulty_histories_with_eviction", 1)
			}
		}
	}

	// ---- a sample of multi-fault variants ("failures injected at any call"): pairs of nearby faults and
	// short outages (three consecutive writes fail); the second and later indices count the writes of the
	// variant itself
	if base.writes >= 2 {
		kinds := []c17Fault{c17FaultFail, c17FaultLost}
		for m := 0; m < 6; m++ {
			k1 := r.Range(1, base.writes)
			faults := map[int]c17Fault{k1: kit.Pick(r, kinds)}
			if m < 4 {
				faults[k1+r.Range(1, 6)] = kit.Pick(r, kinds)
			} else {
				faults[k1+1], faults[k1+2] = c17FaultFail, c17FaultFail
				faults[k1] = c17FaultFail
			}
			v := c17NewWorldFaults(c, cfg, faults)
			aborted := c17Variant(func() {
				for i, s := range script {
					v.apply(i, s)
				}
				v.finish()
			})
			if aborted {
				c.Count("faulty_histories_with_violation", 1)
			}
			if !v.faultHit || v.faultDesc != base.writeLog[k1-1] {
				c.Harness("variant %q did not reproduce the fault-free prefix: hit=%v at %q, expected %q", v.label, v.faultHit, v.faultDesc, base.writeLog[k1-1])
			}
			c.Evals(1)
			c.Count("multi_fault_histories", 1)
			if cfg.Real {
				c.Count("real_interpreter_histories", 1)
			}
		}
	}
}

func TestVerifC17Reconcile(t *testing.T) {
	kit.Run(t, kit.Config{Property: "C17", Unit: "reconcile", Quick: 480, Thorough: 20000,
		Rule: "1-3 jobs (15% of the extra jobs target job-0's pod), spec.mode in {empty 38%, ReservationFirst 50%, EvictDirectly 12%} and args.DefaultJobMode in {empty 20%, ReservationFirst 50%, EvictDirectly 30%} drawn independently (reservation-first by the documented rule: explicit mode wins, empty falls back to the default, empty default = ReservationFirst; the ordering clause is asserted for those jobs only), spec/args delete options set or not (TTL unset/explicit 0/1s/15s/1h; creationTimestamp at/before/ahead of the clock; podRef.uid empty/correct/stale, 3% podRef without name; 8% paused at start, user pause/unpause events; 15% initial phase Pending; job resourceVersion starts at 1 or 1-10 writes below a power of ten; reconciles served from a cache lagging one controller write behind (step reconcile-stale, fault-free part of a history only); 20% user-named reservation template with label-selector owners (then the reservation may be consumed by a pod of the same name in another namespace); 10% bare pods, 50% graceful (terminating) pods, 20% PVC pods, gate DisablePVCReservation 20%; 5% long histories of 34-62 steps; 10% pending-pod mode; 25% with a scripted preemption interpreter), one fault-free history of 8-30 steps generated adaptively from {reconcile, reservation -> pending+unschedulable / scheduled(same|other node) / unschedulable / expired / deleted / bound(this|other pod), pod deleted / replaced by same name new UID (pending|old node|reservation node|third node) / scheduled, clock +5s / past TTL, controller restart}, ending with 2 reconciles per job; then the same script is re-executed with every single write k=1..n failing (nothing applied) and with every single write k applied-but-error (lost response), plus 6 sampled multi-fault variants (4 fault pairs, 2 three-write outages); evaluations = executed histories (1+2n+6 per case); non-trivial = the fault-free history evicted, reached a terminal phase and reconciled after it; distinct = (jobs, TTL, mode, final phase/reason/status, #evict calls, final reservation state, fault kind, class of the failed write, fault right after evict, reconciled after terminal)"},
		func(c *kit.Case) { c17RunCase(c, c17GenCfg(c.R)) })
}

// The same monitor with the SHIPPED reservation interpreter (reservation.NewInterpreter, interpreter.go) instead
// of the scripted double: Reservation objects live in the API store, the controller's interpreter creates /
// reads / deletes them through the fault-injecting client, and the environment (scheduler, user) writes their
// status straight into the store. The job's reservation is either created by the controller (reference written
// by it, with the uid the API server assigned) or supplied by the user: a Reservation that exists before the
// job, referenced by name only (empty uid - legal) or by name + uid. Every oracle clause is judged against the
// object in the store at that instant (c17Classify).
func TestVerifC17RealInterpreter(t *testing.T) {
	kit.Run(t, kit.Config{Property: "C17", Unit: "real-interpreter", Quick: 180, Thorough: 6000,
		Rule: "as unit reconcile, but with the real reservation interpreter over the fake API store (no preemption); 1-2 jobs, TTL unset 15% / 15s 55% / 1h 30%; reservation created by the controller 35% / user-supplied and referenced by name only 40% / by name+uid 25% (initially pending, scheduled on another node or on the pod's node); reservation events are status writes into the store; every single write (job writes, Reservation create/update/delete, Evict) fails once not-applied and once applied-with-lost-response"},
		func(c *kit.Case) { c17RunCase(c, c17GenCfgReal(c.R)) })
}
