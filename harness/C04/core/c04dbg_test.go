//go:build verif

package core

import (
	"fmt"
	"os"
)

func init() {
	if os.Getenv("C04_DEBUG") == "" {
		return
	}
	n := 0
	c04Debug = func(u *c04U, p *c04Pod, state string) {
		if u.conc || n > 3 {
			return
		}
		n++
		f, _ := os.OpenFile("/verif/out/C04-mut/debug.txt", os.O_APPEND|os.O_CREATE|os.O_WRONLY, 0o644)
		fmt.Fprintf(f, "==== case %d pod %s state %s\n", u.c.K, p.key, state)
		for _, o := range u.c.Ops() {
			fmt.Fprintln(f, o)
		}
		summ := u.mgr.GetGangSummaries()
		for id, s := range summ {
			fmt.Fprintf(f, "  %s init=%v min=%d pol=%s P=%v W=%v B=%v sat=%v group=%v\n", id, s.HasGangInit, s.MinRequiredNumber, s.GangMatchPolicy, s.PendingChildren, s.WaitingForBindChildren, s.BoundChildren, s.OnceResourceSatisfied, s.GangGroup)
		}
		f.Close()
	}
}
