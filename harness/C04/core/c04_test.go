//go:build verif

package core

// C04 monitors: gang scheduling is all-or-nothing across the whole gang group, and a member pod is
// always in exactly one of the pending / waiting / bound sets of its gang.
// See /verif/DESIGN.md section 4, C04.
//
// What runs: a real PodGroupManager + GangCache. The harness plays three parts around it:
//
//   * the API server: per pod incarnation a list of versions (node name as of the version) and a
//     tombstone; PodGroup objects;
//   * the informer: delivers the versions of one pod in order through onPodAdd / onPodUpdate /
//     onPodDelete, lagging arbitrarily behind the API state; delivers PodGroup events;
//   * the scheduling framework: a fake handle (c04Handle) owns the waiting-pod map and records every
//     Allow / Reject; the harness calls Permit (+ AllowGangGroup on Success, exactly as
//     coscheduling.go:203 does), AfterPostFilter, Unreserve and PostBind at the moments the
//     framework would.
//
// CAUSAL RULES (what the generator may produce; everything else is out of domain)
//
//  I1  Events of one pod incarnation are delivered in version order: add, updates ..., delete.
//      Each carries the node name the pod had when that version was written. A version with a
//      node name exists only after the scheduler's bind of that pod succeeded (or the pod was
//      already bound when the history starts).
//  I2  The informer lags: versions written before the bind (node name empty) may be delivered
//      after PostBind ("stale update"). This is a real informer/scheduler race and is generated on
//      purpose (touch before bind, deliver after).
//  I3  A pod name is re-used by a later incarnation (new UID) only after the delete of the
//      previous incarnation was delivered (the API server refuses the create before the old
//      object is gone and the informer keeps the order).
//  I4  PodGroup events of one PodGroup arrive in order. A PodGroup is deleted only while no member
//      of its gang is assumed by the scheduler (waiting or binding): what the sets of a gang
//      record that was thrown away should say is not covered by the statement.
//  S1  A scheduling cycle for pod p starts only if the cache has seen p (add delivered, delete not
//      delivered), p is unbound and not assumed, no older incarnation of the same name still owes
//      an Unreserve, and the PreEnqueue/PreFilter gate of the plugin is open at that moment: p's
//      gang is initialised and either (once-satisfied policy and already satisfied) or every gang
//      of the group exists, is initialised and has collected >= min children. The gate is
//      evaluated on the manager's own state (GetGangSummaries), as BeforePreFilter does. Informer
//      events may slip in between the gate and Permit (they do in reality), except p's own delete.
//  S2  The cycle ends in Permit (a node was found) or in AfterPostFilter (no node fits).
//  S3  Permit = Wait: p enters the waiting map. Permit = Success: AllowGangGroup, p goes on to
//      bind. Permit = PodGroupNotFound: the framework unreserves p at once.
//  S4  A waiting pod takes the first signal it gets (Allow by the plugin, Reject by the plugin,
//      Reject by the framework on timeout or when the pod's delete event arrives); later signals
//      are ignored (as the buffered channel of the real waitingPod). It stays in the map until its
//      binding goroutine wakes up ("wake"), which removes it and then either goes on to bind
//      (allowed) or calls Unreserve (rejected). Timeouts are modelled as that Reject, never by
//      waiting.
//  S5  Bind: success => the API object gets its node name (a new version) and PostBind follows
//      immediately; failure => Unreserve. Binding a pod that is already deleted at the API fails.
//      Third outcome, "applied but reported failed" (the API server bound the pod, the scheduler's
//      client saw a timeout): the object gets its node name, the scheduler runs Unreserve, PostBind
//      never comes; the informer may deliver the update carrying the node name BEFORE that
//      Unreserve (the client waits for its timeout) or after it.
//  S6  Not generated: Permit / PostBind of p after p's own delete was delivered; a group list that
//      does not name the declaring gang; group changes of annotation gangs (they are initialised
//      once) and of groups that contain one; terminated pod phases; network-topology and
//      preemption paths.
//  S7  The gang scheduling context. In 60% of the generated cases (and in the scripts marked ctx) the
//      plugin's context machinery is part of the run, as in the real scheduling loop
//      (frameworkext runNextPodPlugin): every iteration first asks NextPod, which hands out the
//      not yet attempted pending pods of the group whose scheduling round is in progress and, when
//      none is left, rejects that group's waiting members and closes the round; only then a pod is
//      popped from the queue, where it got through PreEnqueue; every cycle runs BeforePreFilter
//      (the first pod of a group opens the round; a refusal is a fit error, so AfterPostFilter
//      runs); Permit=Success calls SucceedGangScheduling. Wake-ups, Unreserve and PostBind of
//      earlier pods belong to their binding goroutines and arrive between (conc: during) the
//      iterations - also while the round of ANOTHER group is in progress and has members waiting.
//      A pod NextPod hands out that the harness would not pop itself (bound at the API but still
//      pending in the cache; an older incarnation of its name owes an Unreserve) gets the outcome
//      that is always possible, "no node fits". In the other cases the machinery is left out (no
//      context is ever installed, DESIGN's abstraction): waiting members then survive until a
//      release, a roll-back or a timeout, which is what loads oracles (1) and (3) most.
//  U1  Universe (domain audit). 1-3 groups of 1-3 gangs (up to 7 gangs), 1-6 pod slots per gang, min
//      0-4 (also above the number of slots: never satisfiable), one or two namespaces with the same
//      gang name in both; plugin argument DefaultMatchPolicy drawn from all three policies. Gang
//      sources: pod annotations, PodGroup, and the deprecated lightweight-coscheduling labels (name
//      and min-available as labels). Every field the code parses is also spelled in its other
//      legal or tolerated ways, always with the same effective meaning: mode absent / illegal (=
//      strict); match policy under the alias key, absent or illegal (= the plugin default);
//      total-number absent / 0 / below min / illegal; waiting-time valid / illegal / negative;
//      PodGroup scheduleTimeoutSeconds unset / 0 / positive. An annotation gang whose min-available
//      is illegal or missing can never be initialised: nobody of its group may ever be released.
//      Pod events also include: resync updates (identical old and new object), updates of a pod
//      that ran to completion (phase Succeeded; only for pods the cache already knows as bound, where
//      ignoring and processing the event mean the same), pods that are already bound when they are
//      created, PodGroup deletes delivered as DeletedFinalStateUnknown; 8% of the sequential
//      histories have 150-300 operations. In 6% of the sequential cases a pod update may change the
//      gang the pod names (the annotation / label is mutable): the pod then is a member of the new
//      gang and of no set of the former one; such a version is written only while the scheduler
//      does not hold the pod and is delivered only then.
//  I5  A job may be deleted as a whole and submitted again under the same names: every pod of every
//      gang of a group of PodGroup gangs is deleted (deletes delivered), then every PodGroup of the
//      group; later the ordinary operations create PodGroups and pods with the same names again.
//      Only for groups that never changed their group list, while the scheduler holds none of the
//      pods, sequential units only. A group whose PodGroups and pods are all gone has no history:
//      only here "some member was bound before" starts again at false (everywhere else it is
//      never reset, which is the lenient reading).
//      min-available of annotation / lightweight-label gangs is a DECIMAL number and may be written
//      zero-padded ("010" is ten members); 4% of the cases are one gang of 10-12 pods with min 10
//      written like that. The shadow minimum is the declared number, never a parse of the string.
//  G1  The gang-groups annotation (pod annotation or PodGroup annotation). A gang that names no
//      other gang is its own group, however that is spelled: annotation absent, "", "null", "[]",
//      illegal JSON, or a list naming only the gang itself. A list may name a gang that never
//      exists (then nobody of the group can ever be released).
//  G2  PodGroup UPDATE events that change only annotations (spec identical): the match policy of
//      one gang; the mode, written to every PodGroup of the group; the group list - a gang leaves
//      its group or joins another one (only groups made of PodGroup gangs), written consistently
//      to every PodGroup of the old and of the new group; the spelling of "on its own". Each
//      PodGroup's event is delivered separately and possibly late, so the cache passes through
//      states in which the gangs of a group disagree about the group or the mode. In such a state
//      the statement is read per declaring gang: a release needs every gang of the group AS
//      CURRENTLY DECLARED (as far as the cache was told) BY THE RELEASING POD'S GANG to have its
//      minimum; a roll-back in a strict gang must reject the waiting members of the gangs that
//      gang currently declares (of those that are themselves strict while the modes disagree).
//
// SHADOW TRUTH (independent of the gang's own sets) per pod incarnation:
//      known   = add/update delivered, delete not delivered (and the gang record not thrown away)
//      bound   = the cache was told so: PostBind, or a delivered version with a node name
//      held    = the scheduler permitted it (Wait or Success) and has neither unreserved nor bound it
//   =>  gone (not known) | Bound (known, bound) | Waiting (known, held) | Pending (otherwise).
//
// ORACLES
//  (1) release: at Permit=Success every gang of the group currently declared by the releasing
//      pod's gang exists, is initialised and has >= min members holding resources per its policy,
//      counted on the shadow truth: only-waiting: Waiting; waiting-and-running: Waiting+Bound;
//      once-satisfied: Waiting, or "some member was bound before" - kept per set of gangs that ever
//      declared one another (lenient: true whenever the implementation's flag can be). Every Allow
//      of that release goes to a pod of a gang of that group; an Allow seen during any other call
//      must satisfy the same for the allowed pod's gang.
//  (2) converse (Wait although every gang had its minimum): counted only.
//  (3) strict mode: after Unreserve / AfterPostFilter of a member of a strict gang that is not
//      (once-satisfied and already satisfied), every pod in the waiting map that belongs to a
//      (strict) gang of the group that gang currently declares has received a Reject.
//      "Otherwise it waits": every Reject the plugin issues during the roll-back of p goes to a pod
//      of a gang that p's gang currently declares - a waiting member of a group without a failed
//      member is not thrown out of Permit by somebody else's failure (reject-outside-group). The
//      rejections at the end of a scheduling round (NextPod) stay inside the set of gangs related
//      to the gang that opened the round (lenient).
//  (4) partition: in GetGangSummaries() Pending, WaitingForBind, Bound are pairwise disjoint, their
//      union is Children, and each equals the shadow set. After every operation (seq), at the
//      quiescent points between phases (conc).
//
// UNITS  basic: hand-written in-domain histories (each step names its pod) - among them the minimal
// reproduction of the known Gang.setChild defect; seq: generated sequential histories, every
// oracle after every operation; conc: the informer's half and the scheduler's half of a
// pre-generated history on two goroutines under the race detector.
//
// FINDING (domain audit)  onPodUpdate adds a pod whose update names another gang to the new gang but
// never removes it from the former one (narrow signature C04/partition/pod-kept-by-former-gang; the
// partition check sets exactly those pods aside, everything else is compared as usual).
//
// KNOWN DEFECT  A stale update (node name still empty) delivered after PostBind puts the pod into
// PendingChildren while it is in BoundChildren (Gang.setChild). It is reported under the narrow
// signature C04/partition/bound-and-pending-after-stale-update WITHOUT ending the case: for exactly
// those pods the double membership is then tolerated, so that the rest of the history is still
// checked and a different violation is not masked. Every other violation ends the case.
//
// ECHO (conc)  For 60% of the Permit calls the scheduler goroutine asks the informer goroutine (start
// barrier, bounded wait) to write and deliver unbound update versions of the very pod being
// permitted, back to back, until Permit has returned: the overlap "informer inside Gang.setChild for
// pod p / scheduler inside addAssumedPod for p" is then hit many times per run instead of by chance.
// Versions stay in order (one informer goroutine); the shadow treats them as any other update.
//
// In the concurrent unit informer events overlap scheduler calls. Every shadow fact that can only
// lower a count (delete, told-bound under only-waiting) is applied for (1) as of the START of the
// call and only when its delivery had completed; every fact that can only raise it (existence,
// once-satisfied, bound) as soon as its delivery had BEGUN by the end of the call. So (1) compares
// against an upper bound of what any instant of the call could have seen and never fires on a
// correct interleaving.

import (
	"context"
	"fmt"
	"runtime"
	"runtime/debug"
	"sort"
	"strconv"
	"strings"
	"sync"
	"sync/atomic"
	"testing"
	"time"

	corev1 "k8s.io/api/core/v1"
	metav1 "k8s.io/apimachinery/pkg/apis/meta/v1"
	"k8s.io/apimachinery/pkg/types"
	"k8s.io/apimachinery/pkg/util/sets"
	k8sfeature "k8s.io/apiserver/pkg/util/feature"
	"k8s.io/client-go/tools/cache"
	"k8s.io/klog/v2"
	fwktype "k8s.io/kube-scheduler/framework"
	"k8s.io/kubernetes/pkg/scheduler/framework"

	"github.com/koordinator-sh/koordinator/apis/extension"
	"github.com/koordinator-sh/koordinator/apis/thirdparty/scheduler-plugins/pkg/apis/scheduling/v1alpha1"
	"github.com/koordinator-sh/koordinator/pkg/features"
	"github.com/koordinator-sh/koordinator/pkg/scheduler/apis/config"
	"github.com/koordinator-sh/koordinator/pkg/scheduler/frameworkext"
	"github.com/koordinator-sh/koordinator/pkg/scheduler/frameworkext/workloadauditor"
	kit "github.com/koordinator-sh/koordinator/pkg/verifkit"
)

func init() {
	klog.SetOutput(c04Discard{})
	klog.LogToStderr(false)
}

type c04Discard struct{}

func (c04Discard) Write(p []byte) (int, error) { return len(p), nil }

const (
	c04NS     = "ns"
	c04Plugin = Name
)

var c04Policies = []string{extension.GangMatchPolicyOnlyWaiting, extension.GangMatchPolicyWaitingAndRunning, extension.GangMatchPolicyOnceSatisfied}

// ---------------------------------------------------------------------------------------------
// fake framework handle: owns the waiting-pod map, records Allow / Reject

type c04Ev struct {
	allow     bool
	wp        *c04WP
	plugin    string
	effective bool
}

type c04WP struct {
	h   *c04Handle
	p   *c04Pod
	pod *corev1.Pod
	// guarded by h.emu
	signal       int // 0 none, 1 allowed, 2 rejected: the first signal wins
	rejectedEver bool
}

func (w *c04WP) GetPod() *corev1.Pod         { return w.pod }
func (w *c04WP) GetPendingPlugins() []string { return []string{c04Plugin} }
func (w *c04WP) Allow(plugin string)         { w.h.signal(w, true, plugin, true) }
func (w *c04WP) Reject(plugin, msg string)   { w.h.signal(w, false, plugin, true) }

// c04Handle implements the part of frameworkext.ExtendedHandle the monitored code uses. Every
// other method is promoted from the nil embedded interface and would panic: reaching one means the
// monitored paths changed and the harness has to be revisited.
type c04Handle struct {
	frameworkext.ExtendedHandle
	mu      sync.RWMutex
	waiting map[types.UID]*c04WP
	emu     sync.Mutex
	events  []c04Ev
}

type c04NodeLister struct{ fwktype.NodeInfoLister }

func (c04NodeLister) List() ([]fwktype.NodeInfo, error) { return nil, nil }

type c04Lister struct{ fwktype.SharedLister }

func (c04Lister) NodeInfos() fwktype.NodeInfoLister { return c04NodeLister{} }

func (h *c04Handle) SnapshotSharedLister() fwktype.SharedLister          { return c04Lister{} }
func (h *c04Handle) Scheduler() frameworkext.Scheduler                   { return nil }
func (h *c04Handle) GetWorkloadAuditor() workloadauditor.WorkloadAuditor { return nil }

func (h *c04Handle) sorted() []*c04WP {
	out := make([]*c04WP, 0, len(h.waiting))
	for _, w := range h.waiting {
		out = append(out, w)
	}
	sort.Slice(out, func(i, j int) bool { return out[i].p.uid < out[j].p.uid })
	return out
}

func (h *c04Handle) IterateOverWaitingPods(cb func(fwktype.WaitingPod)) {
	h.mu.RLock()
	defer h.mu.RUnlock()
	for _, w := range h.sorted() {
		cb(w)
	}
}

func (h *c04Handle) GetWaitingPod(uid types.UID) fwktype.WaitingPod {
	h.mu.RLock()
	defer h.mu.RUnlock()
	if w := h.waiting[uid]; w != nil {
		return w
	}
	return nil
}

func (h *c04Handle) RejectWaitingPod(uid types.UID) bool {
	h.mu.RLock()
	w := h.waiting[uid]
	h.mu.RUnlock()
	if w == nil {
		return false
	}
	h.signal(w, false, "framework", false)
	return true
}

// signal delivers Allow / Reject to a waiting pod. record: the call came from the plugin (through
// the WaitingPod interface) and is an observation for the oracles; the framework's own rejections
// (timeout, pod deleted) are not.
func (h *c04Handle) signal(w *c04WP, allow bool, plugin string, record bool) {
	h.emu.Lock()
	eff := false
	if w.signal == 0 {
		eff = true
		if allow {
			w.signal = 1
		} else {
			w.signal = 2
		}
	}
	if !allow {
		w.rejectedEver = true
	}
	if record {
		h.events = append(h.events, c04Ev{allow: allow, wp: w, plugin: plugin, effective: eff})
	}
	h.emu.Unlock()
}

func (h *c04Handle) drain() []c04Ev {
	h.emu.Lock()
	ev := h.events
	h.events = nil
	h.emu.Unlock()
	return ev
}

func (h *c04Handle) add(w *c04WP) {
	h.mu.Lock()
	h.waiting[w.p.uid] = w
	h.mu.Unlock()
}

func (h *c04Handle) remove(w *c04WP) {
	h.mu.Lock()
	delete(h.waiting, w.p.uid)
	h.mu.Unlock()
}

// list returns the waiting pods (sorted) together with their signal state.
func (h *c04Handle) list() (ws []*c04WP, sig []int, rej []bool) {
	h.mu.RLock()
	ws = h.sorted()
	h.mu.RUnlock()
	h.emu.Lock()
	for _, w := range ws {
		sig = append(sig, w.signal)
		rej = append(rej, w.rejectedEver)
	}
	h.emu.Unlock()
	return
}

// ---------------------------------------------------------------------------------------------
// universe

type c04Cfg struct {
	min     int
	mode    string
	policy  string
	timeout int      // PodGroup spec.scheduleTimeoutSeconds: part of the spec, irrelevant for the decisions
	decl    []string // the gang group as declared: sorted gang ids, always naming the gang itself; never mutated in place
	repr    int      // how the declaration is written in the groups annotation (c04Repr*)
}

// The gang-groups annotation. A gang that declares no other gang is its own group, however that is
// written: annotation absent, "", "null", "[]", illegal JSON, or a list naming only the gang.
const (
	c04ReprList = iota // JSON list of decl
	c04ReprAbsent
	c04ReprEmptyString
	c04ReprNull
	c04ReprEmptyList
	c04ReprIllegal
)

var c04ReprNames = []string{"list", "absent", "empty_string", "null", "empty_list", "illegal_json"}

const c04Ghost = c04NS + "/ghost" // a gang that never exists

func c04GroupsAnnotation(cfg c04Cfg) (string, bool) {
	switch cfg.repr {
	case c04ReprAbsent:
		return "", false
	case c04ReprEmptyString:
		return "", true
	case c04ReprNull:
		return "null", true
	case c04ReprEmptyList:
		return "[]", true
	case c04ReprIllegal:
		return `["` + cfg.decl[0] + `",`, true
	}
	q := make([]string, len(cfg.decl))
	for i, id := range cfg.decl {
		q[i] = strconv.Quote(id)
	}
	return "[" + strings.Join(q, ",") + "]", true
}

// c04DeclKind names the degenerate ways of declaring the group ("" = an ordinary list of several gangs).
func c04DeclKind(cfg c04Cfg) string {
	for _, id := range cfg.decl {
		if id == c04Ghost {
			return "nonexistent_gang"
		}
	}
	if cfg.repr != c04ReprList {
		return c04ReprNames[cfg.repr]
	}
	if len(cfg.decl) == 1 {
		return "self_only"
	}
	return ""
}

func c04SameDecl(a, b []string) bool {
	if len(a) != len(b) {
		return false
	}
	for i := range a {
		if a[i] != b[i] {
			return false
		}
	}
	return true
}

func c04CfgEq(a, b c04Cfg) bool {
	return a.min == b.min && a.mode == b.mode && a.policy == b.policy && a.timeout == b.timeout && a.repr == b.repr && c04SameDecl(a.decl, b.decl)
}

func c04Without(decl []string, id string) []string {
	out := []string{}
	for _, x := range decl {
		if x != id {
			out = append(out, x)
		}
	}
	return out
}

func c04With(decl []string, id string) []string {
	out := append(c04Without(decl, id), id)
	sort.Strings(out)
	return out
}

func c04Has(decl []string, id string) bool {
	for _, x := range decl {
		if x == id {
			return true
		}
	}
	return false
}

type c04Gang struct {
	idx      int
	name, id string
	crd      bool
	slots    int
	want     c04Cfg // what the API objects say (annotation gangs: constant)
	ns       string
	// how the configuration is spelled in the annotations / labels (what the code parses)
	lightweight bool            // annotation gang named by the deprecated lightweight-coscheduling labels (name and min-available as labels)
	modeSpell   int             // strict only: 0 explicit, 1 annotation absent, 2 illegal value (both mean strict)
	policySpell int             // 0 koordinator key, 1 alias key; only when the policy is the plugin's default: 2 absent, 3 illegal value
	totalSpell  int             // total-number: 0 >= min, 1 absent, 2 "0", 3 below min, 4 illegal
	waitSpell   int             // annotation gangs, waiting-time: 0 absent, 1 valid, 2 illegal, 3 negative
	minSpell    int             // annotation gangs, min-available: 0 valid, 1 illegal value, 2 absent - with 1 and 2 the gang can never be initialised
	minPad      int             // annotation gangs: leading zeros written in front of the decimal min-available value
	declChanged bool            // a delivered PodGroup update changed the gang-group list at least once
	movedAway   map[string]bool // pods whose gang name was changed to another gang by a pod update (seq)
	pgRV        int
	// crd gangs: the last PodGroup the cache was told about
	cfgBegun, cfgDone bool
	cfg               c04Cfg
	pods              []*c04Pod // every incarnation, creation order
	// evidence only
	deleteWhileHeldSinceLastPermit bool
}

type c04Ver struct {
	del        bool
	node       string
	rv         int
	terminated bool     // status.phase Succeeded (only on versions of pods the cache already knows as bound)
	gang       *c04Gang // the gang the pod names in this version
}

type c04Pod struct {
	gang      *c04Gang
	slot, inc int
	name, key string
	ns        string
	uid       types.UID
	cycleMu   sync.Mutex // conc: the scheduler acts on this pod / the informer delivers its delete
	// API server
	apiNode       string
	apiDeleted    bool
	apiTerminated bool
	apiGang       *c04Gang
	queue         []c04Ver // versions the informer has not delivered yet
	delivered     int
	// what the cache was told (begun = the delivery started, done = it returned)
	obj                   *corev1.Pod
	addBegun, addDone     bool
	delBegun, delDone     bool
	boundBegun, boundDone bool
	staleAfterBound       bool // a version with an empty node name was delivered after the cache was told "bound"
	// scheduler
	held bool
	fw   int // 0 idle, 1 in the waiting map, 2 binding, 3 bind applied at the API but reported failed: Unreserve pending
	wp   *c04WP
}

func (p *c04Pod) known() bool { return p.addDone && !p.delBegun }

func (g *c04Gang) neverInit() bool { return !g.crd && g.minSpell != 0 }

type c04Intent struct {
	inf  bool
	kind int
	a, b int
	flag bool
}

const (
	c04ICreate = iota
	c04ITouch
	c04IDeliver
	c04IDelete
	c04IPG
)
const (
	c04SCycle = iota
	c04SWake
	c04STimeout
	c04SBind
	c04SLate
)

type c04U struct {
	c    *kit.Case
	conc bool
	mgr  *PodGroupManager
	h    *c04Handle
	ctx  context.Context

	mu      sync.Mutex // guards everything below that both goroutines touch
	gangs   []*c04Gang
	byID    map[string]*c04Gang
	pods    []*c04Pod
	rv      int
	binding []*c04Pod // scheduler goroutine only
	late    []*c04Pod // scheduler goroutine only: bind applied but reported failed, Unreserve not yet run
	// "Some member was bound before", kept per set of gangs that ever declared one another as group
	// mates (union-find over gang indexes, never split, never reset). The implementation keeps its
	// once-satisfied flag in a GangGroupInfo object that a gang shares with the gangs that declared
	// the same group when they were first initialised; every such pair is in one set here, so the
	// shadow flag is true whenever the implementation's is: lenient, hence sound for (1) and (3).
	parent []int
	sat    []bool
	order  []byte
	stop   atomic.Bool

	infPanic string
	infStack string

	released bool
	waited   bool
	rejected bool

	// scripted unit: the next operation must act on exactly this pod key / gang id
	force      string
	lastPermit Status

	staleReported bool

	// ctxMode: the gang scheduling context machinery of the plugin is part of the run (S7): every
	// scheduler iteration starts with NextPod, pods popped from the queue pass PreEnqueue, every
	// cycle runs BeforePreFilter, Permit=Success calls SucceedGangScheduling.
	// conc: the scheduler asks the informer goroutine to deliver updates of exactly the pod it is
	// about to permit, back to back, while Permit runs (the "echo" of the scheduler's own pod)
	echo      atomic.Pointer[c04Pod]
	echoAck   atomic.Bool
	phaseDone atomic.Bool
	defPolicy string             // args.DefaultMatchPolicy
	latest    map[string]*c04Pod // latest incarnation per pod key
	moves     bool               // seq: pod updates may change the pod's gang name
	ctxMode   bool
	ctxGang   *c04Gang // gang of the pod whose BeforePreFilter installed the current context (scheduler goroutine only)
}

func c04Pick[T any](u *c04U, cand []T, a int, key func(T) string) (T, bool) {
	var zero T
	if len(cand) == 0 {
		return zero, false
	}
	if u.force == "" {
		return cand[a%len(cand)], true
	}
	for _, x := range cand {
		if key(x) == u.force {
			return x, true
		}
	}
	return zero, false
}

func c04PodKey(p *c04Pod) string { return p.key }

type c04Snap struct {
	delDone, boundDone map[*c04Pod]bool
}

func (u *c04U) snapLocked() c04Snap {
	s := c04Snap{delDone: map[*c04Pod]bool{}, boundDone: map[*c04Pod]bool{}}
	for _, p := range u.pods {
		if p.delDone {
			s.delDone[p] = true
		}
		if p.boundDone {
			s.boundDone[p] = true
		}
	}
	return s
}

func (u *c04U) gangCfg(g *c04Gang) c04Cfg {
	if g.crd {
		return g.cfg
	}
	return g.want
}

func (u *c04U) find(i int) int {
	for u.parent[i] != i {
		i = u.parent[i]
	}
	return i
}

// relateLocked: gang g declares decl (delivered to the cache): all of them are related from now on.
func (u *c04U) relateLocked(g *c04Gang, decl []string) {
	for _, id := range decl {
		if h := u.byID[id]; h != nil {
			a, b := u.find(g.idx), u.find(h.idx)
			if a != b {
				u.parent[b] = a
				u.sat[a] = u.sat[a] || u.sat[b]
			}
		}
	}
}

func (u *c04U) satLocked(g *c04Gang) bool { return u.sat[u.find(g.idx)] }
func (u *c04U) setSatLocked(g *c04Gang)   { u.sat[u.find(g.idx)] = true }

// declLocked: the gang group as currently declared by g, as far as the cache was told.
func (u *c04U) declLocked(g *c04Gang) []string {
	cfg := u.gangCfg(g)
	if (g.crd && !g.cfgBegun) || len(cfg.decl) == 0 {
		return []string{g.id}
	}
	return cfg.decl
}

func (u *c04U) index() {
	u.byID = map[string]*c04Gang{}
	u.parent = make([]int, len(u.gangs))
	u.sat = make([]bool, len(u.gangs))
	for i, g := range u.gangs {
		u.byID[g.id] = g
		u.parent[i] = i
	}
	for _, g := range u.gangs {
		if !g.crd {
			u.relateLocked(g, g.want.decl)
		}
	}
}

var c04SingleReprs = []int{c04ReprList, c04ReprList, c04ReprList, c04ReprAbsent, c04ReprAbsent, c04ReprEmptyString, c04ReprNull, c04ReprEmptyList, c04ReprEmptyList, c04ReprIllegal}

func c04NewUniverse(c *kit.Case, conc bool) *c04U {
	r := c.R
	u := &c04U{c: c, conc: conc, ctx: context.TODO(), latest: map[string]*c04Pod{}}
	u.h = &c04Handle{waiting: map[types.UID]*c04WP{}}
	f := false
	u.defPolicy = c04Policies[[]int{2, 2, 2, 0, 1}[r.Intn(5)]]
	args := &config.CoschedulingArgs{
		DefaultTimeout:       metav1.Duration{Duration: 600 * time.Second},
		DefaultMatchPolicy:   u.defPolicy,
		EnablePreemption:     &f,
		AwareNetworkTopology: &f,
	}
	u.mgr = &PodGroupManager{handle: u.h, args: args, cache: NewGangCache(args, nil, nil, nil, u.h)}
	u.ctxMode = r.Pct(60)
	u.moves = !conc && r.Pct(6)
	ngroups := r.Weighted(50, 38, 12) + 1
	if ngroups == 1 && u.ctxMode && r.Pct(50) {
		ngroups = 2 // roll-backs of one group during the scheduling round of another need two
	}
	twoNS := r.Pct(25)
	usedName := map[string]bool{}
	gi := 0
	for k := 0; k < ngroups; k++ {
		n := r.Weighted(35, 40, 25) + 1
		if k >= 1 {
			n = r.Weighted(60, 40) + 1
		}
		mode := extension.GangModeStrict
		if r.Pct(35) {
			mode = extension.GangModeNonStrict
		}
		policy := kit.Pick(r, c04Policies)
		mixed := r.Pct(20)
		allCRD := r.Pct(25) // groups made of PodGroup gangs only can change their membership later
		var grp []*c04Gang
		var ids []string
		for j := 0; j < n; j++ {
			g := &c04Gang{idx: gi, name: fmt.Sprintf("g%d", gi), ns: c04NS, crd: allCRD || r.Pct(35), slots: []int{1, 2, 2, 3, 3, 4, 4, 5, 5, 6}[r.Intn(10)], movedAway: map[string]bool{}}
			if twoNS && r.Pct(40) {
				g.ns = c04NS + "2"
				// the same gang name in two namespaces: ids differ only in the namespace
				if other := fmt.Sprintf("g%d", r.Intn(gi+1)); r.Pct(60) && !usedName[g.ns+"/"+other] {
					g.name = other
				}
			}
			usedName[g.ns+"/"+g.name] = true
			g.id = g.ns + "/" + g.name
			g.want = c04Cfg{min: []int{0, 1, 1, 1, 1, 1, 1, 1, 1, 2, 2, 2, 2, 2, 2, 2, 2, 3, 3, 3, 3, 3, 3, 4, 4}[r.Intn(25)], mode: mode, policy: policy, timeout: []int{300, 300, 300, 300, 300, 300, 300, -1, 0, 30}[r.Intn(10)]}
			if mixed {
				g.want.policy = kit.Pick(r, c04Policies)
			}
			if r.Pct(85) && g.want.min > g.slots {
				g.want.min = g.slots
			}
			g.modeSpell = r.Weighted(70, 20, 10)
			g.policySpell = r.Weighted(45, 20, 25, 10)
			g.totalSpell = r.Weighted(60, 15, 8, 9, 8)
			if !g.crd {
				g.lightweight = r.Pct(15)
				g.waitSpell = r.Weighted(60, 20, 10, 10)
				if r.Pct(3) {
					g.minSpell = 1 + r.Intn(2)
				}
				g.minPad = r.Weighted(80, 14, 6)
			}
			gi++
			grp = append(grp, g)
			ids = append(ids, g.id)
			u.gangs = append(u.gangs, g)
		}
		sort.Strings(ids)
		for _, g := range grp {
			g.want.decl = ids
			if n == 1 {
				// a gang on its own: every legal (and one illegal) way of saying so
				g.want.repr = kit.Pick(r, c04SingleReprs)
				if r.Pct(5) {
					g.want.decl = c04With(ids, c04Ghost) // names a gang that never exists: can never be released
					g.want.repr = c04ReprList
				}
			}
		}
	}
	if r.Pct(4) {
		// one big gang: ten members needed, the value written with a leading zero
		g := &c04Gang{idx: 0, name: "g0", ns: c04NS, slots: r.Range(10, 12), movedAway: map[string]bool{}, lightweight: r.Pct(30), minPad: 1 + r.Intn(2)}
		g.id = g.ns + "/" + g.name
		g.want = c04Cfg{min: 10, mode: kit.Pick(r, []string{extension.GangModeStrict, extension.GangModeNonStrict}), policy: kit.Pick(r, c04Policies), timeout: 300, decl: []string{g.id}, repr: kit.Pick(r, c04SingleReprs)}
		u.gangs = []*c04Gang{g}
		u.moves = false
	}
	u.index()
	return u
}

// countDims records which configuration dimensions this case exercises (evidence).
func (u *c04U) countDims() {
	c := u.c
	c.Count("dim_default_match_policy_"+u.defPolicy, 1)
	c.Count(fmt.Sprintf("dim_gangs_%d", len(u.gangs)), 1)
	nss, names := map[string]bool{}, map[string]int{}
	for _, g := range u.gangs {
		nss[g.ns] = true
		names[g.name]++
		c.Count(fmt.Sprintf("dim_min_%d", g.want.min), 1)
		c.Count(fmt.Sprintf("dim_slots_%d", g.slots), 1)
		if g.want.min > g.slots {
			c.Count("dim_min_above_slots", 1)
		}
		if g.lightweight {
			c.Count("dim_source_lightweight_labels", 1)
		} else if g.crd {
			c.Count("dim_source_podgroup", 1)
			c.Count(fmt.Sprintf("dim_podgroup_timeout_%s", map[bool]string{true: "unset", false: map[bool]string{true: "zero", false: "positive"}[g.want.timeout == 0]}[g.want.timeout < 0]), 1)
		} else {
			c.Count("dim_source_annotation", 1)
		}
		if g.neverInit() {
			c.Count("dim_min_available_illegal_or_missing", 1)
		}
		if !g.crd && g.minPad > 0 {
			c.Count("dim_min_available_zero_padded", 1)
			if g.want.min >= 8 {
				c.Count("dim_min_available_zero_padded_two_digits", 1)
			}
		}
		if g.want.mode == extension.GangModeStrict {
			c.Count(fmt.Sprintf("dim_mode_strict_spelled_%s", []string{"explicit", "absent", "illegal"}[g.modeSpell]), 1)
		}
		ps := g.policySpell
		if ps >= 2 && g.want.policy != u.defPolicy {
			ps -= 2
		}
		c.Count(fmt.Sprintf("dim_policy_spelled_%s", []string{"koordinator_key", "alias_key", "absent", "illegal"}[ps]), 1)
		c.Count(fmt.Sprintf("dim_total_number_%s", []string{"ok", "absent", "zero", "below_min", "illegal"}[g.totalSpell]), 1)
		if !g.crd {
			c.Count(fmt.Sprintf("dim_waiting_time_%s", []string{"absent", "valid", "illegal", "negative"}[g.waitSpell]), 1)
		}
	}
	if len(nss) > 1 {
		c.Count("dim_two_namespaces", 1)
	}
	for _, n := range names {
		if n > 1 {
			c.Count("dim_same_gang_name_in_two_namespaces", 1)
		}
	}
	if u.moves {
		c.Count("dim_pod_moves_enabled", 1)
	}
}

func (u *c04U) describe() string {
	s := fmt.Sprintf("scheduling-context machinery=%v default-match-policy=%s pod-moves=%v; ", u.ctxMode, u.defPolicy, u.moves)
	for _, g := range u.gangs {
		src := "annotation"
		if g.crd {
			src = "podgroup"
		} else if g.lightweight {
			src = "lightweight-labels"
		}
		ann, present := c04GroupsAnnotation(g.want)
		if !present {
			ann = "<absent>"
		}
		s += fmt.Sprintf("%s:%s min=%d slots=%d %s %s groups=%q spell(mode=%d policy=%d total=%d wait=%d min=%d timeout=%d); ", g.id, src, g.want.min, g.slots, g.want.mode, g.want.policy, ann, g.modeSpell, g.policySpell, g.totalSpell, g.waitSpell, g.minSpell, g.want.timeout)
	}
	return s
}

// c04Spell writes mode, match policy and total number the way the gang spells them. Every spelling
// parses (by the code's documented defaults) to the effective configuration cfg.
func (u *c04U) spell(g *c04Gang, cfg c04Cfg, ann map[string]string) {
	switch {
	case cfg.mode != extension.GangModeStrict || g.modeSpell == 0:
		ann[extension.AnnotationGangMode] = cfg.mode
	case g.modeSpell == 2:
		ann[extension.AnnotationGangMode] = "Sloppy" // illegal: strict
	}
	ps := g.policySpell
	if ps >= 2 && cfg.policy != u.defPolicy {
		ps -= 2
	}
	switch ps {
	case 0:
		ann[extension.AnnotationGangMatchPolicy] = cfg.policy
	case 1:
		ann[extension.AnnotationAliasGangMatchPolicy] = cfg.policy
	case 3:
		ann[extension.AnnotationGangMatchPolicy] = "whenever" // illegal: the plugin's default policy
	}
	switch g.totalSpell {
	case 0:
		ann[extension.AnnotationGangTotalNum] = strconv.Itoa(maxC04(g.slots, cfg.min))
	case 2:
		ann[extension.AnnotationGangTotalNum] = "0"
	case 3:
		ann[extension.AnnotationGangTotalNum] = strconv.Itoa(cfg.min - 1)
	case 4:
		ann[extension.AnnotationGangTotalNum] = "many"
	}
}

var c04T0 = time.Date(2024, 1, 1, 0, 0, 0, 0, time.UTC)

func (u *c04U) podObject(p *c04Pod, v c04Ver) *corev1.Pod {
	g := v.gang
	node := v.node
	pod := &corev1.Pod{
		ObjectMeta: metav1.ObjectMeta{Namespace: p.ns, Name: p.name, UID: p.uid, ResourceVersion: strconv.Itoa(v.rv),
			CreationTimestamp: metav1.Time{Time: c04T0}, Labels: map[string]string{}, Annotations: map[string]string{}},
		Spec:   corev1.PodSpec{NodeName: node, SchedulerName: "koord-scheduler"},
		Status: corev1.PodStatus{Phase: corev1.PodPending},
	}
	if node != "" {
		pod.Status.Phase = corev1.PodRunning
	}
	if v.terminated {
		pod.Status.Phase = corev1.PodSucceeded
	}
	if g.crd {
		pod.Labels[v1alpha1.PodGroupLabel] = g.name
		return pod
	}
	min := strings.Repeat("0", g.minPad) + strconv.Itoa(g.want.min) // a decimal number, possibly zero-padded ("010" is ten)
	if g.minSpell == 1 {
		min = "two"
	}
	if g.lightweight {
		// nolint:staticcheck // the deprecated labels are still read
		pod.Labels[extension.LabelLightweightCoschedulingPodGroupName] = g.name
		if g.minSpell != 2 {
			pod.Labels[extension.LabelLightweightCoschedulingPodGroupMinAvailable] = min
		}
	} else {
		pod.Annotations[extension.AnnotationGangName] = g.name
		if g.minSpell != 2 {
			pod.Annotations[extension.AnnotationGangMinNum] = min
		}
	}
	u.spell(g, g.want, pod.Annotations)
	switch g.waitSpell {
	case 1:
		pod.Annotations[extension.AnnotationGangWaitTime] = "45s"
	case 2:
		pod.Annotations[extension.AnnotationGangWaitTime] = "soon"
	case 3:
		pod.Annotations[extension.AnnotationGangWaitTime] = "-5s"
	}
	if a, present := c04GroupsAnnotation(g.want); present {
		pod.Annotations[extension.AnnotationGangGroups] = a
	}
	return pod
}

func maxC04(a, b int) int {
	if a > b {
		return a
	}
	return b
}

func (u *c04U) pgObject(g *c04Gang, cfg c04Cfg, rv int) *v1alpha1.PodGroup {
	pg := &v1alpha1.PodGroup{
		ObjectMeta: metav1.ObjectMeta{Namespace: g.ns, Name: g.name, ResourceVersion: strconv.Itoa(rv),
			CreationTimestamp: metav1.Time{Time: c04T0}, Annotations: map[string]string{}},
		Spec: v1alpha1.PodGroupSpec{MinMember: int32(cfg.min)},
	}
	if cfg.timeout >= 0 { // -1: scheduleTimeoutSeconds not set; 0: set but illegal (the default applies)
		to := int32(cfg.timeout)
		pg.Spec.ScheduleTimeoutSeconds = &to
	}
	u.spell(g, cfg, pg.Annotations)
	if v, present := c04GroupsAnnotation(cfg); present {
		pg.Annotations[extension.AnnotationGangGroups] = v
	}
	return pg
}

func (u *c04U) op(side string, format string, a ...any) {
	u.c.Op(side+" "+format, a...)
}

// ---------------------------------------------------------------------------------------------
// informer side

// infCreate: a new incarnation in a free slot (I3). prebound: the pod is already running on a node
// when the scheduler first hears of it (restart / other scheduler) - only used in the prefix.
func (u *c04U) infCreate(a int, prebound bool) bool {
	u.mu.Lock()
	type free struct {
		g    *c04Gang
		slot int
		inc  int
	}
	var fs []free
	for _, g := range u.gangs {
		for s := 0; s < g.slots; s++ {
			last := u.latest[fmt.Sprintf("%s/%s-p%d", g.ns, g.name, s)]
			if last == nil {
				fs = append(fs, free{g, s, 0})
			} else if last.delDone {
				fs = append(fs, free{g, s, last.inc + 1})
			}
		}
	}
	f, ok := c04Pick(u, fs, a, func(f free) string { return fmt.Sprintf("%s/%s-p%d", f.g.ns, f.g.name, f.slot) })
	if !ok {
		u.mu.Unlock()
		return false
	}
	p := &c04Pod{gang: f.g, apiGang: f.g, ns: f.g.ns, slot: f.slot, inc: f.inc, name: fmt.Sprintf("%s-p%d", f.g.name, f.slot)}
	p.key = p.ns + "/" + p.name
	p.uid = types.UID(fmt.Sprintf("%s.%s.%d", p.ns, p.name, p.inc))
	if prebound {
		p.apiNode = "n0"
		u.c.Count("op_api_create_already_bound", 1)
	}
	u.rv++
	p.queue = append(p.queue, c04Ver{node: p.apiNode, rv: u.rv, gang: f.g})
	f.g.pods = append(f.g.pods, p)
	u.pods = append(u.pods, p)
	u.latest[p.key] = p
	u.mu.Unlock()
	u.op("I", "api-create %s uid=%s node=%q", p.key, p.uid, p.apiNode)
	u.c.Count("op_api_create", 1)
	return true
}

func (u *c04U) infTouch(a, b int) bool {
	u.mu.Lock()
	var cand, heldCand []*c04Pod
	for _, p := range u.pods {
		if !p.apiDeleted {
			cand = append(cand, p)
			if p.held {
				heldCand = append(heldCand, p)
			}
		}
	}
	if b%2 == 0 && len(heldCand) > 0 && u.force == "" {
		cand = heldCand // versions written while the pod is assumed are the ones that go stale
	}
	p, ok := c04Pick(u, cand, a, c04PodKey)
	if !ok {
		u.mu.Unlock()
		return false
	}
	variant := (b / 2) % 16
	if u.force != "" {
		variant = 0
	}
	if variant == 3 && p.known() && len(p.queue) == 0 {
		// informer resync: the handler gets an update whose old and new object are the cached one
		obj := p.obj
		u.mu.Unlock()
		u.op("I", "resync %s (update with identical objects)", p.key)
		u.mgr.cache.onPodUpdate(obj, obj)
		u.c.Count("op_resync_update", 1)
		return true
	}
	if variant == 7 && p.boundDone && !p.gang.crd && p.apiNode != "" {
		p.apiTerminated = true // the pod ran to completion; only once the cache knows it as bound
	}
	if t := u.moveTargetLocked(p, b/32); (variant == 11 || variant == 12) && t != nil {
		p.apiGang = t
		u.c.Count("op_api_pod_renamed_to_other_gang", 1)
	}
	u.rv++
	v := c04Ver{node: p.apiNode, rv: u.rv, terminated: p.apiTerminated, gang: p.apiGang}
	p.queue = append(p.queue, v)
	u.mu.Unlock()
	u.op("I", "api-touch %s rv=%d node=%q gang=%s terminated=%v", p.key, v.rv, v.node, v.gang.id, v.terminated)
	u.c.Count("op_api_touch", 1)
	return true
}

// moveTargetLocked: another gang of the same kind and namespace the pod could name instead of its
// own (U1); nil when moves are off or the pod is assumed, terminated or has nowhere to go.
func (u *c04U) moveTargetLocked(p *c04Pod, c int) *c04Gang {
	if !u.moves || p.held || p.fw != 0 || p.apiTerminated {
		return nil
	}
	var ts []*c04Gang
	for _, g := range u.gangs {
		if g != p.apiGang && g.ns == p.ns && g.crd == p.apiGang.crd && g.lightweight == p.apiGang.lightweight {
			ts = append(ts, g)
		}
	}
	if len(ts) == 0 {
		return nil
	}
	return ts[c%len(ts)]
}

func (u *c04U) infDelete(a int) bool {
	u.mu.Lock()
	var cand []*c04Pod
	for _, p := range u.pods {
		if !p.apiDeleted {
			cand = append(cand, p)
		}
	}
	p, ok := c04Pick(u, cand, a, c04PodKey)
	if !ok {
		u.mu.Unlock()
		return false
	}
	p.apiDeleted = true
	u.rv++
	p.queue = append(p.queue, c04Ver{del: true, node: p.apiNode, rv: u.rv, gang: p.apiGang})
	u.mu.Unlock()
	u.op("I", "api-delete %s uid=%s", p.key, p.uid)
	u.c.Count("op_api_delete", 1)
	return true
}

// infDeliver delivers the next undelivered version of one pod. except: a pod whose tombstone must
// not be delivered now (seq: the pod in the middle of its scheduling cycle).
func (u *c04U) infDeliver(a int, except *c04Pod) bool {
	u.mu.Lock()
	var cand []*c04Pod
	for _, p := range u.pods {
		if len(p.queue) > 0 && !(p == except && p.queue[0].del) {
			if h := p.queue[0]; !h.del && h.gang != p.gang && (p.held || p.fw != 0 || p == except) {
				continue // U1: a version that moves the pod to another gang is not delivered while the scheduler holds the pod
			}
			cand = append(cand, p)
		}
	}
	p, ok := c04Pick(u, cand, a, c04PodKey)
	if !ok {
		u.mu.Unlock()
		return false
	}
	u.mu.Unlock()
	return u.deliverHead(p)
}

// deliverHead delivers the oldest undelivered version of p (informer goroutine only).
func (u *c04U) deliverHead(p *c04Pod) bool {
	u.mu.Lock()
	if len(p.queue) == 0 {
		u.mu.Unlock()
		return false
	}
	v := p.queue[0]
	u.mu.Unlock()
	if v.del && u.conc {
		p.cycleMu.Lock()
		defer p.cycleMu.Unlock()
	}
	u.mu.Lock()
	p.queue = p.queue[1:]
	first := p.delivered == 0
	p.delivered++
	old := p.obj
	var obj *corev1.Pod
	if v.del {
		p.delBegun = true
		obj = old
		mates := u.declGangsLocked(p.gang)
		for _, g := range mates {
			for _, q := range g.pods {
				if q != p && q.held && q.known() {
					for _, h := range mates {
						h.deleteWhileHeldSinceLastPermit = true
					}
				}
			}
		}
	} else {
		obj = u.podObject(p, v)
		if v.gang != p.gang {
			// U1: the pod now names another gang: it is a member there and no longer here
			from := p.gang
			for i, q := range from.pods {
				if q == p {
					from.pods = append(from.pods[:i:i], from.pods[i+1:]...)
					break
				}
			}
			from.movedAway[p.key] = true
			delete(v.gang.movedAway, p.key)
			p.gang = v.gang
			p.slot = -1
			v.gang.pods = append(v.gang.pods, p)
			p.boundBegun, p.boundDone, p.staleAfterBound = false, false, false
			u.c.Count("op_deliver_pod_moved_to_other_gang", 1)
		}
		p.addBegun = true
		if v.node != "" {
			p.boundBegun = true
			u.setSatLocked(p.gang)
		} else if p.boundDone {
			p.staleAfterBound = true
		}
	}
	stale := !v.del && v.node == "" && p.boundDone
	u.mu.Unlock()
	switch {
	case v.del:
		u.op("I", "deliver delete %s uid=%s", p.key, p.uid)
		if v.rv%7 == 0 {
			u.mgr.cache.onPodDelete(cache.DeletedFinalStateUnknown{Key: p.key, Obj: obj})
		} else {
			u.mgr.cache.onPodDelete(obj)
		}
		u.c.Count("op_deliver_delete", 1)
	case first:
		u.op("I", "deliver add %s uid=%s rv=%d node=%q", p.key, p.uid, v.rv, v.node)
		u.mgr.cache.onPodAdd(obj)
		u.c.Count("op_deliver_add", 1)
		if k := c04DeclKind(p.gang.want); !p.gang.crd && k != "" {
			u.c.Count("gang_groups_annotation_degenerate", 1)
			u.c.Count("gang_groups_annotation_degenerate_"+k, 1)
		}
	default:
		u.op("I", "deliver update %s uid=%s rv=%d node=%q gang=%s terminated=%v stale-after-bound=%v", p.key, p.uid, v.rv, v.node, v.gang.id, v.terminated, stale)
		u.mgr.cache.onPodUpdate(old, obj)
		u.c.Count("op_deliver_update", 1)
		if v.terminated {
			u.c.Count("op_deliver_update_terminated_pod", 1)
		}
		if stale {
			u.c.Count("op_deliver_stale_update_after_postbind", 1)
		}
	}
	u.mu.Lock()
	if v.del {
		p.delDone = true
	} else {
		p.addDone = true
		p.obj = obj
		if v.node == "" && p.boundBegun {
			p.staleAfterBound = true // conc: the delivery overlapped PostBind
		}
		if v.node != "" {
			p.boundDone = true
		}
	}
	u.mu.Unlock()
	if v.del {
		// the scheduler's own pod-delete handler rejects the pod if it waits in Permit (S4)
		if u.h.RejectWaitingPod(p.uid) {
			u.c.Count("framework_reject_on_delete", 1)
		}
	}
	return true
}

// declGangsLocked: the gangs of the universe named by g's current declaration (g included).
func (u *c04U) declGangsLocked(g *c04Gang) []*c04Gang {
	var out []*c04Gang
	for _, id := range u.declLocked(g) {
		if h := u.byID[id]; h != nil {
			out = append(out, h)
		}
	}
	return out
}

// wantMatesLocked: the other gangs g's PodGroup names at the API, and whether all of them (and g)
// are PodGroup gangs of the universe - only such groups change their membership (annotation gangs
// cannot re-declare, a group with one of them would stay inconsistent for ever).
func (u *c04U) wantMatesLocked(g *c04Gang) (mates []*c04Gang, allCRD bool) {
	allCRD = g.crd
	for _, id := range g.want.decl {
		if id == g.id {
			continue
		}
		h := u.byID[id]
		if h == nil || !h.crd {
			allCRD = false
			continue
		}
		mates = append(mates, h)
	}
	return
}

// API writes to PodGroup annotations (spec untouched). They change what the objects say; each
// PodGroup's event is delivered later, one at a time, so the cache passes through intermediate
// states in which the gangs of a group disagree about the group.

func (u *c04U) apiLeaveLocked(g *c04Gang, repr int) bool {
	mates, all := u.wantMatesLocked(g)
	if len(mates) == 0 || !all {
		return false
	}
	for _, h := range mates {
		h.want.decl = c04Without(h.want.decl, g.id)
		h.want.repr = c04ReprList
	}
	g.want.decl = []string{g.id}
	g.want.repr = repr
	return true
}

func (u *c04U) apiJoinLocked(g, t *c04Gang) bool {
	if g == t || !g.crd || !t.crd || c04Has(g.want.decl, t.id) {
		return false
	}
	tm, all := u.wantMatesLocked(t)
	gm, gall := u.wantMatesLocked(g)
	if !all || !gall || len(tm)+2 > 3 {
		return false
	}
	if len(gm) > 0 && !u.apiLeaveLocked(g, c04ReprList) {
		return false
	}
	grp := c04With(t.want.decl, g.id)
	for _, h := range append(tm, t, g) {
		h.want.decl = grp
		h.want.repr = c04ReprList
	}
	g.want.mode = t.want.mode // one mode per group
	return true
}

func (u *c04U) apiFlipModeLocked(g *c04Gang) bool {
	mode := extension.GangModeStrict
	if g.want.mode == extension.GangModeStrict {
		mode = extension.GangModeNonStrict
	}
	mates, _ := u.wantMatesLocked(g)
	for _, h := range append(mates, g) {
		h.want.mode = mode
	}
	return true
}

func c04CfgStr(cfg c04Cfg) string {
	ann, present := c04GroupsAnnotation(cfg)
	if !present {
		ann = "<absent>"
	}
	return fmt.Sprintf("min=%d timeout=%d mode=%s policy=%s groups=%q", cfg.min, cfg.timeout, cfg.mode, cfg.policy, ann)
}

// pgDeliverLocked delivers g's PodGroup as it is at the API now (add or update). Called with u.mu
// held, returns with it released.
func (u *c04U) pgDeliverLocked(g *c04Gang) {
	g.pgRV++
	rv := g.pgRV
	old, cfg := g.cfg, g.want
	add := !g.cfgDone
	g.cfgBegun = true
	g.cfg = cfg
	u.relateLocked(g, cfg.decl)
	u.mu.Unlock()
	if k := c04DeclKind(cfg); k != "" {
		u.c.Count("gang_groups_annotation_degenerate", 1)
		u.c.Count("gang_groups_annotation_degenerate_"+k, 1)
	}
	if add {
		u.op("I", "podgroup add %s %s", g.id, c04CfgStr(cfg))
		u.mgr.cache.onPodGroupAdd(u.pgObject(g, cfg, rv))
		u.mu.Lock()
		g.cfgDone = true
		u.mu.Unlock()
		u.c.Count("op_podgroup_add", 1)
		return
	}
	specSame := old.min == cfg.min && old.timeout == cfg.timeout
	var kinds []string
	if old.repr != cfg.repr || !c04SameDecl(old.decl, cfg.decl) {
		kinds = append(kinds, "groups")
	}
	if old.mode != cfg.mode {
		kinds = append(kinds, "mode")
	}
	if old.policy != cfg.policy {
		kinds = append(kinds, "policy")
	}
	if !c04SameDecl(old.decl, cfg.decl) {
		g.declChanged = true // (seq only; read under the lock by resubmit)
	}
	u.op("I", "podgroup update %s %s (was %s) spec-unchanged=%v changed-annotations=%v", g.id, c04CfgStr(cfg), c04CfgStr(old), specSame, kinds)
	u.mgr.cache.onPodGroupUpdate(u.pgObject(g, old, rv-1), u.pgObject(g, cfg, rv))
	switch {
	case specSame && len(kinds) > 0:
		u.c.Count("podgroup_updates_annotation_only", 1)
		for _, k := range kinds {
			u.c.Count("podgroup_updates_annotation_only_"+k, 1)
		}
	case len(kinds) > 0 || old.min != cfg.min:
		u.c.Count("op_podgroup_update_change", 1)
	default:
		u.c.Count("op_podgroup_update_same", 1)
	}
}

// infPG: one PodGroup intent on a crd gang: deliver its add; deliver a pending update; or write a
// change to the API (timeout / min in the spec; match policy, mode, gang-group list or its spelling
// in the annotations only) and deliver this gang's event - the events of the other PodGroups the
// change touched stay pending until their own intent; or delete the PodGroup (I4).
func (u *c04U) infPG(a, b int, allowChange bool) bool {
	u.mu.Lock()
	var cand, pending []*c04Gang
	for _, g := range u.gangs {
		if g.crd {
			cand = append(cand, g)
			if g.cfgDone && !c04CfgEq(g.want, g.cfg) {
				pending = append(pending, g)
			}
		}
	}
	if u.force == "" && len(pending) > 0 && b%4 != 0 {
		cand = pending
	}
	g, ok := c04Pick(u, cand, a, func(g *c04Gang) string { return g.id })
	if !ok {
		u.mu.Unlock()
		return false
	}
	if !g.cfgDone || !c04CfgEq(g.want, g.cfg) {
		u.pgDeliverLocked(g)
		return true
	}
	what := (b / 4) % 20
	if !allowChange {
		what = 0
	}
	c := b / 80
	switch {
	case what < 2: // timeout: the spec changes, nothing the decisions depend on
	case what < 5:
		g.want.min = 1 + (g.want.min+c)%3
	case what < 9:
		g.want.policy = c04Policies[(c04PolicyIndex(g.want.policy)+1+c%2)%3]
	case what < 13:
		u.apiFlipModeLocked(g)
	case what < 18:
		mates, all := u.wantMatesLocked(g)
		switch {
		case len(g.want.decl) == 1 && c%3 == 0:
			// same group (the gang itself), spelled differently
			g.want.repr = c04SingleReprs[(c/3)%len(c04SingleReprs)]
			if g.want.repr == g.cfg.repr {
				g.want.repr = (g.cfg.repr + 1) % len(c04ReprNames)
			}
		case len(mates) > 0 && all && c%2 == 0:
			u.apiLeaveLocked(g, c04SingleReprs[(c/2)%len(c04SingleReprs)])
		default:
			var ts []*c04Gang
			for _, t := range u.gangs {
				if t != g && t.crd && !c04Has(g.want.decl, t.id) {
					ts = append(ts, t)
				}
			}
			if len(ts) > 0 {
				u.apiJoinLocked(g, ts[c%len(ts)])
			}
		}
	default: // delete (I4: only while no member is assumed)
		if c%2 == 0 {
			u.mu.Unlock()
			if u.resubmit(g) {
				return true
			}
			u.mu.Lock()
		}
		for _, p := range g.pods {
			if p.held || p.fw != 0 {
				u.mu.Unlock()
				return false
			}
		}
		g.pgRV++
		cfg := g.cfg
		g.cfgBegun, g.cfgDone = false, false
		for _, p := range g.pods {
			// the gang record is thrown away: the cache forgets what it was told about the members
			p.addBegun, p.addDone, p.boundBegun, p.boundDone, p.staleAfterBound = false, false, false, false, false
		}
		u.mu.Unlock()
		u.op("I", "podgroup delete %s", g.id)
		if g.pgRV%4 == 0 {
			u.mgr.cache.onPodGroupDelete(cache.DeletedFinalStateUnknown{Key: g.id, Obj: u.pgObject(g, cfg, g.pgRV)})
			u.c.Count("op_podgroup_delete_tombstone", 1)
		} else {
			u.mgr.cache.onPodGroupDelete(u.pgObject(g, cfg, g.pgRV))
		}
		u.c.Count("op_podgroup_delete", 1)
		return true
	}
	if c04CfgEq(g.want, g.cfg) {
		g.want.timeout++ // the chosen change was not applicable: a timeout-only update instead
	}
	u.pgDeliverLocked(g)
	return true
}

// resubmit: the job is deleted as a whole and (later, by the ordinary operations) submitted again
// under the same names (I5): every pod of every gang of g's group is deleted and the deletes are
// delivered, then every PodGroup of the group is deleted. Only for groups of PodGroup gangs that
// never changed their group list and while the scheduler holds none of the pods; sequential units
// only. A group whose PodGroups and pods are all gone has no history: "some member was bound
// before" starts again at false for the gangs of the group.
func (u *c04U) resubmit(g *c04Gang) bool {
	if u.conc {
		return false
	}
	u.mu.Lock()
	root := u.find(g.idx)
	var grp []*c04Gang
	for _, h := range u.gangs {
		if u.find(h.idx) == root {
			grp = append(grp, h)
		}
	}
	ok := true
	for _, h := range grp {
		if !h.crd || !h.cfgDone || h.declChanged || !c04CfgEq(h.want, h.cfg) || len(h.cfg.decl) != len(grp) {
			ok = false
		}
		for _, p := range h.pods {
			if p.held || p.fw != 0 {
				ok = false
			}
		}
	}
	if !ok {
		u.mu.Unlock()
		return false
	}
	var pods []*c04Pod
	for _, h := range grp {
		for _, p := range h.pods {
			if !p.delDone {
				pods = append(pods, p)
				if !p.apiDeleted {
					p.apiDeleted = true
					u.rv++
					p.queue = append(p.queue, c04Ver{del: true, node: p.apiNode, rv: u.rv, gang: p.apiGang})
				}
			}
		}
	}
	wasSat := u.sat[root]
	u.mu.Unlock()
	u.op("I", "the job of group %v is deleted as a whole (pods first, then the PodGroups); it was bound before: %v", g.cfg.decl, wasSat)
	for _, p := range pods {
		for u.deliverHead(p) {
		}
	}
	for _, h := range grp {
		u.mu.Lock()
		h.pgRV++
		cfg := h.cfg
		h.cfgBegun, h.cfgDone = false, false
		for _, p := range h.pods {
			p.addBegun, p.addDone, p.boundBegun, p.boundDone, p.staleAfterBound = false, false, false, false, false
		}
		u.mu.Unlock()
		u.op("I", "podgroup delete %s", h.id)
		u.mgr.cache.onPodGroupDelete(u.pgObject(h, cfg, h.pgRV))
		u.c.Count("op_podgroup_delete", 1)
	}
	u.mu.Lock()
	for _, h := range grp {
		u.parent[h.idx] = h.idx
		u.sat[h.idx] = false
	}
	u.mu.Unlock()
	u.c.Count("jobs_deleted_as_a_whole", 1)
	if len(grp) > 1 {
		u.c.Count("jobs_deleted_as_a_whole_multi_gang", 1)
		if wasSat {
			u.c.Count("jobs_deleted_as_a_whole_multi_gang_after_a_bind", 1)
		}
	}
	return true
}

func c04PolicyIndex(p string) int {
	for i, x := range c04Policies {
		if x == p {
			return i
		}
	}
	return 0
}

// serveEcho (informer goroutine): while the scheduler keeps its request up, write and deliver
// unbound update versions of the requested pod back to back (I1, I2 hold: one goroutine, in order).
func (u *c04U) serveEcho() {
	p := u.echo.Load()
	if p == nil {
		return
	}
	u.echoAck.Store(true)
	n := 0
	for ; n < 40 && u.echo.Load() == p && !u.stop.Load(); n++ {
		u.mu.Lock()
		if len(p.queue) == 0 {
			if p.apiDeleted {
				u.mu.Unlock()
				break
			}
			u.rv++
			p.queue = append(p.queue, c04Ver{node: p.apiNode, rv: u.rv, terminated: p.apiTerminated, gang: p.apiGang})
		}
		head := p.queue[0]
		u.mu.Unlock()
		if head.del || head.gang != p.gang {
			break
		}
		u.deliverHead(p)
	}
	u.c.Count("echo_updates_delivered_during_permit", n)
}

// echoStart (scheduler goroutine): ask for the echo of p and wait, bounded, until it has begun.
func (u *c04U) echoStart(p *c04Pod) {
	u.echoAck.Store(false)
	u.echo.Store(p)
	for i := 0; i < 4000 && !u.echoAck.Load(); i++ {
		runtime.Gosched()
	}
	if u.echoAck.Load() {
		u.c.Count("permits_with_concurrent_echo_of_the_same_pod", 1)
	}
}

func (u *c04U) runInformer(it c04Intent, except *c04Pod) {
	try := func(kind int) bool {
		switch kind {
		case c04ICreate:
			return u.infCreate(it.a, it.b%32 == 5) // now and then a pod that is already running somewhere
		case c04ITouch:
			return u.infTouch(it.a, it.b)
		case c04IDeliver:
			return u.infDeliver(it.a, except)
		case c04IDelete:
			return u.infDelete(it.a)
		case c04IPG:
			return u.infPG(it.a, it.b, !u.conc)
		}
		return false
	}
	if try(it.kind) {
		return
	}
	for _, k := range []int{c04IDeliver, c04ICreate, c04ITouch} {
		if k != it.kind && try(k) {
			return
		}
	}
	u.c.Count("intents_not_applicable", 1)
}

// ---------------------------------------------------------------------------------------------
// scheduler side

func c04Gate(summ map[string]*GangSummary, gid string) bool {
	s := summ[gid]
	if s == nil || !s.HasGangInit {
		return false
	}
	if s.GangMatchPolicy == extension.GangMatchPolicyOnceSatisfied && s.OnceResourceSatisfied {
		return true
	}
	for _, id := range s.GangGroup {
		t := summ[id]
		if t == nil || !t.HasGangInit || t.Children.Len() < t.MinRequiredNumber {
			return false
		}
	}
	return true
}

func (u *c04U) eligibleLocked(p *c04Pod) bool {
	if !p.known() || p.apiNode != "" || p.boundBegun || p.fw != 0 || p.held {
		return false
	}
	for _, q := range u.pods {
		if q != p && q.key == p.key && q.fw != 0 {
			return false
		}
	}
	return !p.apiTerminated
}

type c04Verdict struct{ sig, msg string }

func (u *c04U) fail(v *c04Verdict) {
	if v != nil {
		u.c.Fail(v.sig, "%s", v.msg)
	}
}

// holding computes, for gang g, the number of members holding resources per the gang's policy on
// the shadow truth (upper bound over the call window, see the header) and whether the gang exists.
func (u *c04U) holdingLocked(g *c04Gang, s c04Snap) (exists bool, w, b int) {
	if g.crd {
		exists = g.cfgBegun
	}
	for _, q := range g.pods {
		if !q.addBegun || s.delDone[q] {
			continue
		}
		if !g.crd && !g.neverInit() {
			exists = true
		}
		switch {
		case q.held && !s.boundDone[q]:
			w++
		case q.held || q.boundBegun:
			b++
		}
	}
	return
}

// releaseLocked is oracle (1) at a release by/through pod `by`: every gang of the group AS CURRENTLY
// DECLARED by the releasing pod's gang exists, is initialised and has its minimum.
func (u *c04U) releaseLocked(by *c04Pod, s c04Snap, how string) (v *c04Verdict, state string, ok, okByCounts bool) {
	byCfg := u.gangCfg(by.gang)
	decl := u.declLocked(by.gang)
	state = fmt.Sprintf("%s/%s", byCfg.policy, byCfg.mode)
	allOK := true
	okByCounts = true
	var firstBad *c04Verdict
	for _, id := range decl {
		g := u.byID[id]
		exists, w, b, sat := false, 0, 0, false
		var cfg c04Cfg
		if g != nil {
			exists, w, b = u.holdingLocked(g, s)
			cfg = u.gangCfg(g)
			sat = u.satLocked(g)
		}
		state += fmt.Sprintf("|%s:min%d,w%d,b%d", cfg.policy, cfg.min, minC04(w, 4), minC04(b, 4))
		good := false
		why := ""
		switch {
		case !exists:
			why = "does not exist or is not initialised"
		case cfg.policy == extension.GangMatchPolicyOnlyWaiting:
			good = w >= cfg.min
		case cfg.policy == extension.GangMatchPolicyWaitingAndRunning:
			good = w+b >= cfg.min
		default:
			good = w >= cfg.min || sat
			if w < cfg.min {
				okByCounts = false
			}
		}
		if !good {
			allOK = false
			okByCounts = false
			if why == "" {
				why = fmt.Sprintf("has min=%d under policy %s but only %d member(s) waiting and %d bound hold resources (a member of a related gang was bound before: %v)", cfg.min, cfg.policy, w, b, sat)
			}
			if firstBad == nil {
				sig := "C04/release/gang-short/" + cfg.policy
				if !exists {
					sig = "C04/release/gang-missing"
				}
				firstBad = &c04Verdict{sig, fmt.Sprintf("%s released pod %s of gang %s, but gang %s of the group %v that gang %s currently declares %s", how, by.key, by.gang.id, id, decl, by.gang.id, why)}
			}
		}
	}
	if byCfg.policy == extension.GangMatchPolicyOnceSatisfied && u.satLocked(by.gang) {
		// the group has been satisfied before: the statement constrains nothing
		return nil, state + "|once-satisfied", allOK, okByCounts
	}
	return firstBad, state, allOK, okByCounts
}

func minC04(a, b int) int {
	if a < b {
		return a
	}
	return b
}

// strict is oracle (3) after Unreserve / AfterPostFilter of p. The group is the one p's gang
// currently declares. While the gangs of the group disagree about the mode (one PodGroup already
// updated, another not yet; or an annotation gang in a group whose PodGroups were flipped) only the
// waiting members of gangs that are themselves strict are required to be rejected.
func (u *c04U) strict(p *c04Pod, after string, evs []c04Ev) *c04Verdict {
	u.mu.Lock()
	cfg := u.gangCfg(p.gang)
	decl := u.declLocked(p.gang)
	member := p.addDone && !p.delBegun
	inited := (!p.gang.crd || p.gang.cfgDone) && !p.gang.neverInit()
	uniform := true
	strictGang := map[string]bool{}
	for _, g := range u.declGangsLocked(p.gang) {
		if g.crd && !g.cfgBegun {
			continue
		}
		gc := u.gangCfg(g)
		if gc.policy != cfg.policy {
			uniform = false
		}
		if gc.mode == extension.GangModeStrict {
			strictGang[g.id] = true
		}
	}
	satisfied := u.satLocked(p.gang)
	exempt := satisfied && (cfg.policy == extension.GangMatchPolicyOnceSatisfied || !uniform)
	u.mu.Unlock()
	pluginRejects := 0
	for _, e := range evs {
		if !e.allow {
			pluginRejects++
		}
	}
	if pluginRejects > 0 {
		u.c.Count("group_rejections", 1)
		u.c.Count("plugin_reject_calls", pluginRejects)
		u.rejected = true
	}
	if cfg.mode != extension.GangModeStrict {
		u.c.Count("rollback_in_nonstrict_group", 1)
		return nil
	}
	if !member || !inited {
		u.c.Count("strict_rollback_of_non_member_not_asserted", 1)
		return nil
	}
	if exempt {
		u.c.Count("strict_rollback_after_once_satisfied_not_asserted", 1)
		return nil
	}
	ws, _, rej := u.h.list()
	checked := 0
	for i, w := range ws {
		if !strictGang[w.p.gang.id] {
			continue
		}
		checked++
		if !rej[i] {
			return &c04Verdict{"C04/strict/waiting-member-not-rejected",
				fmt.Sprintf("%s of %s (gang %s, strict, policy %s, declared group %v, a member was bound before: %v - the once-satisfied exemption does not apply): pod %s of strict gang %s is still in the waiting map and has never received a Reject", after, p.key, p.gang.id, cfg.policy, decl, satisfied, w.p.key, w.p.gang.id)}
		}
	}
	u.c.Count("strict_rollbacks_checked", 1)
	u.c.Count("strict_waiting_members_checked", checked)
	return nil
}

// checkAllows: every Allow the handle saw during a scheduler call is a release. Through
// Permit=Success of `by` it must go to a pod of a gang that by's gang currently declares (the group
// itself was judged by releaseLocked); anywhere else it must satisfy (1) for the allowed pod's gang.
func (u *c04U) checkAllows(evs []c04Ev, by *c04Pod, s c04Snap, how string) *c04Verdict {
	u.mu.Lock()
	defer u.mu.Unlock()
	seen := map[*c04Gang]bool{}
	for _, e := range evs {
		if !e.allow {
			continue
		}
		u.c.Count("allow_calls", 1)
		g := e.wp.p.gang
		if by != nil {
			if decl := u.declLocked(by.gang); !c04Has(decl, g.id) {
				return &c04Verdict{"C04/release/allow-outside-group", fmt.Sprintf("%s of %s (gang %s declares the group %v) allowed waiting pod %s of gang %s, which is not in that group", how, by.key, by.gang.id, decl, e.wp.p.key, g.id)}
			}
			continue
		}
		if seen[g] {
			continue
		}
		seen[g] = true
		if v, _, _, _ := u.releaseLocked(e.wp.p, s, how); v != nil {
			return v
		}
	}
	return nil
}

// rejectTargets: every Reject the plugin issued during the roll-back (Unreserve / AfterPostFilter) of
// p went to a pod of a gang that p's gang currently declares. "Otherwise it waits": the plugin ends
// the wait of a member only by a release, through a failure in the member's own group, or at the
// end of that group's own scheduling round - never because a member of an unrelated group failed.
func (u *c04U) rejectTargets(p *c04Pod, after string, evs []c04Ev) *c04Verdict {
	u.mu.Lock()
	defer u.mu.Unlock()
	decl := u.declLocked(p.gang)
	for _, e := range evs {
		if e.allow {
			continue
		}
		if g := e.wp.p.gang; !c04Has(decl, g.id) {
			return &c04Verdict{"C04/strict/reject-outside-group",
				fmt.Sprintf("%s of %s (gang %s declares the group %v) rejected waiting pod %s of gang %s, which is not in that group and had no failed member", after, p.key, p.gang.id, decl, e.wp.p.key, g.id)}
		}
	}
	return nil
}

// nextPod runs the plugin's NextPod as the scheduling loop does before every pop (S7). When the round
// of the current context is over it rejects the context's gang group: those rejections must stay
// inside the set of gangs related to the gang that opened the round (lenient: the context keeps the
// group as declared when the round began).
func (u *c04U) nextPod() *c04Pod {
	np := u.mgr.NextPod()
	evs := u.h.drain()
	ended := u.ctxGang != nil && u.mgr.holder.getCurrentGangSchedulingContext() == nil
	var v *c04Verdict
	u.mu.Lock()
	rejects := 0
	for _, e := range evs {
		if e.allow {
			v = &c04Verdict{"C04/release/allow-outside-permit", fmt.Sprintf("NextPod allowed waiting pod %s", e.wp.p.key)}
			continue
		}
		rejects++
		if u.ctxGang != nil && u.find(e.wp.p.gang.idx) != u.find(u.ctxGang.idx) && v == nil {
			v = &c04Verdict{"C04/strict/nextpod-reject-outside-group", fmt.Sprintf("the end of the scheduling round opened by gang %s rejected waiting pod %s of gang %s, which was never declared together with it", u.ctxGang.id, e.wp.p.key, e.wp.p.gang.id)}
		}
	}
	var p *c04Pod
	if np != nil {
		for _, q := range u.pods {
			if q.uid == np.UID {
				p = q
			}
		}
	}
	u.mu.Unlock()
	if ended {
		u.op("S", "NextPod: the scheduling round of gang %s is over (every pending pod attempted); %s", u.ctxGang.id, c04Evs(evs))
		u.c.Count("scheduling_rounds_ended_by_nextpod", 1)
		u.ctxGang = nil
	}
	if rejects > 0 {
		u.c.Count("nextpod_reject_calls", rejects)
		u.rejected = true
	}
	u.fail(v)
	if np != nil && p == nil {
		u.c.Harness("NextPod returned pod %s/%s uid=%s which the harness never created", np.Namespace, np.Name, np.UID)
	}
	return p
}

// cycle: one iteration of the scheduling loop (S1-S3, S7). between: informer intents to run between
// gate and call (seq).
func (u *c04U) cycle(a int, nodeFound bool, between []c04Intent) bool {
	var p *c04Pod
	fromNext := false
	if u.ctxMode {
		if p = u.nextPod(); p != nil {
			fromNext = true
			u.c.Count("cycles_for_pod_chosen_by_nextpod", 1)
			if u.force != "" && p.key != u.force {
				u.c.Harness("the script expects a cycle for %s but NextPod chose %s", u.force, p.key)
			}
		}
	}
	if p == nil {
		summ := u.mgr.GetGangSummaries()
		u.mu.Lock()
		var cand []*c04Pod
		closed := 0
		for _, q := range u.pods {
			if u.eligibleLocked(q) {
				if c04Gate(summ, q.gang.id) {
					cand = append(cand, q)
				} else {
					closed++
				}
			}
		}
		u.mu.Unlock()
		if len(cand) == 0 {
			if closed > 0 {
				u.c.Count("cycles_refused_by_prefilter_gate", 1)
			}
			return false
		}
		var found bool
		if p, found = c04Pick(u, cand, a, c04PodKey); !found {
			return false
		}
	}
	if u.conc {
		p.cycleMu.Lock()
		defer p.cycleMu.Unlock()
	}
	u.mu.Lock()
	ok := u.eligibleLocked(p)
	gone := !p.known()
	pod := p.obj
	u.mu.Unlock()
	if !ok {
		if !fromNext || gone {
			// the pod was deleted under the scheduler's hands: the scheduler skips it
			u.c.Count("cycles_lost_to_concurrent_delete", 1)
			return fromNext
		}
		// NextPod hands out what the gang lists as pending; a pod the harness would not pop itself
		// (already bound at the API, or an older incarnation of its name still owes an Unreserve) gets
		// the outcome that is always possible: no node fits
		nodeFound = false
		u.c.Count("cycles_for_nextpod_choice_forced_to_no_fit", 1)
	}
	if u.ctxMode {
		if !fromNext {
			// popped from the queue: it got there through PreEnqueue
			if err := u.mgr.PreEnqueue(u.ctx, pod); err != nil {
				u.op("S", "pop %s: refused by PreEnqueue (%v)", p.key, err)
				u.c.Count("cycles_refused_by_preenqueue", 1)
				return true
			}
		}
		st := framework.NewCycleState()
		frameworkext.InitDiagnosis(st, pod)
		had := u.mgr.holder.getCurrentGangSchedulingContext() != nil
		err := u.mgr.BeforePreFilter(u.ctx, st, pod)
		if !had && u.mgr.holder.getCurrentGangSchedulingContext() != nil {
			u.ctxGang = p.gang
			u.c.Count("scheduling_rounds_opened", 1)
			u.op("S", "cycle %s: BeforePreFilter opens the scheduling round of gang %s", p.key, p.gang.id)
		}
		if err != nil {
			// PreFilter rejection is a fit error: PostFilter and with it AfterPostFilter run
			u.mu.Lock()
			snap := u.snapLocked()
			u.mu.Unlock()
			u.mgr.AfterPostFilter(u.ctx, st, pod, u.h, c04Plugin, nil, fwktype.NewStatus(fwktype.Unschedulable, "prefilter"))
			evs := u.h.drain()
			u.op("S", "cycle %s: BeforePreFilter refuses (%.80s) -> AfterPostFilter; %s", p.key, err.Error(), c04Evs(evs))
			u.c.Count("cycles_refused_by_beforeprefilter", 1)
			u.fail(u.checkAllows(evs, nil, snap, "AfterPostFilter"))
			u.fail(u.rejectTargets(p, "AfterPostFilter", evs))
			u.fail(u.strict(p, "AfterPostFilter", evs))
			return true
		}
	}
	for _, it := range between {
		u.runInformer(it, p)
		u.c.Count("informer_events_between_gate_and_permit", 1)
	}
	u.mu.Lock()
	pod = p.obj
	snap := u.snapLocked()
	u.mu.Unlock()
	if !nodeFound {
		st := framework.NewCycleState()
		frameworkext.InitDiagnosis(st, pod)
		u.mgr.AfterPostFilter(u.ctx, st, pod, u.h, c04Plugin, nil, fwktype.NewStatus(fwktype.Unschedulable, "no node fits"))
		evs := u.h.drain()
		u.op("S", "cycle %s: no node fits -> AfterPostFilter; %s", p.key, c04Evs(evs))
		u.c.Count("op_afterpostfilter", 1)
		u.fail(u.checkAllows(evs, nil, snap, "AfterPostFilter"))
		u.fail(u.rejectTargets(p, "AfterPostFilter", evs))
		u.fail(u.strict(p, "AfterPostFilter", evs))
		return true
	}
	if u.conc && a%5 < 3 {
		u.echoStart(p)
	}
	_, status := u.mgr.Permit(u.ctx, pod)
	u.echo.Store(nil)
	u.lastPermit = status
	u.c.Count("op_permit", 1)
	switch status {
	case Success:
		u.mgr.AllowGangGroup(pod, u.h, c04Plugin)
		u.mgr.SucceedGangScheduling() // coscheduling.go Permit, case Success
		u.ctxGang = nil
		evs := u.h.drain()
		u.mu.Lock()
		p.held = true
		p.fw = 2
		u.binding = append(u.binding, p)
		v, state, _, _ := u.releaseLocked(p, snap, "Permit=Success")
		if p.gang.deleteWhileHeldSinceLastPermit {
			u.c.Count("delete_between_permits", 1)
			p.gang.deleteWhileHeldSinceLastPermit = false
		}
		u.mu.Unlock()
		u.op("S", "cycle %s: Permit -> Success, AllowGangGroup; %s; shadow %s", p.key, c04Evs(evs), state)
		u.c.Count("permit_success", 1)
		u.c.Seen("release", state)
		u.released = true
		u.fail(v)
		u.fail(u.checkAllows(evs, p, snap, "Permit=Success"))
		for _, e := range evs {
			if !e.allow {
				u.c.Fail("C04/release/reject-during-release", "Permit=Success of %s rejected waiting pod %s", p.key, e.wp.p.key)
			}
		}
	case Wait:
		w := &c04WP{h: u.h, p: p, pod: pod}
		u.mu.Lock()
		p.held = true
		p.fw = 1
		p.wp = w
		_, state, allOK, okByCounts := u.releaseLocked(p, snap, "")
		if p.gang.deleteWhileHeldSinceLastPermit {
			u.c.Count("delete_between_permits", 1)
			p.gang.deleteWhileHeldSinceLastPermit = false
		}
		u.mu.Unlock()
		u.h.add(w)
		evs := u.h.drain()
		u.op("S", "cycle %s: Permit -> Wait; %s; shadow %s", p.key, c04Evs(evs), state)
		u.c.Count("permit_wait", 1)
		u.c.Seen("wait", state)
		u.waited = true
		// (2) the converse is counted, never a verdict
		if okByCounts {
			u.c.Count("converse_misses_wait_though_every_gang_has_min", 1)
		} else if allOK {
			u.c.Count("converse_misses_wait_though_once_satisfied_before", 1)
		}
		u.fail(u.checkAllows(evs, nil, snap, "Permit=Wait"))
	case PodGroupNotFound:
		u.op("S", "cycle %s: Permit -> PodGroupNotFound, framework unreserves", p.key)
		u.c.Count("permit_gang_not_found", 1)
		u.mgr.Unreserve(u.ctx, framework.NewCycleState(), pod, "n1", u.h, c04Plugin)
		evs := u.h.drain()
		u.fail(u.checkAllows(evs, nil, snap, "Unreserve"))
	default:
		u.c.Harness("Permit returned %q for gang pod %s", status, p.key)
	}
	return true
}

func c04Evs(evs []c04Ev) string {
	if len(evs) == 0 {
		return "no Allow/Reject"
	}
	s := ""
	for _, e := range evs {
		k := "Reject"
		if e.allow {
			k = "Allow"
		}
		s += fmt.Sprintf("%s(%s by %s, effective=%v) ", k, e.wp.p.key, e.plugin, e.effective)
	}
	return s
}

func (u *c04U) unreserve(p *c04Pod, why string) {
	u.mu.Lock()
	pod := p.obj
	snap := u.snapLocked()
	partial := false
	afterBound := p.boundDone // gap F: the informer already told the cache that this very pod is bound
	for _, g := range u.declGangsLocked(p.gang) {
		for _, q := range g.pods {
			if q != p && q.boundDone && q.known() {
				partial = true
			}
		}
	}
	decl := u.declLocked(p.gang)
	u.mu.Unlock()
	// evidence: the roll-back arrives (from the pod's binding goroutine) while the scheduling
	// goroutine is in the middle of the scheduling round of ANOTHER gang group
	otherRound, ownWaiter, ownFresh, otherWaiter := "", false, false, false
	if gsc := u.mgr.holder.getCurrentGangSchedulingContext(); gsc != nil && !gsc.gangGroup.Has(p.gang.id) {
		otherRound = gsc.gangGroupID
		ws, _, rej := u.h.list()
		for i, w := range ws {
			if c04Has(decl, w.p.gang.id) {
				ownWaiter = true
				if !rej[i] {
					ownFresh = true
				}
			}
			if gsc.gangGroup.Has(w.p.gang.id) {
				otherWaiter = true
			}
		}
	}
	u.mgr.Unreserve(u.ctx, framework.NewCycleState(), pod, "n1", u.h, c04Plugin)
	evs := u.h.drain()
	u.mu.Lock()
	p.held = false
	p.fw = 0
	p.wp = nil
	u.mu.Unlock()
	if otherRound != "" {
		u.op("S", "(the scheduling round of group %s is in progress; waiting: own group %v, never rejected %v, that group %v)", otherRound, ownWaiter, ownFresh, otherWaiter)
		u.c.Count("unreserve_during_round_of_other_group", 1)
		if ownWaiter && otherWaiter {
			u.c.Count("unreserve_during_round_of_other_group_waiters_on_both_sides", 1)
		}
		if ownFresh && otherWaiter {
			u.c.Count("unreserve_during_round_of_other_group_unrejected_own_waiter", 1)
		}
	}
	u.op("S", "%s %s -> Unreserve; %s", why, p.key, c04Evs(evs))
	u.c.Count("op_unreserve", 1)
	if partial {
		u.c.Count("unreserve_after_partial_bind", 1)
	}
	if afterBound {
		u.c.Count("unreserve_after_bound_event", 1)
	}
	u.fail(u.checkAllows(evs, nil, snap, "Unreserve"))
	u.fail(u.rejectTargets(p, "Unreserve", evs))
	u.fail(u.strict(p, "Unreserve", evs))
}

// wake: the binding goroutine of a signalled waiting pod returns from WaitOnPermit (S4).
func (u *c04U) wake(a int) bool {
	ws, sig, _ := u.h.list()
	var cand []*c04WP
	var csig []int
	for i, w := range ws {
		if sig[i] != 0 {
			cand = append(cand, w)
			csig = append(csig, sig[i])
		}
	}
	w, ok := c04Pick(u, cand, a, func(w *c04WP) string { return w.p.key })
	if !ok {
		return false
	}
	s := 0
	for i := range cand {
		if cand[i] == w {
			s = csig[i]
		}
	}
	u.h.remove(w)
	if s == 1 {
		u.mu.Lock()
		w.p.fw = 2
		w.p.wp = nil
		u.binding = append(u.binding, w.p)
		u.mu.Unlock()
		u.op("S", "wake %s: allowed, goes on to bind", w.p.key)
		u.c.Count("op_wake_allowed", 1)
		return true
	}
	u.c.Count("op_wake_rejected", 1)
	u.unreserve(w.p, "wake (rejected)")
	return true
}

func (u *c04U) timeout(a int) bool {
	ws, sig, _ := u.h.list()
	var cand []*c04WP
	for i, w := range ws {
		if sig[i] == 0 {
			cand = append(cand, w)
		}
	}
	w, ok := c04Pick(u, cand, a, func(w *c04WP) string { return w.p.key })
	if !ok {
		return false
	}
	u.h.signal(w, false, "framework-timeout", false)
	u.op("S", "permit timeout of %s (framework rejects)", w.p.key)
	u.c.Count("op_timeout", 1)
	return true
}

// bindFinish: the bind of an allowed pod (S5). outcome 0: succeeds -> PostBind. 1: fails ->
// Unreserve. 2: the API server applied the binding but the scheduler's client saw a failure (timeout):
// the object has its node name (a new version the informer will deliver), the scheduler will run
// Unreserve - later (lateUnreserve), so that the bound update can arrive first, as it does in reality
// when the client waits for its timeout.
func (u *c04U) bindFinish(a int, outcome int) bool {
	p, found := c04Pick(u, u.binding, a, c04PodKey)
	if !found {
		return false
	}
	i := 0
	for j := range u.binding {
		if u.binding[j] == p {
			i = j
		}
	}
	if u.conc {
		p.cycleMu.Lock()
		defer p.cycleMu.Unlock()
	}
	u.binding = append(u.binding[:i:i], u.binding[i+1:]...)
	u.mu.Lock()
	if p.apiDeleted {
		outcome = 1
	}
	pod := p.obj
	if outcome != 1 {
		p.apiNode = "n1"
		u.rv++
		p.queue = append(p.queue, c04Ver{node: "n1", rv: u.rv, gang: p.apiGang, terminated: p.apiTerminated})
	}
	if outcome == 0 {
		p.boundBegun = true
		u.setSatLocked(p.gang)
	}
	if outcome == 2 {
		p.fw = 3
	}
	snap := u.snapLocked()
	u.mu.Unlock()
	switch outcome {
	case 1:
		u.c.Count("op_bind_failed", 1)
		u.unreserve(p, "bind failed")
		return true
	case 2:
		u.late = append(u.late, p)
		u.op("S", "bind %s applied by the API server but reported failed to the scheduler (client timeout); Unreserve follows", p.key)
		u.c.Count("op_bind_applied_but_reported_failed", 1)
		return true
	}
	u.mgr.PostBind(u.ctx, pod, "n1")
	evs := u.h.drain()
	u.mu.Lock()
	p.boundDone = true
	p.held = false
	p.fw = 0
	u.mu.Unlock()
	u.op("S", "bind %s ok -> PostBind; %s", p.key, c04Evs(evs))
	u.c.Count("op_postbind", 1)
	u.fail(u.checkAllows(evs, nil, snap, "PostBind"))
	return true
}

// lateUnreserve: the Unreserve of a pod whose bind was applied but reported failed.
func (u *c04U) lateUnreserve(a int) bool {
	p, found := c04Pick(u, u.late, a, c04PodKey)
	if !found {
		return false
	}
	for j := range u.late {
		if u.late[j] == p {
			u.late = append(u.late[:j:j], u.late[j+1:]...)
			break
		}
	}
	u.unreserve(p, "bind reported failed (but applied)")
	return true
}

func (u *c04U) runScheduler(it c04Intent, between []c04Intent) {
	try := func(kind int) bool {
		switch kind {
		case c04SCycle:
			return u.cycle(it.a, it.flag, between)
		case c04SWake:
			return u.wake(it.a)
		case c04STimeout:
			return u.timeout(it.a)
		case c04SBind:
			switch {
			case it.flag:
				return u.bindFinish(it.a, 0)
			case it.b%2 == 1:
				return u.bindFinish(it.a, 2)
			}
			return u.bindFinish(it.a, 1)
		case c04SLate:
			return u.lateUnreserve(it.a)
		}
		return false
	}
	if try(it.kind) {
		return
	}
	for _, k := range []int{c04SWake, c04SBind, c04SCycle, c04SLate} {
		if k != it.kind && try(k) {
			return
		}
	}
	u.c.Count("intents_not_applicable", 1)
}

// ---------------------------------------------------------------------------------------------
// oracle (4): partition

func (u *c04U) checkPartition(where string) {
	summ := u.mgr.GetGangSummaries()
	if !u.mu.TryLock() {
		u.c.Harness("%s: the harness lock is still held at a quiescent point (an operation returned without releasing it)", where)
	}
	type exp struct{ P, W, B sets.Set[string] }
	want := map[string]*exp{}
	stale := map[string]bool{}
	moved := map[string]sets.Set[string]{}
	for _, g := range u.gangs {
		e := &exp{sets.New[string](), sets.New[string](), sets.New[string]()}
		want[g.id] = e
		moved[g.id] = sets.New[string]()
		for k := range g.movedAway {
			moved[g.id].Insert(k)
		}
		for _, p := range g.pods {
			if !p.known() {
				continue
			}
			switch {
			case p.boundDone:
				e.B.Insert(p.key)
				if p.staleAfterBound {
					stale[p.key] = true
				}
			case p.held:
				e.W.Insert(p.key)
			default:
				e.P.Insert(p.key)
			}
		}
	}
	u.mu.Unlock()
	var generic *c04Verdict
	var staleOnly, keptByFormer []string
	note := func(sig, format string, a ...any) {
		if generic == nil {
			generic = &c04Verdict{sig, where + ": " + fmt.Sprintf(format, a...)}
		}
	}
	ids := make([]string, 0, len(summ))
	for id := range summ {
		ids = append(ids, id)
	}
	sort.Strings(ids)
	for _, id := range ids {
		s := summ[id]
		e := want[id]
		if e == nil {
			note("C04/partition/unknown-gang", "gang %s exists in the cache but no pod or PodGroup ever named it", id)
			continue
		}
		// recognised narrowly: a pod whose update names another gang now (U1) is still listed by its
		// former gang. Those pods are set aside, everything else is compared as usual.
		if mv := s.Children.Intersection(moved[id]).Difference(e.P).Difference(e.W).Difference(e.B); mv.Len() > 0 {
			for _, k := range sets.List(mv) {
				keptByFormer = append(keptByFormer, fmt.Sprintf("%s (still in gang %s)", k, id))
			}
			c := *s
			c.Children, c.PendingChildren = s.Children.Difference(mv), s.PendingChildren.Difference(mv)
			c.WaitingForBindChildren, c.BoundChildren = s.WaitingForBindChildren.Difference(mv), s.BoundChildren.Difference(mv)
			s = &c
		}
		// the known defect, recognised narrowly: a pod the cache was told is bound re-enters Pending
		// through a stale update (node name still empty) delivered after PostBind
		both := s.PendingChildren.Intersection(s.BoundChildren)
		pend := s.PendingChildren
		if both.Len() > 0 {
			narrow := true
			for k := range both {
				if !stale[k] || !e.B.Has(k) {
					narrow = false
				}
			}
			if narrow {
				staleOnly = append(staleOnly, sets.List(both)...)
				pend = s.PendingChildren.Difference(both)
			}
		}
		if x := pend.Intersection(s.WaitingForBindChildren); x.Len() > 0 {
			note("C04/partition/pending-and-waiting", "gang %s: %v in Pending and WaitingForBind", id, sets.List(x))
		}
		if x := pend.Intersection(s.BoundChildren); x.Len() > 0 {
			note("C04/partition/pending-and-bound", "gang %s: %v in Pending and Bound", id, sets.List(x))
		}
		if x := s.WaitingForBindChildren.Intersection(s.BoundChildren); x.Len() > 0 {
			note("C04/partition/waiting-and-bound", "gang %s: %v in WaitingForBind and Bound", id, sets.List(x))
		}
		union := pend.Union(s.WaitingForBindChildren).Union(s.BoundChildren)
		if !union.Equal(s.Children) {
			note("C04/partition/union-differs-from-children", "gang %s: Pending+Waiting+Bound = %v, Children = %v", id, sets.List(union), sets.List(s.Children))
		}
		if !pend.Equal(e.P) {
			note("C04/partition/pending-set-wrong", "gang %s: Pending = %v, but the pods the cache knows that were neither permitted nor bound are %v", id, sets.List(pend), sets.List(e.P))
		}
		if !s.WaitingForBindChildren.Equal(e.W) {
			note("C04/partition/waiting-set-wrong", "gang %s: WaitingForBind = %v, but the pods permitted and not yet unreserved/bound/deleted are %v", id, sets.List(s.WaitingForBindChildren), sets.List(e.W))
		}
		if !s.BoundChildren.Equal(e.B) {
			note("C04/partition/bound-set-wrong", "gang %s: Bound = %v, but the pods the cache was told are bound are %v", id, sets.List(s.BoundChildren), sets.List(e.B))
		}
	}
	for _, g := range u.gangs {
		e := want[g.id]
		if summ[g.id] == nil && e.P.Len()+e.W.Len()+e.B.Len() > 0 {
			note("C04/partition/member-lost", "gang %s is not in the cache but %v / %v / %v are its pending / waiting / bound members", g.id, sets.List(e.P), sets.List(e.W), sets.List(e.B))
		}
	}
	u.c.Count("partition_checks", 1)
	if generic != nil {
		u.c.Fail(generic.sig, "%s", generic.msg)
	}
	if len(keptByFormer) > 0 {
		u.c.Fail("C04/partition/pod-kept-by-former-gang",
			"%s: %v: a pod update changed the gang the pod names; the pod was added to the new gang but its former gang still lists it among its children (and in its pending / bound set)", where, keptByFormer)
	}
	if len(staleOnly) > 0 && !u.staleReported {
		// Narrow signature of the known Gang.setChild defect. Reported without ending the case (the
		// discrepancy is tolerated above, for exactly these pods, until a bound version heals it) so
		// that the rest of the history is still explored and other violations are not masked.
		u.staleReported = true
		u.c.Report("C04/partition/bound-and-pending-after-stale-update",
			"%s: %v in BoundChildren AND PendingChildren: after PostBind the informer delivered an older version of the pod (node name still empty) and Gang.setChild put it back into PendingChildren", where, staleOnly)
	}
}

// ---------------------------------------------------------------------------------------------
// history generation

func c04GenIntents(r *kit.Rand, n int, conc bool) []c04Intent {
	out := make([]c04Intent, 0, n)
	for i := 0; i < n; i++ {
		it := c04Intent{a: r.Intn(1 << 20), b: r.Intn(1 << 20)}
		if r.Pct(48) {
			it.inf = true
			it.kind = []int{c04ICreate, c04ITouch, c04IDeliver, c04IDelete, c04IPG}[r.Weighted(14, 20, 48, 7, 11)]
		} else {
			it.kind = []int{c04SCycle, c04SWake, c04STimeout, c04SBind, c04SLate}[r.Weighted(42, 21, 6, 26, 5)]
			switch it.kind {
			case c04SCycle:
				it.flag = !r.Pct(10) // a node was found
				if !conc && r.Pct(15) {
					it.b = 1 + r.Intn(2) // informer events between gate and Permit
				} else {
					it.b = 0
				}
			case c04SBind:
				it.flag = !r.Pct(20) // bind succeeds; otherwise b decides: failed, or applied but reported failed
			}
		}
		out = append(out, it)
	}
	return out
}

// prefix: PodGroups of most crd gangs, a first batch of pods (a few already running), delivered.
func (u *c04U) prefix() {
	r := u.c.R
	for i, g := range u.gangs {
		if g.crd && r.Pct(75) {
			u.infPG(c04CrdIndex(u.gangs, i), 0, false)
		}
	}
	slots := 0
	for _, g := range u.gangs {
		slots += g.slots
	}
	n := r.Range(slots/2, slots)
	for i := 0; i < n; i++ {
		u.infCreate(r.Intn(1<<20), r.Pct(6))
	}
	for i := 0; i < n; i++ {
		if r.Pct(85) {
			u.infDeliver(r.Intn(1<<20), nil)
		}
	}
}

func c04CrdIndex(gangs []*c04Gang, i int) int {
	k := 0
	for j := 0; j < i; j++ {
		if gangs[j].crd {
			k++
		}
	}
	return k
}

func (u *c04U) finish() {
	if u.released && u.waited && u.rejected {
		u.c.NonTrivial()
	}
}

// c04Gates: AfterPostFilter's optional patching of PodScheduled conditions on other pending pods
// (GangPendingPodsConditionPatch) talks to the API server through the handle's client and
// parallelizer; it does not touch the gang state and is switched off for the run.
func c04Gates(t *testing.T) {
	was := k8sfeature.DefaultFeatureGate.Enabled(features.GangPendingPodsConditionPatch)
	if err := k8sfeature.DefaultMutableFeatureGate.SetFromMap(map[string]bool{string(features.GangPendingPodsConditionPatch): false}); err != nil {
		t.Fatalf("feature gate: %v", err)
	}
	t.Cleanup(func() {
		_ = k8sfeature.DefaultMutableFeatureGate.SetFromMap(map[string]bool{string(features.GangPendingPodsConditionPatch): was})
	})
}

// ---------------------------------------------------------------------------------------------
// unit seq

func TestVerifC04Seq(t *testing.T) {
	c04Gates(t)
	kit.Run(t, kit.Config{Property: "C04", Unit: "seq", Quick: 3000, Thorough: 150000,
		Rule: "sequential histories of 60-150 operations over 1-2 gang groups of 1-3 gangs (min 1-3, 2-5 pod slots, strict / non-strict, three match policies, annotation and PodGroup sources): API create/touch/delete of pods with lagging in-order informer delivery (stale updates after PostBind on purpose), PodGroup add / delete / updates of the spec (min, timeout) and annotation-only updates (match policy, mode, gang-group list - a gang leaves or joins a group, one event per PodGroup - and its spelling), gang-groups annotations in every degenerate spelling (absent, \"\", null, [], illegal JSON, self only, naming a gang that never exists), scheduling cycles (gate, Permit + AllowGangGroup, AfterPostFilter; in 60% of the cases with the plugin's scheduling-context machinery: NextPod first, PreEnqueue for popped pods, BeforePreFilter, SucceedGangScheduling, so that roll-backs of one group arrive during the scheduling round of another), wake-ups of signalled waiting pods, permit timeouts, bind success (PostBind) / failure (Unreserve) / applied-but-reported-failed (bound update before or after the Unreserve); oracles (1)(3) at every scheduler call, (4) after every operation; distinct = (policy, mode, per-gang min / waiting / bound counts) at each Permit decision; non-trivial = case with a release, a wait and a group rejection"},
		func(c *kit.Case) {
			u := c04NewUniverse(c, false)
			u.countDims()
			u.op("-", "universe %s", u.describe())
			u.prefix()
			u.checkPartition("after the prefix")
			n := c.R.Range(60, 150)
			if c.R.Pct(8) {
				n = c.R.Range(150, 300)
				c.Count("long_histories", 1)
			}
			its := c04GenIntents(c.R, n+8, false)
			for i := 0; i < n; i++ {
				it := its[i]
				if it.inf {
					u.runInformer(it, nil)
				} else {
					var between []c04Intent
					if it.kind == c04SCycle && it.b > 0 {
						for j := 0; j < it.b; j++ {
							b := its[n+(i+j)%8]
							b.inf = true
							b.kind = []int{c04IDeliver, c04IDeliver, c04IDelete, c04ITouch, c04IDeliver}[b.a%5]
							between = append(between, b)
						}
					}
					u.runScheduler(it, between)
				}
				u.checkPartition(fmt.Sprintf("after operation %d", i))
			}
			u.finish()
			if c.K < 2 {
				ops := c.Ops()
				if len(ops) > 14 {
					ops = ops[:14]
				}
				c.Sample(ops)
			}
		})
}

// ---------------------------------------------------------------------------------------------
// unit conc

func c04Jitter(r *kit.Rand) {
	switch v := r.Intn(10); {
	case v < 4:
	case v < 8:
		runtime.Gosched()
	case v < 9:
		for i := 0; i < 200; i++ {
			runtime.Gosched()
		}
	default:
		time.Sleep(30 * time.Microsecond)
	}
}

func c04PanicInHarness(stack string) (string, bool) {
	lines := strings.Split(stack, "\n")
	start := 0
	for i, l := range lines {
		if strings.HasPrefix(l, "panic(") {
			start = i + 2
		}
	}
	for i := start; i+1 < len(lines); i += 2 {
		fn := lines[i]
		if strings.HasPrefix(fn, "runtime.") || strings.HasPrefix(fn, "runtime/") {
			continue
		}
		loc := lines[i+1]
		if p := strings.LastIndex(fn, "("); p > 0 {
			fn = fn[:p]
		}
		if j := strings.LastIndex(fn, "/"); j >= 0 {
			fn = fn[j+1:]
		}
		return fn, strings.Contains(loc, "zz_verif_") || strings.Contains(loc, "/pkg/verifkit/")
	}
	return "unknown", false
}

func TestVerifC04Conc(t *testing.T) {
	c04Gates(t)
	kit.Run(t, kit.Config{Property: "C04", Unit: "conc", Quick: 900, Thorough: 45000,
		Rule: "the same universes; a pre-generated history of 80-160 intents is split into the informer's half (pod create/touch/deliver/delete, PodGroup add / no-change update) and the scheduler's half (cycles, wake-ups, timeouts, bind results incl. applied-but-reported-failed with its late Unreserve) which run on two goroutines in 3 phases under the race detector with random yields between operations and at the entry of the Gang set transitions; oracles (1)(3) online at the scheduler goroutine against window bounds of the shadow truth, (4) at the quiescent point after each phase; distinct = Permit decision states plus the observed interleaving of each phase; non-trivial = case with a release, a wait and a group rejection"},
		func(c *kit.Case) {
			u := c04NewUniverse(c, true)
			u.countDims()
			u.op("-", "universe %s", u.describe())
			u.prefix()
			u.checkPartition("after the prefix")
			n := c.R.Range(80, 160)
			its := c04GenIntents(c.R, n, true)
			const phases = 3
			ri, rs := c.R.Fork(), c.R.Fork()
			// yield points at the entry of the separately locked Gang steps (unit.json "instr"): no-ops
			// unless enabled here; the signature of the observed point sequence is evidence only
			kit.EnableYield(c.R.Fork())
			defer kit.DisableYield()
			for ph := 0; ph < phases; ph++ {
				lo, hi := ph*n/phases, (ph+1)*n/phases
				var inf, sch []c04Intent
				for _, it := range its[lo:hi] {
					if it.inf {
						inf = append(inf, it)
					} else {
						sch = append(sch, it)
					}
				}
				var wg sync.WaitGroup
				wg.Add(1)
				u.phaseDone.Store(false)
				go func() {
					defer wg.Done()
					defer func() {
						if e := recover(); e != nil {
							u.infStack = string(debug.Stack())
							u.infPanic = fmt.Sprint(e)
						}
					}()
					for _, it := range inf {
						if u.stop.Load() {
							return
						}
						u.serveEcho()
						c04Jitter(ri)
						u.mu.Lock()
						u.order = append(u.order, 'I')
						u.mu.Unlock()
						u.runInformer(it, nil)
					}
					for !u.phaseDone.Load() && !u.stop.Load() {
						u.serveEcho()
						runtime.Gosched()
					}
				}()
				func() {
					defer wg.Wait()
					defer func() {
						if e := recover(); e != nil {
							u.stop.Store(true)
							panic(e)
						}
					}()
					defer u.phaseDone.Store(true)
					defer u.echo.Store(nil)
					for _, it := range sch {
						c04Jitter(rs)
						u.mu.Lock()
						u.order = append(u.order, 'S')
						u.mu.Unlock()
						u.runScheduler(it, nil)
					}
				}()
				if u.infPanic != "" {
					fn, inHarness := c04PanicInHarness(u.infStack)
					if inHarness {
						c.Harness("panic on the informer goroutine in harness code: %s\n%s", u.infPanic, u.infStack)
					}
					c.Fail("C04/panic/"+fn, "panic on the informer goroutine: %s\n%s", u.infPanic, u.infStack)
				}
				c.Seen("interleaving", ph, string(u.order))
				u.order = u.order[:0]
				u.op("-", "quiescent point after phase %d", ph)
				u.checkPartition(fmt.Sprintf("at the quiescent point after phase %d", ph))
			}
			c.Seen("yield-points", kit.DisableYield())
			u.finish()
			if c.K < 1 {
				ops := c.Ops()
				if len(ops) > 14 {
					ops = ops[:14]
				}
				c.Sample(ops)
			}
		})
}

// ---------------------------------------------------------------------------------------------
// unit basic (scripted): a handful of hand-written in-domain histories through the same engine and the
// same oracles (each step names its pod / gang; a step that is not applicable is a harness error)

type c04GangSpec struct {
	group  int
	crd    bool
	min    int
	slots  int
	mode   string
	policy string
}

type c04Step struct {
	op   string // create deliver touch delete pg pg-delete resubmit api-move api-join api-leave api-mode api-policy api-repr | permit nofit wake timeout bindok bindfail bindlost unreserve
	key  string // pod "gN-pM" or gang "gN"; with an argument "gN>arg" (api-join: the gang to join, api-policy: the policy, api-repr: the spelling)
	want Status // permit: expected status ("" = any); documents the script, a mismatch is a harness error
}

type c04Script struct {
	name  string
	gangs []c04GangSpec
	pads  []int // optional: leading zeros gang i writes in front of its min-available
	reprs []int // optional: how gang i spells its gang-groups annotation (gangs on their own only)
	ctx   bool  // run with the gang scheduling context machinery (S7); the script then has to follow NextPod's order
	steps []c04Step
}

const (
	c04S = extension.GangModeStrict
	c04N = extension.GangModeNonStrict
	c04W = extension.GangMatchPolicyOnlyWaiting
	c04R = extension.GangMatchPolicyWaitingAndRunning
	c04O = extension.GangMatchPolicyOnceSatisfied
)

var c04Scripts = []c04Script{
	{name: "stale update (node name still empty) delivered after PostBind",
		gangs: []c04GangSpec{{0, false, 1, 2, c04S, c04O}},
		steps: []c04Step{{"create", "g0-p0", ""}, {"deliver", "g0-p0", ""}, {"touch", "g0-p0", ""}, {"permit", "g0-p0", Success},
			{"bindok", "g0-p0", ""}, {"deliver", "g0-p0", ""}, {"deliver", "g0-p0", ""}}},
	{name: "delete of a waiting member between two permits",
		gangs: []c04GangSpec{{0, false, 2, 3, c04S, c04W}},
		steps: []c04Step{{"create", "g0-p0", ""}, {"create", "g0-p1", ""}, {"create", "g0-p2", ""}, {"deliver", "g0-p0", ""}, {"deliver", "g0-p1", ""}, {"deliver", "g0-p2", ""},
			{"permit", "g0-p0", Wait}, {"delete", "g0-p0", ""}, {"deliver", "g0-p0", ""}, {"permit", "g0-p1", Wait}, {"wake", "g0-p0", ""}, {"wake", "g0-p1", ""},
			{"permit", "g0-p1", Wait}, {"permit", "g0-p2", Success}, {"wake", "g0-p1", ""}, {"bindok", "g0-p1", ""}, {"bindok", "g0-p2", ""}}},
	{name: "unreserve after partial bind, waiting-and-running, strict",
		gangs: []c04GangSpec{{0, true, 2, 3, c04S, c04R}},
		steps: []c04Step{{"create", "g0-p0", ""}, {"create", "g0-p1", ""}, {"create", "g0-p2", ""}, {"deliver", "g0-p0", ""}, {"deliver", "g0-p1", ""}, {"pg", "g0", ""}, {"deliver", "g0-p2", ""},
			{"permit", "g0-p0", Wait}, {"permit", "g0-p1", Success}, {"wake", "g0-p0", ""}, {"bindok", "g0-p0", ""}, {"bindfail", "g0-p1", ""},
			{"permit", "g0-p2", Success}, {"permit", "g0-p1", Success}, {"bindfail", "g0-p2", ""}, {"bindok", "g0-p1", ""}, {"deliver", "g0-p0", ""}, {"deliver", "g0-p1", ""}}},
	{name: "group of two gangs: nobody is released while one gang is short; timeout rejects the whole group",
		gangs: []c04GangSpec{{0, false, 1, 2, c04S, c04W}, {0, false, 2, 2, c04S, c04W}},
		steps: []c04Step{{"create", "g0-p0", ""}, {"create", "g1-p0", ""}, {"create", "g1-p1", ""}, {"deliver", "g0-p0", ""}, {"deliver", "g1-p0", ""}, {"deliver", "g1-p1", ""},
			{"permit", "g0-p0", Wait}, {"permit", "g1-p0", Wait}, {"timeout", "g0-p0", ""}, {"wake", "g0-p0", ""}, {"wake", "g1-p0", ""},
			{"permit", "g1-p0", Wait}, {"permit", "g1-p1", Wait}, {"permit", "g0-p0", Success}, {"wake", "g1-p0", ""}, {"wake", "g1-p1", ""},
			{"bindok", "g0-p0", ""}, {"bindok", "g1-p0", ""}, {"bindok", "g1-p1", ""}}},
	{name: "no node fits for one member of a strict group: every waiting member is rejected; non-member gang untouched",
		gangs: []c04GangSpec{{0, false, 3, 3, c04S, c04O}, {1, false, 2, 2, c04N, c04W}},
		steps: []c04Step{{"create", "g0-p0", ""}, {"create", "g0-p1", ""}, {"create", "g0-p2", ""}, {"create", "g1-p0", ""}, {"create", "g1-p1", ""},
			{"deliver", "g0-p0", ""}, {"deliver", "g0-p1", ""}, {"deliver", "g0-p2", ""}, {"deliver", "g1-p0", ""}, {"deliver", "g1-p1", ""},
			{"permit", "g1-p0", Wait}, {"permit", "g0-p0", Wait}, {"permit", "g0-p1", Wait}, {"nofit", "g0-p2", ""}, {"wake", "g0-p0", ""}, {"wake", "g0-p1", ""},
			{"permit", "g1-p1", Success}, {"wake", "g1-p0", ""}, {"bindok", "g1-p0", ""}, {"bindfail", "g1-p1", ""}}},
	{name: "once-satisfied: after the first bind a lone member is released; stale update while waiting; re-created pod",
		gangs: []c04GangSpec{{0, true, 2, 3, c04S, c04O}},
		steps: []c04Step{{"pg", "g0", ""}, {"create", "g0-p0", ""}, {"create", "g0-p1", ""}, {"deliver", "g0-p0", ""}, {"deliver", "g0-p1", ""},
			{"permit", "g0-p0", Wait}, {"touch", "g0-p0", ""}, {"deliver", "g0-p0", ""}, {"permit", "g0-p1", Success}, {"wake", "g0-p0", ""}, {"bindok", "g0-p0", ""}, {"bindfail", "g0-p1", ""},
			{"delete", "g0-p1", ""}, {"deliver", "g0-p1", ""}, {"create", "g0-p1", ""}, {"deliver", "g0-p1", ""}, {"create", "g0-p2", ""}, {"deliver", "g0-p2", ""},
			{"permit", "g0-p1", Success}, {"bindok", "g0-p1", ""}, {"nofit", "g0-p2", ""}, {"deliver", "g0-p0", ""}}},
	{name: "annotation-only PodGroup updates: a gang joins a group, one event per PodGroup (gap D, groups)",
		gangs: []c04GangSpec{{0, true, 1, 2, c04S, c04W}, {1, true, 2, 2, c04S, c04W}},
		steps: []c04Step{{"pg", "g0", ""}, {"pg", "g1", ""}, {"create", "g0-p0", ""}, {"create", "g1-p0", ""}, {"create", "g1-p1", ""}, {"deliver", "g0-p0", ""}, {"deliver", "g1-p0", ""}, {"deliver", "g1-p1", ""},
			{"api-join", "g1>g0", ""}, {"pg", "g0", ""}, {"permit", "g0-p0", Wait}, {"permit", "g1-p0", Wait}, {"pg", "g1", ""}, {"permit", "g1-p1", Success},
			{"wake", "g0-p0", ""}, {"wake", "g1-p0", ""}, {"bindok", "g0-p0", ""}, {"bindok", "g1-p0", ""}, {"bindok", "g1-p1", ""}}},
	{name: "annotation-only PodGroup updates: a gang leaves its group; its release no longer allows the former mates (gap D, groups)",
		gangs: []c04GangSpec{{0, true, 2, 3, c04S, c04W}, {0, true, 1, 2, c04S, c04W}},
		steps: []c04Step{{"pg", "g0", ""}, {"pg", "g1", ""}, {"create", "g0-p0", ""}, {"create", "g0-p1", ""}, {"create", "g1-p0", ""}, {"deliver", "g0-p0", ""}, {"deliver", "g0-p1", ""}, {"deliver", "g1-p0", ""},
			{"permit", "g0-p0", Wait}, {"permit", "g1-p0", Wait}, {"api-leave", "g1", ""}, {"pg", "g1", ""}, {"create", "g1-p1", ""}, {"deliver", "g1-p1", ""}, {"permit", "g1-p1", Success},
			{"pg", "g0", ""}, {"wake", "g1-p0", ""}, {"bindok", "g1-p0", ""}, {"bindok", "g1-p1", ""}, {"permit", "g0-p1", Success}, {"wake", "g0-p0", ""}, {"bindok", "g0-p0", ""}, {"bindok", "g0-p1", ""}}},
	{name: "annotation-only PodGroup update: non-strict becomes strict, the next roll-back rejects the waiting members (gap D, mode)",
		gangs: []c04GangSpec{{0, true, 3, 3, c04N, c04W}},
		steps: []c04Step{{"pg", "g0", ""}, {"create", "g0-p0", ""}, {"create", "g0-p1", ""}, {"create", "g0-p2", ""}, {"deliver", "g0-p0", ""}, {"deliver", "g0-p1", ""}, {"deliver", "g0-p2", ""},
			{"permit", "g0-p0", Wait}, {"permit", "g0-p1", Wait}, {"api-mode", "g0", ""}, {"pg", "g0", ""}, {"timeout", "g0-p0", ""}, {"wake", "g0-p0", ""}, {"wake", "g0-p1", ""}}},
	{name: "annotation-only PodGroup update: waiting-and-running becomes only-waiting, bound members no longer count (gap D, policy)",
		gangs: []c04GangSpec{{0, true, 2, 3, c04S, c04R}},
		steps: []c04Step{{"pg", "g0", ""}, {"create", "g0-p0", ""}, {"create", "g0-p1", ""}, {"create", "g0-p2", ""}, {"deliver", "g0-p0", ""}, {"deliver", "g0-p1", ""}, {"deliver", "g0-p2", ""},
			{"permit", "g0-p0", Wait}, {"permit", "g0-p1", Success}, {"wake", "g0-p0", ""}, {"bindok", "g0-p0", ""}, {"bindok", "g0-p1", ""},
			{"api-policy", "g0>" + c04W, ""}, {"pg", "g0", ""}, {"permit", "g0-p2", Wait}, {"timeout", "g0-p2", ""}, {"wake", "g0-p2", ""}}},
	{name: "gang-groups annotation \"[]\" (pod annotation and PodGroup), then illegal JSON: the group is the gang itself (gap E)",
		gangs: []c04GangSpec{{0, false, 2, 2, c04S, c04W}, {1, true, 2, 2, c04S, c04O}},
		reprs: []int{c04ReprEmptyList, c04ReprEmptyList},
		steps: []c04Step{{"create", "g0-p0", ""}, {"create", "g0-p1", ""}, {"deliver", "g0-p0", ""}, {"deliver", "g0-p1", ""}, {"permit", "g0-p0", Wait}, {"permit", "g0-p1", Success},
			{"pg", "g1", ""}, {"create", "g1-p0", ""}, {"create", "g1-p1", ""}, {"deliver", "g1-p0", ""}, {"deliver", "g1-p1", ""}, {"permit", "g1-p0", Wait},
			{"api-repr", "g1>illegal_json", ""}, {"pg", "g1", ""}, {"timeout", "g1-p0", ""}, {"wake", "g1-p0", ""}, {"permit", "g1-p0", Wait}, {"permit", "g1-p1", Success},
			{"wake", "g0-p0", ""}, {"wake", "g1-p0", ""}}},
	{name: "bind applied by the API server but reported failed: bound update before / after Unreserve (gap F)",
		gangs: []c04GangSpec{{0, false, 1, 2, c04S, c04W}},
		steps: []c04Step{{"create", "g0-p0", ""}, {"deliver", "g0-p0", ""}, {"permit", "g0-p0", Success}, {"bindlost", "g0-p0", ""}, {"deliver", "g0-p0", ""}, {"unreserve", "g0-p0", ""},
			{"create", "g0-p1", ""}, {"deliver", "g0-p1", ""}, {"permit", "g0-p1", Success}, {"bindlost", "g0-p1", ""}, {"unreserve", "g0-p1", ""}, {"deliver", "g0-p1", ""}}},
	{name: "scheduling context: a bind failure in released group X arrives while the round of group Y is in progress; X's allowed-but-not-yet-woken member is rejected, Y's waiting member is not",
		ctx:   true,
		gangs: []c04GangSpec{{0, false, 2, 2, c04S, c04W}, {1, false, 2, 2, c04S, c04W}},
		steps: []c04Step{{"create", "g0-p0", ""}, {"create", "g0-p1", ""}, {"create", "g1-p0", ""}, {"create", "g1-p1", ""}, {"deliver", "g0-p0", ""}, {"deliver", "g0-p1", ""}, {"deliver", "g1-p0", ""}, {"deliver", "g1-p1", ""},
			{"permit", "g0-p0", Wait}, {"permit", "g0-p1", Success}, {"permit", "g1-p0", Wait}, {"bindfail", "g0-p1", ""}, {"wake", "g0-p0", ""}, {"bindok", "g0-p0", ""},
			{"permit", "g1-p1", Success}, {"wake", "g1-p0", ""}, {"bindok", "g1-p0", ""}, {"bindok", "g1-p1", ""}}},
	{name: "scheduling context: the round of a group ends without release (no node fits for its last member), NextPod rejects its waiting member; the roll-back arrives during the next group's round",
		ctx:   true,
		gangs: []c04GangSpec{{0, false, 2, 2, c04S, c04W}, {1, false, 2, 2, c04S, c04W}},
		steps: []c04Step{{"create", "g0-p0", ""}, {"create", "g0-p1", ""}, {"create", "g1-p0", ""}, {"create", "g1-p1", ""}, {"deliver", "g0-p0", ""}, {"deliver", "g0-p1", ""}, {"deliver", "g1-p0", ""}, {"deliver", "g1-p1", ""},
			{"permit", "g0-p0", Wait}, {"nofit", "g0-p1", ""}, {"permit", "g1-p0", Wait}, {"wake", "g0-p0", ""},
			{"permit", "g1-p1", Success}, {"wake", "g1-p0", ""}, {"bindok", "g1-p0", ""}, {"bindok", "g1-p1", ""}}},
	{name: "a pod update changes the gang the pod names (U1): a bound member of g0 moves to g1 and must no longer count for g0",
		gangs: []c04GangSpec{{0, false, 2, 3, c04S, c04R}, {1, false, 1, 2, c04S, c04W}},
		steps: []c04Step{{"create", "g0-p0", ""}, {"create", "g0-p1", ""}, {"deliver", "g0-p0", ""}, {"deliver", "g0-p1", ""}, {"permit", "g0-p0", Wait}, {"permit", "g0-p1", Success},
			{"wake", "g0-p0", ""}, {"bindok", "g0-p0", ""}, {"bindok", "g0-p1", ""}, {"deliver", "g0-p0", ""}, {"deliver", "g0-p1", ""},
			{"api-move", "g0-p0>g1", ""}, {"deliver", "g0-p0", ""}, {"create", "g0-p2", ""}, {"deliver", "g0-p2", ""}, {"permit", "g0-p2", Success}}},
	{name: "min-available written as the zero-padded decimal \"010\": ten members are needed, the eighth and ninth still wait",
		gangs: []c04GangSpec{{0, false, 10, 10, c04N, c04W}},
		pads:  []int{1},
		steps: []c04Step{{"create", "g0-p0", ""}, {"create", "g0-p1", ""}, {"create", "g0-p2", ""}, {"create", "g0-p3", ""}, {"create", "g0-p4", ""}, {"create", "g0-p5", ""}, {"create", "g0-p6", ""}, {"create", "g0-p7", ""}, {"create", "g0-p8", ""}, {"create", "g0-p9", ""}, {"deliver", "g0-p0", ""}, {"deliver", "g0-p1", ""}, {"deliver", "g0-p2", ""}, {"deliver", "g0-p3", ""}, {"deliver", "g0-p4", ""}, {"deliver", "g0-p5", ""}, {"deliver", "g0-p6", ""}, {"deliver", "g0-p7", ""}, {"deliver", "g0-p8", ""}, {"deliver", "g0-p9", ""}, {"permit", "g0-p0", Wait}, {"permit", "g0-p1", Wait}, {"permit", "g0-p2", Wait}, {"permit", "g0-p3", Wait}, {"permit", "g0-p4", Wait}, {"permit", "g0-p5", Wait}, {"permit", "g0-p6", Wait}, {"permit", "g0-p7", Wait}, {"permit", "g0-p8", Wait}, {"permit", "g0-p9", Success}}},
	{name: "a bound two-gang PodGroup job is deleted as a whole and submitted again under the same names: the new group has not been satisfied before",
		gangs: []c04GangSpec{{0, true, 1, 2, c04S, c04O}, {0, true, 1, 2, c04S, c04O}},
		steps: []c04Step{{"pg", "g0", ""}, {"pg", "g1", ""}, {"create", "g0-p0", ""}, {"create", "g1-p0", ""}, {"deliver", "g0-p0", ""}, {"deliver", "g1-p0", ""},
			{"permit", "g0-p0", Wait}, {"permit", "g1-p0", Success}, {"wake", "g0-p0", ""}, {"bindok", "g0-p0", ""}, {"bindok", "g1-p0", ""}, {"deliver", "g0-p0", ""}, {"deliver", "g1-p0", ""},
			{"resubmit", "g0", ""}, {"pg", "g1", ""}, {"pg", "g0", ""}, {"create", "g0-p0", ""}, {"create", "g1-p0", ""}, {"deliver", "g0-p0", ""}, {"deliver", "g1-p0", ""},
			{"permit", "g0-p0", Wait}, {"permit", "g1-p0", Success}, {"wake", "g0-p0", ""}, {"bindok", "g0-p0", ""}, {"bindok", "g1-p0", ""}}},
}

func c04ScriptUniverse(c *kit.Case, sc c04Script) *c04U {
	u := &c04U{c: c, ctx: context.TODO(), latest: map[string]*c04Pod{}, defPolicy: extension.GangMatchPolicyOnceSatisfied}
	u.h = &c04Handle{waiting: map[types.UID]*c04WP{}}
	f := false
	args := &config.CoschedulingArgs{DefaultTimeout: metav1.Duration{Duration: 600 * time.Second}, DefaultMatchPolicy: extension.GangMatchPolicyOnceSatisfied,
		EnablePreemption: &f, AwareNetworkTopology: &f}
	u.mgr = &PodGroupManager{handle: u.h, args: args, cache: NewGangCache(args, nil, nil, nil, u.h)}
	groups := map[int][]string{}
	for i, gs := range sc.gangs {
		g := &c04Gang{idx: i, name: fmt.Sprintf("g%d", i), ns: c04NS, crd: gs.crd, slots: gs.slots, want: c04Cfg{min: gs.min, mode: gs.mode, policy: gs.policy, timeout: 300}, movedAway: map[string]bool{}}
		g.id = c04NS + "/" + g.name
		groups[gs.group] = append(groups[gs.group], g.id)
		u.gangs = append(u.gangs, g)
	}
	for i, gs := range sc.gangs {
		ids := append([]string(nil), groups[gs.group]...)
		sort.Strings(ids)
		u.gangs[i].want.decl = ids
		if i < len(sc.reprs) {
			u.gangs[i].want.repr = sc.reprs[i]
		}
		if i < len(sc.pads) {
			u.gangs[i].minPad = sc.pads[i]
		}
	}
	u.index()
	return u
}

func TestVerifC04Scripted(t *testing.T) {
	c04Gates(t)
	n := len(c04Scripts)
	kit.Run(t, kit.Config{Property: "C04", Unit: "basic", Quick: n, Thorough: n, Exhaustive: true,
		Rule: "hand-written in-domain histories (stale update after PostBind, delete between two permits, unreserve after partial bind, two-gang group with one gang short, no-node-fits in a strict group, once-satisfied with re-created pod, annotation-only PodGroup updates of group list / mode / policy with one event per PodGroup, degenerate gang-groups annotations, bind applied but reported failed) run through the same engine and oracles; every step names its pod; a step that is not applicable is a harness error, a Wait where the script expects Success ends the script (counted as converse miss)"},
		func(c *kit.Case) {
			sc := c04Scripts[c.K]
			u := c04ScriptUniverse(c, sc)
			u.ctxMode = sc.ctx
			u.op("-", "script %q universe %s", sc.name, u.describe())
			for i, st := range sc.steps {
				key, arg, _ := strings.Cut(st.key, ">")
				u.force = c04NS + "/" + key
				ok := false
				switch st.op {
				case "api-join", "api-leave", "api-mode", "api-policy", "api-repr":
					u.mu.Lock()
					g := u.byID[u.force]
					switch {
					case g == nil:
					case st.op == "api-join":
						ok = u.byID[c04NS+"/"+arg] != nil && u.apiJoinLocked(g, u.byID[c04NS+"/"+arg])
					case st.op == "api-leave":
						ok = u.apiLeaveLocked(g, c04ReprList)
					case st.op == "api-mode":
						ok = u.apiFlipModeLocked(g)
					case st.op == "api-policy":
						g.want.policy, ok = arg, true
					case st.op == "api-repr":
						for ri, n := range c04ReprNames {
							if n == arg && len(g.want.decl) == 1 {
								g.want.repr, ok = ri, true
							}
						}
					}
					u.mu.Unlock()
					u.op("I", "api write to the PodGroup annotations: %s %s", st.op, st.key)
				case "api-move":
					u.mu.Lock()
					if q, t := u.latest[u.force], u.byID[c04NS+"/"+arg]; q != nil && t != nil && !q.held && q.fw == 0 {
						q.apiGang = t
						u.rv++
						q.queue = append(q.queue, c04Ver{node: q.apiNode, rv: u.rv, gang: t})
						ok = true
					}
					u.mu.Unlock()
					u.op("I", "api write: pod %s now names gang %s", key, arg)
				case "resubmit":
					ok = u.byID[u.force] != nil && u.resubmit(u.byID[u.force])
				case "pg-delete":
					ok = u.infPG(0, 4*19+80, true)
				case "bindlost":
					ok = u.bindFinish(0, 2)
				case "unreserve":
					ok = u.lateUnreserve(0)
				case "create":
					ok = u.infCreate(0, false)
				case "deliver":
					ok = u.infDeliver(0, nil)
				case "touch":
					ok = u.infTouch(0, 1)
				case "delete":
					ok = u.infDelete(0)
				case "pg":
					ok = u.infPG(0, 0, false)
				case "permit":
					u.lastPermit = ""
					ok = u.cycle(0, true, nil)
					if ok && st.want == Success && u.lastPermit == Wait {
						// stricter than the script expects: the converse direction, counted only; the
						// rest of the script no longer applies
						c.Count("converse_misses_scripted_wait_instead_of_success", 1)
						u.op("-", "script ends early: Permit of %s returned Wait, the script expected Success", st.key)
						return
					}
					if ok && st.want != "" && u.lastPermit != st.want {
						c.Harness("script %q step %d: Permit of %s returned %q, the script expects %q", sc.name, i, st.key, u.lastPermit, st.want)
					}
				case "nofit":
					ok = u.cycle(0, false, nil)
				case "wake":
					ok = u.wake(0)
				case "timeout":
					ok = u.timeout(0)
				case "bindok":
					ok = u.bindFinish(0, 0)
				case "bindfail":
					ok = u.bindFinish(0, 1)
				}
				if !ok {
					c.Harness("script %q step %d (%s %s) is not applicable", sc.name, i, st.op, st.key)
				}
				u.checkPartition(fmt.Sprintf("script %q after step %d (%s %s)", sc.name, i, st.op, st.key))
			}
			c.NonTrivial()
			c.Evals(len(sc.steps) - 1)
			if c.K == 1 {
				c.Sample(c.Ops())
			}
		})
}
