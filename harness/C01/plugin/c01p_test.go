//go:build verif

package elasticquota

// C01 monitor, plugin level: the calls the core units issue themselves in the name of the plugin
// (routing of a pod to a group by its quota label, the periodic move out of the default group)
// are here issued by the real elasticquota Plugin: OnQuotaAdd/OnQuotaUpdate, OnPodAdd/OnPodUpdate/
// OnPodDelete, Reserve/Unreserve and migrateDefaultQuotaGroupsPod on a Plugin built like the one of
// harness/C19/quotaplugin (no informers; every pod carries a quota label, so no lister is read).
//
// Oracle after every operation, per group (declared groups, default group, root): used, request
// and their non-preemptible variants == the sums recomputed from the surviving pods (assigned =
// (reserved or node name) and not terminated; a pod is held by the group its label names if the
// scheduler knew that group when the pod arrived or since the periodic migration moved it, else by
// the default group). All max values are far above every sum and nothing is min-raised: the
// max/min arithmetic is the core units' business.
//
// Causal rules: informer discipline as in the core units (old object = last delivered version,
// resource versions grow, node name set once); Reserve/Unreserve only for unbound, not terminated
// pods; a late-created quota is followed at once by the periodic migration (the 1 s cycle runs
// before the next event of a parked pod) - the other order is the recorded known finding
// C01/late-quota/... and is exercised by the core unit.

import (
	"context"
	"fmt"
	"sort"
	"testing"

	corev1 "k8s.io/api/core/v1"
	"k8s.io/apimachinery/pkg/api/resource"
	metav1 "k8s.io/apimachinery/pkg/apis/meta/v1"
	"k8s.io/apimachinery/pkg/types"
	k8sfeature "k8s.io/apiserver/pkg/util/feature"
	"k8s.io/klog/v2"

	"github.com/koordinator-sh/koordinator/apis/extension"
	schedv1alpha1 "github.com/koordinator-sh/koordinator/apis/thirdparty/scheduler-plugins/pkg/apis/scheduling/v1alpha1"
	"github.com/koordinator-sh/koordinator/pkg/features"
	"github.com/koordinator-sh/koordinator/pkg/scheduler/apis/config"
	"github.com/koordinator-sh/koordinator/pkg/scheduler/plugins/elasticquota/core"
	kit "github.com/koordinator-sh/koordinator/pkg/verifkit"
)

type c01pDiscard struct{}

func (c01pDiscard) Write(p []byte) (int, error) { return len(p), nil }

func init() {
	klog.SetOutput(c01pDiscard{})
	klog.LogToStderr(false)
}

func c01pQ(dim int, v int64) resource.Quantity {
	if dim == 0 {
		return *resource.NewMilliQuantity(v, resource.DecimalSI)
	}
	return *resource.NewQuantity(v, resource.BinarySI)
}

var c01pNames = [2]corev1.ResourceName{corev1.ResourceCPU, corev1.ResourceMemory}

func c01pRL(v [2]int64) corev1.ResourceList {
	return corev1.ResourceList{corev1.ResourceCPU: c01pQ(0, v[0]), corev1.ResourceMemory: c01pQ(1, v[1])}
}

func c01pNewPlugin() *Plugin {
	huge := c01pRL([2]int64{1 << 50, 1 << 55})
	args := &config.ElasticQuotaArgs{DefaultQuotaGroupMax: huge, SystemQuotaGroupMax: huge, QuotaGroupNamespace: "koordinator-system"}
	g := &Plugin{
		pluginArgs:                     args,
		groupQuotaManagersForQuotaTree: map[string]*core.GroupQuotaManager{},
		quotaToTreeMap:                 map[string]string{extension.DefaultQuotaName: "", extension.SystemQuotaName: ""},
		quotaSnapshot:                  map[string]*core.QuotaSnapshot{},
		quotaToTreeMapSnapshot:         map[string]string{},
	}
	g.groupQuotaManager = core.NewGroupQuotaManager("", false, huge, huge)
	return g
}

type c01pGroup struct {
	name, parent string
	isParent     bool
	weight       int
	rv           int
}

func (g *c01pGroup) object() *schedv1alpha1.ElasticQuota {
	g.rv++
	q := &schedv1alpha1.ElasticQuota{
		ObjectMeta: metav1.ObjectMeta{Name: g.name, Namespace: "ns", ResourceVersion: fmt.Sprint(g.rv), Labels: map[string]string{extension.LabelQuotaParent: g.parent}, Annotations: map[string]string{}},
		Spec:       schedv1alpha1.ElasticQuotaSpec{Max: c01pRL([2]int64{1 << 45, 1 << 50}), Min: c01pRL([2]int64{0, 0})},
	}
	if g.isParent {
		q.Labels[extension.LabelQuotaIsParent] = "true"
	}
	if g.weight > 0 {
		q.Annotations[extension.AnnotationSharedWeight] = fmt.Sprintf(`{"cpu":%d,"memory":%d}`, g.weight, g.weight*3)
	}
	return q
}

type c01pPod struct {
	slot, inc, rv int
	label         string
	cur           *corev1.Pod
	req           [2]int64
	np            bool
	node          string
	term          bool
	reserved      bool
	held          string // the group that holds the pod by the rules above; "" = none
}

func (p *c01pPod) asg() bool { return p.held != "" && (p.reserved || p.node != "") && !p.term }

func (p *c01pPod) build() {
	p.rv++
	pod := &corev1.Pod{ObjectMeta: metav1.ObjectMeta{Namespace: "ns", Name: fmt.Sprintf("p%d", p.slot), UID: types.UID(fmt.Sprintf("p%d-%d", p.slot, p.inc)),
		ResourceVersion: fmt.Sprint(p.rv), Labels: map[string]string{extension.LabelQuotaName: p.label}}}
	if p.np {
		pod.Labels[extension.LabelPreemptible] = "false"
	}
	pod.Spec.Containers = []corev1.Container{{Name: "c", Resources: corev1.ResourceRequirements{Requests: c01pRL(p.req)}}}
	pod.Spec.NodeName = p.node
	pod.Status.Phase = corev1.PodPending
	if p.term {
		pod.Status.Phase = corev1.PodSucceeded
	} else if p.node != "" {
		pod.Status.Phase = corev1.PodRunning
	}
	p.cur = pod
}

func (p *c01pPod) String() string {
	return fmt.Sprintf("p%d#%d{label=%s req=%v np=%v node=%q term=%v}", p.slot, p.inc, p.label, p.req, p.np, p.node, p.term)
}

func TestVerifC01Plugin(t *testing.T) {
	mg := k8sfeature.DefaultMutableFeatureGate
	for _, g := range []string{string(features.ElasticQuotaIgnorePodOverhead), string(features.ElasticQuotaIgnoreTerminatingPod), string(features.ElasticQuotaImmediateIgnoreTerminatingPod),
		string(features.ElasticQuotaGuaranteeUsage), string(features.DisableDefaultQuota), string(features.MultiQuotaTree)} {
		_ = mg.Set(g + "=false")
	}
	kit.Run(t, kit.Config{Property: "C01", Unit: "plugin", Quick: 700, Thorough: 20000,
		Rule: "histories of 25-80 operations issued through the real elasticquota Plugin: 2-5 declared groups (one optional parent with a child), 1-2 quota names that are created late, 4-10 labelled pods (also labelled with a late or the default group's name); OnPodAdd/OnPodUpdate (resize, bind echo, terminate, no change)/OnPodDelete, Reserve/Unreserve of unbound pods, late OnQuotaAdd followed by migrateDefaultQuotaGroupsPod, periodic migrate, OnQuotaUpdate; oracle (sums over the surviving pods) after every operation; distinct = (operation kind, #pods held, #assigned, #parked, #late quotas created); non-trivial = case in which a reserved, still unbound pod was moved out of the default group by the periodic migration"},
		func(c *kit.Case) {
			r := c.R
			ctx := context.TODO()
			plugin := c01pNewPlugin()
			groups := map[string]*c01pGroup{}
			create := func(g *c01pGroup) {
				groups[g.name] = g
				plugin.OnQuotaAdd(g.object())
				c.Op("OnQuotaAdd(%s parent=%s isParent=%v)", g.name, g.parent, g.isParent)
			}
			var leaves []string
			for i, n := 0, r.Range(2, 4); i < n; i++ {
				g := &c01pGroup{name: fmt.Sprintf("g%d", i), parent: extension.RootQuotaName, weight: r.Intn(4)}
				create(g)
				leaves = append(leaves, g.name)
			}
			if r.Pct(50) {
				create(&c01pGroup{name: "par", parent: extension.RootQuotaName, isParent: true})
				create(&c01pGroup{name: "kid", parent: "par"})
				leaves = append(leaves, "kid")
			}
			var late []string // not created yet
			for i, n := 0, r.Range(1, 2); i < n; i++ {
				late = append(late, fmt.Sprintf("late%d", i))
			}
			lateCreated := 0
			pods := make([]*c01pPod, r.Range(4, 10))
			for i := range pods {
				pods[i] = &c01pPod{slot: i}
			}
			route := func(label string) string {
				if groups[label] != nil || label == extension.DefaultQuotaName {
					return label
				}
				return extension.DefaultQuotaName
			}
			cpuPool := []int64{0, 1, 500, 1000, 1001, 2000, 4000, 30000}
			memPool := []int64{0, 1, 1 << 20, 1<<30 + 1, 3 << 30}
			migratedReserved := false

			check := func(where string) {
				type agg struct{ req, used, npReq, npUsed [2]int64 }
				sums := map[string]*agg{extension.RootQuotaName: {}, extension.DefaultQuotaName: {}}
				for n := range groups {
					sums[n] = &agg{}
				}
				add := func(a *agg, p *c01pPod) {
					for d := 0; d < 2; d++ {
						a.req[d] += p.req[d]
						if p.np {
							a.npReq[d] += p.req[d]
						}
						if p.asg() {
							a.used[d] += p.req[d]
							if p.np {
								a.npUsed[d] += p.req[d]
							}
						}
					}
				}
				for _, p := range pods {
					if p.held == "" {
						continue
					}
					for n := p.held; ; {
						add(sums[n], p)
						if n == extension.RootQuotaName {
							break
						}
						if g := groups[n]; g != nil {
							n = g.parent
						} else {
							n = extension.RootQuotaName
						}
					}
				}
				names := make([]string, 0, len(sums))
				for n := range sums {
					names = append(names, n)
				}
				sort.Strings(names)
				for _, n := range names {
					qi := plugin.groupQuotaManager.GetQuotaInfoByName(n)
					if qi == nil {
						c.Fail("C01/plugin/group-missing", "%s: the plugin's manager has no group %s", where, n)
					}
					a := sums[n]
					for _, f := range []struct {
						name string
						got  corev1.ResourceList
						want [2]int64
					}{{"used", qi.GetUsed(), a.used}, {"request", qi.GetRequest(), a.req}, {"np-used", qi.GetNonPreemptibleUsed(), a.npUsed}, {"np-request", qi.GetNonPreemptibleRequest(), a.npReq}} {
						for d := 0; d < 2; d++ {
							q, w := f.got[c01pNames[d]], c01pQ(d, f.want[d])
							if q.Cmp(w) != 0 {
								c.Fail("C01/plugin/"+f.name+"/mismatch", "%s: group %s %s[%s] = %s, summed over the surviving pods: %s", where, n, f.name, c01pNames[d], q.String(), w.String())
							}
						}
						c.Count("figure_comparisons", 1)
					}
					if n == extension.RootQuotaName {
						continue
					}
					cache := qi.GetPodCache()
					want := 0
					for _, p := range pods {
						if p.held == n {
							want++
							if _, ok := cache["ns/"+fmt.Sprintf("p%d", p.slot)]; !ok {
								c.Fail("C01/plugin/podcache/missing", "%s: group %s does not hold pod p%d", where, n, p.slot)
							}
							if qi.CheckPodIsAssigned(p.cur) != p.asg() {
								c.Fail("C01/plugin/podcache/assigned", "%s: group %s pod p%d assigned=%v, expected %v", where, n, p.slot, !p.asg(), p.asg())
							}
						}
					}
					if len(cache) != want {
						c.Fail("C01/plugin/podcache/unexpected", "%s: group %s holds %d pods, expected %d", where, n, len(cache), want)
					}
				}
				c.Count("summary_comparisons", 1)
			}

			migrate := func(why string) {
				plugin.migrateDefaultQuotaGroupsPod()
				c.Op("migrateDefaultQuotaGroupsPod() [%s]", why)
				for _, p := range pods {
					if p.held == extension.DefaultQuotaName && route(p.label) != extension.DefaultQuotaName {
						p.held = p.label
						c.Count("pods_migrated_out_of_default", 1)
						if p.reserved && p.node == "" && !p.term {
							c.Count("reserved_unbound_pods_migrated", 1)
							migratedReserved = true
						}
					}
				}
			}

			nops := r.Range(25, 80)
			for op := 0; op < nops; op++ {
				p := kit.Pick(r, pods)
				kind := ""
				switch k := r.Weighted(22, 26, 8, 14, 8, 12, 5, 5); {
				case p.cur == nil:
					p.inc++
					labels := append(append([]string{}, leaves...), late...)
					labels = append(labels, late...) // late names are frequent
					labels = append(labels, extension.DefaultQuotaName)
					p.label, p.req, p.np = kit.Pick(r, labels), [2]int64{kit.Pick(r, cpuPool), kit.Pick(r, memPool)}, r.Pct(30)
					p.node, p.term, p.reserved = "", false, false
					if r.Pct(20) {
						p.node = "n0"
					}
					p.build()
					plugin.OnPodAdd(p.cur)
					p.held = route(p.label)
					c.Op("OnPodAdd(%s) -> held by %s", p, p.held)
					kind = "pod-add"
				case k <= 1:
					old := p.cur
					what := "no change"
					switch {
					case r.Pct(40):
						p.req = [2]int64{kit.Pick(r, cpuPool), kit.Pick(r, memPool)}
						what = "resize"
					case p.node == "" && r.Pct(50):
						p.node, what = "n0", "bind echo"
					case p.node != "" && !p.term && r.Pct(30):
						p.term, what = true, "terminate"
					}
					p.build()
					plugin.OnPodUpdate(old, p.cur)
					c.Op("OnPodUpdate(%s) [%s]", p, what)
					kind = "pod-update"
				case k == 2:
					plugin.OnPodDelete(p.cur)
					c.Op("OnPodDelete(p%d)", p.slot)
					p.cur, p.held, p.reserved = nil, "", false
					kind = "pod-delete"
				case k == 3 && p.node == "" && !p.term:
					if st := plugin.Reserve(ctx, nil, p.cur, "n0"); !st.IsSuccess() {
						c.Fail("C01/plugin/reserve-refused", "Reserve(p%d): %s", p.slot, st.Message())
					}
					c.Op("Reserve(p%d) [held by %s]", p.slot, p.held)
					p.reserved = true
					kind = "reserve"
				case k == 4 && p.node == "":
					plugin.Unreserve(ctx, nil, p.cur, "n0")
					c.Op("Unreserve(p%d)", p.slot)
					p.reserved = false
					kind = "unreserve"
				case k == 5 && len(late) > 0:
					i := r.Intn(len(late))
					name := late[i]
					late = append(late[:i], late[i+1:]...)
					create(&c01pGroup{name: name, parent: extension.RootQuotaName, weight: r.Intn(4)})
					leaves = append(leaves, name)
					lateCreated++
					migrate("the quota " + name + " has just been created")
					kind = "late-quota-create+migrate"
				case k == 6:
					migrate("periodic")
					kind = "migrate-periodic"
				default:
					g := groups[kit.Pick(r, leaves)]
					old := g.object()
					g.weight = r.Range(0, 5)
					plugin.OnQuotaUpdate(old, g.object())
					c.Op("OnQuotaUpdate(%s weight=%d)", g.name, g.weight)
					kind = "quota-update"
				}
				c.Count("op_"+kind, 1)
				check(fmt.Sprintf("after operation %d (%s)", op, kind))
				held, asg, parked := 0, 0, 0
				for _, q := range pods {
					if q.held != "" {
						held++
					}
					if q.asg() {
						asg++
					}
					if q.held == extension.DefaultQuotaName && q.label != extension.DefaultQuotaName {
						parked++
					}
				}
				c.Seen(kind, held, asg, parked, lateCreated)
			}
			if migratedReserved {
				c.NonTrivial()
			}
			if c.K < 2 {
				ops := c.Ops()
				if len(ops) > 12 {
					ops = ops[:12]
				}
				c.Sample(ops)
			}
		})
}
