//go:build verif

package core

// C01 monitors — the two units.
//
//	seq:  sequential histories; the recompute-from-scratch oracle runs after EVERY operation, the
//	      fresh-manager differential and the "ResetQuota is a no-op" oracle every 25 operations
//	      and at the end.
//	conc: the same generators split over 4-8 goroutines working on DISTINCT pods, one goroutine
//	      issuing the quota mutations and one reader (RefreshRuntime / summaries); the oracle runs
//	      at quiescent points (after the WaitGroup), race detector on.

import (
	"fmt"
	"runtime/debug"
	"sort"
	"sync"
	"testing"

	"github.com/koordinator-sh/koordinator/apis/extension"
	kit "github.com/koordinator-sh/koordinator/pkg/verifkit"
)

func (e *c01Env) staleCtx(ctx *c01Ctx, groups []string) {
	if len(groups) == 0 {
		return
	}
	if ctx.staleMigrate == nil {
		ctx.staleMigrate = map[string]bool{}
	}
	for _, g := range groups {
		ctx.staleMigrate[g] = true
		ctx.staleMigrate[extension.RootQuotaName] = true
		for _, a := range e.m.ancestors(g) {
			ctx.staleMigrate[a] = true
		}
	}
}

func (e *c01Env) counts() (held, assigned int) {
	for _, p := range e.m.pods {
		if p.inMgr {
			held++
			if p.asg() {
				assigned++
			}
		}
	}
	return
}

func TestVerifC01Seq(t *testing.T) {
	defer c01PinGates()()
	kit.Run(t, kit.Config{Property: "C01", Unit: "seq", Quick: 400, Thorough: 18000,
		Rule: "histories of 40-200 (6%: 200-400) operations on a real GroupQuotaManager: tree of 3-7 (18%: 8-14, 6%: 1-2) groups, depth limit 3 (20%: 5, 10%: 1), one fixed dimension set per case (cpu+memory, +extended, or any non-empty subset of 5 dimensions), 4-12 (12%: 13-24, 8%: 1-3) pods that also request undeclared dimensions, with init-container / overhead / empty request shapes and rare 2^40..2^50 magnitudes; per case 6-12%: non-default tree id, binding DefaultQuotaGroupMax, system/default groups declaring cpu/memory only, guarantee / ignore-overhead / immediate-ignore-terminating gates, pods on parent groups; pod add/update/label change/delete/reserve/unreserve/migrate/duplicate and unknown events 75%, quota set-max/min/weight/lent/is-parent/re-parent/delete/re-create/reset 20%, nodes 5%; oracle after every operation, fresh-manager and ResetQuota differentials every 25 operations; distinct = (tree shape, operation kind, #pods held, #pods assigned); non-trivial = case with >= 1 re-parent or delete of a group with non-zero subtree totals"},
		func(c *kit.Case) {
			r := c.R
			npods := r.Range(4, 12)
			switch r.Weighted(80, 12, 8) {
			case 1:
				npods = r.Range(13, 24)
			case 2:
				npods = r.Range(1, 3)
			}
			e := c01NewEnv(c, npods)
			defer e.restoreGates()
			m := e.m
			var agg map[string]*c01Agg // model figures before the current operation
			rules := &c01QuotaRules{
				mayBecomeParent: func(n string) bool {
					for _, p := range m.pods {
						if p.parked && p.label == n {
							return false // a pod is on its way into this group
						}
					}
					return m.podsIn(n) == 0
				},
				parkedLabels: func() []string {
					var out []string
					for _, p := range m.pods {
						if p.parked && m.groups[p.label] == nil {
							out = append(out, p.label)
						}
					}
					return out
				},
				mayDelete: func(n string) bool { return true },
				onDelete: func(n string) {
					for _, p := range m.pods {
						if p.inMgr && p.group == n {
							p.drop()
						}
					}
				},
				limited: func(n string) bool { return m.limited(agg, n) },
				nonZero: func(n string) bool {
					a := agg[n]
					return a != nil && !(a.req.isZero() && a.used.isZero() && a.npReq.isZero())
				},
				reuseNames: true,
				maxGroups:  e.maxGroups,
			}
			e.check(&c01Ctx{where: "after building the tree"})
			nops := r.Range(40, 200)
			if r.Pct(6) {
				nops = r.Range(200, 400)
			}
			stage := 0 // reserve -> re-parent -> delete seen in this order
			for op := 0; op < nops; op++ {
				ctx := &c01Ctx{where: fmt.Sprintf("after operation %d", op)}
				kind := ""
				switch r.Weighted(75, 20, 5) {
				case 0:
					ctl := &c01PodCtl{dests: e.dests(), exists: func(n string) bool { return m.groups[n] != nil }}
					if !m.noSysDefault { // a pod whose quota is unknown is parked in the default group
						ctl.lateNames = append([]string{fmt.Sprintf("q%d", e.nextName)}, e.deleted...)
					}
					kind = e.podOp(r, kit.Pick(r, m.pods), ctl)
					e.staleCtx(ctx, ctl.staleMigrate)
					if ctl.lateEvent != nil {
						e.lateResolve(ctl.lateEvent)
						e.heal(ctx.where)
					}
					if ctl.reserved && stage == 0 {
						stage = 1
					}
				case 1:
					agg = m.compute()
					var det *c01Detach
					kind, det = e.quotaOp(r, rules)
					if det != nil {
						ctx.detach = []*c01Detach{det}
						if kind == "quota-delete" && stage == 2 {
							stage = 3
							c.Count("cases_with_reserve_reparent_delete", 1)
						} else if kind != "quota-delete" && stage == 1 {
							stage = 2
						}
					}
				default:
					e.nodeOp(r)
					kind = "node"
				}
				c.Count("op_"+kind, 1)
				ctx.resetOp = kind == "quota-reset" || kind == "quota-toggle-lent" || kind == "quota-toggle-is-parent"
				e.check(ctx)
				e.heal(ctx.where)
				held, asg := e.counts()
				c.Seen(m.shape(), kind, held, asg)
				if (op+1)%25 == 0 {
					e.differential(fmt.Sprintf("after operation %d", op))
				}
			}
			e.differential("at the end of the history")
			if c.K < 2 {
				ops := c.Ops()
				if len(ops) > 14 {
					ops = ops[:14]
				}
				c.Sample(ops)
			}
		})
}

// ---------------------------------------------------------------------------------------------
// concurrent unit
//
// Additional rules that make the state at the quiescent point independent of the interleaving
// (every interleaving of the round's operations must then lead to the same figures):
//   - every pod belongs to exactly one worker goroutine;
//   - before a round the quota goroutine's private groups are fixed: "doomed" groups are the only
//     ones it may delete, "reserved" groups (no pods) the only leaves it may turn into parents,
//     groups it creates get names nobody uses yet; workers send pods only to the remaining
//     stable non-parent groups (and default/system); MigratePod moves pods out of the default
//     group only, which is never deleted;
//   - a pod that is in a doomed group at the end of the round (by the worker's bookkeeping) has
//     been dropped with the group in either order (deleted first: the later event finds no group).

func TestVerifC01Conc(t *testing.T) {
	defer c01PinGates()()
	kit.Run(t, kit.Config{Property: "C01", Unit: "conc", Quick: 200, Thorough: 7000,
		Rule: "3-6 rounds per case on a real GroupQuotaManager under the race detector: 4-8 worker goroutines issue 6-14 pod operations each on disjoint pods (8-16, 12%: 17-28 pods; same per-case configuration draws as the sequential unit), 1-3 same-pod scheduler/informer pairs per round, one goroutine issues 2-6 quota mutations (set-max/min/weight/lent, re-parent, delete of pre-selected groups, create, reset, nodes), one goroutine reads (RefreshRuntime, summaries, snapshot); yields between operations; oracle (recompute from scratch) at each quiescent point, fresh-manager and ResetQuota differentials at the end; distinct = (tree shape, #workers, #pods held, #pods assigned, quota operation kinds of the round); non-trivial = case with >= 1 re-parent or delete of a group with non-zero subtree totals issued concurrently with pod events"},
		func(c *kit.Case) {
			r := c.R
			npods := r.Range(8, 16)
			if r.Pct(12) {
				npods = r.Range(17, 28)
			}
			e := c01NewEnv(c, npods)
			defer e.restoreGates()
			m := e.m
			// start from a populated manager
			for _, p := range m.pods {
				if r.Pct(60) {
					e.podOp(r, p, &c01PodCtl{dests: e.dests()})
				}
			}
			e.check(&c01Ctx{where: "after the sequential prologue"})
			rounds := r.Range(3, 6)
			for round := 0; round < rounds; round++ {
				e.concRound(r, round)
			}
			e.differential("at the end of the case")
			if c.K < 2 {
				ops := c.Ops()
				if len(ops) > 14 {
					ops = ops[:14]
				}
				c.Sample(ops)
			}
		})
}

func (e *c01Env) concRound(r *kit.Rand, round int) {
	c, m := e.c, e.m
	var recs []c01PodAt // where every pod was, with which request, at some time of this round
	for _, p := range m.pods {
		if p.inMgr {
			recs = append(recs, c01PodAt{slot: p.slot, group: p.group, req: p.req})
		}
	}
	// the quota goroutine's private groups
	doomed, reserved := map[string]bool{}, map[string]bool{}
	var stable []string
	for _, n := range m.leaves() {
		switch {
		case len(m.children(n)) == 0 && r.Pct(18) && len(doomed) < 2:
			doomed[n] = true
		case m.podsIn(n) == 0 && r.Pct(25):
			reserved[n] = true
		default:
			stable = append(stable, n)
		}
	}
	for _, n := range m.groupNames() { // a childless parent group may be deleted as well
		if m.groups[n].isParent && len(m.children(n)) == 0 && r.Pct(15) && len(doomed) < 2 {
			doomed[n] = true
		}
	}
	if m.parentPods {
		for _, n := range m.groupNames() {
			if m.groups[n].isParent && !doomed[n] {
				stable = append(stable, n) // SupportParentQuotaSubmitPod: parent groups hold pods too
			}
		}
	}
	dests := append(append([]string{}, stable...), e.special()...)
	nworkers := r.Range(4, 8)
	c.Op("--- round %d: %d workers, stable=%v doomed=%v reserved=%v", round, nworkers, stable, c01Keys(doomed), c01Keys(reserved))

	// same-pod stream: 1-3 pods leave the workers and get a scheduler/informer pair each
	var races []*c01Race
	contested := map[int]bool{}
	nraces := r.Range(1, 3)
	if len(dests) == 0 {
		nraces = 0 // nowhere to attach a pod (non-default tree without a leaf)
	}
	for _, i := range r.Perm(len(m.pods))[:nraces] {
		p := m.pods[i]
		contested[p.slot] = true
		race := e.prepareRace(r, p, dests)
		races = append(races, race)
		recs = append(recs, c01PodAt{slot: p.slot, group: race.sop.g, req: race.oldReq}, c01PodAt{slot: p.slot, group: race.sop.g, req: p.req})
		if race.iop.kind == "label" {
			recs = append(recs, c01PodAt{slot: p.slot, group: race.iop.g2, req: p.req})
		}
	}

	var wg sync.WaitGroup
	guard := func(name string, f func()) {
		wg.Add(1)
		go func() {
			defer wg.Done()
			defer func() {
				if x := recover(); x != nil {
					c.Report("C01/panic/"+name, "panic in the %s goroutine: %v\n%s", name, x, debug.Stack())
				}
			}()
			f()
		}()
	}
	kit.EnableYield(r.Fork())
	ctls := make([]*c01PodCtl, nworkers)
	for w := 0; w < nworkers; w++ {
		w, wr := w, r.Fork()
		ctls[w] = &c01PodCtl{dests: dests, track: true}
		var mine []*c01Pod
		for _, p := range m.pods {
			if p.slot%nworkers == w && !contested[p.slot] {
				mine = append(mine, p)
			}
		}
		nops := wr.Range(6, 14)
		guard("worker", func() {
			if len(mine) == 0 {
				return
			}
			for i := 0; i < nops; i++ {
				kind := e.podOp(wr, kit.Pick(wr, mine), ctls[w])
				c.Count("op_"+kind, 1)
				kit.Yield(fmt.Sprintf("w%d", w))
			}
		})
	}
	// quota goroutine: owns m.groups during the round
	qr := r.Fork()
	var detaches []*c01Detach
	var qkinds []string
	deletedNow := map[string]bool{}
	rules := &c01QuotaRules{
		mayBecomeParent: func(n string) bool { return reserved[n] },
		mayDelete:       func(n string) bool { return doomed[n] },
		onDelete:        func(n string) { deletedNow[n] = true },
		// classification is done after the round (possiblyLimited): the request at the instant of the
		// operation depends on the interleaving
		limited: func(n string) bool { return false },
		nonZero: func(n string) bool {
			s, ok := e.gqm.GetQuotaSummary(n, false)
			if !ok {
				return false
			}
			for _, q := range s.Request {
				if !q.IsZero() {
					return true
				}
			}
			return false
		},
		reuseNames: false,
		maxGroups:  e.maxGroups + 1,
	}
	nq := qr.Range(2, 6)
	saveFail := e.failf
	e.failf = func(sig, format string, a ...any) { c.Report(sig, format, a...) }
	guard("quota", func() {
		for i := 0; i < nq; i++ {
			if qr.Pct(12) {
				e.nodeOp(qr)
				qkinds = append(qkinds, "node")
			} else {
				kind, det := e.quotaOp(qr, rules)
				c.Count("op_"+kind, 1)
				qkinds = append(qkinds, kind)
				if det != nil {
					detaches = append(detaches, det)
				}
			}
			kit.Yield("q")
		}
	})
	// reader goroutine: what the scheduling goroutine and the status controller do meanwhile
	rr := r.Fork()
	readNames := append(append([]string{}, stable...), c01Keys(reserved)...)
	nreads := rr.Range(3, 10)
	guard("reader", func() {
		for i := 0; i < nreads; i++ {
			switch rr.Intn(3) {
			case 0:
				if len(readNames) > 0 {
					e.gqm.RefreshRuntime(kit.Pick(rr, readNames))
				}
			case 1:
				for n, s := range e.gqm.GetQuotaSummaries(true) {
					for _, f := range c01Fields {
						for name, q := range f.get(s) {
							if q.Sign() < 0 {
								c.Report("C01/"+f.name+"/negative", "round %d (concurrent read): group %s %s[%s] = %s is negative", round, n, f.name, name, q.String())
							}
						}
					}
				}
			default:
				e.gqm.GetQuotaSnapshot()
			}
			c.Count("concurrent_reads", 1)
			kit.Yield("r")
		}
	})
	gate := make(chan struct{})
	for _, race := range races {
		race := race
		guard("same-pod-scheduler", func() { <-gate; race.sched(e) })
		guard("same-pod-informer", func() { <-gate; race.informer(e) })
	}
	close(gate) // the barrier: both calls of every pair are released together
	wg.Wait()
	ilv := kit.DisableYield()
	e.failf = saveFail
	// quiescent point: merge the round into the model
	ctx := &c01Ctx{where: fmt.Sprintf("at the quiescent point after round %d", round), detach: detaches}
	for _, p := range m.pods {
		if p.inMgr && deletedNow[p.group] {
			p.drop()
		}
	}
	for _, ctl := range ctls {
		recs = append(recs, ctl.seen...)
		e.staleCtx(ctx, ctl.staleMigrate)
		if len(ctl.staleMigrate) > 0 && len(detaches) > 0 {
			ctx.staleAll = true // the ancestors of the migration's groups changed during the round
		}
	}
	ctx.tainted = map[string]bool{}
	for _, d := range detaches { // in the order they were issued
		if d.possiblyLimited(m.dims, recs) {
			d.limited = true
			c.Count("detach_of_possibly_max_limited_group", 1)
			for a := range d.ancestors {
				ctx.tainted[a] = true
			}
		}
		for g := range d.subtree {
			if ctx.tainted[g] {
				for a := range d.newAncestors {
					ctx.tainted[a] = true
				}
				break
			}
		}
	}
	sums := e.summaries(e.gqm)
	for _, race := range races {
		e.settleRace(ctx, race, sums)
	}
	for g := range ctx.schedCopy {
		ctx.schedCopy[extension.RootQuotaName] = true
		for _, a := range m.ancestors(g) {
			ctx.schedCopy[a] = true
		}
	}
	if len(ctx.schedCopy) > 0 && len(detaches) > 0 {
		ctx.schedAll = true // the ancestors changed during the round
	}
	e.heal(ctx.where) // a same-pod violation with a narrow signature: go on with a fresh manager
	for _, k := range qkinds {
		if k == "quota-reset" || k == "quota-toggle-lent" || k == "quota-toggle-is-parent" {
			ctx.resetOp, ctx.resetLoose = true, true
		}
	}
	sort.Strings(qkinds)
	c.Count("rounds", 1)
	c.Seen("interleaving", ilv)
	c01IlvMu.Lock()
	if !c01IlvSeen[ilv] {
		c01IlvSeen[ilv] = true
		c.Count("distinct_interleaving_signatures", 1)
	}
	c01IlvMu.Unlock()
	e.check(ctx)
	e.heal(ctx.where)
	held, asg := e.counts()
	c.Seen(m.shape(), nworkers, held, asg, qkinds)
}

// evidence only: order in which the goroutines passed their yield points, hashed per round
var (
	c01IlvMu   sync.Mutex
	c01IlvSeen = map[string]bool{}
)

func c01Keys(m map[string]bool) []string {
	out := make([]string, 0, len(m))
	for k := range m {
		out = append(out, k)
	}
	sort.Strings(out)
	return out
}
