//go:build verif

package core

// C01 monitors — operation generators (pod events, quota mutations) shared by the sequential and
// the concurrent unit. Every operation is applied to the real manager and to the model's objects;
// the model never keeps a derived figure.

import (
	"fmt"

	v1 "k8s.io/api/core/v1"
	quotav1 "k8s.io/apiserver/pkg/quota/v1"

	"github.com/koordinator-sh/koordinator/apis/extension"
	kit "github.com/koordinator-sh/koordinator/pkg/verifkit"
)

// ---------------------------------------------------------------------------------------------
// pod operations

// c01PodCtl restricts pod operations (concurrent unit) and collects classification facts.
type c01PodCtl struct {
	dests        []string // groups a pod may be sent to (existing non-parent groups, default, system)
	staleMigrate []string // out/in groups of migrations that used a stale cached pod object
	reserved     bool     // a reserve took effect
	track        bool     // record where the pod was after each operation (concurrent unit)
	seen         []c01PodAt
	// late quotas (sequential unit only): names a new pod's quota label may carry although no such
	// group exists (yet); exists tells whether a group of that name exists now; lateEvent is set when
	// an event was routed to the pod's own, late-created quota while the default group held the pod
	lateNames []string
	exists    func(name string) bool
	lateEvent *c01LateEvent
}

// c01LateEvent: see lateResolve.
type c01LateEvent struct {
	p       *c01Pod
	kind    string
	deleted bool
}

func c01PickDest(r *kit.Rand, dests []string, not string) string {
	cands := make([]string, 0, len(dests))
	for _, d := range dests {
		if d != not {
			cands = append(cands, d)
		}
	}
	if len(cands) == 0 {
		return ""
	}
	return kit.Pick(r, cands)
}

func (p *c01Pod) drop() {
	p.inMgr, p.group, p.reserved, p.parked = false, "", false, false
}

// podOp issues one pod-related call for pod p. It only touches p and the manager, so that the
// concurrent unit can run it from the goroutine owning p. Returns the kind of operation.
func (e *c01Env) podOp(r *kit.Rand, p *c01Pod, ctl *c01PodCtl) string {
	kind := e.podOp1(r, p, ctl)
	if ctl.track && p.inMgr {
		ctl.seen = append(ctl.seen, c01PodAt{slot: p.slot, group: p.group, req: p.req})
	}
	return kind
}

func (e *c01Env) podOp1(r *kit.Rand, p *c01Pod, ctl *c01PodCtl) string {
	c, gqm := e.c, e.gqm
	p.touched = true
	if p.cur == nil {
		if p.last != nil && r.Pct(12) {
			// events about a pod that is gone: delete twice / late reserve or unreserve (the scheduling
			// cycle ends after the pod was deleted)
			g := c01PickDest(r, ctl.dests, "")
			switch r.Intn(3) {
			case 0:
				gqm.OnPodDelete(g, p.last)
				c.Op("OnPodDelete(%s, p%d) [already deleted]", g, p.slot)
			case 1:
				gqm.ReservePod(g, p.last)
				c.Op("ReservePod(%s, p%d) [already deleted]", g, p.slot)
			default:
				gqm.UnreservePod(g, p.last)
				c.Op("UnreservePod(%s, p%d) [already deleted]", g, p.slot)
			}
			return "pod-gone-event"
		}
		// create
		p.inc++
		p.req, p.np, p.node, p.term, p.undecl = c01GenReq(r), r.Pct(30), "", false, kit.Pick(r, []int64{0, 0, 1, 4})
		if r.Pct(25) { // already bound when first seen (fail-over, static pods)
			p.node = fmt.Sprintf("n%d", r.Intn(4))
			p.term = r.Pct(15)
		}
		if len(ctl.lateNames) > 0 && r.Pct(9) {
			// the pod names a quota the scheduler does not know (yet): Plugin.OnPodAdd routes it to the
			// default group (getPodAssociateQuotaNameAndTreeID)
			p.label = kit.Pick(r, ctl.lateNames)
			p.build(r, p.label, false)
			gqm.OnPodAdd(extension.DefaultQuotaName, p.cur)
			c.Op("OnPodAdd(%s, %s) [its quota %s is unknown: parked in the default group]", extension.DefaultQuotaName, p, p.label)
			p.inMgr, p.group, p.reserved, p.parked = true, extension.DefaultQuotaName, false, true
			return "pod-add-parked"
		}
		g := c01PickDest(r, ctl.dests, "")
		if g == "" || r.Pct(4) {
			g = c01Ghost
		}
		p.build(r, g, r.Pct(5))
		if r.Pct(12) {
			// update before add: the add event was not delivered to this group
			old := p.cur.DeepCopy()
			gqm.OnPodUpdate(g, g, p.cur, old)
			c.Op("OnPodUpdate(%s, %s, %s) [update before add]", g, g, p)
		} else {
			gqm.OnPodAdd(g, p.cur)
			c.Op("OnPodAdd(%s, %s)", g, p)
		}
		if g != c01Ghost && !p.ignored() {
			p.inMgr, p.group, p.reserved = true, g, false
		}
		if p.ignored() {
			c.Count("terminating_pod_ignored", 1)
		}
		return "pod-add"
	}
	if !p.inMgr {
		// the pod exists but the manager does not hold it (its group was deleted / never existed)
		switch r.Weighted(60, 15, 20, 5) {
		case 0:
			g := c01PickDest(r, ctl.dests, "")
			if g == "" {
				g = c01Ghost
			}
			oldG := g
			if r.Pct(40) {
				oldG = c01Ghost
			}
			old := p.cur
			if r.Pct(30) {
				p.req = c01GenReq(r)
			}
			p.build(r, g, false)
			gqm.OnPodUpdate(g, oldG, p.cur, old)
			c.Op("OnPodUpdate(%s, %s, %s) [pod not held]", g, oldG, p)
			if g != c01Ghost && !p.ignored() {
				p.inMgr, p.group, p.reserved = true, g, false
			}
			return "pod-update-not-held"
		case 1:
			old := p.cur
			p.build(r, c01Ghost, false)
			gqm.OnPodUpdate(c01Ghost, c01Ghost, p.cur, old)
			c.Op("OnPodUpdate(ghost, ghost, %s)", p)
			return "pod-update-unknown-group"
		case 2:
			g := c01PickDest(r, ctl.dests, "")
			gqm.OnPodDelete(g, p.cur)
			c.Op("OnPodDelete(%s, p%d) [pod not held]", g, p.slot)
			p.cur = nil
			return "pod-delete-not-held"
		default:
			g := c01PickDest(r, ctl.dests, "")
			gqm.ReservePod(g, p.cur)
			c.Op("ReservePod(%s, p%d) [pod not held]", g, p.slot)
			return "pod-reserve-not-held"
		}
	}
	if p.parked && ctl.exists != nil && ctl.exists(p.label) {
		return e.lateOp(r, p, ctl)
	}
	kind := r.Weighted(32, 9, 10, 16, 11, 0, 4)
	if p.group == extension.DefaultQuotaName && !p.parked && r.Pct(30) {
		// MigratePod as the plugin's periodic migrateDefaultQuotaGroupsPod issues it: a pod parked in the
		// default group (its own quota was unknown when it arrived) moves to its quota once that exists
		kind = 5
	}
	if (kind == 3 || kind == 4) && p.node != "" {
		kind = 0 // a bound pod is not in a scheduling cycle
	}
	if kind == 3 && p.term {
		kind = 0 // a terminated pod is not scheduled (an Unreserve can still arrive: the cycle was in flight)
	}
	switch kind {
	case 0: // update within the group
		old := p.cur
		what := ""
		if r.Pct(50) {
			p.req = c01GenReq(r)
			what += " req"
			if r.Pct(30) {
				p.undecl = kit.Pick(r, []int64{0, 1, 4})
			}
		}
		if p.node == "" && r.Pct(30) {
			p.node = fmt.Sprintf("n%d", r.Intn(4))
			what += " bind"
		}
		if !p.term && ((p.node != "" && r.Pct(12)) || (p.node == "" && r.Pct(3))) {
			p.term = true // Succeeded/Failed; an unbound pod can fail too (e.g. rejected by the kubelet-less paths, preempted while pending)
			what += " terminate"
		}
		lbl := p.group
		if p.parked {
			lbl = p.label // still unknown: both names route to the default group
		}
		p.build(r, lbl, r.Pct(8))
		gqm.OnPodUpdate(p.group, p.group, p.cur, old)
		c.Op("OnPodUpdate(%s, %s, %s) [%s]", p.group, p.group, p, what)
		if p.ignored() {
			p.drop() // ElasticQuotaImmediateIgnoreTerminatingPod: the update removes the terminating pod
			c.Count("terminating_pod_ignored", 1)
			return "pod-update-terminating-ignored"
		}
		if what == "" {
			return "pod-update-nochange"
		}
		return "pod-update"
	case 1: // the quota label changes
		g := c01PickDest(r, ctl.dests, p.group)
		if g == "" || r.Pct(5) {
			g = c01Ghost
		}
		old, oldG := p.cur, p.group
		if r.Pct(25) {
			p.req = c01GenReq(r)
		}
		p.parked = false
		p.build(r, g, false)
		gqm.OnPodUpdate(g, oldG, p.cur, old)
		c.Op("OnPodUpdate(%s, %s, %s) [quota label changed]", g, oldG, p)
		if g == c01Ghost || p.ignored() {
			p.drop()
		} else {
			p.group, p.reserved = g, false
		}
		return "pod-update-cross"
	case 2:
		gqm.OnPodDelete(p.group, p.cur)
		c.Op("OnPodDelete(%s, p%d)", p.group, p.slot)
		if r.Pct(20) {
			gqm.OnPodDelete(p.group, p.cur)
			c.Op("OnPodDelete(%s, p%d) [twice]", p.group, p.slot)
		}
		p.drop()
		p.cur = nil
		return "pod-delete"
	case 3:
		gqm.ReservePod(p.group, p.cur)
		c.Op("ReservePod(%s, p%d) [assigned before=%v]", p.group, p.slot, p.asg())
		if !p.asg() {
			ctl.reserved = true
		}
		p.reserved = true
		return "pod-reserve"
	case 4:
		gqm.UnreservePod(p.group, p.cur)
		c.Op("UnreservePod(%s, p%d) [assigned before=%v]", p.group, p.slot, p.asg())
		p.reserved = false
		return "pod-unreserve"
	case 5:
		var userLeaves []string
		for _, d := range ctl.dests {
			if d != extension.DefaultQuotaName && d != extension.SystemQuotaName {
				userLeaves = append(userLeaves, d)
			}
		}
		in := c01PickDest(r, userLeaves, p.group)
		if in == "" {
			return "pod-migrate-skipped"
		}
		var cached *v1.Pod
		if qi := gqm.GetQuotaInfoByName(p.group); qi != nil {
			cached = qi.GetPodCache()[p.key()]
		}
		if cached == nil {
			// the oracle that follows reports the missing pod
			c.Count("migrate_skipped_pod_not_cached", 1)
			return "pod-migrate-skipped"
		}
		// classification only: the cached object is the one of the add event; MigratePod books its requests
		stale := cached != p.cur && !quotav1.Equals(PodRequests(cached), PodRequests(p.cur))
		out := p.group
		gqm.MigratePod(cached, out, in)
		c.Op("MigratePod(cached p%d rv=%s, %s, %s) [cached object stale=%v]", p.slot, cached.ResourceVersion, out, in, stale)
		p.group = in
		if stale {
			ctl.staleMigrate = append(ctl.staleMigrate, out, in)
			c.Count("migrate_with_stale_cached_object", 1)
		}
		return "pod-migrate"
	default:
		gqm.OnPodAdd(p.group, p.cur)
		c.Op("OnPodAdd(%s, p%d) [duplicate]", p.group, p.slot)
		return "pod-add-duplicate"
	}
}

// lateOp: the pod is held by the default group because its quota was unknown when it arrived, and
// a group of that name exists now. These are the calls the plugin issues from here on
// (pod_handler.go, plugin.go Reserve/Unreserve, plugin_helper.go): every event is routed by
// getPodAssociateQuotaNameAndTreeID, which looks the pod's label up in the quotas known AT EVENT TIME,
// for the old and the new object of an update alike - so the event names the pod's own quota although
// the default group holds the pod; the periodic migrateDefaultQuotaGroupsPod issues
// MigratePod(cached object, default, own quota).
func (e *c01Env) lateOp(r *kit.Rand, p *c01Pod, ctl *c01PodCtl) string {
	c, gqm, q := e.c, e.gqm, p.label
	kind := r.Weighted(38, 12, 14, 6, 30)
	if (kind == 2 || kind == 3) && (p.node != "" || (kind == 2 && p.term)) {
		kind = 0
	}
	c.Count("late_quota_window_events", 1)
	switch kind {
	case 0:
		old, what := p.cur, ""
		if r.Pct(50) {
			p.req = c01GenReq(r)
			what += " req"
		}
		if p.node == "" && r.Pct(30) {
			p.node = fmt.Sprintf("n%d", r.Intn(4))
			what += " bind"
		}
		if !p.term && p.node != "" && r.Pct(10) {
			p.term = true
			what += " terminate"
		}
		p.build(r, q, false)
		gqm.OnPodUpdate(q, q, p.cur, old)
		c.Op("OnPodUpdate(%s, %s, %s) [%s; own quota created late, pod held by the default group]", q, q, p, what)
		ctl.lateEvent = &c01LateEvent{p: p, kind: "update"}
		return "pod-late-update"
	case 1:
		gqm.OnPodDelete(q, p.cur)
		c.Op("OnPodDelete(%s, p%d) [own quota created late, pod held by the default group]", q, p.slot)
		ctl.lateEvent = &c01LateEvent{p: p, kind: "delete", deleted: true}
		return "pod-late-delete"
	case 2:
		gqm.ReservePod(q, p.cur)
		c.Op("ReservePod(%s, p%d) [own quota created late, pod held by the default group]", q, p.slot)
		p.reserved = true
		ctl.lateEvent = &c01LateEvent{p: p, kind: "reserve"}
		return "pod-late-reserve"
	case 3:
		gqm.UnreservePod(q, p.cur)
		c.Op("UnreservePod(%s, p%d) [own quota created late, pod held by the default group]", q, p.slot)
		p.reserved = false
		ctl.lateEvent = &c01LateEvent{p: p, kind: "unreserve"}
		return "pod-late-unreserve"
	default:
		var cached *v1.Pod
		if qi := gqm.GetQuotaInfoByName(extension.DefaultQuotaName); qi != nil {
			cached = qi.GetPodCache()[p.key()]
		}
		if cached == nil {
			c.Count("migrate_skipped_pod_not_cached", 1)
			return "pod-migrate-skipped"
		}
		gqm.MigratePod(cached, extension.DefaultQuotaName, q)
		c.Op("MigratePod(cached p%d rv=%s, %s, %s) [periodic migrate to the late-created quota]", p.slot, cached.ResourceVersion, extension.DefaultQuotaName, q)
		p.group, p.parked = q, false
		c.Count("late_quota_settled_by_migrate", 1)
		return "pod-late-migrate"
	}
}

const c01SigLate = "C01/late-quota/event-routed-to-own-quota-while-default-holds-pod"

// lateResolve decides the event of lateOp. The statement fixes that the pod is counted exactly once
// (and not at all after its deletion) but not in which of the two groups it sits until the
// periodic migrate has run, so the placement is read from the manager: held by exactly one of
// {default group, own quota} -> the model adopts that group and the usual oracle follows; held by
// both, by none, still held after its deletion, or a reserve/unreserve that did not take effect ->
// violation with the narrow signature (one root cause: the event was routed by the label, not by
// where the pod is held). A reservation may or may not survive the move (MigratePod carries it,
// a label change does not): the observed flag is adopted.
func (e *c01Env) lateResolve(ev *c01LateEvent) {
	p, c := ev.p, e.c
	q := p.label
	held := func(g string) (bool, bool) {
		qi := e.gqm.GetQuotaInfoByName(g)
		if qi == nil {
			return false, false
		}
		if _, ok := qi.GetPodCache()[p.key()]; !ok {
			return false, false
		}
		return true, qi.CheckPodIsAssigned(p.cur)
	}
	inDef, asgDef := held(extension.DefaultQuotaName)
	inQ, asgQ := held(q)
	where := fmt.Sprintf("pod p%d (quota label %s, parked in %s because %s did not exist when it arrived; %s exists now) after the %s event routed to %s", p.slot, q, extension.DefaultQuotaName, q, q, ev.kind, q)
	if ev.deleted {
		p.cur = nil
		p.drop()
		if inDef || inQ {
			e.knownDefect(c01SigLate, fmt.Sprintf("%s: the deleted pod is still held (default group: %v, %s: %v) and keeps counting", where, inDef, q, inQ))
		}
		return
	}
	switch {
	case inDef && inQ:
		p.group, p.parked = q, false
		e.knownDefect(c01SigLate, fmt.Sprintf("%s: the pod is held, and counted, by the default group AND by %s", where, q))
		return
	case !inDef && !inQ:
		c.Fail("C01/late-quota/pod-lost", "%s: the pod is held by neither group", where)
	case inQ:
		p.group, p.parked = q, false
		c.Count("late_quota_settled_by_event", 1)
	}
	obs := asgDef
	if inQ {
		obs = asgQ
	}
	if ev.kind == "reserve" && !obs {
		e.knownDefect(c01SigLate, fmt.Sprintf("%s: the reservation did not take effect (the pod does not count as used)", where))
		return
	}
	if ev.kind == "unreserve" && obs && p.node == "" {
		e.knownDefect(c01SigLate, fmt.Sprintf("%s: the reservation was not released (the pod keeps counting as used)", where))
		return
	}
	if p.reserved && p.node == "" && !p.term {
		p.reserved = obs
	}
}

// ---------------------------------------------------------------------------------------------
// quota operations

// c01QuotaRules carries the causal preconditions that depend on the pods (owned by other
// goroutines in the concurrent unit).
type c01QuotaRules struct {
	mayBecomeParent func(name string) bool // the group holds no pod
	mayDelete       func(name string) bool
	onDelete        func(name string)      // the model drops the group's pods
	limited         func(name string) bool // classification: the group's request exceeds its max
	nonZero         func(name string) bool // evidence: the group's subtree totals are non-zero
	reuseNames      bool
	maxGroups       int
	parkedLabels    func() []string // labels of parked pods whose quota does not exist (sequential unit), else nil
}

func (e *c01Env) detachFacts(rules *c01QuotaRules, name string) *c01Detach {
	d := &c01Detach{x: name, ancestors: map[string]bool{}, limited: rules.limited(name), subtree: map[string]bool{}}
	for _, a := range e.m.ancestors(name) {
		d.ancestors[a] = true
	}
	d.maxAtOp = e.m.groups[name].max
	for n, g := range e.m.groups {
		if e.m.inSubtree(n, name) {
			d.subtree[n] = true
			if !g.lent && g.minSet {
				d.minSum = d.minSum.add(g.min)
			}
		}
	}
	if d.limited {
		e.c.Count("detach_of_max_limited_group", 1)
	}
	if rules.nonZero(name) {
		e.c.Count("detach_with_nonzero_subtree", 1)
		e.c.NonTrivial()
	}
	return d
}

// reparentTarget returns a new parent for g (root or a parent group, not the current one, not in
// g's subtree, depth stays <= the case's limit) or "".
func (e *c01Env) reparentTarget(r *kit.Rand, g *c01Group) string {
	h := e.m.height(g.name)
	var cands []string
	if g.parent != extension.RootQuotaName {
		cands = append(cands, extension.RootQuotaName)
	}
	for _, n := range e.m.groupNames() {
		pg := e.m.groups[n]
		if pg.isParent && n != g.name && n != g.parent && !e.m.inSubtree(n, g.name) && e.m.depth(n)+1+h <= e.maxDepth {
			cands = append(cands, n)
		}
	}
	if len(cands) == 0 {
		return ""
	}
	return kit.Pick(r, cands)
}

func (e *c01Env) quotaOp(r *kit.Rand, rules *c01QuotaRules) (string, *c01Detach) {
	c, m := e.c, e.m
	names := m.groupNames()
	kind := r.Weighted(22, 14, 6, 8, 6, 20, 6, 10, 10, 4, 2, 2, 6)
	if len(names) == 0 {
		kind = 8
	}
	var g *c01Group
	if len(names) > 0 {
		g = m.groups[kit.Pick(r, names)]
	}
	setMax := func(g *c01Group) {
		for _, d := range m.dims {
			if r.Pct(70) {
				g.max[d] = kit.Pick(r, c01MaxPool[d])
			}
			if g.min[d] > g.max[d] {
				g.min[d] = g.max[d]
			}
		}
	}
	switch kind {
	case 0:
		setMax(g)
		e.applyQuota(g, "set-max")
		return "quota-set-max", nil
	case 1:
		for _, d := range m.dims {
			if r.Pct(70) {
				g.min[d] = kit.Pick(r, c01ReqPool[d])
			}
			if r.Pct(15) {
				g.min[d] = g.max[d]
			}
			if g.min[d] > g.max[d] {
				g.min[d] = g.max[d]
			}
			if g.min[d] > 1<<45 {
				g.min[d] = 1 << 45
			}
		}
		g.minSet = g.isParent || !r.Pct(10)
		e.applyQuota(g, "set-min")
		return "quota-set-min", nil
	case 2:
		g.weight = r.Range(0, 9)
		e.applyQuota(g, "set-weight")
		return "quota-set-weight", nil
	case 3:
		g.lent = !g.lent
		e.applyQuota(g, "toggle-lent")
		return "quota-toggle-lent", nil
	case 4:
		var cands []*c01Group
		for _, n := range names {
			x := m.groups[n]
			if x.isParent && len(m.children(n)) == 0 {
				cands = append(cands, x)
			}
			if !x.isParent && rules.mayBecomeParent(n) && m.depth(n) < e.maxDepth {
				cands = append(cands, x)
			}
		}
		if len(cands) == 0 {
			g.weight = r.Range(0, 9)
			e.applyQuota(g, "set-weight")
			return "quota-set-weight", nil
		}
		g = kit.Pick(r, cands)
		g.isParent = !g.isParent
		if g.isParent {
			g.minSet = true
		}
		e.applyQuota(g, "toggle-is-parent")
		return "quota-toggle-is-parent", nil
	case 5, 6:
		// re-parent; case 6 changes other fields in the same update
		order := r.Perm(len(names))
		for _, i := range order {
			x := m.groups[names[i]]
			if t := e.reparentTarget(r, x); t != "" {
				det := e.detachFacts(rules, x.name)
				old := x.parent
				x.parent = t
				x.rootLabel = r.Bool()
				what := "re-parent"
				if kind == 6 {
					setMax(x)
					if r.Pct(50) {
						x.lent = !x.lent
					}
					what = "re-parent+update"
				}
				det.newAncestors = map[string]bool{}
				for _, a := range e.m.ancestors(x.name) {
					det.newAncestors[a] = true
				}
				c.Op("re-parent %s: %s -> %s (max-limited before=%v)", x.name, old, t, det.limited)
				e.applyQuota(x, what)
				return "quota-" + what, det
			}
		}
		setMax(g)
		e.applyQuota(g, "set-max")
		return "quota-set-max", nil
	case 7:
		var cands []string
		for _, n := range names {
			if len(m.children(n)) == 0 && rules.mayDelete(n) {
				cands = append(cands, n)
			}
		}
		if len(cands) == 0 {
			e.applyQuota(g, "noop")
			return "quota-noop", nil
		}
		x := m.groups[kit.Pick(r, cands)]
		det := e.detachFacts(rules, x.name)
		err := e.gqm.DeleteQuota(x.object(m.dims))
		c.Op("DeleteQuota(%s) (max-limited before=%v) -> err=%v", x, det.limited, err)
		if err != nil {
			e.failf("C01/quota/delete-refused", "DeleteQuota(%s) returned %v", x.name, err)
		}
		delete(m.groups, x.name)
		e.deleted = append(e.deleted, x.name)
		rules.onDelete(x.name)
		return "quota-delete", det
	case 8:
		if len(names) >= rules.maxGroups {
			if g == nil {
				return "quota-none", nil
			}
			e.applyQuota(g, "noop")
			return "quota-noop", nil
		}
		ng := &c01Group{lent: r.Pct(60), rootLabel: r.Bool(), isParent: r.Pct(30)}
		var wanted []string
		if rules.parkedLabels != nil {
			wanted = rules.parkedLabels()
		}
		if len(wanted) > 0 && r.Pct(75) {
			// the quota some parked pod is waiting for (a leaf: pods are not attached to parent groups)
			ng.name, ng.isParent = kit.Pick(r, wanted), false
			if ng.name == fmt.Sprintf("q%d", e.nextName) {
				e.freshName()
			}
			for i, d := range e.deleted {
				if d == ng.name {
					e.deleted = append(e.deleted[:i], e.deleted[i+1:]...)
					break
				}
			}
		} else if rules.reuseNames && len(e.deleted) > 0 && r.Pct(60) {
			i := r.Intn(len(e.deleted))
			ng.name = e.deleted[i]
			e.deleted = append(e.deleted[:i], e.deleted[i+1:]...)
		} else {
			ng.name = e.freshName()
		}
		// parent chosen with the environment's rule (root or a parent group, depth within the case's limit)
		cands := []string{extension.RootQuotaName}
		for _, n := range names {
			if m.groups[n].isParent && m.depth(n)+1 <= e.maxDepth {
				cands = append(cands, n, n)
			}
		}
		for _, w := range wanted {
			if w == ng.name {
				ng.isParent = false // a parked pod names it: pods are not attached to parent groups
			}
		}
		ng.parent = kit.Pick(r, cands)
		if r.Pct(40) {
			ng.weight = r.Range(1, 9)
		}
		c01GenLimits(r, ng, m.dims)
		e.applyQuota(ng, "create")
		return "quota-create", nil
	case 9:
		// the same object again (informer resync)
		g.rv--
		e.applyQuota(g, "noop")
		return "quota-noop", nil
	case 10:
		ghost := &c01Group{name: c01Ghost, parent: extension.RootQuotaName}
		err := e.gqm.DeleteQuota(ghost.object(m.dims))
		c.Op("DeleteQuota(ghost) -> err=%v", err)
		return "quota-delete-unknown", nil
	case 11:
		e.gqm.ResetQuota()
		c.Op("ResetQuota()")
		return "quota-reset", nil
	default:
		rt := e.gqm.RefreshRuntime(g.name)
		c.Op("RefreshRuntime(%s) -> %s", g.name, c01RL(rt))
		return "quota-refresh-runtime", nil
	}
}
