//go:build verif

package core

// C01 monitors — shared part: the shadow model (a *specification*: every figure is recomputed from
// the surviving quota objects and pods, never maintained by deltas), the oracle that compares a
// real GroupQuotaManager with it, the two differential oracles (fresh manager, ResetQuota is a
// no-op) and the generators of quota objects / pod objects. See /verif/DESIGN.md section 4, C01.
//
// Domain (causal rules; every generated history obeys them, they are what the real system can
// produce; feature gates at their defaults except where a case switches one on, see c01NewEnv):
//
//   - all user groups declare ONE fixed set of resource dimensions in Max (the property's
//     quantifier; 1-5 dimensions per case); the system and default group declare the same set or,
//     as with the plugin's default args, only its cpu/memory part (every group's figures are masked
//     to the dimensions that group declares); Min keys are a subset of Max keys, Min <= Max per key, a parent
//     group carries all keys in Min (a child's Min keys must be included in its parent's);
//     the "sum of children's min <= parent's min" rule of the webhook is NOT imposed: it can be
//     switched off per object (label allow-force-update) and the accounting does not read it;
//   - when a quota is created or re-parented its parent exists and is a parent group; no cycles;
//     a group that holds pods is not turned into a parent group, a group with child groups is not
//     turned into a leaf and is not deleted (webhook, C15). Deleting a leaf that still holds pods IS
//     generated (the scheduler does not forbid it; pods bound through a namespace are not seen by
//     the webhook): the model then drops those pods from every aggregate;
//   - pods are attached to non-parent groups only (SupportParentQuotaSubmitPod is off by default; on
//     in 9% of the cases: parent groups hold pods too) or to the system / default group; the non-preemptible label of a pod never changes;
//   - informer discipline: the "old" object of an update/delete event and the object of a
//     reserve/unreserve call is the version delivered last; the old quota name of an update is the
//     group the manager holds the pod in; spec.nodeName is set once and never changes;
//     reserve/unreserve concern pods whose last delivered version has no node name (a bound pod
//     is not in a scheduling cycle); a duplicate add carries the last delivered version;
//   - MigratePod is called the way its only production caller calls it (plugin_helper.go,
//     migrateDefaultQuotaGroupsPod): for a pod held by the default group, with the pod object taken
//     from that group's own pod cache, into an existing non-parent group.
//
// Choices the statement leaves open, taken from the code's documented behaviour:
//
//   - "assigned" (counts as used): (the scheduler has reserved the pod — ReservePod not undone by
//     UnreservePod — OR the latest delivered version carries a node name) AND the latest delivered
//     version is not Succeeded/Failed. A terminated pod still counts in request: OnPodAdd books the
//     request of any pod it is given and OnPodUpdate keeps it, so the incremental and the from-scratch
//     path agree (asserted by the oracle and by the fresh-manager differential). A pod whose quota
//     label changes is removed from the old group and added to the new one like a new pod (a
//     reservation is not carried over); MigratePod carries the flag over;
//   - Request(g) = ChildRequest(g) raised to Min(g), per key of Min, iff g does not lend;
//     a parent is credited min(Request(child), Max(child)) per dimension;
//     non-preemptible request/used are plain subtree sums (never max-limited);
//   - root.Request = sum of the max-limited requests of its children including system and default.
//
// Signatures. Every mismatch between a reported figure and the recomputation is a violation
// "C01/<figure>/mismatch" that ends the case, except five that get a narrow signature because their
// cause is established (see the report of this harness and /verif/out/proposed-fixes/C01-*.diff):
//
//   - C01/request/old-ancestor-after-detaching-max-limited-child: request/child-request of an OLD
//     ancestor of group x is too SMALL right after x was re-parented or deleted while x's request
//     exceeded x's max (deleteQuotaNoLock takes the un-limited request back from a parent that was
//     credited the max-limited one; the clamp at zero hides the sign);
//   - C01/migrate/pod-updated-since-cached: a figure on the path of a MigratePod whose pod object
//     (read back from the pod cache, as the plugin does) is older than the last update of the pod
//     (OnPodUpdate books the new requests but leaves the add-time object in the cache).
//
//   - C01/late-quota/event-routed-to-own-quota-while-default-holds-pod (c01_ops_test.go, lateOp and
//     lateResolve): a pod parked in the default group because its quota did not exist yet; once the
//     quota exists the plugin routes the pod's events by the label, so an update adds the pod to its
//     quota while the default group still counts it (and the periodic MigratePod then adds it once
//     more), a delete leaves it in the default group for good, a reserve/unreserve is lost.
//
//   - C01/same-pod/reserve-or-unreserve-after-resize-books-scheduler-copy and
//     C01/same-pod/unreserve-after-bind-echo-unassigns-bound-pod: see c01_samepod_test.go.
//
//   - C01/request/root-after-rebuild-counts-unlimited-default-group-request: see c01SigRootReset.
//
// (The first two were fixed in /repo by 69e1989 and 6b1d919; the classification stays, it costs
// nothing on a tree where they do not fire.)
//
// The classification only selects the signature, never the verdict. In the sequential unit it is
// exact (facts of the single operation just executed). In the concurrent unit the instant of a
// quota operation relative to the pod events is unknown, so "x was max-limited" is replaced by
// "x may have been" (largest requests the pods of x's subtree had during the round > x's max) and
// the deficit is followed through later re-parents of the same round. Violations with these
// signatures are reported without ending the case; the drifted manager is then replaced by a fresh
// one fed the surviving objects (heal) so that the rest of the history stays monitored.

import (
	"fmt"
	"sort"
	"strings"

	v1 "k8s.io/api/core/v1"
	"k8s.io/apimachinery/pkg/api/resource"
	metav1 "k8s.io/apimachinery/pkg/apis/meta/v1"
	"k8s.io/apimachinery/pkg/types"
	k8sfeature "k8s.io/apiserver/pkg/util/feature"
	"k8s.io/component-base/featuregate"
	"k8s.io/klog/v2"

	"github.com/koordinator-sh/koordinator/apis/extension"
	"github.com/koordinator-sh/koordinator/apis/thirdparty/scheduler-plugins/pkg/apis/scheduling/v1alpha1"
	"github.com/koordinator-sh/koordinator/pkg/features"
	kit "github.com/koordinator-sh/koordinator/pkg/verifkit"
)

func init() {
	klog.SetOutput(c01Discard{})
	klog.LogToStderr(false)
}

type c01Discard struct{}

func (c01Discard) Write(p []byte) (int, error) { return len(p), nil }

// c01PinGates sets every feature gate the accounting code reads to its default (off) and returns
// the restore function. With them off a deletion timestamp does not change a pod's treatment and
// the wall clock is never consulted by shouldBeIgnored.
func c01PinGates() func() {
	gates := []featuregate.Feature{features.ElasticQuotaIgnorePodOverhead, features.ElasticQuotaIgnoreTerminatingPod,
		features.ElasticQuotaImmediateIgnoreTerminatingPod, features.ElasticQuotaGuaranteeUsage}
	mg := k8sfeature.DefaultMutableFeatureGate
	var restore []string
	for _, g := range gates {
		restore = append(restore, fmt.Sprintf("%s=%v", g, mg.Enabled(g)))
		_ = mg.Set(fmt.Sprintf("%s=false", g))
	}
	return func() {
		for _, s := range restore {
			_ = mg.Set(s)
		}
	}
}

// ---------------------------------------------------------------------------------------------
// amounts

const (
	c01MaxDims    = 5
	c01Ext        = v1.ResourceName("example.com/ext")        // declared in part of the cases
	c01Undeclared = v1.ResourceName("example.com/undeclared") // never declared by any group
	c01Ghost      = "ghost-never-exists"
	c01NS         = "ns"
	c01Huge       = int64(1) << 55 // above every sum the generators can reach (28 pods x 2^50)
)

var c01DimNames = [c01MaxDims]v1.ResourceName{v1.ResourceCPU, v1.ResourceMemory, c01Ext, "nvidia.com/gpu", v1.ResourceEphemeralStorage}

// c01Vec: cpu in milli-cores, memory in bytes, ext in units.
type c01Vec [c01MaxDims]int64

func (a c01Vec) add(b c01Vec) c01Vec {
	for i := range a {
		a[i] += b[i]
	}
	return a
}

func (a c01Vec) isZero() bool { return a == c01Vec{} }

func c01Q(dim int, v int64) resource.Quantity {
	switch dim {
	case 0:
		return *resource.NewMilliQuantity(v, resource.DecimalSI)
	case 1:
		return *resource.NewQuantity(v, resource.BinarySI)
	}
	return *resource.NewQuantity(v, resource.DecimalSI)
}

func c01List(v c01Vec, dims []int) v1.ResourceList {
	rl := v1.ResourceList{}
	for _, d := range dims {
		rl[c01DimNames[d]] = c01Q(d, v[d])
	}
	return rl
}

func c01VecStr(v c01Vec, dims []int) string {
	s := make([]string, 0, len(dims))
	for _, d := range dims {
		s = append(s, fmt.Sprint(v[d]))
	}
	return "[" + strings.Join(s, " ") + "]"
}

var (
	c01ReqPool = [c01MaxDims][]int64{
		{0, 1, 300, 500, 999, 1000, 1001, 1800, 2000, 4000, 10000, 15000, 30000, 100000},
		{0, 1, 1 << 10, 1 << 20, 1<<30 + 1, 3 << 30, 1 << 40},
		{0, 1, 2, 5, 8},
		{0, 1, 2, 4, 8},
		{0, 1, 1 << 20, 10 << 30},
	}
	// rare magnitudes (6% per dimension): 64-bit scale, powers of two +-1
	c01ReqRare = [c01MaxDims][]int64{
		{1<<40 + 1, 1 << 31, 1},
		{1<<50 + 1, 1<<32 - 1, 1 << 50},
		{1 << 31, 1000000},
		{1 << 20, 64},
		{1<<50 - 1, 1 << 40},
	}
	c01MaxPool = [c01MaxDims][]int64{
		// whole cores and fractional (milli) values: a request may exceed a max by less than one whole unit
		{0, 1, 500, 999, 1001, 1500, 2500, 1000, 2000, 5000, 10000, 10500, 20000, 50000, 1000000, c01Huge},
		{0, 1 << 20, 1 << 30, 4 << 30, 1 << 41, c01Huge},
		{0, 1, 4, 16, c01Huge},
		{0, 1, 8, c01Huge},
		{0, 1 << 20, 100 << 30, c01Huge},
	}
)

func c01GenReq(r *kit.Rand) c01Vec {
	var v c01Vec
	if r.Pct(4) {
		return v // a pod that requests nothing
	}
	for d := range v {
		v[d] = kit.Pick(r, c01ReqPool[d])
		if r.Pct(6) {
			v[d] = kit.Pick(r, c01ReqRare[d])
		}
	}
	return v
}

// ---------------------------------------------------------------------------------------------
// model objects

type c01Group struct {
	name      string
	parent    string
	isParent  bool
	lent      bool
	max, min  c01Vec
	minSet    bool // false: spec.min is empty (leaf groups only)
	weight    int  // 0: no shared-weight annotation (defaults to max)
	rootLabel bool // parent label written as the explicit root name instead of being left out
	rv        int
}

type c01Pod struct {
	m      *c01Model
	slot   int
	inc    int // incarnation (new UID on every re-creation)
	cur    *v1.Pod
	last   *v1.Pod // last delivered version, kept after deletion (late reserve/unreserve)
	req    c01Vec  // requests of cur in the model's units (declared dims only matter)
	undecl int64   // amount of the undeclared dimension
	np     bool
	node   string
	term   bool // phase Succeeded/Failed
	inMgr  bool
	group  string
	// reserved: the scheduler holds a reservation for the pod (ReservePod not undone by UnreservePod);
	// in-memory scheduler state, not a property of the pod object
	reserved bool
	// label/parked: the pod's quota label names a group that did not exist when the pod arrived, so
	// the plugin routed it to the default group (late-quota scenario, sequential unit)
	label   string
	parked  bool
	rv      int
	touched bool
}

// asg: the pod counts as used. The scheduler has reserved it or its latest delivered version
// carries a node name, AND that version is not Succeeded/Failed (a terminated pod uses nothing; it
// still counts in request, on the incremental and on the from-scratch path alike).
func (p *c01Pod) asg() bool { return p.inMgr && (p.reserved || p.node != "") && !p.term }

func (p *c01Pod) ns() string {
	if p.slot%3 == 2 {
		return "ns-b" // the pod cache is keyed by namespace/name
	}
	return c01NS
}

func (p *c01Pod) key() string { return p.ns() + "/" + fmt.Sprintf("p%d", p.slot) }

// ignored: with ElasticQuotaImmediateIgnoreTerminatingPod on, a pod that carries a deletion
// timestamp is not counted at all (OnPodAdd skips it, OnPodUpdate removes it).
func (p *c01Pod) ignored() bool {
	return p.m.ignoreTerminating && p.cur != nil && p.cur.DeletionTimestamp != nil
}

type c01Model struct {
	dims    []int // the dimensions every user group declares in Max (indices into c01DimNames)
	sysDims []int // the dimensions the system and default group declare (the plugin's default args name cpu and memory only)
	// manager configuration
	noSysDefault bool // manager of a non-default quota tree (treeID != ""): no system / default group
	defMaxSet    bool // DefaultQuotaGroupMax configured to a binding value
	defMax       c01Vec
	// process-wide feature gates set for the case
	guarantee         bool // ElasticQuotaGuaranteeUsage: no group lends
	ignoreOverhead    bool // ElasticQuotaIgnorePodOverhead
	ignoreTerminating bool // ElasticQuotaImmediateIgnoreTerminatingPod
	// webhook configuration the histories follow
	parentPods bool // SupportParentQuotaSubmitPod: pods may be attached to parent groups
	groups     map[string]*c01Group
	pods       []*c01Pod
}

func (m *c01Model) groupNames() []string {
	names := make([]string, 0, len(m.groups))
	for n := range m.groups {
		names = append(names, n)
	}
	sort.Strings(names)
	return names
}

func (m *c01Model) children(parent string) []string {
	var out []string
	for _, n := range m.groupNames() {
		if m.groups[n].parent == parent {
			out = append(out, n)
		}
	}
	return out
}

func (m *c01Model) depth(name string) int {
	d := 0
	for name != extension.RootQuotaName {
		g := m.groups[name]
		if g == nil {
			return d
		}
		name = g.parent
		d++
	}
	return d
}

// height of the subtree below name (0 for a group without child groups).
func (m *c01Model) height(name string) int {
	h := 0
	for _, c := range m.children(name) {
		if x := m.height(c) + 1; x > h {
			h = x
		}
	}
	return h
}

func (m *c01Model) inSubtree(name, top string) bool {
	for name != extension.RootQuotaName && name != "" {
		if name == top {
			return true
		}
		g := m.groups[name]
		if g == nil {
			return false
		}
		name = g.parent
	}
	return false
}

// ancestors returns parent, grandparent, ..., root.
func (m *c01Model) ancestors(name string) []string {
	var out []string
	g := m.groups[name]
	for g != nil {
		out = append(out, g.parent)
		g = m.groups[g.parent]
	}
	return out
}

func (m *c01Model) podsIn(group string) int {
	n := 0
	for _, p := range m.pods {
		if p.inMgr && p.group == group {
			n++
		}
	}
	return n
}

// leaves returns the groups pods may be attached to: non-parent user groups (sorted).
func (m *c01Model) leaves() []string {
	var out []string
	for _, n := range m.groupNames() {
		if !m.groups[n].isParent {
			out = append(out, n)
		}
	}
	return out
}

func (m *c01Model) shape() string {
	var sb strings.Builder
	var rec func(n string)
	rec = func(n string) {
		sb.WriteByte('(')
		for _, c := range m.children(n) {
			g := m.groups[c]
			if g.isParent {
				sb.WriteByte('P')
			} else {
				sb.WriteByte('l')
			}
			rec(c)
		}
		sb.WriteByte(')')
	}
	rec(extension.RootQuotaName)
	return sb.String()
}

// ---------------------------------------------------------------------------------------------
// the specification: aggregates recomputed from scratch

type c01Agg struct {
	selfReq, selfUsed, selfNPReq, selfNPUsed c01Vec
	used, npUsed, npReq                      c01Vec
	childReq, req                            c01Vec
}

func (m *c01Model) compute() map[string]*c01Agg {
	agg := map[string]*c01Agg{extension.RootQuotaName: {}}
	if !m.noSysDefault {
		agg[extension.SystemQuotaName], agg[extension.DefaultQuotaName] = &c01Agg{}, &c01Agg{}
	}
	for n := range m.groups {
		agg[n] = &c01Agg{}
	}
	for _, p := range m.pods {
		if !p.inMgr {
			continue
		}
		a := agg[p.group]
		if a == nil {
			panic(fmt.Sprintf("c01 model: pod %s is in unknown group %q", p.key(), p.group))
		}
		var masked c01Vec
		for _, d := range m.dimsOf(p.group) { // "requests of the pods in that group": only the dimensions the group declares
			masked[d] = p.req[d]
		}
		a.selfReq = a.selfReq.add(masked)
		if p.np {
			a.selfNPReq = a.selfNPReq.add(masked)
		}
		if p.asg() {
			a.selfUsed = a.selfUsed.add(masked)
			if p.np {
				a.selfNPUsed = a.selfNPUsed.add(masked)
			}
		}
	}
	var rec func(n string)
	rec = func(n string) {
		a := agg[n]
		a.used, a.npUsed, a.npReq, a.childReq = a.selfUsed, a.selfNPUsed, a.selfNPReq, a.selfReq
		kids := m.children(n)
		if n == extension.RootQuotaName && !m.noSysDefault {
			kids = append(kids, extension.SystemQuotaName, extension.DefaultQuotaName)
		}
		for _, c := range kids {
			rec(c)
			ca := agg[c]
			a.used = a.used.add(ca.used)
			a.npUsed = a.npUsed.add(ca.npUsed)
			a.npReq = a.npReq.add(ca.npReq)
			lim := ca.req
			if cg := m.groups[c]; cg != nil {
				for _, d := range m.dims {
					if lim[d] > cg.max[d] {
						lim[d] = cg.max[d]
					}
				}
			} else if c == extension.DefaultQuotaName && m.defMaxSet {
				for _, d := range m.sysDims {
					if lim[d] > m.defMax[d] {
						lim[d] = m.defMax[d]
					}
				}
			}
			a.childReq = a.childReq.add(lim)
		}
		a.req = a.childReq
		if g := m.groups[n]; g != nil && !m.lends(g) && g.minSet {
			for _, d := range m.dims {
				if g.min[d] > a.req[d] {
					a.req[d] = g.min[d]
				}
			}
		}
	}
	rec(extension.RootQuotaName)
	return agg
}

// lends: the group's allow-lent setting as the manager reads it (the guarantee gate forces false).
func (m *c01Model) lends(g *c01Group) bool { return g.lent && !m.guarantee }

func (m *c01Model) dimsOf(group string) []int {
	if group == extension.SystemQuotaName || group == extension.DefaultQuotaName {
		return m.sysDims
	}
	return m.dims
}

// limited reports whether the group's request exceeds its max in some dimension, i.e. whether its
// parent is credited less than the group's request.
func (m *c01Model) limited(agg map[string]*c01Agg, name string) bool {
	g, a := m.groups[name], agg[name]
	if g == nil || a == nil {
		return false
	}
	for _, d := range m.dims {
		if a.req[d] > g.max[d] {
			return true
		}
	}
	return false
}

// ---------------------------------------------------------------------------------------------
// object construction

func (g *c01Group) object(dims []int) *v1alpha1.ElasticQuota {
	g.rv++
	q := &v1alpha1.ElasticQuota{
		ObjectMeta: metav1.ObjectMeta{Name: g.name, Namespace: c01NS, ResourceVersion: fmt.Sprint(g.rv),
			Labels: map[string]string{}, Annotations: map[string]string{}},
		Spec: v1alpha1.ElasticQuotaSpec{Max: c01List(g.max, dims)},
	}
	if g.minSet {
		q.Spec.Min = c01List(g.min, dims)
	}
	if g.parent != extension.RootQuotaName || g.rootLabel {
		q.Labels[extension.LabelQuotaParent] = g.parent
	}
	if g.isParent {
		q.Labels[extension.LabelQuotaIsParent] = "true"
	} else if g.rv%2 == 0 {
		q.Labels[extension.LabelQuotaIsParent] = "false"
	}
	if !g.lent {
		q.Labels[extension.LabelAllowLentResource] = "false"
	} else if g.rv%3 == 0 {
		q.Labels[extension.LabelAllowLentResource] = "true"
	}
	q.Labels[extension.LabelAllowForceUpdate] = "true"
	if g.weight > 0 {
		var parts []string
		for _, d := range dims {
			parts = append(parts, fmt.Sprintf("%q:%d", string(c01DimNames[d]), g.weight*(d+1)))
		}
		q.Annotations[extension.AnnotationSharedWeight] = "{" + strings.Join(parts, ",") + "}"
	}
	return q
}

func (g *c01Group) String() string {
	return fmt.Sprintf("%s{parent=%s isParent=%v lent=%v max=%v min=%v(set=%v) w=%d}", g.name, g.parent, g.isParent, g.lent, g.max, g.min, g.minSet, g.weight)
}

// genLimits draws max (biased to values that bind) and min <= max.
func c01GenLimits(r *kit.Rand, g *c01Group, dims []int) {
	for _, d := range dims {
		g.max[d] = kit.Pick(r, c01MaxPool[d])
		switch r.Intn(4) {
		case 0:
			g.min[d] = 0
		case 1:
			g.min[d] = g.max[d]
		default:
			g.min[d] = kit.Pick(r, c01ReqPool[d])
		}
		if g.min[d] > g.max[d] {
			g.min[d] = g.max[d]
		}
		if g.min[d] > 1<<45 {
			g.min[d] = 1 << 45
		}
	}
	g.minSet = g.isParent || !r.Pct(10)
}

// build writes the pod object of the current model fields (a new object per version, as an
// informer delivers).
func (p *c01Pod) build(r *kit.Rand, label string, deleting bool) {
	p.rv++
	pod := &v1.Pod{ObjectMeta: metav1.ObjectMeta{Namespace: p.ns(), Name: fmt.Sprintf("p%d", p.slot),
		UID: types.UID(fmt.Sprintf("p%d-%d", p.slot, p.inc)), ResourceVersion: fmt.Sprint(p.rv), Labels: map[string]string{}}}
	if label != "" {
		pod.Labels[extension.LabelQuotaName] = label
	}
	if p.np {
		pod.Labels[extension.LabelPreemptible] = "false"
	} else if p.slot%2 == 0 {
		pod.Labels[extension.LabelPreemptible] = "true"
	}
	// p.req is what PodRequests has to yield: max(sum of the containers, largest init container) +
	// overhead (overhead left out when ElasticQuotaIgnorePodOverhead is on). Shapes: the vector split
	// over one or two containers (usual); an init container that carries it while the containers sum
	// to less; part of it as pod overhead.
	shape := r.Weighted(76, 12, 12)
	contReq := p.req
	var overhead c01Vec
	if shape == 2 {
		for d := range overhead {
			overhead[d] = kit.Pick(r, []int64{0, 1, 100})
			if !p.m.ignoreOverhead {
				if overhead[d] > p.req[d] {
					overhead[d] = p.req[d]
				}
				contReq[d] = p.req[d] - overhead[d]
			}
		}
	}
	if shape == 1 {
		for d := range contReq {
			contReq[d] = p.req[d] / 2
		}
	}
	nc := 1 + r.Intn(2)
	conts := make([]v1.Container, nc)
	for i := range conts {
		conts[i] = v1.Container{Name: fmt.Sprintf("c%d", i), Resources: v1.ResourceRequirements{Requests: v1.ResourceList{}}}
	}
	for d := 0; d < c01MaxDims; d++ {
		v := contReq[d]
		if v == 0 && !r.Pct(30) {
			continue
		}
		first := v
		if nc == 2 {
			first = r.Int63n(v + 1)
			if d == 0 || v < 4 {
				// keep it simple for cpu (milli precision) and tiny values
				first = v / 2
			}
			conts[1].Resources.Requests[c01DimNames[d]] = c01Q(d, v-first)
		}
		conts[0].Resources.Requests[c01DimNames[d]] = c01Q(d, first)
	}
	if p.undecl > 0 {
		conts[0].Resources.Requests[c01Undeclared] = *resource.NewQuantity(p.undecl, resource.DecimalSI)
	}
	pod.Spec.Containers = conts
	if shape == 1 {
		ic := v1.Container{Name: "init", Resources: v1.ResourceRequirements{Requests: v1.ResourceList{}}}
		for d := 0; d < c01MaxDims; d++ {
			if p.req[d] > 0 {
				ic.Resources.Requests[c01DimNames[d]] = c01Q(d, p.req[d])
			}
		}
		pod.Spec.InitContainers = []v1.Container{ic}
	}
	if shape == 2 {
		pod.Spec.Overhead = v1.ResourceList{}
		for d := 0; d < c01MaxDims; d++ {
			if overhead[d] > 0 {
				pod.Spec.Overhead[c01DimNames[d]] = c01Q(d, overhead[d])
			}
		}
	}
	pod.Spec.NodeName = p.node
	switch {
	case p.term:
		pod.Status.Phase = kit.Pick(r, []v1.PodPhase{v1.PodSucceeded, v1.PodFailed})
	case p.node != "":
		pod.Status.Phase = kit.Pick(r, []v1.PodPhase{v1.PodPending, v1.PodRunning, v1.PodRunning})
	default:
		pod.Status.Phase = v1.PodPending
	}
	if deleting || (p.cur != nil && p.cur.DeletionTimestamp != nil) {
		// fixed instant far in the past; with the gates off it has no effect and the clock is not read
		ts := metav1.Unix(1000, 0)
		gp := int64(30)
		pod.DeletionTimestamp = &ts
		pod.DeletionGracePeriodSeconds = &gp
	}
	p.cur = pod
	p.last = pod
}

func (p *c01Pod) String() string {
	return fmt.Sprintf("p%d#%d{req=%v undecl=%d np=%v node=%q term=%v}", p.slot, p.inc, p.req, p.undecl, p.np, p.node, p.term)
}

// ---------------------------------------------------------------------------------------------
// environment: a real manager plus the model

type c01Env struct {
	c         *kit.Case
	m         *c01Model
	gqm       *GroupQuotaManager
	scaleMin  bool
	maxGroups int
	maxDepth  int // deepest level a group may sit at (children of root are at 1)
	nodes     map[string]*v1.Node
	nextName  int
	deleted   []string // names of deleted groups (may be re-created)
	// failf reports a violation found while issuing an operation: c.Fail on the case's main
	// goroutine, c.Report on any other goroutine (a panic could not be caught there).
	failf        func(sig, format string, a ...any)
	needHeal     bool
	restoreGates func()
}

func (e *c01Env) newManager() *GroupQuotaManager {
	var huge c01Vec
	for d := range huge {
		huge[d] = c01Huge
	}
	def := huge
	if e.m.defMaxSet {
		def = e.m.defMax
	}
	treeID := ""
	if e.m.noSysDefault {
		treeID = "tree-1"
	}
	return NewGroupQuotaManager(treeID, e.scaleMin, c01List(huge, e.m.sysDims), c01List(def, e.m.sysDims))
}

// special returns the system and default group (none for the manager of a non-default tree).
func (e *c01Env) special() []string {
	if e.m.noSysDefault {
		return nil
	}
	return []string{extension.DefaultQuotaName, extension.SystemQuotaName}
}

// dests: the groups pods may be attached to now.
func (e *c01Env) dests() []string {
	out := e.m.leaves()
	if e.m.parentPods {
		for _, n := range e.m.groupNames() {
			if e.m.groups[n].isParent {
				out = append(out, n)
			}
		}
	}
	return append(out, e.special()...)
}

// setGates switches the process-wide feature gates the case asked for and returns the restore function.
func (e *c01Env) setGates() func() {
	mg := k8sfeature.DefaultMutableFeatureGate
	set := map[featuregate.Feature]bool{features.ElasticQuotaGuaranteeUsage: e.m.guarantee,
		features.ElasticQuotaIgnorePodOverhead: e.m.ignoreOverhead, features.ElasticQuotaImmediateIgnoreTerminatingPod: e.m.ignoreTerminating}
	for g, v := range set {
		_ = mg.Set(fmt.Sprintf("%s=%v", g, v))
	}
	return func() {
		for g := range set {
			_ = mg.Set(fmt.Sprintf("%s=false", g))
		}
	}
}

// c01NewEnv creates the manager and an initial tree of 3-7 groups, depth <= 3, through UpdateQuota.
func c01NewEnv(c *kit.Case, npods int) *c01Env {
	r := c.R
	e := &c01Env{c: c, m: &c01Model{groups: map[string]*c01Group{}}, nodes: map[string]*v1.Node{}}
	e.failf = c.Fail
	m := e.m
	// one fixed set of declared dimensions per case: cpu+memory, cpu+memory+extended, or any
	// non-empty subset of five (single dimension, no cpu, all five)
	switch r.Weighted(35, 30, 35) {
	case 0:
		m.dims = []int{0, 1}
	case 1:
		m.dims = []int{0, 1, 2}
	default:
		for len(m.dims) == 0 {
			for d := 0; d < c01MaxDims; d++ {
				if r.Pct(50) {
					m.dims = append(m.dims, d)
				}
			}
		}
	}
	m.sysDims = m.dims
	if r.Pct(12) {
		// the plugin's default SystemQuotaGroupMax / DefaultQuotaGroupMax name cpu and memory only
		var sd []int
		for _, d := range m.dims {
			if d < 2 {
				sd = append(sd, d)
			}
		}
		if len(sd) > 0 {
			m.sysDims = sd
		}
	}
	m.noSysDefault = r.Pct(8)
	if !m.noSysDefault && r.Pct(12) {
		m.defMaxSet = true
		for _, d := range m.sysDims {
			m.defMax[d] = kit.Pick(r, c01MaxPool[d][:len(c01MaxPool[d])-1])
		}
	}
	m.guarantee, m.ignoreOverhead, m.ignoreTerminating, m.parentPods = r.Pct(7), r.Pct(8), r.Pct(6), r.Pct(9)
	e.scaleMin = r.Pct(50)
	e.maxDepth = kit.Pick(r, []int{3, 3, 3, 3, 3, 3, 3, 5, 5, 1})
	e.restoreGates = e.setGates() // before the first quota object is read (NewQuotaInfoFromQuota consults the guarantee gate)
	e.gqm = e.newManager()
	c.Op("new manager: dims=%v sysDims=%v scaleMin=%v maxDepth=%d nonDefaultTree=%v defaultMax=%v(set=%v) gates{guarantee=%v ignoreOverhead=%v ignoreTerminating=%v} parentPods=%v",
		m.dims, m.sysDims, e.scaleMin, e.maxDepth, m.noSysDefault, m.defMax, m.defMaxSet, m.guarantee, m.ignoreOverhead, m.ignoreTerminating, m.parentPods)
	c.Seen("config", len(m.dims), m.dims[0], len(m.sysDims) != len(m.dims), m.noSysDefault, m.defMaxSet, m.guarantee, m.ignoreOverhead, m.ignoreTerminating, m.parentPods, e.maxDepth)
	flags := []struct {
		name string
		on   bool
	}{{"non_default_tree", m.noSysDefault}, {"default_max_binding", m.defMaxSet}, {"gate_guarantee", m.guarantee}, {"gate_ignore_overhead", m.ignoreOverhead},
		{"gate_ignore_terminating", m.ignoreTerminating}, {"parent_pods", m.parentPods}, {"sys_dims_differ", len(m.sysDims) != len(m.dims)}, {"no_cpu_dimension", m.dims[0] != 0},
		{"one_dimension", len(m.dims) == 1}, {"four_or_five_dimensions", len(m.dims) >= 4}, {"deep_tree", e.maxDepth == 5}, {"flat_tree", e.maxDepth == 1}}
	for _, f := range flags {
		if f.on {
			c.Count("cases_"+f.name, 1)
		}
	}
	ngroups := r.Range(3, 7)
	switch r.Weighted(76, 18, 6) {
	case 1:
		ngroups = r.Range(8, 14) // wide / deep trees
	case 2:
		ngroups = r.Range(1, 2)
	}
	e.maxGroups = ngroups + 2
	if e.maxGroups < 7 {
		e.maxGroups = 7
	}
	nparents := r.Range(1, 3)
	if ngroups >= 8 {
		nparents = r.Range(1, ngroups/2)
	}
	if nparents > ngroups-2 {
		nparents = ngroups - 2
	}
	for i := 0; i < ngroups; i++ {
		g := &c01Group{name: e.freshName(), isParent: i < nparents, lent: r.Pct(60), rootLabel: r.Bool()}
		g.parent = e.pickParent(r, g, 0)
		if r.Pct(40) {
			g.weight = r.Range(1, 9)
		}
		c01GenLimits(r, g, e.m.dims)
		e.applyQuota(g, "create")
	}
	for i := 0; i < npods; i++ {
		e.m.pods = append(e.m.pods, &c01Pod{slot: i, m: e.m})
	}
	for i, n := 0, r.Range(0, 2); i < n; i++ {
		e.nodeOp(r)
	}
	return e
}

func (e *c01Env) freshName() string {
	n := fmt.Sprintf("q%d", e.nextName)
	e.nextName++
	return n
}

// pickParent chooses root or an existing parent group such that the depth stays <= 3 and no
// cycle is formed. h is the height of g's own subtree.
func (e *c01Env) pickParent(r *kit.Rand, g *c01Group, h int) string {
	cands := []string{extension.RootQuotaName}
	for _, n := range e.m.groupNames() {
		pg := e.m.groups[n]
		if pg.isParent && n != g.name && !e.m.inSubtree(n, g.name) && e.m.depth(n)+1+h <= e.maxDepth {
			cands = append(cands, n, n) // prefer inner parents
		}
	}
	return kit.Pick(r, cands)
}

// applyQuota issues UpdateQuota with the group's current model fields and registers the group.
func (e *c01Env) applyQuota(g *c01Group, what string) {
	obj := g.object(e.m.dims)
	e.m.groups[g.name] = g
	err := e.gqm.UpdateQuota(obj)
	e.c.Op("UpdateQuota(%s) %s -> err=%v", what, g, err)
	if err != nil {
		e.failf("C01/quota/update-refused", "UpdateQuota(%s) of %s returned %v", what, g, err)
	}
}

func (e *c01Env) nodeOp(r *kit.Rand) {
	name := fmt.Sprintf("n%d", r.Intn(4))
	alloc := v1.ResourceList{}
	v := c01GenReq(r)
	for d := 0; d < c01MaxDims; d++ {
		alloc[c01DimNames[d]] = c01Q(d, v[d]*4)
	}
	alloc[v1.ResourcePods] = *resource.NewQuantity(110, resource.DecimalSI)
	nn := &v1.Node{ObjectMeta: metav1.ObjectMeta{Name: name}, Status: v1.NodeStatus{Allocatable: alloc}}
	old := e.nodes[name]
	if old == nil && r.Pct(25) {
		// events about a node the manager has not seen
		if r.Bool() {
			e.gqm.OnNodeUpdate(nn, nn) // treated as an add
			e.nodes[name] = nn
			e.c.Op("OnNodeUpdate(%s) [unknown node]", name)
		} else {
			e.gqm.OnNodeDelete(nn)
			e.c.Op("OnNodeDelete(%s) [unknown node]", name)
		}
		e.c.Count("op_node_unknown", 1)
		return
	}
	switch {
	case old == nil || r.Pct(20):
		e.gqm.OnNodeAdd(nn)
		if old == nil {
			e.nodes[name] = nn
		}
		e.c.Op("OnNodeAdd(%s known=%v)", name, old != nil)
		e.c.Count("op_node_add", 1)
	case r.Pct(60):
		e.gqm.OnNodeUpdate(old, nn)
		e.nodes[name] = nn
		e.c.Op("OnNodeUpdate(%s)", name)
		e.c.Count("op_node_update", 1)
	default:
		e.gqm.OnNodeDelete(old)
		delete(e.nodes, name)
		e.c.Op("OnNodeDelete(%s)", name)
		e.c.Count("op_node_delete", 1)
	}
}

// ---------------------------------------------------------------------------------------------
// the oracle

type c01Field struct {
	name string
	get  func(s *QuotaInfoSummary) v1.ResourceList
	exp  func(a *c01Agg) c01Vec
	root bool // maintained for the root group as well
}

var c01Fields = []c01Field{
	{"request", func(s *QuotaInfoSummary) v1.ResourceList { return s.Request }, func(a *c01Agg) c01Vec { return a.req }, true},
	{"child-request", func(s *QuotaInfoSummary) v1.ResourceList { return s.ChildRequest }, func(a *c01Agg) c01Vec { return a.childReq }, false},
	{"used", func(s *QuotaInfoSummary) v1.ResourceList { return s.Used }, func(a *c01Agg) c01Vec { return a.used }, true},
	{"self-request", func(s *QuotaInfoSummary) v1.ResourceList { return s.SelfRequest }, func(a *c01Agg) c01Vec { return a.selfReq }, false},
	{"self-used", func(s *QuotaInfoSummary) v1.ResourceList { return s.SelfUsed }, func(a *c01Agg) c01Vec { return a.selfUsed }, false},
	{"np-request", func(s *QuotaInfoSummary) v1.ResourceList { return s.NonPreemptibleRequest }, func(a *c01Agg) c01Vec { return a.npReq }, true},
	{"np-used", func(s *QuotaInfoSummary) v1.ResourceList { return s.NonPreemptibleUsed }, func(a *c01Agg) c01Vec { return a.npUsed }, true},
	{"self-np-request", func(s *QuotaInfoSummary) v1.ResourceList { return s.SelfNonPreemptibleRequest }, func(a *c01Agg) c01Vec { return a.selfNPReq }, false},
	{"self-np-used", func(s *QuotaInfoSummary) v1.ResourceList { return s.SelfNonPreemptibleUsed }, func(a *c01Agg) c01Vec { return a.selfNPUsed }, false},
}

// c01Detach describes a re-parent or delete of group x that has just been executed: the facts
// needed to give the known defect (old ancestors debited with the un-limited request of a
// max-limited child) its narrow signature.
type c01Detach struct {
	x         string
	ancestors map[string]bool // x's ancestors BEFORE the operation (incl. root)
	limited   bool            // x's request exceeded x's max in some dimension before the operation
	// facts for the concurrent unit, where x's request at the instant of the operation is not known
	// to the harness: x's max and subtree when the operation was issued, and the sum of the mins of
	// the non-lending groups of that subtree. "possibly max-limited" = the largest requests the pods
	// that were in the subtree at some time of the round ever had, plus minSum, exceed maxAtOp.
	maxAtOp c01Vec
	subtree map[string]bool
	minSum  c01Vec
	// x's ancestors AFTER a re-parent: if x or a group below it had already drifted (it was an old
	// ancestor of an earlier detach of the same round) the deficit travels to them
	newAncestors map[string]bool
}

// c01PodAt records that a pod was held by a group with a request at some time of a round.
type c01PodAt struct {
	slot  int
	group string
	req   c01Vec
}

func (d *c01Detach) possiblyLimited(dims []int, recs []c01PodAt) bool {
	perSlot := map[int]c01Vec{}
	for _, r := range recs {
		if !d.subtree[r.group] {
			continue
		}
		v := perSlot[r.slot]
		for _, i := range dims {
			if r.req[i] > v[i] {
				v[i] = r.req[i]
			}
		}
		perSlot[r.slot] = v
	}
	bound := d.minSum
	for _, v := range perSlot {
		bound = bound.add(v)
	}
	for _, i := range dims {
		if bound[i] > d.maxAtOp[i] {
			return true
		}
	}
	return false
}

const c01SigDetach = "C01/request/old-ancestor-after-detaching-max-limited-child"

// c01Ctx tells the oracle what has just happened, for signatures only (never for the verdict).
type c01Ctx struct {
	where        string
	detach       []*c01Detach
	staleMigrate map[string]bool // groups (and their ancestors) touched by a MigratePod whose cached pod object was stale
	staleAll     bool            // such a MigratePod ran concurrently with re-parents: any group may be on its path
	tainted      map[string]bool // concurrent unit: groups the deficit of a detach may have reached by the end of the round
	schedCopy    map[string]bool // same-pod stream: groups (and ancestors) of a Reserve/Unreserve that raced with a resize of the pod
	schedAll     bool
	resetLoose   bool // concurrent unit: whether the default group was max-limited at the instant of the rebuild is not known
	resetOp      bool // the full rebuild (resetQuotaNoLock) ran: ResetQuota, or an allow-lent / is-parent change
}

const c01SigStaleMigrate = "C01/migrate/pod-updated-since-cached"

// The rebuild (resetRootQuotaUsedAndRequest) restarts the root group's request from the UN-limited
// requests of the system and default group, the incremental path credits the root with their
// max-limited requests: with a DefaultQuotaGroupMax that binds, ResetQuota changes root.request.
const c01SigRootReset = "C01/request/root-after-rebuild-counts-unlimited-default-group-request"

// defaultLimited: the default group's request exceeds its (configured, binding) max.
func (m *c01Model) defaultLimited(agg map[string]*c01Agg) bool {
	a := agg[extension.DefaultQuotaName]
	if !m.defMaxSet || a == nil {
		return false
	}
	for _, d := range m.sysDims {
		if a.req[d] > m.defMax[d] {
			return true
		}
	}
	return false
}

// classify attributes one mismatch (reported != recomputed) to the facts in ctx. detach: the
// known re-parent/delete defect can only make an old ancestor's request/child-request too SMALL;
// stale: the group lies on the path of a MigratePod that booked a stale cached pod object.
func (e *c01Env) classify(ctx *c01Ctx, group, field string, less bool) (detach, stale, sched bool) {
	if ctx == nil {
		return false, false, false
	}
	switch field {
	case "used", "self-used", "np-used", "self-np-used":
		sched = ctx.schedAll || ctx.schedCopy[group]
	}
	if less && (field == "request" || field == "child-request") {
		for _, d := range ctx.detach {
			if d.limited && d.ancestors[group] {
				detach = true
			}
		}
		if ctx.tainted[group] {
			detach = true
		}
	}
	return detach, ctx.staleAll || ctx.staleMigrate[group], sched
}

func (e *c01Env) summaries(gqm *GroupQuotaManager) map[string]*QuotaInfoSummary {
	sums := gqm.GetQuotaSummaries(true)
	if root := gqm.GetQuotaInfoByName(extension.RootQuotaName); root != nil {
		sums[extension.RootQuotaName] = root.GetQuotaSummary("", true)
	}
	return sums
}

// check compares every accounting figure of every group of the manager with the recomputation.
func (e *c01Env) check(ctx *c01Ctx) {
	c, m := e.c, e.m
	agg := m.compute()
	sums := e.summaries(e.gqm)
	names := make([]string, 0, len(agg))
	for n := range agg {
		names = append(names, n)
	}
	sort.Strings(names)
	where := ""
	if ctx != nil {
		where = ctx.where
	}
	for n := range sums {
		if agg[n] == nil {
			c.Fail("C01/groups/unexpected", "%s: the manager reports group %q which does not exist (surviving groups: %v)", where, n, names)
		}
	}
	// mismatches explained by a fact in ctx are collected; an unexplained one fails at once and a
	// mismatch explained only by the stale-migrate fact wins over one explained by the detach fact
	staleMsg, detachMsg, schedMsg, rootResetMsg := "", "", "", ""
	for _, n := range names {
		s := sums[n]
		if s == nil {
			c.Fail("C01/groups/missing", "%s: the manager does not report group %q", where, n)
		}
		a := agg[n]
		isRoot := n == extension.RootQuotaName
		if a.req != a.childReq {
			c.Count("expected_request_raised_to_min", 1)
		}
		if m.limited(agg, n) {
			c.Count("expected_request_above_max", 1)
			if g := m.groups[n]; g != nil && len(m.dims) > 0 && m.dims[0] == 0 && a.req[0] > g.max[0] && (a.req[0]+999)/1000 == (g.max[0]+999)/1000 {
				c.Count("expected_cpu_request_above_max_by_less_than_one_core", 1)
			}
		}
		for _, f := range c01Fields {
			if isRoot && !f.root {
				continue
			}
			got, want := f.get(s), f.exp(a)
			for _, d := range m.dims {
				q := got[c01DimNames[d]] // absent == 0
				if q.Sign() < 0 {
					c.Fail("C01/"+f.name+"/negative", "%s: group %s %s[%s] = %s is negative", where, n, f.name, c01DimNames[d], q.String())
				}
				w := c01Q(d, want[d])
				if cmp := q.Cmp(w); cmp != 0 {
					msg := fmt.Sprintf("%s: group %s %s[%s] = %s, recomputed from the surviving pods and quotas: %s\n  reported %s: %s\n  expected %s: %s",
						where, n, f.name, c01DimNames[d], q.String(), w.String(), f.name, c01RL(got), f.name, c01VecStr(want, m.dims))
					det, stale, sched := e.classify(ctx, n, f.name, cmp < 0)
					if ctx != nil && ctx.resetOp && isRoot && f.name == "request" && cmp > 0 && m.defMaxSet && (ctx.resetLoose || m.defaultLimited(agg)) {
						if rootResetMsg == "" {
							rootResetMsg = msg
						}
						continue
					}
					switch {
					case !det && !stale && !sched:
						c.Fail("C01/"+f.name+"/mismatch", "%s", msg)
					case sched:
						if schedMsg == "" {
							schedMsg = msg
						}
					case stale && !det:
						if staleMsg == "" {
							staleMsg = msg
						}
					default:
						if detachMsg == "" {
							detachMsg = msg
						}
					}
				}
			}
			for name, q := range got {
				declared := false
				for _, d := range m.dims {
					if name == c01DimNames[d] {
						declared = true
					}
				}
				if !declared && !q.IsZero() {
					c.Fail("C01/"+f.name+"/undeclared-dimension", "%s: group %s %s carries %s=%s, a dimension no group declares", where, n, f.name, name, q.String())
				}
			}
			c.Count("figure_comparisons", 1)
		}
		if isRoot {
			continue
		}
		// which pods are counted, and whether they count as used
		want := map[string]*c01Pod{}
		for _, p := range m.pods {
			if p.inMgr && p.group == n {
				want[p.key()] = p
			}
		}
		for k, p := range want {
			asg := p.asg()
			pi, ok := s.PodCache[k]
			if !ok {
				c.Fail("C01/podcache/missing", "%s: group %s does not hold pod %s", where, n, k)
			}
			// the per-pod amount shown in the summary is the one of the add event; the statement is about
			// the group figures, so a stale per-pod amount is only counted
			for _, d := range m.dims {
				q := pi.Resource[c01DimNames[d]]
				if w := c01Q(d, p.req[d]); q.Cmp(w) != 0 {
					c.Count("podcache_resource_stale", 1)
					break
				}
			}
			c.Count("podcache_pod_checks", 1)
			if asg {
				c.Count("podcache_pod_checks_assigned", 1)
			}
			if pi.IsAssigned != asg {
				c.Fail("C01/podcache/assigned", "%s: group %s pod %s isAssigned=%v, expected %v", where, n, k, pi.IsAssigned, asg)
			}
		}
		for k := range s.PodCache {
			if _, ok := want[k]; !ok {
				c.Fail("C01/podcache/unexpected", "%s: group %s holds pod %s which is not (any more) one of its pods", where, n, k)
			}
		}
		// reported spec fields: counted only, the statement is about the figures
		if g := m.groups[n]; g != nil {
			if s.ParentName != g.parent || s.IsParent != g.isParent || s.AllowLentResource != m.lends(g) {
				c.Count("spec_field_differs_from_object", 1)
			}
		}
	}
	c.Count("summary_comparisons", 1)
	if rootResetMsg != "" {
		e.knownDefect(c01SigRootReset, rootResetMsg)
	} else if schedMsg != "" {
		e.knownDefect(c01SigSchedCopy, schedMsg)
	} else if staleMsg != "" {
		e.knownDefect(c01SigStaleMigrate, staleMsg)
	} else if detachMsg != "" {
		e.knownDefect(c01SigDetach, detachMsg)
	}
}

// knownDefect reports a violation that carries one of the two narrow signatures and asks for the
// manager to be replaced (heal) so that the rest of the history is still monitored: while these
// defects are open almost every long history runs into one of them, and ending the case there
// would leave every other oracle without evidence. Any other violation ends the case (c.Fail).
func (e *c01Env) knownDefect(sig, msg string) {
	e.c.Report(sig, "%s", msg)
	e.c.Count("violations_with_narrow_signature", 1)
	e.needHeal = true
}

// heal replaces the drifted manager by a fresh one fed the surviving objects; the oracle must
// hold on it (no context: every mismatch is then an unexplained one).
func (e *c01Env) heal(where string) {
	if !e.needHeal {
		return
	}
	e.needHeal = false
	e.gqm = e.buildFresh()
	names := make([]string, 0, len(e.nodes))
	for n := range e.nodes {
		names = append(names, n)
	}
	sort.Strings(names)
	for _, n := range names {
		e.gqm.OnNodeAdd(e.nodes[n])
	}
	e.c.Op("[harness] %s: violation reported; the manager is replaced by a fresh one fed the surviving quotas and pods", where)
	e.c.Count("manager_replaced_after_reported_violation", 1)
	e.check(&c01Ctx{where: where + " (fresh manager after a reported violation)"})
}

// buildFresh feeds a new manager the surviving quotas (parents first) and pods.
func (e *c01Env) buildFresh() *GroupQuotaManager {
	c, m := e.c, e.m
	fresh := e.newManager()
	names := m.groupNames()
	sort.SliceStable(names, func(i, j int) bool { return m.depth(names[i]) < m.depth(names[j]) })
	for _, n := range names {
		if err := fresh.UpdateQuota(m.groups[n].object(m.dims)); err != nil {
			c.Harness("fresh manager refused quota %s: %v", n, err)
		}
	}
	for _, p := range m.pods {
		if !p.inMgr {
			continue
		}
		// every surviving pod ONCE, with its latest delivered version; a reservation that is not yet
		// visible in the object (reserved, not bound) is scheduler state and is replayed as such
		fresh.OnPodAdd(p.group, p.cur)
		if p.reserved && p.node == "" && !p.term {
			fresh.ReservePod(p.group, p.cur)
		}
	}
	return fresh
}

func c01RL(rl v1.ResourceList) string {
	names := make([]string, 0, len(rl))
	for n := range rl {
		names = append(names, string(n))
	}
	sort.Strings(names)
	s := "{"
	for _, n := range names {
		q := rl[v1.ResourceName(n)]
		s += n + ":" + q.String() + " "
	}
	return s + "}"
}

// sameSummaries compares two sets of summaries figure by figure (absent == 0), including the
// pod sets and their assigned flags. It does not involve the model.
func (e *c01Env) sameSummaries(kind, where string, a, b map[string]*QuotaInfoSummary, an, bn string) {
	c := e.c
	names := map[string]bool{}
	for n := range a {
		names[n] = true
	}
	for n := range b {
		names[n] = true
	}
	sorted := make([]string, 0, len(names))
	for n := range names {
		sorted = append(sorted, n)
	}
	sort.Strings(sorted)
	for _, n := range sorted {
		sa, sb := a[n], b[n]
		if sa == nil || sb == nil {
			c.Fail("C01/groups/"+kind, "%s: group %s reported by only one of %s / %s", where, n, an, bn)
		}
		for _, f := range c01Fields {
			if n == extension.RootQuotaName && !f.root {
				continue
			}
			la, lb := f.get(sa), f.get(sb)
			keys := map[v1.ResourceName]bool{}
			for k := range la {
				keys[k] = true
			}
			for k := range lb {
				keys[k] = true
			}
			for k := range keys {
				qa, qb := la[k], lb[k]
				if qa.Cmp(qb) != 0 {
					if kind == "changed-by-reset" && n == extension.RootQuotaName && f.name == "request" && qb.Cmp(qa) > 0 && e.m.defaultLimited(e.m.compute()) {
						e.knownDefect(c01SigRootReset, fmt.Sprintf("%s: group %s %s[%s]: %s reports %s, %s reports %s", where, n, f.name, k, an, qa.String(), bn, qb.String()))
						return
					}
					c.Fail("C01/"+f.name+"/"+kind, "%s: group %s %s[%s]: %s reports %s, %s reports %s", where, n, f.name, k, an, qa.String(), bn, qb.String())
				}
			}
		}
		if n == extension.RootQuotaName {
			continue
		}
		if len(sa.PodCache) != len(sb.PodCache) {
			c.Fail("C01/podcache/"+kind, "%s: group %s holds %d pods in %s, %d in %s", where, n, len(sa.PodCache), an, len(sb.PodCache), bn)
		}
		for k, pa := range sa.PodCache {
			pb := sb.PodCache[k]
			if pb == nil || pa.IsAssigned != pb.IsAssigned {
				c.Fail("C01/podcache/"+kind, "%s: group %s pod %s differs between %s and %s", where, n, k, an, bn)
			}
		}
	}
}

// differential: (1) a fresh manager fed the surviving quotas (parents first) and pods reports the
// same summaries as the live one; (2) ResetQuota on the live manager changes no figure.
func (e *c01Env) differential(where string) {
	c := e.c
	fresh := e.buildFresh()
	live := e.summaries(e.gqm)
	e.sameSummaries("fresh-manager-differs", where, live, e.summaries(fresh), "the live manager", "a fresh manager fed the surviving objects")
	c.Count("fresh_manager_differentials", 1)
	e.gqm.ResetQuota()
	c.Op("ResetQuota() [differential]")
	e.sameSummaries("changed-by-reset", where, live, e.summaries(e.gqm), "the manager before ResetQuota", "the manager after ResetQuota")
	c.Count("reset_noop_checks", 1)
	e.check(&c01Ctx{where: where + " (after ResetQuota)", resetOp: true})
	e.heal(where)
}
