//go:build verif

package core

// C01 monitors — the "same-pod" stream of the concurrent unit. In the real system two goroutines
// touch the SAME pod: the informer goroutine delivers its events (OnPodUpdate / OnPodDelete) while
// the scheduling goroutine is inside Reserve / Unreserve for it (the comment at ReservePod names
// the race: t1 start reserve pod, t2 delete pod, t3 finish reserve pod). Per round a few pods are
// taken away from the workers; for each of them one goroutine plays the scheduler and one the
// informer, each issuing ONE call, released together by a barrier. The scheduler's call carries the
// scheduler's own copy of the pod: the version that was current when its scheduling cycle started,
// i.e. the version before the racing event.
//
// Oracle at the quiescent point: the end state of the pod (which group holds it, its assigned flag)
// must be the end state of SOME serial order of the two calls under the specification's
// transitions (c01PS.apply: the same rules the model uses everywhere else - assigned = (reserved
// or node name) and not terminated; a label change drops a reservation); the matching state is
// adopted by the model and the usual oracle then checks the pod's contribution to every figure
// (used must be the LATEST delivered request of an assigned pod, whatever copy the scheduler held).

//
// On the tree this was written against both calls are atomic with respect to each other
// (Reserve/Unreserve take the hierarchy write lock), so every observed end state is that of a
// serial order of the CODE's transitions; two of those serial outcomes differ from the
// specification and carry narrow signatures (minimal serial repros: TestC01ProbeSchedulerCopy in
// /verif/out/C01-probe/probe_test.go, proposed fix /verif/out/proposed-fixes/
// C01-reserve-unreserve-scheduler-copy.diff):
//   - resize delivered first, then Reserve/Unreserve: used is moved by the requests of the
//     scheduler's older copy, not by the delivered ones (used 2 instead of 5; 4 instead of 0);
//   - bind echo delivered first, then Unreserve: the bound pod is un-assigned and counts nowhere.
// An atomicity break (e.g. ReservePod under the read lock) shows as a generic used mismatch or as
// C01/same-pod/end-state-not-serializable.

import (
	"fmt"
	"sort"

	v1 "k8s.io/api/core/v1"

	kit "github.com/koordinator-sh/koordinator/pkg/verifkit"
)

// c01PS is the part of a pod's model state the racing calls can change.
type c01PS struct {
	held     bool
	group    string
	reserved bool
	node     string
}

func (s c01PS) asg() bool { return s.held && (s.reserved || s.node != "") }

type c01POp struct {
	kind string // reserve, unreserve | delete, resize, bind, label
	g    string // the group the call names (the scheduler and the informer's "old" name)
	g2   string // label: the new group
	node string // bind
}

// apply is the specification's transition for one call.
func (s c01PS) apply(op c01POp) c01PS {
	switch op.kind {
	case "reserve":
		if s.held && s.group == op.g {
			s.reserved = true
		}
	case "unreserve":
		if s.held && s.group == op.g {
			s.reserved = false
		}
	case "delete":
		s = c01PS{}
	case "resize":
		// the request changes (the model's p.req already holds the new one); held/assigned unchanged
	case "bind":
		if s.held {
			s.node = op.node
		}
	case "label":
		if s.held && s.group == op.g {
			s.group, s.reserved = op.g2, false
		}
	}
	return s
}

type c01Race struct {
	p                *c01Pod
	sop, iop         c01POp
	schedPod, newPod *v1.Pod // the scheduler's copy (= the informer's old object), the informer's new object
	pre              c01PS
	oldReq           c01Vec
}

const (
	c01SigUnreserveBound = "C01/same-pod/unreserve-after-bind-echo-unassigns-bound-pod"
	c01SigSchedCopy      = "C01/same-pod/reserve-or-unreserve-after-resize-books-scheduler-copy"
)

// prepareRace brings pod p into the state a scheduling cycle finds it in (held by a stable group,
// unbound, not terminated; reserved iff the scheduler's call is Unreserve), sequentially, and
// fixes the two racing calls and their objects. Everything that touches the model happens here, on
// the case's main goroutine; the two goroutines only issue the calls.
func (e *c01Env) prepareRace(r *kit.Rand, p *c01Pod, dests []string) *c01Race {
	c, gqm := e.c, e.gqm
	ok := p.cur != nil && p.inMgr && p.node == "" && !p.term && !p.parked
	if ok {
		ok = false
		for _, d := range dests {
			if d == p.group {
				ok = true
			}
		}
	}
	if !ok {
		if p.cur != nil {
			if p.inMgr {
				gqm.OnPodDelete(p.group, p.cur)
				c.Op("OnPodDelete(%s, p%d) [same-pod preparation]", p.group, p.slot)
			}
			p.drop()
			p.cur = nil
		}
		p.inc++
		p.req, p.np, p.node, p.term, p.undecl = c01GenReq(r), r.Pct(30), "", false, kit.Pick(r, []int64{0, 0, 1})
		g := kit.Pick(r, dests)
		p.build(r, g, false)
		gqm.OnPodAdd(g, p.cur)
		c.Op("OnPodAdd(%s, %s) [same-pod preparation]", g, p)
		p.inMgr, p.group, p.reserved = true, g, false
	}
	g := p.group
	race := &c01Race{p: p}
	race.sop = c01POp{kind: kit.Pick(r, []string{"reserve", "reserve", "unreserve"}), g: g}
	if race.sop.kind == "unreserve" && !p.reserved {
		gqm.ReservePod(g, p.cur)
		c.Op("ReservePod(%s, p%d) [same-pod preparation]", g, p.slot)
		p.reserved = true
	}
	if race.sop.kind == "reserve" && p.reserved {
		gqm.UnreservePod(g, p.cur)
		c.Op("UnreservePod(%s, p%d) [same-pod preparation]", g, p.slot)
		p.reserved = false
	}
	race.pre = c01PS{held: true, group: g, reserved: p.reserved}
	race.schedPod, race.oldReq = p.cur, p.req
	race.iop = c01POp{kind: kit.Pick(r, []string{"delete", "delete", "resize", "resize", "bind", "label"}), g: g}
	switch race.iop.kind {
	case "resize":
		old := p.req
		for p.req == old {
			p.req = c01GenReq(r)
		}
		p.build(r, g, false)
	case "bind":
		p.node = fmt.Sprintf("n%d", r.Intn(4))
		race.iop.node = p.node
		p.build(r, g, false)
	case "label":
		race.iop.g2 = c01PickDest(r, dests, g)
		if race.iop.g2 == "" {
			race.iop.kind = "delete"
		} else {
			p.build(r, race.iop.g2, false)
		}
	}
	race.newPod = p.cur
	c.Count("same_pod_races", 1)
	c.Count("same_pod_races_"+race.sop.kind+"_vs_"+race.iop.kind, 1)
	return race
}

// sched / informer are the two racing calls.
func (race *c01Race) sched(e *c01Env) {
	p := race.p
	kit.Yield("sp-sched")
	if race.sop.kind == "reserve" {
		e.gqm.ReservePod(race.sop.g, race.schedPod)
		e.c.Op("ReservePod(%s, p%d rv=%s) [same-pod race with %s]", race.sop.g, p.slot, race.schedPod.ResourceVersion, race.iop.kind)
	} else {
		e.gqm.UnreservePod(race.sop.g, race.schedPod)
		e.c.Op("UnreservePod(%s, p%d rv=%s) [same-pod race with %s]", race.sop.g, p.slot, race.schedPod.ResourceVersion, race.iop.kind)
	}
}

func (race *c01Race) informer(e *c01Env) {
	p := race.p
	kit.Yield("sp-informer")
	switch race.iop.kind {
	case "delete":
		e.gqm.OnPodDelete(race.iop.g, race.schedPod)
		e.c.Op("OnPodDelete(%s, p%d) [same-pod race with %s]", race.iop.g, p.slot, race.sop.kind)
	case "label":
		e.gqm.OnPodUpdate(race.iop.g2, race.iop.g, race.newPod, race.schedPod)
		e.c.Op("OnPodUpdate(%s, %s, p%d rv=%s) [quota label changed; same-pod race with %s]", race.iop.g2, race.iop.g, p.slot, race.newPod.ResourceVersion, race.sop.kind)
	default:
		e.gqm.OnPodUpdate(race.iop.g, race.iop.g, race.newPod, race.schedPod)
		e.c.Op("OnPodUpdate(%s, %s, p%d rv=%s) [%s; same-pod race with %s]", race.iop.g, race.iop.g, p.slot, race.newPod.ResourceVersion, race.iop.kind, race.sop.kind)
	}
}

// settle compares the pod's observed end state with the admissible ones and adopts the match.
func (e *c01Env) settleRace(ctx *c01Ctx, race *c01Race, sums map[string]*QuotaInfoSummary) {
	c, p := e.c, race.p
	ends := []c01PS{race.pre.apply(race.sop).apply(race.iop)}
	if other := race.pre.apply(race.iop).apply(race.sop); other != ends[0] {
		ends = append(ends, other)
	}
	c.Count("admissible_end_states_size", len(ends))
	if len(ends) > 1 {
		c.Count("same_pod_races_order_dependent", 1)
	}
	// observed: who holds the pod, with which flag
	var holders []string
	flag := false
	for n, s := range sums {
		if pi, ok := s.PodCache[p.key()]; ok {
			holders = append(holders, n)
			flag = pi.IsAssigned
		}
	}
	sort.Strings(holders)
	match := -1
	for i, s := range ends {
		if (!s.held && len(holders) == 0) || (s.held && len(holders) == 1 && holders[0] == s.group && flag == s.asg()) {
			match = i
			break
		}
	}
	what := fmt.Sprintf("%s: pod p%d, %s(%s) by the scheduling goroutine raced with %s by the informer goroutine", ctx.where, p.slot, race.sop.kind, race.sop.g, race.iop.kind)
	adopt := ends[0]
	if match >= 0 {
		adopt = ends[match]
	} else if race.sop.kind == "unreserve" && race.iop.kind == "bind" && len(holders) == 1 && holders[0] == race.sop.g && !flag {
		// explained by the serial order bind echo -> Unreserve under the code's transitions: UnreservePod
		// releases the used of a pod whose delivered version is bound; the bound pod then counts nowhere
		e.knownDefect(c01SigUnreserveBound, fmt.Sprintf("%s: the pod's latest delivered version carries node %s but the pod is not assigned (does not count as used)", what, p.node))
	} else {
		c.Fail("C01/same-pod/end-state-not-serializable", "%s: observed holders=%v assigned=%v; admissible end states (every serial order): %+v", what, holders, flag, ends)
	}
	if race.iop.kind == "delete" {
		p.cur = nil
	}
	if !adopt.held {
		p.drop()
	} else {
		p.inMgr, p.group, p.reserved = true, adopt.group, adopt.reserved
	}
	if race.iop.kind == "resize" {
		// classification only: the scheduler's call booked the scheduler's (older) copy if it ran second
		if ctx.schedCopy == nil {
			ctx.schedCopy = map[string]bool{}
		}
		ctx.schedCopy[race.sop.g] = true
	}
}
