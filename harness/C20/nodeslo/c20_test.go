//go:build verif

package nodeslo

// C20 monitor: NodeSLO settings are layered  default < cluster < first matching node entry.
// See /verif/DESIGN.md section 4, C20.
//
// What is executed: the real SLOCfgHandlerForConfigMapEvent (syncNodeSLOSpecIfChanged -> syncConfig)
// fed sequences of slo-controller ConfigMaps, then the real NodeSLOReconciler.getNodeSLOSpec for a few
// nodes after every update.
//
// Oracle (independent of util.MergeCfg / the JSON overlay): every layer (cluster strategy, each node
// entry) of the section text that was put into the ConfigMap is decoded ALONE into a fresh typed
// strategy value and flattened by reflection into  leaf path -> value ; the expected leaves of a node
// are  default leaves, overridden by the cluster leaves, overridden by the leaves of the FIRST entry
// whose selector matches (own selector matcher). The delivered strategy is flattened the same way and
// compared leaf by leaf in both directions (a delivered leaf nobody that applies to the node has set
// is a leak). Absent key => defaults only. Unparseable text => the section's effective layers stay
// those of the last parseable update, and the delivered section must equal the one delivered before.
//
// Causal rules of the generator (in-domain inputs only):
//   * one ConfigMap object (koordinator-system/slo-controller-config), versions delivered in order;
//   * every value respects the `validate:` range tags of the API types (the handler itself has no
//     validity gate, the optional webhook has); lower/upper pairs use disjoint ranges so that every
//     merged combination is valid too;
//   * selectors are syntactically valid; nil selector (documented: matches nothing) and empty selector
//     (documented: matches everything) are used; overlapping selectors are in the property's domain;
//   * no explicit JSON null, no explicit zero totalNetworkBandwidth, no empty-string section value
//     (each of these makes "is the field set?" ambiguous); the node bandwidth annotation is not set.

import (
	"encoding/json"
	"fmt"
	"reflect"
	"sort"
	"strings"
	"testing"

	corev1 "k8s.io/api/core/v1"
	"k8s.io/apimachinery/pkg/api/resource"
	metav1 "k8s.io/apimachinery/pkg/apis/meta/v1"
	"k8s.io/apimachinery/pkg/util/intstr"
	"k8s.io/client-go/kubernetes/scheme"
	"k8s.io/client-go/tools/record"
	"k8s.io/klog/v2"
	"sigs.k8s.io/controller-runtime/pkg/client/fake"

	"github.com/koordinator-sh/koordinator/apis/configuration"
	apiext "github.com/koordinator-sh/koordinator/apis/extension"
	slov1alpha1 "github.com/koordinator-sh/koordinator/apis/slo/v1alpha1"
	"github.com/koordinator-sh/koordinator/pkg/util/sloconfig"
	kit "github.com/koordinator-sh/koordinator/pkg/verifkit"
)

func init() {
	klog.SetOutput(c20Discard{})
	klog.LogToStderr(false)
}

type c20Discard struct{}

func (c20Discard) Write(p []byte) (int, error) { return len(p), nil }

// ---------------------------------------------------------------------------------------------
// sections

type c20Section struct {
	name   string       // short name used in signatures and counters
	key    string       // ConfigMap key
	typ    reflect.Type // strategy struct type (nil for the whole-value host-application section)
	cfgTyp reflect.Type // typed envelope, used only for the generator's self check (parses / does not parse)
	def    func() any
	get    func(spec *slov1alpha1.NodeSLOSpec) any
	wrong  []c20KV // wrong-typed members for the "malformed: wrong type" shape
}

type c20KV struct {
	k string
	v any
}

var c20Sections = []*c20Section{
	{name: "threshold", key: configuration.ResourceThresholdConfigKey,
		typ: reflect.TypeOf(slov1alpha1.ResourceThresholdStrategy{}), cfgTyp: reflect.TypeOf(configuration.ResourceThresholdCfg{}),
		def:   func() any { return sloconfig.DefaultResourceThresholdStrategy() },
		get:   func(s *slov1alpha1.NodeSLOSpec) any { return s.ResourceUsedThresholdWithBE },
		wrong: []c20KV{{"enable", "yes"}, {"cpuSuppressThresholdPercent", "sixty"}, {"cpuEvictPolicy", 5}}},
	{name: "qos", key: configuration.ResourceQOSConfigKey,
		typ: reflect.TypeOf(slov1alpha1.ResourceQOSStrategy{}), cfgTyp: reflect.TypeOf(configuration.ResourceQOSCfg{}),
		// the controller's built-in default for resource QoS is "nothing set" (the per-class defaults are applied by the node agent)
		def:   func() any { return &slov1alpha1.ResourceQOSStrategy{} },
		get:   func(s *slov1alpha1.NodeSLOSpec) any { return s.ResourceQOSStrategy },
		wrong: []c20KV{{"lsClass", 7}, {"beClass", map[string]any{"cpuQOS": map[string]any{"enable": 3}}}, {"policies", "x"}}},
	{name: "cpuburst", key: configuration.CPUBurstConfigKey,
		typ: reflect.TypeOf(slov1alpha1.CPUBurstStrategy{}), cfgTyp: reflect.TypeOf(configuration.CPUBurstCfg{}),
		def:   func() any { return sloconfig.DefaultCPUBurstStrategy() },
		get:   func(s *slov1alpha1.NodeSLOSpec) any { return s.CPUBurstStrategy },
		wrong: []c20KV{{"cpuBurstPercent", "x"}, {"policy", 5}, {"sharePoolThresholdPercent", true}}},
	{name: "system", key: configuration.SystemConfigKey,
		typ: reflect.TypeOf(slov1alpha1.SystemStrategy{}), cfgTyp: reflect.TypeOf(configuration.SystemCfg{}),
		def:   func() any { return sloconfig.DefaultSystemStrategy() },
		get:   func(s *slov1alpha1.NodeSLOSpec) any { return s.SystemStrategy },
		wrong: []c20KV{{"minFreeKbytesFactor", true}, {"schedFeatures", []any{1}}, {"watermarkScaleFactor", "9"}}},
	{name: "hostapp", key: configuration.HostApplicationConfigKey,
		cfgTyp: reflect.TypeOf(configuration.HostApplicationCfg{}),
		get:    func(s *slov1alpha1.NodeSLOSpec) any { return s.HostApplications }},
}

var (
	c20TypIntOrStr = reflect.TypeOf(intstr.IntOrString{})
	c20TypQuantity = reflect.TypeOf(resource.Quantity{})
)

// ---------------------------------------------------------------------------------------------
// reflection: flatten a typed strategy into leaf path -> canonical value

type c20Leaves map[string]string

func c20JSONName(sf reflect.StructField) (name string, inline bool, skip bool) {
	tag := sf.Tag.Get("json")
	if tag == "-" {
		return "", false, true
	}
	parts := strings.Split(tag, ",")
	name = parts[0]
	for _, p := range parts[1:] {
		if p == "inline" {
			inline = true
		}
	}
	if name == "" {
		if sf.Anonymous || inline {
			return "", true, false
		}
		name = sf.Name
	}
	return name, false, false
}

// c20Flatten walks v. A leaf is: a non-nil pointer to a scalar / IntOrString, a non-empty string, a
// non-zero Quantity, a non-zero non-pointer scalar, one key of a map, and for slices the pseudo leaf
// "#len" plus the leaves of the elements. Empty structs / nil pointers contribute nothing: the
// statement is about field values, not about whether an intermediate object exists.
func c20Flatten(v reflect.Value, path string, out c20Leaves) {
	switch v.Kind() {
	case reflect.Ptr:
		if v.IsNil() {
			return
		}
		e := v.Elem()
		if e.Type() == c20TypIntOrStr {
			ios := e.Interface().(intstr.IntOrString)
			out[path] = fmt.Sprintf("ios%d:%s", ios.Type, ios.String())
			return
		}
		switch e.Kind() {
		case reflect.Struct:
			c20Flatten(e, path, out)
		case reflect.Bool, reflect.Int, reflect.Int32, reflect.Int64, reflect.String, reflect.Float64:
			out[path] = fmt.Sprint(e.Interface())
		default:
			panic("c20Flatten: unhandled pointer elem kind " + e.Kind().String() + " at " + path)
		}
	case reflect.Struct:
		if v.Type() == c20TypQuantity {
			q := v.Interface().(resource.Quantity)
			if !q.IsZero() {
				out[path] = fmt.Sprintf("q:%d", q.MilliValue())
			}
			return
		}
		t := v.Type()
		for i := 0; i < t.NumField(); i++ {
			name, inline, skip := c20JSONName(t.Field(i))
			if skip {
				continue
			}
			p := path
			if !inline {
				if p != "" {
					p += "."
				}
				p += name
			}
			c20Flatten(v.Field(i), p, out)
		}
	case reflect.String:
		if v.String() != "" {
			out[path] = v.String()
		}
	case reflect.Bool, reflect.Int, reflect.Int32, reflect.Int64, reflect.Float64:
		if !v.IsZero() {
			out[path] = fmt.Sprint(v.Interface())
		}
	case reflect.Map:
		keys := v.MapKeys()
		for _, k := range keys {
			out[path+"{"+fmt.Sprint(k.Interface())+"}"] = fmt.Sprint(v.MapIndex(k).Interface())
		}
	case reflect.Slice:
		if v.Len() > 0 {
			out[path+"#len"] = fmt.Sprint(v.Len())
		}
		for i := 0; i < v.Len(); i++ {
			c20Flatten(v.Index(i), fmt.Sprintf("%s[%d]", path, i), out)
		}
	default:
		panic("c20Flatten: unhandled kind " + v.Kind().String() + " at " + path)
	}
}

func c20FlattenAny(x any) c20Leaves {
	out := c20Leaves{}
	v := reflect.ValueOf(x)
	if !v.IsValid() {
		return out
	}
	c20Flatten(v, "", out)
	return out
}

// container root of a leaf path: the part before the first '[', '{' or '#'; "" if the leaf is a plain field.
func c20ContainerRoot(path string) string {
	if i := strings.IndexAny(path, "[{#"); i >= 0 {
		return path[:i]
	}
	return ""
}

// leaf name for signatures: last path segment without indexes / map keys.
func c20LeafName(path string) string {
	s := path
	if i := strings.LastIndex(s, "."); i >= 0 {
		s = s[i+1:]
	}
	if i := strings.IndexAny(s, "[{"); i >= 0 {
		rest := s[i:]
		s = s[:i]
		if strings.HasPrefix(rest, "{") {
			s += "{}"
		}
	}
	return s
}

func c20SortedKeys(m c20Leaves) []string {
	ks := make([]string, 0, len(m))
	for k := range m {
		ks = append(ks, k)
	}
	sort.Strings(ks)
	return ks
}

// ---------------------------------------------------------------------------------------------
// own selector matcher (Kubernetes label selector semantics; nil selects nothing, empty selects all)

func c20Match(sel *metav1.LabelSelector, lbl map[string]string) bool {
	if sel == nil {
		return false
	}
	for k, v := range sel.MatchLabels {
		if got, ok := lbl[k]; !ok || got != v {
			return false
		}
	}
	for _, e := range sel.MatchExpressions {
		got, has := lbl[e.Key]
		in := false
		for _, v := range e.Values {
			if has && v == got {
				in = true
			}
		}
		switch e.Operator {
		case metav1.LabelSelectorOpIn:
			if !in {
				return false
			}
		case metav1.LabelSelectorOpNotIn:
			if in {
				return false
			}
		case metav1.LabelSelectorOpExists:
			if !has {
				return false
			}
		case metav1.LabelSelectorOpDoesNotExist:
			if has {
				return false
			}
		default:
			panic("c20Match: generator produced an unknown operator")
		}
	}
	return true
}

// ---------------------------------------------------------------------------------------------
// generator of typed strategy values (random subset of leaves, per-layer sentinel values)

// integer ranges by JSON name, taken from the validate tags / kubebuilder markers of the API types.
// lower/upper pairs (gtfield/ltfield) get disjoint ranges.
var c20IntRange = map[string][2]int64{
	"groupIdentity": {-1, 2}, "schedIdle": {0, 1},
	"minLimitPercent": {0, 100}, "lowLimitPercent": {0, 100}, "throttlingPercent": {0, 100}, "wmarkRatio": {0, 100},
	"wmarkScalePermill": {1, 1000}, "wmarkMinAdj": {-25, 50}, "priorityEnable": {0, 1}, "priority": {0, 12}, "oomKillGroup": {0, 1},
	"pageCacheLimitPercent": {0, 100}, "pageCacheLimitSize": {0, 1 << 30},
	"readIOPS": {0, 100000}, "writeIOPS": {0, 100000}, "readBPS": {0, 1 << 30}, "writeBPS": {0, 1 << 30}, "ioWeightPercent": {1, 100},
	"readLatency": {0, 100000}, "writeLatency": {0, 100000}, "readLatencyPercent": {0, 100}, "writeLatencyPercent": {0, 100},
	"modelReadBPS": {1, 1 << 30}, "modelWriteBPS": {1, 1 << 30}, "modelReadSeqIOPS": {1, 100000}, "modelWriteSeqIOPS": {1, 100000},
	"modelReadRandIOPS": {1, 100000}, "modelWriteRandIOPS": {1, 100000},
	"catRangeStartPercent": {0, 39}, "catRangeEndPercent": {50, 99}, "mbaPercent": {0, 100},
	"cpuSuppressThresholdPercent": {0, 100}, "cpuSuppressMinPercent": {0, 100},
	"memoryEvictLowerPercent": {0, 39}, "memoryEvictThresholdPercent": {50, 99},
	"memoryAllocatableEvictLowerPercent": {50, 99}, "memoryAllocatableEvictThresholdPercent": {100, 199},
	"cpuEvictBESatisfactionLowerPercent": {0, 39}, "cpuEvictBESatisfactionUpperPercent": {50, 99},
	"cpuEvictBEUsageThresholdPercent": {0, 100}, "cpuEvictTimeWindowSeconds": {1, 3600},
	"cpuEvictLowerPercent": {0, 39}, "cpuEvictThresholdPercent": {50, 99},
	"cpuAllocatableEvictLowerPercent": {50, 99}, "cpuAllocatableEvictThresholdPercent": {100, 199},
	"evictEnabledPriorityThreshold": {0, 9999}, "allocatableEvictPriorityThreshold": {0, 7999},
	"cpuBurstPercent": {1, 10000}, "cfsQuotaBurstPercent": {100, 1099}, "cfsQuotaBurstPeriodSeconds": {-1, 3598}, "sharePoolThresholdPercent": {0, 100},
	"minFreeKbytesFactor": {1, 1000}, "watermarkScaleFactor": {1, 400}, "memcgReapBackGround": {0, 1},
	"schedGroupIdentityEnabled": {0, 1}, "schedIdleSaverWmark": {0, 100000}, "pageCacheLimitEnabled": {0, 1},
}

var c20Enum = map[string][]string{
	"cpuSuppressPolicy": {string(slov1alpha1.CPUSetPolicy), string(slov1alpha1.CPUCfsQuotaPolicy)},
	"cpuEvictPolicy":    {string(slov1alpha1.EvictByRealLimitPolicy), string(slov1alpha1.EvictByAllocatablePolicy)},
	"policy":            {string(slov1alpha1.CPUBurstNone), string(slov1alpha1.CPUBurstOnly), string(slov1alpha1.CFSQuotaBurstOnly), string(slov1alpha1.CPUBurstAuto)},
	"cpuPolicy":         {string(slov1alpha1.CPUQOSPolicyGroupIdentity), string(slov1alpha1.CPUQOSPolicyCoreSched)},
	"netQOSPolicy":      {string(slov1alpha1.NETQOSPolicyTC), string(slov1alpha1.NETQOSPolicyTerwayQos)},
	"type":              {string(slov1alpha1.BlockTypeDevice), string(slov1alpha1.BlockTypeVolumeGroup), string(slov1alpha1.BlockTypePodVolume)},
}

var c20SchedFeatureKeys = []string{"ID_BOOK_CPU", "ID_EXPELLER_SHARE_CORE", "ID_ABSOLUTE_EXPEL"}

type c20Gen struct {
	r         *kit.Rand
	layer     int // 0 = cluster, 1..4 = node entry index+1  (selects the sentinel band)
	leafPct   int
	structPct int
	seq       int
}

func (g *c20Gen) hit() bool { return g.r.Pct(g.leafPct) }

// band returns a value of [lo,hi] inside the band of this layer (5 bands) when the range is wide enough.
func (g *c20Gen) band(lo, hi int64) int64 {
	w := hi - lo + 1
	bw := w / 5
	if bw == 0 {
		return lo + g.r.Int63n(w)
	}
	return lo + int64(g.layer)*bw + g.r.Int63n(bw)
}

func (g *c20Gen) intFor(name string) int64 {
	rg, ok := c20IntRange[name]
	if !ok {
		panic("c20Gen: no integer range for JSON field " + name)
	}
	return g.band(rg[0], rg[1])
}

func (g *c20Gen) strFor(name string) string {
	if name == "name" {
		g.seq++
		return fmt.Sprintf("L%d-blk%d", g.layer, g.seq)
	}
	e, ok := c20Enum[name]
	if !ok {
		panic("c20Gen: no enum for JSON field " + name)
	}
	return kit.Pick(g.r, e)
}

func (g *c20Gen) fill(v reflect.Value) {
	t := v.Type()
	for i := 0; i < t.NumField(); i++ {
		sf := t.Field(i)
		name, _, skip := c20JSONName(sf)
		if skip {
			continue
		}
		f := v.Field(i)
		switch f.Kind() {
		case reflect.Ptr:
			et := sf.Type.Elem()
			switch {
			case et == c20TypIntOrStr:
				if g.hit() {
					var x intstr.IntOrString
					if g.r.Bool() {
						x = intstr.FromInt32(int32(g.band(0, 100)))
					} else {
						x = intstr.FromString(fmt.Sprintf("%dM", g.band(1, 1000)))
					}
					f.Set(reflect.ValueOf(&x))
				}
			case et.Kind() == reflect.Struct:
				if g.r.Pct(g.structPct) {
					nv := reflect.New(et)
					g.fill(nv.Elem())
					f.Set(nv)
				}
			case et.Kind() == reflect.Bool:
				if g.hit() {
					nv := reflect.New(et)
					nv.Elem().SetBool(g.r.Bool())
					f.Set(nv)
				}
			case et.Kind() == reflect.Int64 || et.Kind() == reflect.Int32:
				if g.hit() {
					nv := reflect.New(et)
					nv.Elem().SetInt(g.intFor(name))
					f.Set(nv)
				}
			case et.Kind() == reflect.String:
				if g.hit() {
					nv := reflect.New(et)
					nv.Elem().SetString(g.strFor(name))
					f.Set(nv)
				}
			default:
				panic("c20Gen: unhandled pointer field " + sf.Name)
			}
		case reflect.Struct:
			if sf.Type == c20TypQuantity {
				if g.hit() {
					f.Set(reflect.ValueOf(resource.MustParse(fmt.Sprintf("%dM", g.band(1, 1000)))))
				}
			} else {
				g.fill(f)
			}
		case reflect.String:
			if g.hit() {
				f.SetString(g.strFor(name))
			}
		case reflect.Map: // map[string]bool
			if g.hit() {
				m := reflect.MakeMap(sf.Type)
				for _, k := range c20SchedFeatureKeys {
					if g.r.Pct(50) {
						m.SetMapIndex(reflect.ValueOf(k), reflect.ValueOf(g.r.Bool()))
					}
				}
				if m.Len() > 0 {
					f.Set(m)
				}
			}
		case reflect.Slice: // []*BlockCfg
			if g.hit() {
				n := g.r.Range(1, 2)
				s := reflect.MakeSlice(sf.Type, 0, n)
				sub := *g
				if sub.leafPct < 35 {
					sub.leafPct = 35
				}
				for k := 0; k < n; k++ {
					nv := reflect.New(sf.Type.Elem().Elem())
					sub.fill(nv.Elem())
					s = reflect.Append(s, nv)
				}
				g.seq = sub.seq
				f.Set(s)
			}
		default:
			panic("c20Gen: unhandled field kind " + f.Kind().String() + " of " + sf.Name)
		}
	}
}

// genStrategyJSON builds one typed strategy and returns it as a generic JSON object. An unset
// totalNetworkBandwidth (non-pointer, not omittable by encoding/json) is removed so that the text
// does not mention fields the layer does not set.
func (g *c20Gen) genStrategyJSON(t reflect.Type) map[string]any {
	nv := reflect.New(t)
	g.fill(nv.Elem())
	b, err := json.Marshal(nv.Interface())
	if err != nil {
		panic("c20Gen: marshal typed strategy: " + err.Error())
	}
	m := map[string]any{}
	if err := json.Unmarshal(b, &m); err != nil {
		panic("c20Gen: " + err.Error())
	}
	if q, ok := m["totalNetworkBandwidth"]; ok && q == "0" {
		delete(m, "totalNetworkBandwidth")
	}
	return m
}

var (
	c20LabelKeys = []string{"pool", "zone", "tier"}
	c20LabelVals = []string{"a", "b", "c"}
)

func c20GenSelector(r *kit.Rand) *metav1.LabelSelector {
	sel := &metav1.LabelSelector{}
	switch r.Weighted(6, 8, 36, 12, 26, 12) {
	case 0:
		return nil // documented: a nil selector matches no node
	case 1:
		return sel // documented: an empty selector matches every node
	case 2:
		sel.MatchLabels = map[string]string{kit.Pick(r, c20LabelKeys): kit.Pick(r, c20LabelVals)}
	case 3:
		p := r.Perm(len(c20LabelKeys))
		sel.MatchLabels = map[string]string{c20LabelKeys[p[0]]: kit.Pick(r, c20LabelVals), c20LabelKeys[p[1]]: kit.Pick(r, c20LabelVals)}
	case 4:
		sel.MatchExpressions = []metav1.LabelSelectorRequirement{c20GenExpr(r)}
	case 5:
		sel.MatchLabels = map[string]string{kit.Pick(r, c20LabelKeys): kit.Pick(r, c20LabelVals)}
		sel.MatchExpressions = []metav1.LabelSelectorRequirement{c20GenExpr(r)}
	}
	return sel
}

func c20GenExpr(r *kit.Rand) metav1.LabelSelectorRequirement {
	e := metav1.LabelSelectorRequirement{Key: kit.Pick(r, c20LabelKeys)}
	switch r.Intn(4) {
	case 0, 1:
		e.Operator = metav1.LabelSelectorOpIn
		if r.Intn(4) == 1 {
			e.Operator = metav1.LabelSelectorOpNotIn
		}
		p := r.Perm(len(c20LabelVals))
		n := r.Range(1, 2)
		for i := 0; i < n; i++ {
			e.Values = append(e.Values, c20LabelVals[p[i]])
		}
		sort.Strings(e.Values)
	case 2:
		e.Operator = metav1.LabelSelectorOpExists
	case 3:
		e.Operator = metav1.LabelSelectorOpDoesNotExist
	}
	return e
}

func c20SelectorJSON(sel *metav1.LabelSelector) any {
	b, _ := json.Marshal(sel)
	var x any
	_ = json.Unmarshal(b, &x)
	return x
}

func c20GenApps(r *kit.Rand, layer int, n int) []any {
	var out []any
	for i := 0; i < n; i++ {
		a := slov1alpha1.HostApplicationSpec{
			Name:     fmt.Sprintf("L%d-app%d", layer, i),
			Priority: kit.Pick(r, []apiext.PriorityClass{apiext.PriorityProd, apiext.PriorityMid, apiext.PriorityBatch, ""}),
			QoS:      kit.Pick(r, []apiext.QoSClass{apiext.QoSLS, apiext.QoSBE, apiext.QoSLSR, ""}),
		}
		if r.Bool() {
			a.CgroupPath = &slov1alpha1.CgroupPath{
				Base:         kit.Pick(r, []slov1alpha1.CgroupBaseType{slov1alpha1.CgroupBaseTypeRoot, slov1alpha1.CgroupBaseTypeKubepods, slov1alpha1.CgroupBaseTypeKubeBurstable, ""}),
				ParentDir:    kit.Pick(r, []string{"", "host-latency-sensitive/", "host-best-effort/"}),
				RelativePath: fmt.Sprintf("L%d-app%d/", layer, i),
			}
		}
		b, _ := json.Marshal(a)
		var x any
		_ = json.Unmarshal(b, &x)
		out = append(out, x)
	}
	return out
}

// c20GenValid returns a parseable section text. full: every leaf at the cluster layer.
func c20GenValid(r *kit.Rand, sec *c20Section, full bool) string {
	env := map[string]any{}
	nEntries := r.Intn(5)
	var prevSel []*metav1.LabelSelector
	genSel := func() *metav1.LabelSelector {
		// 25%: literally the selector of an earlier entry (two entries matching the same nodes, first wins)
		if len(prevSel) > 0 && r.Pct(25) {
			return kit.Pick(r, prevSel)
		}
		return c20GenSelector(r)
	}
	entryDensity := []int{5, 15, 40, 80}
	if sec.typ == nil { // host applications: whole-value lists
		if full || r.Pct(70) {
			if apps := c20GenApps(r, 0, r.Range(1, 3)); len(apps) > 0 {
				env["applications"] = apps
			}
		}
		var ents []any
		for i := 0; i < nEntries; i++ {
			e := map[string]any{"name": fmt.Sprintf("e%d", i)}
			sel := genSel()
			prevSel = append(prevSel, sel)
			if sel != nil {
				e["nodeSelector"] = c20SelectorJSON(sel)
			}
			if r.Pct(85) {
				e["applications"] = c20GenApps(r, i+1, r.Range(1, 2))
			}
			ents = append(ents, e)
		}
		if ents != nil || r.Pct(10) {
			if ents == nil {
				ents = []any{}
			}
			env["nodeConfigs"] = ents
		}
	} else {
		if full || r.Pct(75) {
			g := &c20Gen{r: r, layer: 0, leafPct: kit.Pick(r, []int{8, 25, 60}), structPct: 55}
			if full {
				g.leafPct, g.structPct = 100, 100
			}
			env["clusterStrategy"] = g.genStrategyJSON(sec.typ)
		}
		var ents []any
		for i := 0; i < nEntries; i++ {
			e := map[string]any{}
			if r.Pct(90) {
				g := &c20Gen{r: r, layer: i + 1, leafPct: kit.Pick(r, entryDensity), structPct: 50}
				if full && r.Pct(30) {
					g.leafPct, g.structPct = 100, 100
				}
				e = g.genStrategyJSON(sec.typ)
			}
			e["name"] = fmt.Sprintf("e%d", i)
			sel := genSel()
			prevSel = append(prevSel, sel)
			if sel != nil {
				e["nodeSelector"] = c20SelectorJSON(sel)
			}
			ents = append(ents, e)
		}
		if ents != nil || r.Pct(10) {
			if ents == nil {
				ents = []any{}
			}
			env["nodeStrategies"] = ents
		}
	}
	return c20Marshal(r, env)
}

func c20Marshal(r *kit.Rand, x any) string {
	var b []byte
	if r.Pct(25) {
		b, _ = json.MarshalIndent(x, "", "  ")
	} else {
		b, _ = json.Marshal(x)
	}
	return string(b)
}

// c20GenMalformed returns a text that cannot be parsed into the section's configuration.
func c20GenMalformed(r *kit.Rand, sec *c20Section) (text string, kind string) {
	valid := c20GenValid(r, sec, false)
	switch r.Weighted(40, 45, 15) {
	case 0: // truncated JSON: a proper prefix of an object text is never a complete JSON value
		return valid[:r.Range(1, len(valid)-1)], "truncated"
	case 1: // wrong type somewhere
		var env map[string]any
		_ = json.Unmarshal([]byte(valid), &env)
		entKey, cluKey := "nodeStrategies", "clusterStrategy"
		if sec.typ == nil {
			entKey = "nodeConfigs"
		}
		ents, _ := env[entKey].([]any)
		switch w := r.Weighted(40, 30, 30); {
		case w == 0 && sec.typ != nil: // wrong-typed member in the cluster strategy
			clu, _ := env[cluKey].(map[string]any)
			if clu == nil {
				clu = map[string]any{}
			}
			kv := kit.Pick(r, sec.wrong)
			clu[kv.k] = kv.v
			env[cluKey] = clu
			return c20Marshal(r, env), "wrongtype-cluster"
		case w == 1 && len(ents) > 0: // wrong-typed member in a node entry
			e := ents[r.Intn(len(ents))].(map[string]any)
			if sec.typ != nil && r.Pct(70) {
				kv := kit.Pick(r, sec.wrong)
				e[kv.k] = kv.v
			} else {
				e["nodeSelector"] = "pool=a"
			}
			return c20Marshal(r, env), "wrongtype-entry"
		default: // wrong-typed envelope member
			if sec.typ == nil {
				kv := kit.Pick(r, []c20KV{{"applications", map[string]any{"a": 1}}, {"nodeConfigs", 3}, {"applications", []any{map[string]any{"name": 5}}}})
				env[kv.k] = kv.v
			} else {
				kv := kit.Pick(r, []c20KV{{"clusterStrategy", 5}, {"nodeStrategies", "x"}, {"nodeStrategies", map[string]any{"a": 1}}, {"clusterStrategy", []any{}}})
				env[kv.k] = kv.v
			}
			return c20Marshal(r, env), "wrongtype-envelope"
		}
	default:
		return kit.Pick(r, []string{"invalid_content", "[]", `"x"`, "{", `{"clusterStrategy":`, "7"}), "garbage"
	}
}

// ---------------------------------------------------------------------------------------------
// oracle: effective layers of a section

type c20Entry struct {
	name   string
	sel    *metav1.LabelSelector
	leaves c20Leaves // strategy sections
	apps   []string  // host applications: canonical JSON per application
}

type c20Eff struct {
	fromText bool // false: defaults only (absent key / nothing synced yet)
	nonEmpty bool // some layer sets something
	cluster  c20Leaves
	cluApps  []string
	entries  []c20Entry
}

func c20CanonApps(apps []slov1alpha1.HostApplicationSpec) []string {
	out := make([]string, 0, len(apps))
	for i := range apps {
		b, _ := json.Marshal(apps[i])
		out = append(out, string(b))
	}
	return out
}

// c20Parse decodes each layer of a parseable text ALONE (its own JSON round trip) and flattens it.
func c20Parse(sec *c20Section, text string) (*c20Eff, error) {
	eff := &c20Eff{fromText: true}
	if sec.typ == nil {
		var env struct {
			Applications []slov1alpha1.HostApplicationSpec `json:"applications"`
			NodeConfigs  []json.RawMessage                 `json:"nodeConfigs"`
		}
		if err := json.Unmarshal([]byte(text), &env); err != nil {
			return nil, err
		}
		eff.cluApps = c20CanonApps(env.Applications)
		eff.nonEmpty = len(eff.cluApps) > 0
		for _, raw := range env.NodeConfigs {
			var prof configuration.NodeCfgProfile
			var body struct {
				Applications []slov1alpha1.HostApplicationSpec `json:"applications"`
			}
			if err := json.Unmarshal(raw, &prof); err != nil {
				return nil, err
			}
			if err := json.Unmarshal(raw, &body); err != nil {
				return nil, err
			}
			e := c20Entry{name: prof.Name, sel: prof.NodeSelector, apps: c20CanonApps(body.Applications)}
			eff.nonEmpty = eff.nonEmpty || len(e.apps) > 0
			eff.entries = append(eff.entries, e)
		}
		return eff, nil
	}
	var env struct {
		ClusterStrategy json.RawMessage   `json:"clusterStrategy"`
		NodeStrategies  []json.RawMessage `json:"nodeStrategies"`
	}
	if err := json.Unmarshal([]byte(text), &env); err != nil {
		return nil, err
	}
	eff.cluster = c20Leaves{}
	if len(env.ClusterStrategy) > 0 && string(env.ClusterStrategy) != "null" {
		x := reflect.New(sec.typ)
		if err := json.Unmarshal(env.ClusterStrategy, x.Interface()); err != nil {
			return nil, err
		}
		eff.cluster = c20FlattenAny(x.Interface())
	}
	eff.nonEmpty = len(eff.cluster) > 0
	for _, raw := range env.NodeStrategies {
		var prof configuration.NodeCfgProfile
		if err := json.Unmarshal(raw, &prof); err != nil {
			return nil, err
		}
		x := reflect.New(sec.typ)
		if err := json.Unmarshal(raw, x.Interface()); err != nil {
			return nil, err
		}
		e := c20Entry{name: prof.Name, sel: prof.NodeSelector, leaves: c20FlattenAny(x.Interface())}
		eff.nonEmpty = eff.nonEmpty || len(e.leaves) > 0
		eff.entries = append(eff.entries, e)
	}
	return eff, nil
}

// matching entries of a node, in list order
func (e *c20Eff) matches(lbl map[string]string) []int {
	var out []int
	for i := range e.entries {
		if c20Match(e.entries[i].sel, lbl) {
			out = append(out, i)
		}
	}
	return out
}

type c20Want struct {
	must    c20Leaves
	mustSrc map[string]string // "entry" | "cluster" | "default"
	may     c20Leaves         // container members (slice elements / map keys) set only by a lower applicable layer: absent or this value
}

// c20Expect: three-layer merge in leaf space. layers are the applicable ones, lowest first.
// Plain fields: the highest layer that sets the leaf wins. Containers (the blocks list, the
// schedFeatures map): the statement does not say whether "field" means the container or its
// members, so only what both readings agree on is demanded: the members set by the highest layer
// that sets the container have that layer's values and the list has that layer's length; a member
// set only by a lower applicable layer may be absent (container replaced as a whole) or carry that
// lower layer's value (member-wise merge) and nothing else.
func c20Expect(names []string, layers []c20Leaves) c20Want {
	w := c20Want{must: c20Leaves{}, mustSrc: map[string]string{}, may: c20Leaves{}}
	top := map[string]int{}
	for li, l := range layers {
		for p := range l {
			if root := c20ContainerRoot(p); root != "" {
				top[root] = li
			}
		}
	}
	for li, l := range layers {
		for p, v := range l {
			root := c20ContainerRoot(p)
			if root == "" {
				w.must[p], w.mustSrc[p] = v, names[li]
			} else if top[root] == li {
				w.must[p], w.mustSrc[p] = v, names[li]
			}
		}
	}
	for li := len(layers) - 1; li >= 0; li-- {
		for p, v := range layers[li] {
			root := c20ContainerRoot(p)
			if root == "" || top[root] == li {
				continue
			}
			if _, ok := w.must[p]; ok {
				continue
			}
			if _, ok := w.may[p]; ok {
				continue // a higher (still lower than top) applicable layer already gave the alternative
			}
			if top[root] > li {
				w.may[p] = v
			}
		}
	}
	return w
}

// ---------------------------------------------------------------------------------------------
// the workload

type c20Node struct {
	node     *corev1.Node
	prev     map[string]c20Leaves // per section: leaves delivered after the previous update (strategy sections)
	prevApps []string
	prevSpec *slov1alpha1.NodeSLOSpec
	havePrev bool
}

type c20SecState struct {
	eff       *c20Eff
	lastText  string
	lastState string // absent | empty | partial | full | malformed
	prevState string // state of the update before
	hasText   bool
}

var c20States = []string{"absent", "empty", "partial", "full", "malformed", "same"}

func TestVerifC20Layering(t *testing.T) {
	fakeClient := fake.NewClientBuilder().WithScheme(scheme.Scheme).Build()
	defaults := map[string]c20Leaves{}
	for _, sec := range c20Sections {
		if sec.typ != nil {
			defaults[sec.name] = c20FlattenAny(sec.def())
		}
	}
	kit.Run(t, kit.Config{Property: "C20", Unit: "layering", Quick: 3000, Thorough: 160000,
		Rule: "one case = 2-6 ConfigMap updates through the real syncConfig, after each update getNodeSLOSpec for 3-5 nodes; per update each of the five sections is independently absent / {} / partial / full / malformed (truncated, wrong type, garbage) / unchanged text; 0-4 node entries per section with selectors over a 3x3 label universe (nil, empty, matchLabels, In/NotIn/Exists/DoesNotExist, 25% literal duplicates of an earlier entry's selector); typed strategies with a random subset of leaves, per-layer sentinel bands; distinct = (section, state, previous state, #entries, #matching entries class, sources of the expected leaves); non-trivial = the case had a malformed-after-good transition AND a node matched by >= 2 entries that differ"},
		func(c *kit.Case) {
			r := c.R
			h := NewSLOCfgHandlerForConfigMapEvent(fakeClient, DefaultSLOCfg(), &record.FakeRecorder{})
			rec := &NodeSLOReconciler{Client: fakeClient, sloCfgCache: h}
			// nodes
			nNodes := r.Range(3, 5)
			nodes := make([]*c20Node, nNodes)
			for i := range nodes {
				var lbl map[string]string
				if !r.Pct(12) {
					lbl = map[string]string{}
					for _, k := range c20LabelKeys {
						if r.Pct(60) {
							lbl[k] = kit.Pick(r, c20LabelVals)
						}
					}
					if r.Pct(30) {
						lbl["kubernetes.io/hostname"] = fmt.Sprintf("node-%d", i)
					}
				}
				nodes[i] = &c20Node{node: &corev1.Node{ObjectMeta: metav1.ObjectMeta{Name: fmt.Sprintf("node-%d", i), Labels: lbl}}, prev: map[string]c20Leaves{}}
				c.Op("node-%d labels=%v", i, lbl)
			}
			st := map[string]*c20SecState{}
			for _, sec := range c20Sections {
				st[sec.name] = &c20SecState{eff: &c20Eff{}, lastState: "absent"}
			}
			sawMalformedAfterGood, sawDecisiveFirstWins := false, false
			var sampleSteps []string

			nUpd := r.Range(2, 6)
			for step := 0; step < nUpd; step++ {
				data := map[string]string{}
				malformedNow := map[string]bool{}
				stepDesc := ""
				for _, sec := range c20Sections {
					s := st[sec.name]
					s.prevState = s.lastState
					state := c20States[r.Weighted(13, 8, 34, 10, 22, 13)]
					if state == "same" {
						state = s.lastState
						if !s.hasText { // nothing to repeat
							state = "absent"
						}
						c.Count("state_"+sec.name+"_repeated", 1)
					} else {
						switch state {
						case "absent":
							s.hasText = false
						case "empty":
							forms := []string{"{}", "null", " { } "}
							if sec.typ != nil {
								forms = append(forms, `{"clusterStrategy":{}}`, `{"nodeStrategies":[]}`, `{"clusterStrategy":{},"nodeStrategies":[]}`)
							} else {
								forms = append(forms, `{"applications":[]}`, `{"nodeConfigs":[]}`)
							}
							s.lastText, s.hasText = kit.Pick(r, forms), true
						case "partial":
							s.lastText, s.hasText = c20GenValid(r, sec, false), true
						case "full":
							s.lastText, s.hasText = c20GenValid(r, sec, true), true
						case "malformed":
							var kind string
							s.lastText, kind = c20GenMalformed(r, sec)
							s.hasText = true
							c.Count("malformed_kind_"+kind, 1)
						}
						s.lastState = state
					}
					c.Count("state_"+sec.name+"_"+state, 1)
					// generator self check + oracle state transition
					if s.hasText {
						data[sec.key] = s.lastText
						typed := reflect.New(sec.cfgTyp)
						perr := json.Unmarshal([]byte(s.lastText), typed.Interface())
						if state == "malformed" {
							if perr == nil {
								c.Harness("generator: %s text meant to be malformed parses: %s", sec.name, s.lastText)
							}
							malformedNow[sec.name] = true
							if s.eff.nonEmpty {
								c.Count("malformed_after_good", 1)
								c.Count("malformed_after_good_"+sec.name, 1)
								sawMalformedAfterGood = true
							} else {
								c.Count("malformed_after_defaults", 1)
							}
							// effective layers stay as they are
						} else {
							if perr != nil {
								c.Harness("generator: %s text meant to be valid does not parse (%v): %s", sec.name, perr, s.lastText)
							}
							eff, err := c20Parse(sec, s.lastText)
							if err != nil {
								c.Harness("oracle cannot parse valid %s text (%v): %s", sec.name, err, s.lastText)
							}
							s.eff = eff
							c.Count("leaves_set_cluster_"+sec.name, len(eff.cluster)+len(eff.cluApps))
							for _, e := range eff.entries {
								c.Count("leaves_set_entry_"+sec.name, len(e.leaves)+len(e.apps))
							}
							c.Count("entries_"+sec.name, len(eff.entries))
						}
						c.Op("step %d %s state=%s text=%s", step, sec.name, state, s.lastText)
					} else {
						s.eff = &c20Eff{}
						c.Op("step %d %s state=absent", step, sec.name)
					}
					stepDesc += fmt.Sprintf("%s:%s(%d) ", sec.name, state, len(s.eff.entries))
				}
				if r.Pct(30) { // unrelated keys of the same ConfigMap
					data[configuration.ColocationConfigKey] = kit.Pick(r, []string{`{"enable":true}`, "invalid_content", "{}"})
				}
				cm := &corev1.ConfigMap{
					TypeMeta:   metav1.TypeMeta{Kind: "ConfigMap", APIVersion: "v1"},
					ObjectMeta: metav1.ObjectMeta{Name: sloconfig.SLOCtrlConfigMap, Namespace: sloconfig.ConfigNameSpace, ResourceVersion: fmt.Sprint(step + 1)},
					Data:       data,
				}
				changed := h.syncNodeSLOSpecIfChanged(cm)
				c.Op("step %d syncConfig -> changed=%v", step, changed)
				c.Count("sync_calls", 1)
				if changed {
					c.Count("sync_changed", 1)
				}
				if len(sampleSteps) < 6 {
					sampleSteps = append(sampleSteps, strings.TrimSpace(stepDesc))
				}

				// observe every node
				for ni, n := range nodes {
					var old *slov1alpha1.NodeSLOSpec
					if n.havePrev && r.Bool() {
						old = n.prevSpec // Reconcile passes the existing NodeSLO spec when the object exists
					}
					spec, err := rec.getNodeSLOSpec(n.node, old)
					if err != nil || spec == nil {
						c.Fail("C20/spec/error", "getNodeSLOSpec(node-%d) after step %d returned spec=%v err=%v", ni, step, spec, err)
					}
					c.Count("specs_computed", 1)
					for _, sec := range c20Sections {
						s := st[sec.name]
						m := s.eff.matches(n.node.Labels)
						switch {
						case len(m) == 0:
							c.Count("node_matched_by_0_entries", 1)
						case len(m) == 1:
							c.Count("node_matched_by_1_entry", 1)
						default:
							c.Count("node_matched_by_2plus_entries", 1)
						}
						phase := "layering"
						if malformedNow[sec.name] {
							phase = "after-malformed"
						}
						if sec.typ == nil {
							got := c20CanonApps(spec.HostApplications)
							if malformedNow[sec.name] && n.havePrev {
								c.Count("keep_old_comparisons", 1)
								if c20SameApps(got, n.prevApps) {
									// unchanged by the unparseable update: correct; the layering of this value was decided at the previous update
									c.Count("sections_ok", 1)
									continue
								}
								c.Report("C20/hostapp/after-malformed/changed", "step %d node-%d labels=%v: host applications changed by an update whose %s text cannot be parsed: before %v, after %v; text=%s",
									step, ni, n.node.Labels, sec.key, n.prevApps, got, s.lastText)
							}
							c20CheckApps(c, sec, s.eff, m, got, phase, step, ni, n, &sawDecisiveFirstWins)
							n.prevApps = got
							continue
						}
						got := c20FlattenAny(sec.get(spec))
						// expected leaves
						names := []string{"default"}
						layers := []c20Leaves{defaults[sec.name]}
						if s.eff.fromText {
							names, layers = append(names, "cluster"), append(layers, s.eff.cluster)
							if len(m) > 0 {
								names, layers = append(names, "entry"), append(layers, s.eff.entries[m[0]].leaves)
							}
						}
						want := c20Expect(names, layers)
						if len(m) >= 2 && !reflect.DeepEqual(s.eff.entries[m[0]].leaves, s.eff.entries[m[1]].leaves) {
							c.Count("first_wins_decisive", 1)
							sawDecisiveFirstWins = true
						}
						srcMask := map[string]bool{}
						nMis := 0
						// An unparseable update that left the delivered section exactly as it was is
						// correct by the statement's last clause; whether that unchanged value is the
						// right layering was already decided (and reported) at the previous update.
						unchangedAfterMalformed := malformedNow[sec.name] && n.havePrev && reflect.DeepEqual(got, n.prev[sec.name])
						mismatch := func(path, wantSrc, wantVal string, gotVal string, present bool) {
							nMis++
							if nMis > 3 || unchangedAfterMalformed {
								return
							}
							cls := c20Classify(s.eff, defaults[sec.name], m, path, gotVal, present, n.prev[sec.name])
							sig := fmt.Sprintf("C20/%s/%s/want-%s-got-%s/%s", sec.name, phase, wantSrc, cls, c20LeafName(path))
							first := "none"
							if len(m) > 0 {
								first = s.eff.entries[m[0]].name
							}
							c.Report(sig, "step %d node-%d labels=%v section %s leaf %q: want %s value %q, delivered %q (present=%v, looks like: %s); matching entries %v (first=%s); state=%s; effective text or last text=%s",
								step, ni, n.node.Labels, sec.key, path, wantSrc, wantVal, gotVal, present, cls, m, first, s.lastState, s.lastText)
						}
						for _, p := range c20SortedKeys(want.must) {
							c.Count("leaf_comparisons", 1)
							srcMask[want.mustSrc[p]] = true
							c.Count("expected_from_"+want.mustSrc[p], 1)
							gv, ok := got[p]
							if !ok || gv != want.must[p] {
								mismatch(p, want.mustSrc[p], want.must[p], gv, ok)
							}
						}
						for _, p := range c20SortedKeys(got) {
							if _, ok := want.must[p]; ok {
								continue
							}
							c.Count("leaf_comparisons", 1)
							if mv, ok := want.may[p]; ok && mv == got[p] {
								c.Count("container_member_kept_from_lower_layer", 1)
								continue
							}
							mismatch(p, "absent", "", got[p], true)
						}
						for p := range want.may {
							if _, ok := got[p]; !ok {
								c.Count("container_member_of_lower_layer_dropped", 1)
							}
						}
						// leak accounting: leaves set by entries that do not apply to this node
						for ei := range s.eff.entries {
							if len(m) > 0 && ei == m[0] {
								continue
							}
							c.Count("leak_probes", len(s.eff.entries[ei].leaves))
						}
						if nMis == 0 {
							c.Count("sections_ok", 1)
						}
						// literal keep-old check
						if malformedNow[sec.name] && n.havePrev {
							c.Count("keep_old_comparisons", 1)
							if !unchangedAfterMalformed {
								c.Report("C20/"+sec.name+"/after-malformed/changed", "step %d node-%d labels=%v: section %s delivered to the node changed by an update whose text cannot be parsed.\nbefore: %v\nafter:  %v\ntext=%s",
									step, ni, n.node.Labels, sec.key, c20Show(n.prev[sec.name]), c20Show(got), s.lastText)
							}
						}
						n.prev[sec.name] = got
						mc := len(m)
						if mc > 2 {
							mc = 2
						}
						c.Seen(sec.name, s.lastState, s.prevState, len(s.eff.entries), mc, srcMask["default"], srcMask["cluster"], srcMask["entry"], len(want.may) > 0, phase)
					}
					// extensions: no extender is registered in this process, nothing may be delivered
					if len(globalNodeSLOMergedExtender) == 0 && spec.Extensions != nil && len(spec.Extensions.Object) != 0 {
						c.Report("C20/extensions/unexpected", "step %d node-%d: extensions delivered without any registered extender: %v", step, ni, spec.Extensions.Object)
					}
					n.prevSpec, n.havePrev = spec, true
				}
			}
			if sawMalformedAfterGood && sawDecisiveFirstWins {
				c.NonTrivial()
			}
			if c.K < 2 {
				lb := []string{}
				for _, n := range nodes {
					lb = append(lb, fmt.Sprint(n.node.Labels))
				}
				c.Sample(map[string]any{"nodes": lb, "updates": sampleSteps})
			}
		})
}

func c20Show(l c20Leaves) string {
	var sb strings.Builder
	for _, k := range c20SortedKeys(l) {
		fmt.Fprintf(&sb, "%s=%s ", k, l[k])
	}
	return sb.String()
}

// c20Classify tells where a delivered value seems to come from (diagnostics / signature only).
func c20Classify(eff *c20Eff, def c20Leaves, m []int, path, val string, present bool, prev c20Leaves) string {
	if !present {
		return "absent"
	}
	matched := map[int]bool{}
	for _, i := range m {
		matched[i] = true
	}
	for i := range eff.entries {
		if v, ok := eff.entries[i].leaves[path]; ok && v == val {
			switch {
			case len(m) > 0 && i == m[0]:
				return "first-entry"
			case matched[i]:
				return "later-matching-entry"
			default:
				return "unselected-entry"
			}
		}
	}
	if v, ok := eff.cluster[path]; ok && v == val {
		return "cluster"
	}
	if v, ok := def[path]; ok && v == val {
		return "default"
	}
	if v, ok := prev[path]; ok && v == val {
		return "previous"
	}
	return "other"
}

// c20CheckApps: host applications are a whole-value section: first matching entry that has
// applications => exactly its list; no matching entry => exactly the cluster list. A matching
// entry WITHOUT applications is not decided by the statement's whole-value reading (empty list vs
// cluster fallback): both are accepted, nothing else is.
func c20CheckApps(c *kit.Case, sec *c20Section, eff *c20Eff, m []int, got []string, phase string, step, ni int, n *c20Node, decisive *bool) {
	c.Count("leaf_comparisons", 1)
	fail := func(kind string, want []string) {
		src := "other"
		for i := range eff.entries {
			if len(eff.entries[i].apps) > 0 && reflect.DeepEqual(eff.entries[i].apps, got) {
				src = "unselected-or-later-entry"
			}
		}
		if len(got) == 0 {
			src = "empty"
		} else if reflect.DeepEqual(got, eff.cluApps) {
			src = "cluster"
		}
		c.Report(fmt.Sprintf("C20/hostapp/%s/want-%s-got-%s", phase, kind, src), "step %d node-%d labels=%v host applications: want (%s) %v, delivered %v; matching entries %v",
			step, ni, n.node.Labels, kind, want, got, m)
	}
	if len(m) >= 2 && !reflect.DeepEqual(eff.entries[m[0]].apps, eff.entries[m[1]].apps) {
		c.Count("first_wins_decisive", 1)
		*decisive = true
	}
	switch {
	case len(m) == 0:
		c.Count("expected_from_cluster_hostapp", 1)
		if !c20SameApps(got, eff.cluApps) {
			fail("cluster", eff.cluApps)
		}
	case len(eff.entries[m[0]].apps) > 0:
		c.Count("expected_from_entry_hostapp", 1)
		if !c20SameApps(got, eff.entries[m[0]].apps) {
			fail("entry", eff.entries[m[0]].apps)
		}
	default:
		c.Count("hostapp_matching_entry_without_applications", 1)
		if len(got) == 0 {
			if len(eff.cluApps) > 0 {
				c.Count("converse_misses_hostapp_no_cluster_fallback", 1)
			}
		} else if !c20SameApps(got, eff.cluApps) {
			fail("empty-or-cluster", eff.cluApps)
		}
	}
	mc := len(m)
	if mc > 2 {
		mc = 2
	}
	c.Seen(sec.name, len(eff.entries), mc, len(eff.cluApps) > 0, len(got), phase)
}

func c20SameApps(a, b []string) bool {
	if len(a) != len(b) {
		return false
	}
	for i := range a {
		if a[i] != b[i] {
			return false
		}
	}
	return true
}
